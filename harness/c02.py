"""C02 correspondence + oracle (mingus.core.intervals constructors, measure, consonance)."""
from tools.framework import Case, Err
from harness.common import *
from mingus.core import intervals

ID = "C02"
LEAN_MODULES = ["Mingus.Props.C02", "Mingus.Tie.C02"]
RULE = ("17 constructors x every name with <=6 (quick) / <=8 (thorough) accidentals in any order, plus seeded random "
        "names with up to 40 accidentals; all ordered pairs of names with <=2 (quick) / <=3 (thorough) accidentals x "
        "measure and the four consonance predicates x both flag values")
EXHAUSTIVE = {"quick": False, "thorough": False}

# independent table from the property statement: constructor -> (letters up, semitones)
SPEC = {"minor_unison": (0, -1), "major_unison": (0, 0), "augmented_unison": (0, 1),
        "minor_second": (1, 1), "major_second": (1, 2), "minor_third": (2, 3), "major_third": (2, 4),
        "minor_fourth": (3, 4), "major_fourth": (3, 5), "perfect_fourth": (3, 5),
        "minor_fifth": (4, 6), "major_fifth": (4, 7), "perfect_fifth": (4, 7),
        "minor_sixth": (5, 8), "major_sixth": (5, 9), "minor_seventh": (6, 10), "major_seventh": (6, 11)}

IMPL = {
    "intervals.ctor": lambda name, n: getattr(intervals, name)(n),
    "intervals.measure": intervals.measure,
    "intervals.is_consonant": intervals.is_consonant,
    "intervals.is_perfect_consonant": intervals.is_perfect_consonant,
    "intervals.is_imperfect_consonant": intervals.is_imperfect_consonant,
    "intervals.is_dissonant": intervals.is_dissonant,
    # the general helper the constructors do not use; called with keys that carry accidentals, BETWEEN the other calls
    "intervals.get_interval": lambda n, k, key: intervals.get_interval(n, k, key),
}

def has_model(c):
    return c["fn"] != "intervals.get_interval"

def cases(tier, rng):
    n = 6 if tier == "quick" else 8
    for nm in names(n):
        for ct in SPEC:
            yield Case("intervals.ctor", [ct, nm], "ctor/%s/len%d%s" % ("unison" if "unison" in ct else "loop", len(nm) - 1, "" if unmixed(nm) else "/mixed"))
    for _ in range(200 if tier == "quick" else 2000):
        nm = rng.choice(LETTERS) + "".join(rng.choice("#b") for _ in range(rng.randint(7, 40)))
        for ct in SPEC:
            yield Case("intervals.ctor", [ct, nm], "ctor/long")
    # names with more accidentals than any recursion limit allows frames (a valid name has ANY number of accidentals)
    for nm in ("C" + "#" * 1500, "F" + "b" * 2400, "B" + "#b" * 1300 + "#"):
        for ct in ("major_third", "minor_second", "perfect_fifth", "major_unison"):
            yield Case("intervals.ctor", [ct, nm], "ctor/very-long")
        yield Case("intervals.measure", [nm, "C"], "measure/very-long")
        yield Case("intervals.measure", ["G", nm], "measure/very-long")
        yield Case("intervals.is_consonant", [nm, "E", True], "consonant/very-long")
    for n, k, key in (("D", 2, "F"), ("C", 3, "Eb"), ("F#", 5, "E"), ("A", 4, "Ab"), ("B", 1, "F#"), ("E", 7, "Bb"), ("C", 4, "C")):
        yield Case("intervals.get_interval", [n, k, key], "get_interval", model=False)
    small = list(names(2 if tier == "quick" else 3))
    for a in small:
        for b in small:
            yield Case("intervals.measure", [a, b], "measure")
            yield Case("intervals.is_imperfect_consonant", [a, b], "imperfect")
            for f in (True, False):
                yield Case("intervals.is_consonant", [a, b, f], "consonant")
                yield Case("intervals.is_perfect_consonant", [a, b, f], "perfect")
                yield Case("intervals.is_dissonant", [a, b, f], "dissonant")

    # measure / consonance on names with MANY accidentals (all of one kind, 12-14 and 24-26 of them; and long mixed runs)
    longs = [l + acc * k for l in "CFB" for acc in "#b" for k in (11, 12, 13, 14, 24, 25, 26)] + \
            [rng.choice(LETTERS) + "".join(rng.choice("#b") for _ in range(rng.randint(7, 30))) for _ in range(20)]
    for a in longs:
        for b in ("C", "B", "F#", "Gb", rng.choice(longs)):
            yield Case("intervals.measure", [a, b], "measure/long")
            yield Case("intervals.measure", [b, a], "measure/long")
            yield Case("intervals.is_consonant", [a, b, True], "consonant/long")
            yield Case("intervals.is_dissonant", [b, a, False], "dissonant/long")

def oracle(c, obs):
    fn, a = c["fn"], c["args"]
    if fn == "intervals.get_interval":
        # (the property demands nothing of get_interval - 'mostly theoretical results'; the call is in the run because of what it may
        #  leave behind for the calls that follow)
        return None
    if fn == "intervals.ctor":
        up, semis = SPEC[a[0]]
        n = a[1]
        if not is_name(obs):
            return "result is not a valid name"
        if obs[0] != LETTERS[(LETTERS.index(n[0]) + up) % 7]:
            return "result is not spelled on the letter the interval number requires"
        if spec_pc(obs) != (spec_pc(n) + semis) % 12:
            return "result is not exactly %d semitones above the input (mod 12)" % semis
        if not unmixed(obs):
            return "result mixes sharps with flats"
        if len(obs) - 1 > 6:
            return "result carries more than six accidentals"
        return None
    m = (spec_pc(a[1]) - spec_pc(a[0])) % 12
    if fn == "intervals.measure":
        return None if obs == m else "measure != difference of pitch classes mod 12"
    if fn == "intervals.is_perfect_consonant":
        return None if obs is (m in (0, 7) or (a[2] and m == 5)) else "perfect consonance is not {0,7(,5)}"
    if fn == "intervals.is_imperfect_consonant":
        return None if obs is (m in (3, 4, 8, 9)) else "imperfect consonance is not {3,4,8,9}"
    if fn == "intervals.is_consonant":
        return None if obs is (m in (0, 7, 3, 4, 8, 9) or (a[2] and m == 5)) else "consonant is not perfect or imperfect"
    if fn == "intervals.is_dissonant":
        # is_dissonant(a, b, include_fourths): dissonant = not consonant, fourths dissonant when include_fourths
        cons = m in (0, 7, 3, 4, 8, 9) or ((not a[2]) and m == 5)
        return None if obs is (not cons) else "dissonant is not the negation of consonant"
    return None

def _unison_passthrough(c, obs):
    # the three unison constructors hand back their argument's accidentals (±1) untouched
    if c["fn"] != "intervals.ctor" or not c["args"][0].endswith("_unison"):
        return False
    n = c["args"][1]
    if not is_name(obs) or obs[0] != n[0] or spec_pc(obs) != (spec_pc(n) + SPEC[c["args"][0]][1]) % 12:
        return False          # wrong letter or pitch: not this finding
    return (not unmixed(n)) or len(n) - 1 >= 6

KNOWN = {"C02-unison-passthrough": _unison_passthrough}
