"""Python side of the container state machines (same op lines as lean/Mingus/Model/Machines.lean)."""
import warnings
warnings.filterwarnings("ignore")
from fractions import Fraction as F
from tools.framework import Err, err_of
from mingus.containers import Note, NoteContainer, Bar, Track, Composition
from mingus.containers.instrument import Instrument, Piano, Guitar, MidiInstrument

def to_py(item):
    t = item[0]
    if t == "obj":
        return Note(item[1], item[2])
    if t == "bare":
        return item[1]
    if t == "named":
        return [item[1], item[2]]
    if t == "dyn":
        d = {}
        if item[3] is not None:
            d["velocity"] = item[3]
        if item[4] is not None:
            d["channel"] = item[4]
        return [item[1], item[2], d]
    raise ValueError(item)

def content(c):
    if c is None:
        return None
    return NoteContainer([to_py(i) for i in c])

def nc_out(nc):
    return None if nc is None else [[n.name, n.octave] for n in nc.notes]

def num(x):
    if isinstance(x, F):
        return int(x) if x.denominator == 1 else float(x)
    return x

def bar_out(b):
    return [F(b.current_beat), F(b.length), b.is_full(), F(b.space_left()),
            [[F(e[0]), F(e[1]), nc_out(e[2])] for e in b.bar], [b.meter[0], F(b.meter[1])], b.key.key]

def canon(e):
    er = err_of(e)
    return er

def bar_step(b, op):
    t = op[0]
    if t == "place":
        return b.place_notes(content(op[1]), num(op[2]))
    if t == "place_raw":
        # the content in the caller's own form, NOT pre-built by the harness: a name, a Note, lists of names / [name, octave]
        # pairs / Notes, a mixture
        form, x = op[1]
        if form == "str":
            raw = x
        elif form == "note":
            raw = Note(x[0], x[1])
        elif form == "notes":
            raw = [Note(n, o) for n, o in x]
        elif form == "tuple":
            raw = tuple(x)
        else:                                   # "strs", "pairs", "mixed": plain (nested) lists
            raw = [list(i) if isinstance(i, (list, tuple)) else i for i in x]
        return b.place_notes(raw, num(op[2]))
    if t == "place_same":
        # a container of the caller's own, holding two notes of one pitch spelled differently (the second diminished in place):
        # the entry carries THAT container, as given
        nc = NoteContainer([Note("C#", 4), Note("D", 4)])
        nc.notes[1].diminish()
        r = b.place_notes(nc, num(op[1])) if op[2] == "place" else (b + nc)
        return [r, bool(b.bar) and b.bar[-1][2] is nc]
    if t == "rest":
        return b.place_rest(num(op[1]))
    if t == "plus":
        return b + content(op[1])
    if t == "remove_last":
        return F(b.remove_last_entry())
    if t == "set_item":
        b[op[1]] = content(op[2])
        return None
    if t == "place_at":
        b.place_notes_at([to_py(i) for i in op[1]], num(op[2]))
        return None
    if t == "place_at_entry":
        at = b.bar[op[2]][0] if 0 <= op[2] < len(b.bar) else -1.0
        b.place_notes_at([to_py(i) for i in op[1]], at)
        return None
    if t in ("set_meter", "set_meter_f"):
        try:
            b.set_meter((op[1], float(op[2]) if t == "set_meter_f" else num(op[2])))
        except TypeError:
            from mingus.containers.mt_exceptions import MeterFormatError
            raise MeterFormatError("meter rejected (the error message itself failed to format)")
        return None
    if t == "transpose":
        b.transpose(op[1], op[2]); return None
    if t == "augment":
        b.augment(); return None
    if t == "diminish":
        b.diminish(); return None
    if t == "value_left":
        return F(b.value_left())
    raise ValueError(op)

def run_bar(key, count, unit, ops):
    try:
        try:
            b = Bar(key, (count, num(unit)))
        except TypeError:
            from mingus.containers.mt_exceptions import MeterFormatError
            raise MeterFormatError("meter rejected")
    except Exception as e:
        return canon(e)
    out = []
    for op in ops:
        try:
            r = bar_step(b, op)
            out.append([r, bar_out(b)])
        except Exception as e:
            out.append(canon(e))
    out.append(bar_out(b))
    return out

INSTR = {"none": lambda: None, "Instrument": Instrument, "Piano": Piano, "Guitar": Guitar, "MidiInstrument": MidiInstrument}

def track_out(t):
    return [bar_out(b) for b in t.bars]

def track_step(t, op):
    tg = op[0]
    if tg == "add":
        return t.add_notes(content(op[1]), num(op[2]))
    if tg == "add_strs":     # a plain list of octave-less note names, kept by the caller (must not be modified)
        lst = list(op[1])
        r = t.add_notes(lst, num(op[2]))
        if lst != list(op[1]):
            raise AssertionError("the caller's list was modified")
        return r
    if tg == "add_pairs":    # a chord as nested [name, octave] lists
        return t.add_notes([list(x) for x in op[1]], num(op[2]))
    if tg == "add_raw":      # a plain Python list of Note objects, in the order given (not sorted as a NoteContainer would be)
        return t.add_notes([to_py(i) for i in op[1]], num(op[2]))
    if tg == "add_copy":     # NoteContainer(earlier_container): a chord built from another chord of the same track
        es = [e for b in t.bars for e in b.bar]
        src = es[op[1]][2] if op[1] < len(es) else None
        return t.add_notes(NoteContainer(src) if src is not None else None, num(op[2]))
    if tg == "plus":
        c = content(op[1])
        return t + c if c is not None else t.add_notes(None)
    if tg == "add_bar":
        try:
            t.add_bar(Bar(op[1], (op[2], num(op[3]))))
        except TypeError:
            from mingus.containers.mt_exceptions import MeterFormatError
            raise MeterFormatError("meter rejected")
        return None
    if tg == "from_chords":
        t.from_chords(op[1], num(op[2])); return None
    if tg == "transpose":
        t.transpose(op[1], op[2]); return None
    if tg == "augment":
        t.augment(); return None
    if tg == "diminish":
        t.diminish(); return None
    raise ValueError(op)

def run_track(instr, ops):
    t = Track(INSTR[instr]())
    out = []
    for op in ops:
        try:
            r = track_step(t, op)
            out.append([r, track_out(t)])
        except Exception as e:
            out.append([canon(e), track_out(t)])
    out.append(track_out(t))
    return out

def run_comps(n, ops):
    """n compositions alive at the same time, the operations interleaved: [op, composition index, ...]"""
    cs = [Composition() for _ in range(n)]
    for op in ops:
        tg, ci = op[0], op[1]
        c = cs[ci]
        try:
            if tg == "add_track":
                c.add_track(Track(INSTR[op[2]]()))
            elif tg == "add_note":
                c.add_note(content(op[2]))
            elif tg == "select":
                c.selected_tracks = list(op[2])
        except Exception:
            pass
    return [[track_out(t) for t in c.tracks] for c in cs]

def run_comp(ops):
    c = Composition()
    for op in ops:
        tg = op[0]
        try:
            if tg == "add_track":
                c.add_track(Track(INSTR[op[1]]()))
            elif tg == "add_note":
                x = content(op[1])
                if x is None:
                    for n in c.selected_tracks:
                        c.tracks[n].add_notes(None)
                else:
                    c.add_note(x)
            elif tg == "select":
                c.selected_tracks = list(op[1])
            elif tg == "add_bar_obj":                     # a Bar handed to the composition: every selected track gets it as a bar
                c.add_note(Bar(op[1], (op[2], num(op[3]))))
            elif tg == "track_add":                       # music put on ONE track directly (not through the composition)
                c.tracks[op[1]].add_notes(content(op[2]), num(op[3]))
        except Exception:
            pass
    return [track_out(t) for t in c.tracks]
