"""C10 correspondence + oracle (mingus.containers.note.Note)."""
import math, warnings
warnings.filterwarnings("ignore")
from tools.framework import Case, Err
from harness.common import *
from mingus.containers import Note

ID = "C10"
LEAN_MODULES = ["Mingus.Props.C10", "Mingus.Props.C10Hz", "Mingus.Tie.C10"]
RULE = ("all names with <=2 (quick) / <=4 (thorough) accidentals in any order x octaves 0..9: integer value, text/printed-form/"
        "integer/copy round trips, Helmholtz round trip; all ordered pairs of 100 notes x the six comparison operators; velocity "
        "and channel -2..130 / -2..18; malformed names; every note 0..127 x 4 standard pitches x detune -40..40 cents for the Hz "
        "round trip; octave doubling; copy independence by mutate-and-compare")
EXHAUSTIVE = {"quick": False, "thorough": False}

def note_list(n):
    return [n.name, n.octave, n.channel, n.velocity]

def hz_roundtrip(i, sp, cents):
    n = Note(i)
    hz = n.to_hertz(sp) * 2 ** (cents / 1200.0)
    m = Note().from_hertz(hz, sp)
    return [int(m), n.to_hertz(sp), Note(i + 12).to_hertz(sp) if i + 12 <= 139 else None, Note("A", 4).to_hertz(sp)]

def _try(f):
    try:
        return f()
    except Exception as e:
        from tools.framework import err_of
        return err_of(e)

def copy_indep(name, octv):
    a = Note(name, octv, velocity=90, channel=5)
    b = Note(a)
    before = note_list(a)
    b.name = "D"; b.octave = 0; b.velocity = 1; b.channel = 2; b.augment(); b.change_octave(3)
    same_start = note_list(Note(a)) == before
    return [before == note_list(a), same_start, b is not a]

def roundtrips(name, octv):
    n = Note(name, octv)
    r = repr(n)
    a = Note(r[1:-1])
    b = Note("%s-%d" % (name, octv))
    c = Note(n)
    d = Note().from_int(int(n))
    return [[a.name, a.octave], [b.name, b.octave], [c.name, c.octave], int(d) == int(n), r]

IMPL = {
    "note.new": lambda nm, o, v, c: note_list(Note(nm, o, velocity=v, channel=c)),
    "note.int": lambda nm, o: int(Note(nm, o)),
    "note.from_int": lambda i: note_list(Note().from_int(i)),
    "note.repr": lambda nm, o: repr(Note(nm, o)),
    "note.cmp": lambda a, ao, b, bo: (lambda x, y: [x < y, x <= y, x == y, x != y, x >= y, x > y])(Note(a, ao), Note(b, bo)),
    "note.to_shorthand": lambda nm, o: Note(nm, o).to_shorthand(),
    "note.from_shorthand": lambda sh: note_list(Note().from_shorthand(sh)),
    "note.change_octave": lambda nm, o, d: (lambda n: (n.change_octave(d), note_list(n))[1])(Note(nm, o)),
    # an EXISTING note is set again (the object is reused): from an integer, from a name and octave, from Helmholtz text
    "note.reset_int": lambda nm, o, i: (lambda n: [int(n), n.octave])(Note(nm, o).from_int(i)),
    "note.reset_note": lambda nm, o, nm2, o2: (lambda n: (n.set_note(nm2, o2), [n.name, n.octave, int(n)])[1])(Note(nm, o)),
    "note.reset_sh": lambda nm, o, nm2, o2: (lambda n: [n.name, n.octave])(Note(nm, o).from_shorthand(Note(nm2, o2).to_shorthand())),
    "note.refused_set": lambda which, v: (lambda n: ((_try(lambda: getattr(n, "set_" + which)(v))), [n.velocity, n.channel, _try(lambda: note_list(Note(n)))])[1])(Note("C", 4, velocity=70, channel=3)),
    "note.cmp_dyn": lambda a, ao, ach, av, b, bo, bch, bv: (lambda x, y: [x < y, x <= y, x == y, x != y, x >= y, x > y])(
        Note(a, ao, velocity=av, channel=ach), Note(b, bo, velocity=bv, channel=bch)),
    "note.hz": hz_roundtrip,
    # frequencies of NAMED notes (pitch numbers below 0 and above 127 included): [Hz, Hz an octave up, Hz of the enharmonic]
    "note.hz_named": lambda nm, o, nm2, o2, sp: [Note(nm, o).to_hertz(sp), Note(nm, o + 1).to_hertz(sp), Note(nm2, o2).to_hertz(sp)],
    "note.copy_indep": copy_indep,
    "note.roundtrips": roundtrips,
    "note.helmholtz": lambda nm, o: (lambda n: [n.name, n.octave])(Note().from_shorthand(Note(nm, o).to_shorthand())),
}
NO_MODEL = {"note.cmp_dyn", "note.refused_set", "note.hz_named", "note.reset_int", "note.reset_note", "note.reset_sh", "note.hz", "note.copy_indep", "note.roundtrips", "note.helmholtz"}

def has_model(c):
    return c["fn"] not in NO_MODEL

def cases(tier, rng):
    n = 2 if tier == "quick" else 4
    nm = list(names(n))
    for x in nm:
        for o in range(0, 10):
            yield Case("note.int", [x, o], "int")
            if len(x) <= 3:
                yield Case("note.roundtrips", [x, o], "roundtrips", model=False)
                yield Case("note.repr", [x, o], "repr")
                yield Case("note.to_shorthand", [x, o], "helmholtz/to")
                yield Case("note.helmholtz", [x, o], "helmholtz/roundtrip", model=False)
        yield Case("note.copy_indep", [x, 4], "copy", model=False)
    for i in list(range(-30, 160)):
        yield Case("note.from_int", [i], "from_int")
    # comparisons are about the pitch number only: channel and velocity play no part
    for a, ao, b, bo in (("C#", 4, "Db", 4), ("C", 4, "C", 4), ("B#", 3, "C", 4), ("C", 4, "D", 4), ("E", 5, "E", 4), ("Cb", 0, "B", 0)):
        for ach, av, bch, bv in ((2, 64, 9, 64), (1, 10, 1, 120), (0, 0, 15, 127), (5, 64, 5, 64)):
            yield Case("note.cmp_dyn", [a, ao, ach, av, b, bo, bch, bv], "cmp/channel-velocity", model=False)
    # a setter that refuses its value: the note keeps the old one (and can still be copied)
    for which, vals in (("velocity", (-1, 128, 200, 127, 0)), ("channel", (-1, 16, 99, 15, 0))):
        for v in vals:
            yield Case("note.refused_set", [which, v], "setter/" + which, model=False)
    for sp in (440, 415, 466):
        for nm, o, nm2, o2 in (("Cb", 0, "B", -1), ("Cbb", 0, "Bb", -1), ("C", 0, "B#", -1), ("Cb", 4, "B", 3), ("B#", 10, "C", 11),
                               ("G", 9, "F##", 9), ("A", 4, "G##", 4), ("Dbb", 0, "C", 0)):
            if o2 >= 0:
                yield Case("note.hz_named", [nm, o, nm2, o2, sp], "hz/named", model=False)
            else:
                yield Case("note.hz_named", [nm, o, nm, o, sp], "hz/named", model=False)
    olds = [("C", 4), ("Cb", 4), ("B#", 3), ("Cbb", 5), ("B##", 3), ("F#", 0), ("E#", 2), ("Fb", 6), ("A", 8)]
    for nm, o in olds:
        base = 12 * o + NATURAL[nm[0]] + net(nm)
        for i in sorted({base, base + 12, base - 12, base + 1, 0, 11, 12, 59, 60, 61, 127} & set(range(0, 128))):
            yield Case("note.reset_int", [nm, o, i], "reset/from_int", model=False)
        for nm2, o2 in olds:
            yield Case("note.reset_note", [nm, o, nm2, o2], "reset/set_note", model=False)
            yield Case("note.reset_sh", [nm, o, nm2, o2], "reset/from_shorthand", model=False)
    pool = [(x, o) for x in names(1) for o in (2, 3, 4, 5)] + [("B#", 3), ("Cb", 4), ("B##", 3), ("Cbb", 5), ("E#", 4), ("Fb", 4)]
    pool = pool[:100]
    for a, ao in pool:
        for b, bo in pool:
            yield Case("note.cmp", [a, ao, b, bo], "cmp")
    for v in list(range(-2, 131)) + [None]:
        yield Case("note.new", ["C", 4, v, None], "velocity")
    for ch in list(range(-2, 19)) + [None]:
        yield Case("note.new", ["C", 4, None, ch], "channel")
    yield Case("note.new", ["C", 4, 200, 99], "both-bad")
    for v in (-1, 0, 127, 128, 300):
        yield Case("note.new", ["C-5", 4, v, None], "velocity")
        yield Case("note.new", ["Bb-2", 9, v, None], "velocity")
    for ch in (-1, 0, 15, 16, 99):
        yield Case("note.new", ["C-5", 4, None, ch], "channel")
    near = [nm + ch for nm in ("C", "Bb", "F##") for ch in ("\n", "\r", " ", "\t", "\x00", "\n\n", "\u2028")] + \
           [ch + nm for nm in ("C", "Bb") for ch in ("\n", " ")] + ["C\n#", "B\nb", "C\n-4"]
    for bad in ["H", "c", "C-x", "C-4-5", "-4", "C#x", "Cis", "1", " C"] + near:
        yield Case("note.new", [bad, 4, None, None], "malformed")
    for s in ["C-4", "Bb-0", "F##-10", "A-007", "G#b-3"] + [n_ + "-" + str(o_) for n_ in ("C", "G", "Eb") for o_ in (0, 5, 9, 10, 11, 12, 23, 45, 78, 89, 90, 100, 123)]:
        yield Case("note.new", [s, 9, None, None], "text")
    for sh in ["c", "C", "c'", "C,", "cb", "bb", "b", "bb''", "B,,", "f#'''", "Bb", "ab", "a#", "c,'", "", "x", "eb,", ",,", "'", "#", "1", " c"]:
        yield Case("note.from_shorthand", [sh], "helmholtz/from")
    for x in names(1):
        for o in (0, 1, 3):
            for d in (-5, -1, 0, 1, 2):
                yield Case("note.change_octave", [x, o, d], "change_octave")
    pitches = [440, 415, 442, 466.16]
    cents = [-40, -25, -10, 0, 10, 25, 40] if tier == "quick" else list(range(-40, 41, 5))
    for i in range(0, 128):
        for sp in pitches:
            for c in cents:
                yield Case("note.hz", [i, sp, c], "hz", model=False)

def oracle(c, obs):
    fn, a = c["fn"], c["args"]
    if fn == "note.int":
        nm, o = a
        return None if obs == 12 * o + NATURAL[nm[0]] + net(nm) else "integer value is not 12*octave + natural + sharps - flats"
    if fn == "note.roundtrips":
        nm, o = a
        if obs[0] != [nm, o]:
            return "printed form does not read back as the same note"
        if obs[1] != [nm, o]:
            return "'Name-octave' text does not reproduce the note"
        if obs[2] != [nm, o]:
            return "copying from another note does not reproduce the note"
        return None if obs[3] is True else "setting from the integer value does not reproduce the pitch"
    if fn == "note.reset_int":
        if isinstance(obs, Err):
            return "from_int on an existing note raised"
        return None if obs[0] == a[2] else "from_int on an existing note does not reproduce the integer"
    if fn == "note.reset_note":
        if isinstance(obs, Err):
            return "set_note on an existing note raised"
        return None if obs == [a[2], a[3], 12 * a[3] + NATURAL[a[2][0]] + net(a[2])] else "set_note on an existing note does not give that name, octave and pitch"
    if fn == "note.reset_sh":
        if isinstance(obs, Err):
            return "from_shorthand on an existing note raised"
        return None if obs == [a[2], a[3]] else "Helmholtz text read into an existing note does not give the written name and octave"
    if fn == "note.from_int":
        i = a[0]
        if isinstance(obs, Err):
            return "from_int raised"
        return None if 12 * obs[1] + NATURAL[obs[0][0]] + net(obs[0]) == i else "from_int does not reproduce the integer"
    if fn == "note.cmp":
        x = 12 * a[1] + NATURAL[a[0][0]] + net(a[0])
        y = 12 * a[3] + NATURAL[a[2][0]] + net(a[2])
        return None if obs == [x < y, x <= y, x == y, x != y, x >= y, x > y] else "comparison operators disagree with comparing the integer values"
    if fn == "note.helmholtz":
        return None if obs == a else "Helmholtz shorthand does not read back as the same name and octave"
    if fn == "note.new":
        nm, o, v, ch = a
        if c["tag"] == "velocity":
            ok = v is None or 0 <= v <= 127
            return None if (isinstance(obs, list) and ok and obs[3] == (64 if v is None else v)) or (obs == Err("ValueError") and not ok) else "velocity bound 0-127 not enforced"
        if c["tag"] == "channel":
            ok = ch is None or 0 <= ch <= 15
            return None if (isinstance(obs, list) and ok and obs[2] == (1 if ch is None else ch)) or (obs == Err("ValueError") and not ok) else "channel bound 0-15 not enforced"
        if c["tag"] == "malformed":
            return None if isinstance(obs, Err) and obs.name in ("NoteFormatError", "ValueError", "IndexError") else "malformed name not rejected"
        if c["tag"] == "text":
            name_, oct_ = nm.split("-")
            return None if isinstance(obs, list) and obs[:2] == [name_, int(oct_)] else "the text form %r is not read as name %r in octave %d" % (nm, name_, int(oct_))
        return None
    if fn == "note.cmp_dyn":
        x = 12 * a[1] + NATURAL[a[0][0]] + net(a[0])
        y = 12 * a[5] + NATURAL[a[4][0]] + net(a[4])
        return None if obs == [x < y, x <= y, x == y, x != y, x >= y, x > y] else \
            "comparison operators disagree with comparing the pitch numbers (channel and velocity differ)"
    if fn == "note.refused_set":
        which, v = a
        ok = 0 <= v <= (127 if which == "velocity" else 15)
        if isinstance(obs, Err):
            return "raised"
        want = [v if (ok and which == "velocity") else 70, v if (ok and which == "channel") else 3]
        if obs[:2] != want:
            return "after set_%s(%d) the note holds velocity/channel %s, expected %s (a refused value changes nothing)" % (which, v, obs[:2], want)
        return None if obs[2] == ["C", 4, want[1], want[0]] else "the note cannot be copied any more after set_%s(%d): %s" % (which, v, obs[2])
    if fn == "note.from_shorthand":
        sh = a[0]
        if not any(ch in "abcdefgABCDEFG" for ch in sh):
            return None if isinstance(obs, Err) else "Helmholtz text %r without a note letter was accepted as %s" % (sh, obs)
        return None
    if fn == "note.copy_indep":
        return None if obs == [True, True, True] else "a copy of a note is not independent of the original"
    if fn == "note.change_octave":
        return None if isinstance(obs, list) and obs[1] == max(0, a[1] + a[2]) else "change_octave went below octave 0 or missed"
    if fn == "note.hz_named":
        nm, o, nm2, o2, sp = a
        if isinstance(obs, Err):
            return "to_hertz raised %s" % obs.name
        hz, up, enh = obs
        p = 12 * o + NATURAL[nm[0]] + net(nm)
        want = sp * 2 ** ((p - 57) / 12.0)
        if abs(hz / want - 1) > 1e-9:
            return "frequency of %s-%d is %r, expected %r (A-4 = %s, doubling per octave)" % (nm, o, hz, want, sp)
        if abs(up / hz - 2) > 1e-9:
            return "frequency does not double per octave"
        return None if abs(enh / hz - 1) < 1e-9 else "an enharmonic note has another frequency"
    if fn == "note.hz":
        i, sp, cents = a
        back, hz, hz12, a4 = obs
        if back != i:
            return "Hz round trip does not return a note of the same pitch"
        if hz12 is not None and abs(hz12 / hz - 2) > 1e-9:
            return "frequency does not double per octave"
        return None if abs(a4 - sp) < 1e-9 * sp else "A-4 is not at the standard pitch"
    return None
