"""C17 correspondence + oracle (writing a composition to MIDI and reading it back returns the same music)."""
import os, shutil, tempfile, warnings
warnings.filterwarnings("ignore")
from fractions import Fraction as F
from tools.framework import Case, Err
from harness.midi_common import *

ID = "C17"
LEAN_MODULES = ["Mingus.Props.C17", "Mingus.Props.C17Flat", "Mingus.Props.C17Trip", "Mingus.Lemmas.Float", "Mingus.Tie.C17", "Mingus.Tie.C16"]
RULE = ("seeded random and systematic compositions as in C16, restricted to velocities 1-127 and values with whole tick counts "
        "(1,2,3,4,6,8,9,12,16,18,24,32,36,48,72,96,144,288 and dotted forms), incl. leading/inner/trailing/whole-bar rests, "
        "chords, all 30 keys, 9 meters, instruments, names: written with write_Composition to a real file and read back with "
        "MIDI_to_Composition; every bpm 4..1000 (quick) / 4..8000 plus boundaries (thorough); the variable-length reader on the "
        "writer's output for 0..20000, every 128^k +-3 and seeded random values below 2^28, and on hand-made byte strings; "
        "corrupted files (every single-byte change of the header and of the first track tag, impossible format numbers, "
        "truncations) as a separate stream")
EXHAUSTIVE = {"quick": False, "thorough": False}
ASSUMPTIONS = ["files are written to and read from a temporary directory; the file system is trusted",
               "print() calls of the reader ('Unsupported MIDI event', 'yikes') are ignored"]

# ------------------------------------------------------------------ implementation side

def canon(comp, bpm):
    out = []
    for t in comp.tracks:
        bars = []
        for b in t.bars:
            entries = []
            for e in b.bar:
                entries.append([F(e[1]), None if e[2] is None else nc_as_list(e[2])])
            bars.append([b.key.key, b.meter[0], b.meter[1], entries])
        instr = getattr(t.instrument, "instrument_nr", None)
        out.append([t.name, instr, bars])
    return [bpm, out]

def read_file_bytes(data):
    from mingus.midi import midi_file_in
    d = tempfile.mkdtemp(prefix="mingus_verif_")
    try:
        p = os.path.join(d, "x.mid")
        with open(p, "wb") as f:
            f.write(bytes(data))
        comp, bpm = midi_file_in.MIDI_to_Composition(p)
        return canon(comp, bpm)
    finally:
        shutil.rmtree(d, ignore_errors=True)

def roundtrip(payload, bpm):
    return read_file_bytes(write_bytes("composition", payload, bpm, 0))

def read_vlq(data):
    import io
    from mingus.midi import midi_file_in
    m = midi_file_in.MidiFile()
    return list(m.parse_varbyte_as_int(io.BytesIO(bytes(data))))

def vlq_roundtrip(n):
    from mingus.midi.midi_track import MidiTrack
    return read_vlq(list(MidiTrack().int_to_varbyte(n)) + [0x55])

IMPL = {"midi.roundtrip": roundtrip, "midi.read": read_file_bytes, "midi.readvlq": read_vlq, "midi.vlqrt": vlq_roundtrip}

def has_model(c):
    return True

# ------------------------------------------------------------------ cases

WHOLE = [1, 2, 3, 4, 6, 8, 9, 12, 16, 18, 24, 32, 36, 48, 72, 96, 144, 288, 4 / 1.5, 8 / 1.5, 16 / 1.5, 2 / 1.5, 32 / 1.5]
WHOLE = [v for v in WHOLE if is_whole_ticks(v)]

def RT(payload, bpm=120, tag="roundtrip"):
    return Case("midi.roundtrip", [payload, bpm], tag=tag)

def simple_track(key="C", meter=(4, 4), instr=None, name="t", entries=None):
    return [name, instr, [[key, meter[0], meter[1], entries if entries is not None else [[4, [["C", 4, 1, 64]]]]]]]

def cases(tier, rng):
    out = []
    top = 1000 if tier == "quick" else 8000
    for bpm in list(range(4, top + 1)) + [7745, 7746, 7999, 8000, 60000, 1000000, 60000000]:
        out.append(RT([simple_track()], bpm, tag="roundtrip:tempo"))
    for k in ALL_KEYS:
        out.append(RT([simple_track(key=k)], tag="roundtrip:key"))
        out.append(RT([["k", None, [[k, 4, 4, [[2, [["C", 4, 1, 64]]], [2, None]]], [k, 4, 4, [[1, [["E", 4, 1, 64]]]]], [k, 4, 4, []]]]], tag="roundtrip:key"))
    for m in METERS[:12]:
        out.append(RT([simple_track(meter=m, entries=[[m[1], [["C", 4, 1, 64]]]] * m[0])], tag="roundtrip:meter"))
        out.append(RT([["m", None, [[("C"), m[0], m[1], [[m[1], [["C", 4, 1, 64]]]] * m[0]]] * 3]], tag="roundtrip:meter"))
    for v in WHOLE:
        out.append(RT([simple_track(meter=(4, 1), entries=[[v, [["C", 4, 1, 64]]], [v, None], [v, [["D", 4, 1, 64], ["F", 4, 2, 5]]]])], tag="roundtrip:value"))
    A, B = [["C", 4, 1, 64]], [["E", 4, 3, 90], ["G", 4, 3, 90]]
    for n in range(1, 5):
        for mask in range(2 ** n):
            entries = [[4, (None if (i % 2 == 0) else []) if mask >> i & 1 else (A if i % 2 else B)] for i in range(n)]
            for instr in (None, 42):
                out.append(RT([["rests", instr, [["F", 4, 4, entries], ["F", 4, 4, entries]]]], tag="roundtrip:rests"))
    for ch in range(16):
        out.append(RT([simple_track(entries=[[4, [["C", 4, ch, 1 + ch * 8]]], [4, [["A", 3, 15 - ch, 127], ["C", 4, ch, 1]]]])], tag="roundtrip:channel"))
    for instr in (None, 0, 1, 42, 127):
        for name in ("", "Untitled", "a longer name 0123456789", "x" * 130, "Strings (pad) ", " lead", "x\x00", "tab\t", "  ", "a  b "):
            out.append(RT([simple_track(instr=instr, name=name), simple_track(instr=None, name=name + "2", entries=[[1, None]])], tag="roundtrip:instrument+name"))
    # a container that carries a tempo (the SAME as the current one, and another) right after a rest: the rest comes back
    for tb in (120,):          # (with another tempo the reader reports the LAST tempo of the file: not what the statement speaks about)
        ents = [[4, [["C", 4, 1, 64]]], [4, None], [4, [["E", 4, 1, 64]], tb], [4, None]]
        out.append(RT([["tempo", None, [["C", 4, 4, ents], ["C", 4, 4, [[2, None], [2, [["G", 4, 1, 64]], tb]]]]]], tag="roundtrip:tempo-after-rest"))
    out.append(RT([], tag="roundtrip:empty"))
    out.append(RT([["only", None, []]], tag="roundtrip:empty"))
    out.append(RT([["only", 5, [["C", 4, 4, []]]]], tag="roundtrip:empty"))
    n_rand = 300 if tier == "quick" else 5000
    for i in range(n_rand):
        one = rng.random() < 0.6
        trs = [rand_track(rng, WHOLE, vel_min=1, whole_ticks=True, one_key=one, one_meter=one) for _ in range(rng.randint(0, 4))]
        out.append(RT(trs, rng.choice([120, 60, 90, 4, 1000, rng.randint(4, 7000)]), tag="roundtrip:random"))
    # variable-length reader
    for n in list(range(0, 20000 if tier == "quick" else 300000)):
        out.append(Case("midi.vlqrt", [n], tag="vlq:dense"))
    for k in range(1, 5):
        for d in range(-3, 4):
            if 128 ** k + d < 2 ** 28:
                out.append(Case("midi.vlqrt", [128 ** k + d], tag="vlq:boundary"))
    out.append(Case("midi.vlqrt", [2 ** 28 - 1], tag="vlq:boundary"))
    for _ in range(3000 if tier == "quick" else 50000):
        out.append(Case("midi.vlqrt", [rng.randrange(2 ** rng.randint(1, 28))], tag="vlq:random"))
    for bs in ([0], [127], [129, 0], [255, 127], [129, 128, 0], [255, 255, 255, 127], [128, 128, 128, 1], [128, 0, 9], [200, 100, 50]):
        out.append(Case("midi.readvlq", [bs], tag="vlq:handmade"))
    # corrupted files
    good = write_good()
    for i in range(14):
        for delta in (1, 0x20, 0x80):
            bad = list(good)
            bad[i] = (bad[i] + delta) % 256
            if i < 4:
                out.append(Case("midi.read", [bad], tag="reject:header-tag", corrupt=("header tag", i)))
            else:
                out.append(Case("midi.read", [bad], tag="read:header-variant"))      # nothing demanded: may be a legal header
    tag_at = 14
    for i in range(tag_at, tag_at + 4):
        for delta in (1, 0x20):
            bad = list(good)
            bad[i] = (bad[i] + delta) % 256
            out.append(Case("midi.read", [bad], tag="reject:track-tag", corrupt=("tracktag", i)))
    for fmt in (3, 4, 255, 256, 65535):
        bad = list(good)
        bad[8], bad[9] = fmt >> 8, fmt & 255
        out.append(Case("midi.read", [bad], tag="reject:format", corrupt=("format", fmt)))
    for n in range(6):
        bad = list(good)
        bad[7] = n
        out.append(Case("midi.read", [bad], tag="reject:header-length", corrupt=("header length", n)))
    for cut in (0, 1, 3, 4, 7, 8, 10, 13):
        out.append(Case("midi.read", [list(good[:cut])], tag="reject:truncated-header", corrupt=("truncated", cut)))
    out.append(Case("midi.read", [list(b"RIFF") + list(good[4:])], tag="reject:not-midi", corrupt=("header", 0)))
    # the two chunk tags exchanged, doubled, or in the other case: each is a well-known tag, but in the wrong place
    for htag, ttag, what in ((b"MTrk", b"MTrk", "header tag MTrk"), (b"MThd", b"MThd", "track tag MThd"), (b"MTrk", b"MThd", "tags exchanged"),
                             (b"mthd", b"MTrk", "header tag in lower case"), (b"MThd", b"mtrk", "track tag in lower case"),
                             (b"MThd", b"MThD", "track tag MThD")):
        bad = list(htag) + list(good[4:tag_at]) + list(ttag) + list(good[tag_at + 4:])
        out.append(Case("midi.read", [bad], tag="reject:swapped-tags", corrupt=("chunk tags", what)))
    out.append(Case("midi.read", [list(good)], tag="read:good"))
    return out

_good = None
def write_good():
    global _good
    if _good is None:
        _good = bytes(std_file())
    return _good

def std_file():
    """a small valid file built by hand from the specification (not by mingus)"""
    trk = [0, 0xFF, 0x51, 3, 7, 161, 32, 0, 0xFF, 0x58, 4, 4, 2, 24, 8, 0, 0xFF, 0x59, 2, 0, 0,
           0, 0x91, 60, 64, 72, 0x81, 60, 64, 0, 0xFF, 0x2F, 0]
    return list(b"MThd") + [0, 0, 0, 6, 0, 1, 0, 1, 0, 72] + list(b"MTrk") + list(len(trk).to_bytes(4, "big")) + trk

# ------------------------------------------------------------------ oracle

def merge(flat):
    """adjacent rests count as one; trailing rests are ignored"""
    out = []
    for d, notes in flat:
        if not notes and out and not out[-1][1]:
            out[-1] = (out[-1][0] + d, out[-1][1])
        else:
            out.append((d, notes))
    while out and not out[-1][1]:
        out.pop()
    return out

def read_flat(track):
    flat = []
    for key, count, unit, entries in track[2]:
        for v, ns in entries:
            if v == 0:
                return None
            flat.append((round(F(288) / F(v)), frozenset((pitch(n) + 12, n[2], n[3]) for n in (ns or []))))
    return flat

def oracle(c, obs):
    fn = c["fn"]
    if fn == "midi.vlqrt":
        n = c["args"][0]
        if isinstance(obs, Err):
            return "the variable-length reader raised %s on the writer's encoding of %d" % (obs.name, n)
        if obs[0] != n:
            return "the variable-length reader returns %d for the writer's encoding of %d" % (obs[0], n)
        if obs[1] != len(std_vlq(n)):
            return "the variable-length reader consumed %d bytes of the %d-byte encoding of %d" % (obs[1], len(std_vlq(n)), n)
        return None
    if fn == "midi.readvlq":
        bs = c["args"][0]
        try:
            want, pos = read_vlq_spec(bs)
        except SMFError:
            return None
        if isinstance(obs, Err) or obs != [want, pos]:
            return "the variable-length reader returns %s for %s, the standard decoding is %s" % (obs, bs, [want, pos])
        return None
    if fn == "midi.read":
        if c.get("corrupt"):
            if not isinstance(obs, Err):
                return "a file with a corrupted %s (%s) was returned as music instead of being rejected" % c["corrupt"]
            return None
        if c["tag"] == "read:good" and isinstance(obs, Err):
            return "a valid hand-made file was rejected with %s" % obs.name
        return None
    payload, bpm = c["args"]
    if isinstance(obs, Err):
        return "reading back a written composition raised %s" % obs.name
    rbpm, tracks = obs
    if payload and rbpm != 60000000 // (60000000 // bpm):
        return "tempo read back %s, written %s (the file holds %d us per quarter)" % (rbpm, bpm, 60000000 // bpm)
    if len(tracks) != len(payload):
        return "%d tracks read back, %d written" % (len(tracks), len(payload))
    for ti, (got, want) in enumerate(zip(tracks, payload)):
        where = "track %d: " % ti
        gf = read_flat(got)
        if gf is None:
            return where + "an entry with value 0 came back"
        wf = denote_track("track", want, 0)["flat"]
        if merge(gf) != merge(wf):
            a, b = merge(gf), merge(wf)
            i = next((i for i, (x, y) in enumerate(zip(a, b)) if x != y), min(len(a), len(b)))
            return where + "flattened (ticks, notes) sequence differs at entry %d: read %s, written %s" % (
                i, fmt_entry(a[i]) if i < len(a) else "nothing", fmt_entry(b[i]) if i < len(b) else "nothing")
        if got[0] != want[0]:
            return where + "name %r read back, %r written" % (got[0], want[0])
        has_notes = any(ns for b in want[2] for _, ns in b[3])
        want_instr = want[1] if has_notes else None
        if got[1] != want_instr:
            return where + "instrument number %r read back, %r written" % (got[1], want_instr)
        keys_w = set(b[0] for b in want[2]); meters_w = set((b[1], b[2]) for b in want[2])
        if want[2] and len(keys_w) == 1 and len(meters_w) == 1:
            for bi, b in enumerate(got[2]):
                if b[0] != next(iter(keys_w)):
                    return where + "bar %d comes back in key %r, every written bar is in %r" % (bi, b[0], next(iter(keys_w)))
                if (b[1], b[2]) != next(iter(meters_w)):
                    return where + "bar %d comes back in meter %r, every written bar is in %r" % (bi, (b[1], b[2]), next(iter(meters_w)))
    return None

def fmt_entry(e):
    return "(%d ticks, %s)" % (e[0], sorted(e[1]))

def read_vlq_spec(bs):
    val = 0
    for i, b in enumerate(bs):
        val = (val << 7) | (b & 0x7F)
        if not b & 0x80:
            return val, i + 1
    raise SMFError("unterminated")
