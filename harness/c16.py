"""C16 correspondence + oracle (MIDI output is well-formed SMF that denotes exactly the music written)."""
import warnings
warnings.filterwarnings("ignore")
from fractions import Fraction as F
from tools.framework import Case, Err
from harness.midi_common import *

ID = "C16"
LEAN_MODULES = ["Mingus.Props.C16Vlq", "Mingus.Props.C16Smf", "Mingus.Props.C16Spec", "Mingus.Props.C16Track", "Mingus.Props.C16Tempo", "Mingus.Props.C16TempoTrack",
                "Mingus.Props.C16", "Mingus.Props.C16Meta", "Mingus.Tie.C16"]
RULE = ("variable-length encoder: 0..20000 (quick) / 0..600000 (thorough) densely, every 128^k +-3 up to 2^35, 2^28-1, seeded "
        "random values below 2^28; systematic files: every one of the 30 keys, 15 meters, every value in the integral and the "
        "rounding pools as a single-note bar, a rest in every position of 1-4 entry bars (leading, inner, trailing, whole bar, None "
        "and the empty container), chords of 1-4 notes, channels 0-15, velocities 0-127 boundary set, instruments None/0/1/42/127, "
        "repeat counts 0-3, tempi 4..60000000; seeded random compositions (0-4 tracks x 0-4 bars x 0-10 entries) written through "
        "write_Note/NoteContainer/Bar/Track/Composition to a real file, the bytes compared with the Lean model byte for byte and "
        "decoded by an independent SMF reader written from the file-format specification; out-of-range channel, velocity, pitch, "
        "instrument and tempo as a separate stream (error class compared, nothing demanded)")
EXHAUSTIVE = {"quick": False, "thorough": False}
ASSUMPTIONS = ["the float logarithms in int_to_varbyte and time_signature_event are modelled by exact integer logarithms; the "
               "correspondence compares them on every boundary (128^k +-3, meters 1..128) and a dense range",
               "the round trip of mid-bar tempo changes through the reader is not part of C17 (the reader keeps the last tempo only)",
               "the bytes are read back from the file written by write_*; the file system is trusted to return what was written"]
TRUSTED = ["harness/midi_common.py smf_parse: the independent SMF reader (about 90 lines, written from the SMF 1.0 text)"]

def impl_vlq(n):
    from mingus.midi.midi_track import MidiTrack
    return list(MidiTrack().int_to_varbyte(n))

IMPL = {"midi.vlq": impl_vlq, "midi.write": write_bytes}

def has_model(c):
    return True

# ------------------------------------------------------------------ cases

def W(kind, payload, bpm=120, rep=0, tag="", model=True):
    return Case("midi.write", [kind, payload, bpm, rep], tag=tag or "write:" + kind, domain=True, model=model)

def one_note_bar(v, key="C", meter=(4, 4), note=None):
    return [key, meter[0], meter[1], [[v, [note or ["C", 4, 1, 64]]]]]

def cases(tier, rng):
    out = []
    dense = 20000 if tier == "quick" else 600000
    for n in range(dense):
        out.append(Case("midi.vlq", [n], tag="vlq:dense"))
    for k in range(1, 6):
        for d in range(-3, 4):
            out.append(Case("midi.vlq", [128 ** k + d], tag="vlq:boundary"))
    for n in (2 ** 28 - 1, 2 ** 28, 2 ** 28 + 1, 2 ** 32 - 1, 2 ** 32, 2 ** 35 - 1, 2 ** 35):
        out.append(Case("midi.vlq", [n], tag="vlq:boundary"))
    for _ in range(3000 if tier == "quick" else 60000):
        out.append(Case("midi.vlq", [rng.randrange(2 ** rng.randint(1, 28))], tag="vlq:random"))

    # systematic
    for k in ALL_KEYS:
        out.append(W("bar", one_note_bar(4, key=k), tag="write:key"))
        out.append(W("track", ["t", 5, [one_note_bar(4, key=k), ["C", 4, 4, []], one_note_bar(2, key=k)]], tag="write:key"))
    for m in METERS + [(c, 2 ** e) for c in (1, 3) for e in range(0, 8)]:
        out.append(W("bar", one_note_bar(m[1], meter=m), tag="write:meter"))
    # ... and values so short that the entry lasts one tick or none at all (round(288/value) = 1, 0, 0)
    for v in INT_VALUES + ROUNDING_VALUES + [400, 577, 1024]:
        out.append(W("bar", one_note_bar(v, meter=(4, 1)), tag="write:value"))
        out.append(W("bar", ["C", 4, 1, [[v, None], [v, [["E", 4, 2, 70]]], [v, []], [v, [["G", 4, 2, 70]]]]], tag="write:value"))
    A, B = [["C", 4, 1, 64]], [["E", 4, 3, 90], ["G", 4, 3, 90]]
    for n in range(1, 5):
        for mask in range(2 ** n):
            entries = [[4, (None if (i % 2 == 0) else []) if mask >> i & 1 else (A if i % 2 else B)] for i in range(n)]
            bar = ["F", 4, 4, entries]
            out.append(W("bar", bar, rep=1, tag="write:rests"))
            for instr in (None, 42):
                out.append(W("track", ["rests", instr, [bar, bar]], rep=mask % 2, tag="write:rests+instrument"))
    for ch in range(16):
        out.append(W("note", ["C", 4, ch, 64], tag="write:channel"))
        out.append(W("track", ["c", 7, [["C", 4, 4, [[4, None], [4, [["A", 3, ch, 64], ["C", 4, (ch + 1) % 16, 64]]]]]]], tag="write:channel"))
    for vel in (0, 1, 2, 63, 64, 126, 127):
        out.append(W("note", ["D", 5, 0, vel], tag="write:velocity"))
        out.append(W("nc", [["D", 5, 0, vel], ["F", 5, 1, 127 - vel]], rep=2, tag="write:velocity"))
    for instr in (None, 0, 1, 42, 127):
        for lead in (None, 4, 3):
            entries = ([[lead, None]] if lead else []) + [[4, [["C", 4, 9, 64], ["E", 4, 2, 64]]], [8, None], [8, [["G", 2, 4, 1]]]]
            out.append(W("track", ["instr", instr, [["C", 4, 4, entries]]], rep=1, tag="write:instrument"))
            out.append(W("composition", [["a", instr, [["C", 4, 4, entries]]], ["b", None, [["C", 4, 4, [[1, None]]], ["C", 4, 4, entries]]]], tag="write:instrument"))
    for rep in range(4):
        out.append(W("note", ["C", 4, 1, 64], rep=rep, tag="write:repeat"))
        out.append(W("nc", [], rep=rep, tag="write:repeat"))
        out.append(W("nc", B, rep=rep, tag="write:repeat"))
        out.append(W("bar", ["C", 3, 4, [[4, A], [4, None], [4, None]]], rep=rep, tag="write:repeat"))
        out.append(W("track", ["r", 3, [["C", 3, 4, [[4, None], [4, A], [4, None]]]]], rep=rep, tag="write:repeat"))
        out.append(W("composition", [["r", 3, [["C", 3, 4, [[4, None], [4, A], [4, None]]]]], ["q", None, []]], rep=rep, tag="write:repeat"))
    for bpm in (4, 5, 59, 60, 61, 119, 120, 121, 240, 999, 1000, 60000000, 60000001):
        out.append(W("note", ["C", 4, 1, 64], bpm=bpm, tag="write:tempo"))
    # containers that carry a bpm attribute: a tempo event where the container starts
    for tb in (60, 90, 200, 33, 1000):
        for pos in range(3):
            ents = [[4, A], [8, None], [8, B], [2, A]]
            ents[[0, 2, 3][pos]] = ents[[0, 2, 3][pos]] + [tb]
            out.append(W("bar", ["C", 4, 4, ents], rep=pos % 2, tag="write:mid-bar-tempo"))
            out.append(W("track", ["tempo", None, [["C", 4, 4, [[1, None]]], ["G", 4, 4, ents]]], bpm=77, tag="write:mid-bar-tempo"))
    out.append(W("bar", ["C", 4, 4, [[4, A, 60], [4, None, 90], [4, [], 33], [4, B, 200]]], tag="write:mid-bar-tempo"))
    out.append(W("composition", [], tag="write:empty"))
    out.append(W("composition", [["only", None, []]], tag="write:empty"))
    for lo in (["Cb", 0, 0, 64], ["Dbb", 0, 0, 64], ["C", 0, 0, 64], ["G", 9, 0, 64], ["F##", 9, 0, 64]):
        out.append(W("note", lo, tag="write:pitch-boundary"))
    # random
    n_rand = 250 if tier == "quick" else 4000
    vals = INT_VALUES + ROUNDING_VALUES
    for i in range(n_rand):
        r = rng.random()
        bpm = rng.choice([120, 120, 60, 90, 4, 1000, rng.randint(4, 2000)])
        rep = rng.choice([0, 0, 0, 1, 2, 3])
        if r < 0.1:
            out.append(W("note", rand_note(rng), bpm, rep))
        elif r < 0.2:
            out.append(W("nc", rand_chord(rng, rng.randint(0, 5)), bpm, rep))
        elif r < 0.4:
            out.append(W("bar", rand_bar(rng, vals), bpm, rep))
        elif r < 0.6:
            tr_ = rand_track(rng, vals)
            out.append(W("track", tr_, bpm, rep))
            if tr_[2] and any(b[3] for b in tr_[2]) and len(out) % 3 == 0:
                # the same music through MidiFile(tracks=[filled track]): the bytes write_Track gives (judged as that)
                out.append(W("track_ctor", tr_, bpm, rep, tag="write:tracks-handed-to-constructor", model=False))
        else:
            out.append(W("composition", [rand_track(rng, vals) for _ in range(rng.randint(0, 4))], bpm, rep))
    # malformed / out-of-range stream: error class compared with the model, nothing demanded
    # (out-of-range channels and velocities are refused by Note itself - C10 - and never reach the writer)
    bad = [W("note", ["G#", 9, 1, 64]), W("note", ["C", 10, 1, 64]), W("note", ["C", 4, 1, 64], bpm=3), W("note", ["C", 4, 1, 64], bpm=1),
           W("track", ["t", 128, [one_note_bar(4)]]), W("track", ["t", -1, [one_note_bar(4)]]),
           W("track", ["t", 128, [["C", 4, 4, [[4, None]]]]]), W("nc", [["C", 4, 1, 64], ["E", 10, 3, 64]]),
           W("bar", ["C", 4, 4, [[4, [["C", 4, 1, 64]]], [4, [["E", 10, 1, 20]]]]])]
    for c in bad:
        c["domain"] = False
        c["tag"] = "reject"
    out += bad
    return out

# ------------------------------------------------------------------ oracle

def check_file(kind, payload, bpm, rep, data):
    try:
        smf = smf_parse(data)
    except SMFError as e:
        return "the bytes do not parse as a Standard MIDI File: %s" % e
    if smf["format"] != 1:
        return "header declares format %d, not 1" % smf["format"]
    if smf["division"] != 72:
        return "header declares division %d, not 72 ticks per quarter" % smf["division"]
    if smf["ntracks"] != len(smf["tracks"]):
        return "header declares %d tracks, %d chunks follow" % (smf["ntracks"], len(smf["tracks"]))
    payloads = payload if kind == "composition" else [payload]
    if len(smf["tracks"]) != len(payloads):
        return "%d track chunks for %d written tracks" % (len(smf["tracks"]), len(payloads))
    for ti, (evs, pl) in enumerate(zip(smf["tracks"], payloads)):
        want = denote_track("track" if kind == "composition" else kind, pl, rep)
        where = "track %d: " % ti
        ons = sorted((e["tick"], e["ch"], e["p"][0], e["p"][1]) for e in evs if e["kind"] == "chan" and e["type"] == 9)
        offs = sorted((e["tick"], e["ch"], e["p"][0], e["p"][1]) for e in evs if e["kind"] == "chan" and e["type"] == 8)
        if ons != want["ons"]:
            return where + "note-ons (tick, channel, pitch, velocity) %s differ from the music written %s" % (diff(ons, want["ons"]))
        if offs != want["offs"]:
            return where + "note-offs (tick, channel, pitch, velocity) %s differ from the entry ends %s" % (diff(offs, want["offs"]))
        sounding = set()
        for e in evs:
            if e["kind"] != "chan" or e["type"] not in (8, 9):
                continue
            k = (e["ch"], e["p"][0])
            if e["type"] == 9:
                if k in sounding:
                    return where + "note %s starts again at tick %d while it is still sounding" % (k, e["tick"])
                sounding.add(k)
            else:
                if k not in sounding:
                    return where + "note-off for %s at tick %d without a sounding note" % (k, e["tick"])
                sounding.discard(k)
        if sounding:
            return where + "notes left hanging: %s" % sorted(sounding)
        tempi = [(e["tick"], int.from_bytes(e["data"], "big")) for e in evs if e["kind"] == "meta" and e["type"] == 0x51]
        want_tempi = [(0, 60000000 // bpm)] + want["tempos"]
        if tempi != want_tempi or evs[0].get("type") != 0x51:
            return where + "tempo events (tick, microseconds per quarter) %s, expected %s, the first one leading the track" % (tempi, want_tempi)
        names = [e["data"].decode("latin-1") for e in evs if e["kind"] == "meta" and e["type"] == 3]
        if names != want["names"]:
            return where + "track names %r, expected %r" % (names, want["names"])
        ts = [tuple(e["data"][:2]) for e in evs if e["kind"] == "meta" and e["type"] == 0x58]
        ks = [(e["data"][0] - 256 if e["data"][0] > 127 else e["data"][0], e["data"][1]) for e in evs if e["kind"] == "meta" and e["type"] == 0x59]
        if len(ts) != len(ks):
            return where + "%d time signatures but %d key signatures" % (len(ts), len(ks))
        got = [a + b for a, b in zip(ts, ks)]
        if got != want["sigs"]:
            return where + "per-bar (count, log2 unit, sharps/flats, minor) %s differ from the bars written %s" % (diff(got, want["sigs"]))
        progs = [(e["ch"], e["p"][0]) for e in evs if e["kind"] == "chan" and e["type"] == 0xC]
        banks = [e for e in evs if e["kind"] == "chan" and e["type"] == 0xB and e["p"][0] == 0]
        if want["program"] is None:
            if progs:
                return where + "program change %s without a MIDI instrument (or without notes)" % progs
        else:
            if not progs or any(p != want["program"] for p in progs):
                return where + "program changes %s, expected (channel, instrument) %s" % (progs, want["program"])
            if len(progs) != want["passes"] or len(banks) != want["passes"]:
                # a repeat repeats the whole content: the instrument is selected again in every pass, as the track name is written again
                return where + "%d program changes and %d bank selects for %d passes of the track" % (len(progs), len(banks), want["passes"])
            if not banks or any(b["ch"] != want["program"][0] for b in banks):
                return where + "bank select %s not on the first note's channel %d" % ([(b["ch"], b["p"]) for b in banks], want["program"][0])
            first_on = next(i for i, e in enumerate(evs) if e["kind"] == "chan" and e["type"] == 9)
            first_pc = next(i for i, e in enumerate(evs) if e["kind"] == "chan" and e["type"] == 0xC)
            first_bs = evs.index(banks[0])
            if not (first_bs < first_on and first_pc < first_on):
                return where + "the first note sounds before the instrument is selected"
        other = [e for e in evs if (e["kind"] == "chan" and e["type"] not in (8, 9, 0xB, 0xC)) or e["kind"] == "sysex"
                 or (e["kind"] == "meta" and e["type"] not in (0x51, 3, 0x58, 0x59, 0x2F))]
        if other:
            return where + "events that denote nothing that was written: %s" % other[:3]
    return None

def diff(got, want):
    for i, (a, b) in enumerate(zip(got, want)):
        if a != b:
            return ("…[%d]=%s" % (i, a), "…[%d]=%s" % (i, b))
    return ("of length %d" % len(got), "of length %d" % len(want))

def oracle(c, obs):
    if c["fn"] == "midi.vlq":
        n = c["args"][0]
        if isinstance(obs, Err):
            return "the variable-length encoder raised %s for %d" % (obs.name, n)
        if n < 2 ** 28 and obs != std_vlq(n):
            return "int_to_varbyte(%d) = %s, the standard encoding is %s" % (n, obs, std_vlq(n))
        return None
    if not c.get("domain", True):
        return None
    kind, payload, bpm, rep = c["args"]
    if kind == "track_ctor":
        kind = "track"
    if isinstance(obs, Err):
        return "writing in-range music raised %s" % obs.name
    return check_file(kind, payload, bpm, rep, obs)
