"""C12 correspondence + oracle (mingus.containers.NoteContainer as a pitch-ordered set)."""
import itertools, warnings
warnings.filterwarnings("ignore")
from tools.framework import Case, Err
from harness.common import *
from harness.c06 import FORMULA, spec_notes_of
from mingus.containers import Note, NoteContainer
from mingus.core import progressions, chords

ID = "C12"
LEAN_MODULES = ["Mingus.Props.C12", "Mingus.Props.C12Interval", "Mingus.Tie.C12"]
RULE = ("every operation sequence of depth <=3 (quick) / <=4 (thorough) over an 18-op alphabet (octave 0 included) of add/remove forms (objects, bare "
        "names, names with octave, lists, other containers, '+', remove by name / name+octave / note / list, remove_notes and '-' given one note, one name or a list), seeded random "
        "sequences up to depth 40 over a larger pool incl. B#/Cb-type names; every chord shorthand x 21 roots, interval "
        "shorthands, numerals x keys through the shorthand constructors. Each step is judged against a set model started from "
        "the implementation's previous state")
EXHAUSTIVE = {"quick": True, "thorough": True}

def pitch(name, octv):
    return 12 * octv + NATURAL[name[0]] + net(name)

def offset(name):
    return NATURAL[name[0]] + net(name)

def state(nc):
    return [[n.name, n.octave] for n in nc.notes]

def to_py(item):
    t = item[0]
    if t == "obj":
        return Note(item[1], item[2])
    if t == "bare":
        return item[1]
    if t == "named":
        return [item[1], item[2]]
    raise ValueError(item)

def run(ops):
    nc = NoteContainer()
    out = []
    for op in ops:
        try:
            t = op[0]
            if t == "add":
                it = op[1]
                if it[0] == "named":
                    nc.add_note(it[1], it[2])
                else:
                    nc.add_note(to_py(it))
            elif t == "add_list":
                nc.add_notes([to_py(i) for i in op[1]])
            elif t == "plus":
                nc = nc + [to_py(i) for i in op[1]]
            elif t == "add_nc":
                nc.add_notes(NoteContainer([to_py(i) for i in op[1]]))
            elif t == "remove_name":
                nc.remove_note(op[1])
            elif t == "remove_name_oct":
                nc.remove_note(op[1], op[2])
            elif t == "remove_obj":
                nc.remove_note(Note(op[1], op[2]))
            elif t == "remove_notes_obj":             # remove_notes / '-' given ONE Note or ONE name, not a list
                nc.remove_notes(Note(op[1], op[2]))
            elif t == "minus_obj":
                nc = nc - Note(op[1], op[2])
            elif t == "remove_notes_str":
                nc.remove_notes(op[1])
            elif t == "minus_str":
                nc = nc - op[1]
            elif t == "remove_names":
                nc.remove_notes([x if isinstance(x, str) else Note(x[0], x[1]) for x in op[1]])
            elif t == "minus":
                nc = nc - [x if isinstance(x, str) else Note(x[0], x[1]) for x in op[1]]
            elif t == "transpose":
                nc.transpose(op[1], op[2])
            elif t == "augment":
                nc.augment()
            elif t == "diminish":
                nc.diminish()
            out.append(state(nc))
        except Exception as e:
            from tools.framework import err_of
            out.append(err_of(e))
    out.append([len(nc), nc.get_note_names(), nc.is_consonant(True), nc.is_consonant(False), nc.is_perfect_consonant(True),
                nc.is_perfect_consonant(False), nc.is_imperfect_consonant(), nc.is_dissonant(False), nc.is_dissonant(True)])
    return out

def run2(ops):
    """one container and OTHER containers that stay alive: whatever is done to one must not show in another"""
    nc, others, out = NoteContainer(), [], []
    for op in ops:
        try:
            t = op[0]
            if t == "make_other":
                others.append(NoteContainer([to_py(i) for i in op[1]]))
            elif t == "add_other":
                nc.add_notes(others[op[1]])
            elif t == "plus_other":
                nc = nc + others[op[1]]
            elif t == "add":
                it = op[1]
                nc.add_note(it[1], it[2]) if it[0] == "named" else nc.add_note(to_py(it))
            elif t == "remove_name":
                nc.remove_note(op[1])
            elif t == "other_add":
                it = op[2]
                others[op[1]].add_note(it[1], it[2]) if it[0] == "named" else others[op[1]].add_note(to_py(it))
            elif t == "other_remove_name":
                others[op[1]].remove_note(op[2])
            out.append([state(nc), [state(o) for o in others]])
        except Exception as e:
            from tools.framework import err_of
            out.append(err_of(e))
    return out

def from_progression(sh, key):
    r = NoteContainer().from_progression_shorthand(sh, key)
    return False if r is False else state(r)

def reused(pre, which, *args):
    """a container that already holds notes is re-built from a shorthand: the old notes must be gone"""
    nc = NoteContainer([Note(x[0], x[1]) for x in pre])
    if which == "chord":
        return state(nc.from_chord_shorthand(*args))
    if which == "interval":
        nm, o, sh, up = args
        return state(nc.from_interval_shorthand(Note(nm, o), sh, up))
    r = nc.from_progression_shorthand(*args)
    return False if r is False else state(r)

def member(items, removed, probes):
    """membership of notes in a container built from `items` from which `removed` were then taken out again (both may be empty)"""
    nc = NoteContainer([Note(x[0], x[1]) for x in items])
    for x in removed:
        nc.remove_note(Note(x[0], x[1]))
    return [len(nc), [Note(p[0], p[1]) in nc for p in probes], nc == NoteContainer(), NoteContainer() == nc]

IMPL = {
    "nc.member": member,
    "nc.reused": reused,
    "nc.run": run,
    "nc.run2": run2,
    "nc.from_chord": lambda sh: state(NoteContainer().from_chord_shorthand(sh)),
    "nc.from_interval_short": lambda nm, o, sh, up: state(NoteContainer().from_interval(Note(nm, o), sh, up)),
    "nc.from_interval": lambda nm, o, sh, up: state(NoteContainer().from_interval_shorthand(Note(nm, o), sh, up)),
    "nc.from_progression": from_progression,
    "nc.misc": lambda items: (lambda nc, other: [len(nc), Note("C", 4) in nc, nc == other, nc == NoteContainer([Note(x[0], x[1]) for x in items[:-1]]),
                                                 [n.name + "-" + str(n.octave) for n in nc]])(
        NoteContainer([Note(x[0], x[1]) for x in items]), NoteContainer([Note(x[0], x[1]) for x in reversed(items)])),
}
NO_MODEL = {"nc.misc"}
def has_model(c):
    return c["fn"] not in NO_MODEL

ALPHA = [
    ["add", ["obj", "C", 4]], ["add", ["obj", "E", 4]], ["add", ["obj", "B#", 3]], ["add", ["bare", "G"]], ["add", ["bare", "C"]],
    ["add", ["named", "C", 5]], ["add_list", [["bare", "E"], ["named", "A", 3], ["obj", "Db", 4]]], ["plus", [["bare", "Bb"]]],
    ["add_nc", [["bare", "G"], ["bare", "C"]]], ["remove_name", "C"], ["remove_name_oct", "C", 4], ["remove_obj", "C", 4],
    ["remove_names", ["E", ["G", 4]]], ["minus", ["C"]], ["add", ["named", "C", 0]], ["remove_name_oct", "C", 0],
    ["minus_obj", "Db", 4], ["remove_notes_obj", "B#", 3],
]

def rand_item(rng):
    nm = rng.choice(LETTERS) + rng.choice(["", "", "#", "b", "##", "bb"])
    k = rng.random()
    if k < 0.4:
        return ["bare", nm]
    if k < 0.7:
        return ["obj", nm, rng.choice([0, 1, 2, 3, 4, 5, 6])]
    return ["named", nm, rng.choice([0, 0, 1, 2, 3, 4, 5, 6])]

def rand_op(rng):
    k = rng.random()
    if k < 0.35:
        return ["add", rand_item(rng)]
    if k < 0.5:
        return [rng.choice(["add_list", "plus", "add_nc"]), [rand_item(rng) for _ in range(rng.randint(1, 4))]]
    nm = rng.choice(LETTERS) + rng.choice(["", "", "#", "b"])
    if k < 0.65:
        return ["remove_name", nm]
    if k < 0.8:
        return ["remove_name_oct", nm, rng.choice([0, 0, 1, 2, 3, 4, 5, 6])]
    if k < 0.9:
        return [rng.choice(["remove_obj", "remove_notes_obj", "minus_obj"]), nm, rng.choice([0, 1, 2, 3, 4, 5, 6])]
    if k < 0.93:
        return [rng.choice(["remove_notes_str", "minus_str"]), nm]
    return [rng.choice(["remove_names", "minus"]), [rng.choice([nm, [nm, rng.randint(3, 5)]]) for _ in range(rng.randint(1, 3))]]

def cases(tier, rng):
    depth = 3 if tier == "quick" else 4
    for d in range(0, depth + 1):
        for seq in itertools.product(ALPHA, repeat=d):
            yield Case("nc.run", [list(seq)], "history/depth%d" % d, kind=("run",))
    for _ in range(300 if tier == "quick" else 3000):
        yield Case("nc.run", [[rand_op(rng) for _ in range(rng.randint(5, 40))]], "history/random", kind=("run",))
    # containers that live on next to the one operated on
    def rand_op2(n_others):
        k = rng.random()
        if n_others == 0 or k < 0.2:
            return ["make_other", [rand_item(rng) for _ in range(rng.randint(0, 3))]]
        j = rng.randrange(n_others)
        if k < 0.45:
            return [rng.choice(["add_other", "plus_other"]), j]
        if k < 0.6:
            return ["add", rand_item(rng)]
        if k < 0.7:
            return ["remove_name", rng.choice(LETTERS)]
        if k < 0.9:
            return ["other_add", j, rand_item(rng)]
        return ["other_remove_name", j, rng.choice(LETTERS)]
    fixed2 = [[["make_other", [["obj", "C", 4], ["obj", "E", 4]]], ["add_other", 0], ["add", ["obj", "B", 6]], ["remove_name", "B"], ["add_other", 0]],
              [["make_other", [["obj", "C", 4]]], ["plus_other", 0], ["other_add", 0, ["obj", "G", 5]], ["add", ["bare", "D"]]],
              [["make_other", []], ["add_other", 0], ["add", ["obj", "A", 3]], ["other_add", 0, ["obj", "F", 2]]]]
    for ops in fixed2:
        yield Case("nc.run2", [ops], "others/fixed", kind=("run2",))
    for _ in range(200 if tier == "quick" else 2000):
        ops, n = [], 0
        for _ in range(rng.randint(3, 14)):
            op = rand_op2(n)
            if op[0] == "make_other":
                n += 1
            ops.append(op)
        yield Case("nc.run2", [ops], "others/random", kind=("run2",))
    roots = [l + a for l in LETTERS for a in ("", "#", "b")]
    for k in FORMULA:
        for r in roots:
            yield Case("nc.from_chord", [r + k], "from_chord", kind=("chord", r, k))
    for nm in roots:
        for sh in ["1", "2", "b3", "3", "4", "#4", "5", "b6", "6", "b7", "7", "bb2", "#1", "b2", "bb3", "#5"]:
            for up in (True, False):
                yield Case("nc.from_interval", [nm, 4, sh, up], "from_interval", kind=("interval",))
                if nm in ("C", "D", "F#") and sh in ("3", "5", "b7", "2"):
                    yield Case("nc.from_interval", [nm, 0, sh, up], "from_interval/octave-0", kind=("interval",))
                if sh in ("3", "b7", "5", "#4"):
                    yield Case("nc.from_interval_short", [nm, 4, sh, up], "from_interval/shortcut", model=False, kind=("interval",))
    for key in ["C", "F#", "Eb", "a", "c#", "ab", "d", "A", "D"]:
        for num in ["I", "ii", "iii7", "IV", "V7", "bVII", "#ivdim7", "VIm7", "X", "i", "III", "vi7"]:
            yield Case("nc.from_progression", [num, key], "from_progression", kind=("prog",))
    # removal by name AND octave where the octave numbers of neighbouring notes are not in pitch order (Cb-5 below B#-4)
    for base, rm in (([["G", 4], ["Cb", 5], ["B#", 4], ["E", 5]], [("B#", 4), ("Cb", 5), ("E", 5), ("G", 4)]),
                     ([["A", 4], ["Dbb", 5], ["B##", 4], ["F", 5]], [("B##", 4), ("Dbb", 5)]),
                     ([["Cb", 4], ["B#", 3], ["C", 4], ["B", 4], ["Cb", 5]], [("B#", 3), ("Cb", 5), ("Cb", 4), ("B", 4)])):
        for nm, o in rm:
            ops = [["add_list", [["obj", n, q] for n, q in base]], ["remove_name_oct", nm, o]]
            yield Case("nc.run", [ops], "remove/cross-octave", kind=("run",))
            yield Case("nc.run", [ops + [["remove_name_oct", nm, o]]], "remove/cross-octave", kind=("run",))
    # slash chords and polychords into a container: a note NAME that occurs twice in the shorthand's notes is voiced twice
    for sh in ["C/E", "Am/C", "G7/B", "C/G", "Dm7/A", "C|G", "Am|C", "C|C", "Dm|G7", "F/F", "CM7/B", "Em|CM7"]:
        yield Case("nc.from_chord", [sh], "from_chord/slash-poly", kind=("chordsh",))
    # membership and equality, also on a container that is empty from the start or has been emptied again
    probes = [["C", 4], ["B#", 3], ["E", 4], ["Fb", 4], ["G", 9], ["C", 0]]
    for items, removed in (([], []), ([["C", 4]], [["C", 4]]), ([["C", 4], ["E", 4]], [["E", 4], ["B#", 3]]), ([["C", 4]], []),
                           ([["B#", 3], ["Fb", 4], ["G", 9]], []), ([["C", 0]], [["C", 0]]), ([["E", 4], ["G", 4]], [["G", 4]])):
        yield Case("nc.member", [items, removed, probes], "membership", model=False, kind=("member",))
    # the shorthand constructors on a container that is already in use (they start from an empty container)
    for pre in ([["C", 2]], [["G", 5], ["A", 6]], [["C", 4], ["E", 4], ["G", 4]], [["B", 7]]):
        for r, k in [("C", "M"), ("A", "m7"), ("Eb", "7b9"), ("F#", "dim7"), ("G", "13")]:
            if k in FORMULA:
                yield Case("nc.reused", [pre, "chord", r + k], "reused/chord", model=False, kind=("chord", r, k))
        for nm, sh, up in [("C", "3", True), ("A", "b7", False), ("F#", "5", True)]:
            yield Case("nc.reused", [pre, "interval", nm, 4, sh, up], "reused/interval", model=False, kind=("interval",),
                       inner=[nm, 4, sh, up])
        for num, key in [("I", "C"), ("V7", "Eb"), ("ii", "a")]:
            yield Case("nc.reused", [pre, "prog", num, key], "reused/progression", model=False, kind=("prog",), inner=[num, key])
    for _ in range(100):
        items = [[rng.choice(roots), rng.randint(2, 6)] for _ in range(rng.randint(1, 5))]
        yield Case("nc.misc", [items], "misc", model=False, kind=("misc",))

def spec_bare_octave(name, prev):
    if not prev:
        return 4
    top = max(pitch(n, o) for n, o in prev)
    o = (top - offset(name) + 11) // 12          # smallest octave with pitch >= top
    return o

def spec_add(prev, item):
    t = item[0]
    if t == "bare":
        name, octv = item[1], spec_bare_octave(item[1], prev)
    else:
        name, octv = item[1], item[2]
    if any(pitch(n, o) == pitch(name, octv) for n, o in prev):
        return prev
    return sorted(prev + [[name, octv]], key=lambda x: pitch(x[0], x[1]))

def spec_step(prev, op):
    t = op[0]
    if t == "add":
        return spec_add(prev, op[1])
    if t in ("add_list", "plus"):
        cur = prev
        for it in op[1]:
            cur = spec_add(cur, it)
        return cur
    if t == "add_nc":
        other = []
        for it in op[1]:
            other = spec_add(other, it)
        cur = prev
        for n, o in other:
            cur = spec_add(cur, ["obj", n, o])
        return cur
    if t == "remove_name":
        return [x for x in prev if x[0] != op[1]]
    if t == "remove_name_oct":
        return [x for x in prev if not (x[0] == op[1] and x[1] == op[2])]
    if t in ("remove_obj", "remove_notes_obj", "minus_obj"):
        return [x for x in prev if pitch(x[0], x[1]) != pitch(op[1], op[2])]
    if t in ("remove_notes_str", "minus_str"):
        return [x for x in prev if x[0] != op[1]]
    if t in ("remove_names", "minus"):
        cur = prev
        for x in op[1]:
            cur = [y for y in cur if y[0] != x] if isinstance(x, str) else [y for y in cur if pitch(y[0], y[1]) != pitch(x[0], x[1])]
        return cur
    raise ValueError(op)

def replay_items(prev, op):
    """localise a multi-item step: replay it item by item on a fresh container seeded with the previous state.
    Returns (final_state, [(item, before, after)])"""
    nc = NoteContainer([Note(n, o) for n, o in prev])
    subs = []
    def add(container, it):
        before = state(container)
        if it[0] == "named":
            container.add_note(it[1], it[2])
        else:
            container.add_note(to_py(it))
        subs.append((it, before, state(container)))
    t = op[0]
    if t == "add":
        add(nc, op[1])
    elif t in ("add_list", "plus"):
        for it in op[1]:
            add(nc, it)
    elif t == "add_nc":
        other = NoteContainer()
        for it in op[1]:
            add(other, it)
        for n, o in state(other):
            add(nc, ["obj", n, o])
    return state(nc), subs

def first_bad_step(ops, obs):
    """(index, reason, previous state, failing sub-step or None)"""
    prev = []
    for i, op in enumerate(ops):
        st = obs[i]
        if isinstance(st, Err):
            return i, "operation raised %s" % st.name, prev, None
        ps = [pitch(n, o) for n, o in st]
        if ps != sorted(ps) or len(set(ps)) != len(ps):
            return i, "container is not sorted low to high without equal pitches", prev, None
        if op[0] in ("add", "add_list", "plus", "add_nc"):
            final, subs = replay_items(prev, op)
            if final != st:
                return i, "adding a list / container differs from adding its items one by one", prev, None
            for it, before, after in subs:
                if after != spec_add(before, it):
                    return i, "content after adding %r is not what the set model predicts" % (it,), prev, (it, before, after)
        elif st != spec_step(prev, op):
            return i, "content after the operation is not what the set model predicts", prev, None
        prev = st
    return None

def pairwise(names, pred):
    return all(pred((spec_pc(b) - spec_pc(a)) % 12) for i, a in enumerate(names) for b in names[i + 1:])

def oracle(c, obs):
    kind = c["kind"]
    if kind[0] == "run":
        if isinstance(obs, Err):
            return "history raised"
        ops = c["args"][0]
        bad = first_bad_step(ops, obs)
        if bad:
            return "step %d (%s): %s" % (bad[0], ops[bad[0]][0], bad[1])
        final = obs[len(ops) - 1] if ops else []
        summ = obs[-1]
        names_in_order = [n for n, o in final]
        uniq = []
        for n in names_in_order:
            if n not in uniq:
                uniq.append(n)
        perf = lambda f: (lambda m: m in (0, 7) or (f and m == 5))
        imp = lambda m: m in (3, 4, 8, 9)
        cons = lambda f: (lambda m: perf(f)(m) or imp(m))
        want = [len(final), uniq, pairwise(names_in_order, cons(True)), pairwise(names_in_order, cons(False)),
                pairwise(names_in_order, perf(True)), pairwise(names_in_order, perf(False)), pairwise(names_in_order, imp),
                not pairwise(names_in_order, cons(True)), not pairwise(names_in_order, cons(False))]
        return None if summ == want else "length / names / consonance predicates disagree with the content"
    if kind[0] == "run2":
        if isinstance(obs, Err):
            return "history raised"
        nc, others = [], []
        for op, st in zip(c["args"][0], obs):
            t = op[0]
            try:
                if t == "make_other":
                    o = []
                    for it in op[1]:
                        o = spec_add(o, it)
                    others = others + [o]
                elif t in ("add_other", "plus_other"):
                    for n, q in others[op[1]]:
                        nc = spec_add(nc, ["obj", n, q])
                elif t == "add":
                    nc = spec_add(nc, op[1])
                elif t == "remove_name":
                    nc = [x for x in nc if x[0] != op[1]]
                elif t == "other_add":
                    others = others[:op[1]] + [spec_add(others[op[1]], op[2])] + others[op[1] + 1:]
                elif t == "other_remove_name":
                    others = others[:op[1]] + [[x for x in others[op[1]] if x[0] != op[2]]] + others[op[1] + 1:]
            except IndexError:
                continue
            if isinstance(st, Err):
                return "operation %s raised %s" % (t, st.name)
            # bare-name voicing on B#/Cb-type names is the recorded finding's business: resynchronise on what the code did
            if [sorted(pitch(n, q) for n, q in st[0])] + [sorted(pitch(n, q) for n, q in o) for o in st[1]] != \
               [sorted(pitch(n, q) for n, q in nc)] + [sorted(pitch(n, q) for n, q in o) for o in others]:
                involved = [it for it in ([op[1]] if t == "add" else [op[2]] if t == "other_add" else op[1] if t == "make_other" else []) if it[0] == "bare"]
                if involved:
                    nc, others = st[0], st[1]
                    continue
                return "after %s the containers are not what independent sets predict (one container changed through another?)" % t
            nc, others = st[0], st[1]
        return None
    if kind[0] == "member":
        items, removed, probes = c["args"]
        if isinstance(obs, Err):
            return "membership / equality on a container raised %s" % obs.name
        gone = {pitch(n, o) for n, o in removed}
        held = {pitch(n, o) for n, o in items} - gone
        want = [len(held), [pitch(n, o) in held for n, o in probes], not held, not held]
        return None if obs == want else "length / membership / equality with the empty container do not follow the content (want %s)" % (want,)
    if kind[0] == "chordsh":
        if isinstance(obs, Err):
            return "constructor raised"
        names = chords.from_shorthand(c["args"][0])        # (chord construction itself is C06's business)
        # voiced upward: each name at or above the previous top note, less than an octave above it, starting in octave 4
        want, top = [], None
        for nm in names:
            o = 4 if top is None else top // 12
            p = pitch(nm, o)
            if top is not None:
                while p < top:
                    o += 1; p = pitch(nm, o)
            if top is None or p != top:
                want.append([nm, o])
            top = p
        return None if obs == want else "container built from %r is %s, expected the chord's notes %s voiced upward from octave 4" % (c["args"][0], obs, want)
    if kind[0] == "chord":
        _, r, k = kind
        want_names = spec_notes_of(r, k)
        if isinstance(obs, Err):
            return "constructor raised"
        if [n for n, o in obs] != want_names:
            # equal pitches are merged by the set; only then may the name list be shorter
            if len({pitch(n, o) for n, o in obs}) == len(obs) and len(obs) < len(want_names):
                return None
            return "container built from chord shorthand does not list the chord's notes in order"
        if obs[0][1] != 4:
            return "container built from chord shorthand does not start on the root in octave 4"
        ps = [pitch(n, o) for n, o in obs]
        for a, b in zip(ps, ps[1:]):
            if not (a <= b < a + 12):
                return "chord notes are not voiced upward within an octave of the previous top note"
        return None
    if kind[0] == "interval":
        nm, o, sh, up = c.get("inner") or c["args"]
        if isinstance(obs, Err):
            return "constructor raised"
        deg = int(sh[-1])
        semis = {1: 0, 2: 2, 3: 4, 4: 5, 5: 7, 6: 9, 7: 11}[deg] + sh.count("#") - sh.count("b")
        root = pitch(nm, o)
        tgt = root + semis if up else root - semis
        letter = LETTERS[(LETTERS.index(nm[0]) + (deg - 1 if up else -(deg - 1))) % 7]
        if [pitch(n, q) for n, q in obs] != sorted({root, tgt}):
            return "container built from interval shorthand does not hold the start note and the note that interval away"
        if [nm, o] not in obs:
            return "container built from interval shorthand does not hold the start note itself"
        if tgt != root and [n[0] for n, q in obs if [n, q] != [nm, o]] != [letter]:
            return "container built from interval shorthand spells the other note on the wrong letter"
        return None
    if kind[0] == "prog":
        if obs is False or isinstance(obs, Err) or not obs:
            return None                                   # unknown numerals: the model comparison decides
        if any(not 0 <= offset(n) <= 11 for n, q in obs):
            return None                                   # B#/Cb-type names: the recorded voicing finding's domain
        pa = c.get("inner") or c["args"]
        want_names = progressions.to_chords([pa[0]], pa[1])
        if want_names and [n for n, q in obs] != want_names[0]:
            return "container built from progression shorthand does not hold the chord's notes in order (the key's case matters: 'a' is A minor)"
        if obs[0][1] != 4:
            return "container built from progression shorthand does not start in octave 4"
        ps = [pitch(n, q) for n, q in obs]
        for a, b in zip(ps, ps[1:]):
            if not (a <= b < a + 12):
                return "progression chord notes are not voiced upward within an octave of the previous top note"
        return None
    if kind[0] == "misc":
        items = c["args"][0]
        ps = sorted({pitch(n, o) for n, o in items})
        if obs[0] != len(ps):
            return "length does not follow content"
        if obs[1] is not (pitch("C", 4) in ps):
            return "membership does not follow content"
        if obs[2] is not True:
            return "equality is not independent of insertion order"
        return None
    return None

def _voicing(c, obs):
    """known finding: bare-name voicing for names whose unreduced offset leaves 0..11 (B#, B##, Cb, Cbb, A## ...)"""
    kind = c["kind"]
    if kind[0] == "chord":
        names = spec_notes_of(kind[1], kind[2])
        return any(not 0 <= offset(n) <= 11 for n in names)
    if kind[0] != "run" or isinstance(obs, Err):
        return False
    ops = c["args"][0]
    bad = first_bad_step(ops, obs)
    if not bad or bad[3] is None:
        return False
    it, before, after = bad[3]
    if it[0] != "bare":
        return False
    top = max(before, key=lambda x: pitch(x[0], x[1]))[0] if before else None
    if 0 <= offset(it[1]) <= 11 and (top is None or 0 <= offset(top) <= 11):
        return False
    # only the placement of that one note may differ from the prediction
    rest = lambda l: [x for x in l if x[0] != it[1]]
    return rest(after) == rest(spec_add(before, it))

KNOWN = {"C12-bare-name-voicing": _voicing}
