"""Shared by C16/C17: an independent Standard MIDI File reader (written from the SMF 1.0 specification, not from
mingus), builders from protocol payloads to real mingus objects, the independent denotation of a payload (what music
was written), and structured generators of compositions."""
import os, shutil, tempfile
from fractions import Fraction as F

# ------------------------------------------------------------------ independent SMF reader

class SMFError(Exception):
    pass

def std_vlq(n):
    """the standard encoding, written from the specification"""
    out = [n & 0x7F]
    n >>= 7
    while n:
        out.insert(0, (n & 0x7F) | 0x80)
        n >>= 7
    return out

def read_vlq(data, pos, end):
    val = 0
    for k in range(4):
        if pos >= end:
            raise SMFError("variable-length quantity runs past the chunk at byte %d" % pos)
        b = data[pos]; pos += 1
        val = (val << 7) | (b & 0x7F)
        if not b & 0x80:
            if k > 0 and std_vlq(val) != list(data[pos - k - 1:pos]):
                raise SMFError("non-minimal variable-length quantity at byte %d" % (pos - k - 1))
            return val, pos
    raise SMFError("variable-length quantity longer than four bytes at byte %d" % pos)

META_LEN = {0x2F: 0, 0x51: 3, 0x58: 4, 0x59: 2}

def smf_parse(data):
    """-> dict(format, ntracks, division, tracks=[[event dict with 'tick', 'delta', 'kind', ...]])"""
    data = bytes(data)
    if data[:4] != b"MThd":
        raise SMFError("no MThd tag")
    if len(data) < 14:
        raise SMFError("header truncated")
    hlen = int.from_bytes(data[4:8], "big")
    if hlen != 6:
        raise SMFError("header length %d, not 6" % hlen)
    fmt = int.from_bytes(data[8:10], "big")
    ntr = int.from_bytes(data[10:12], "big")
    div = int.from_bytes(data[12:14], "big")
    pos = 14
    tracks = []
    while pos < len(data):
        if data[pos:pos + 4] != b"MTrk":
            raise SMFError("no MTrk tag at byte %d" % pos)
        if pos + 8 > len(data):
            raise SMFError("chunk header truncated at byte %d" % pos)
        clen = int.from_bytes(data[pos + 4:pos + 8], "big")
        pos += 8
        end = pos + clen
        if end > len(data):
            raise SMFError("chunk length %d runs past the end of the file" % clen)
        evs = []
        tick = 0
        ended = False
        while pos < end:
            if ended:
                raise SMFError("bytes after end-of-track inside the chunk at byte %d" % pos)
            delta, pos = read_vlq(data, pos, end)
            tick += delta
            if pos >= end:
                raise SMFError("event missing after delta time at byte %d" % pos)
            st = data[pos]; pos += 1
            if st < 0x80:
                raise SMFError("data byte %02x where a status byte is required (no running status is written) at byte %d" % (st, pos - 1))
            if st == 0xFF:
                if pos >= end:
                    raise SMFError("meta event truncated")
                mt = data[pos]; pos += 1
                if mt >= 0x80:
                    raise SMFError("meta type %02x out of range" % mt)
                ln, pos = read_vlq(data, pos, end)
                if pos + ln > end:
                    raise SMFError("meta event data runs past the chunk at byte %d" % pos)
                d = data[pos:pos + ln]; pos += ln
                if mt in META_LEN and META_LEN[mt] != ln:
                    raise SMFError("meta event %02x has length %d, must be %d" % (mt, ln, META_LEN[mt]))
                evs.append(dict(tick=tick, delta=delta, kind="meta", type=mt, data=bytes(d)))
                if mt == 0x2F:
                    ended = True
            elif st in (0xF0, 0xF7):
                ln, pos = read_vlq(data, pos, end)
                if pos + ln > end:
                    raise SMFError("sysex runs past the chunk")
                pos += ln
                evs.append(dict(tick=tick, delta=delta, kind="sysex"))
            elif st >= 0xF0:
                raise SMFError("system status byte %02x is not allowed in a file" % st)
            else:
                k = st >> 4
                n = 1 if k in (0xC, 0xD) else 2
                if pos + n > end:
                    raise SMFError("channel event truncated at byte %d" % pos)
                ps = list(data[pos:pos + n]); pos += n
                if any(p >= 0x80 for p in ps):
                    raise SMFError("data byte with the high bit set in a channel event at byte %d" % (pos - n))
                evs.append(dict(tick=tick, delta=delta, kind="chan", type=k, ch=st & 0xF, p=ps))
        if not ended:
            raise SMFError("chunk does not end in end-of-track")
        tracks.append(evs)
    return dict(format=fmt, ntracks=ntr, division=div, tracks=tracks)

# ------------------------------------------------------------------ payload -> mingus objects

class HarnessError(Exception):
    pass

def mk_note(n):
    from mingus.containers import Note
    return Note(n[0], n[1], velocity=n[3], channel=n[2])

def mk_nc(ns):
    from mingus.containers import NoteContainer
    nc = NoteContainer()
    for n in ns:
        nc.add_note(mk_note(n))
    return nc

def nc_as_list(nc):
    return [[n.name, n.octave, n.channel, n.velocity] for n in nc]

def mk_bar(b):
    from mingus.containers import Bar
    key, count, unit, entries = b
    bar = Bar(key, (count, unit))
    for e in entries:
        v, ns = e[0], e[1]
        nc = None if ns is None else mk_nc(ns)
        if len(e) > 2 and nc is not None:
            nc.bpm = e[2]                      # a tempo-changing container (sequencer)
        ok = bar.place_rest(v) if nc is None else bar.place_notes(nc, v)
        if not ok:
            # the generator only produces fills that fit; whatever the bar thinks, the writer is given these entries
            bar.bar.append([bar.current_beat, v, nc])
    return bar

def mk_track(t):
    from mingus.containers import Track
    from mingus.containers.instrument import MidiInstrument
    name, instr, bars = t
    tr = Track()
    tr.name = name
    if instr is not None:
        i = MidiInstrument()
        i.instrument_nr = instr
        tr.instrument = i
    # a bar that occurs again in the same track is added as THE SAME Bar object (a user repeating a bar does exactly that):
    # every exporter must treat it as it treats an equal copy
    made = {}
    for b in bars:
        k = repr(b)
        if k not in made:
            made[k] = mk_bar(b)
        tr.add_bar(made[k])
    return tr

def mk_composition(ts):
    from mingus.containers import Composition
    c = Composition()
    for t in ts:
        c.add_track(mk_track(t))
    return c

def write_bytes(kind, payload, bpm, rep):
    from mingus.midi import midi_file_out as out
    d = tempfile.mkdtemp(prefix="mingus_verif_")
    try:
        p = os.path.join(d, "x.mid")
        with open(p, "wb") as f:          # writing REPLACES whatever the path held: a longer file is there already
            f.write(b"MThd" + bytes([0xAB]) * 6000)
        if kind == "note":
            ok = out.write_Note(p, mk_note(payload), bpm, rep)
        elif kind == "nc":
            ok = out.write_NoteContainer(p, mk_nc(payload), bpm, rep)
        elif kind == "bar":
            ok = out.write_Bar(p, mk_bar(payload), bpm, rep)
        elif kind == "track":
            ok = out.write_Track(p, mk_track(payload), bpm, rep)
        elif kind == "track_ctor":
            # what write_Track does, by hand, the filled MidiTrack HANDED TO THE CONSTRUCTOR: MidiFile(tracks) writes those tracks
            from mingus.midi.midi_track import MidiTrack
            t = MidiTrack(bpm)
            tr = mk_track(payload)
            for _ in range(rep + 1):
                t.play_Track(tr)
            ok = out.MidiFile([t]).write_file(p)
        else:
            ok = out.write_Composition(p, mk_composition(payload), bpm, rep)
        if not ok:
            raise HarnessError("write returned False")
        with open(p, "rb") as f:
            return list(f.read())
    finally:
        shutil.rmtree(d, ignore_errors=True)

# ------------------------------------------------------------------ independent denotation

NAT = {"C": 0, "D": 2, "E": 4, "F": 5, "G": 7, "A": 9, "B": 11}
def pitch(n):
    return n[1] * 12 + NAT[n[0][0]] + n[0].count("#") - n[0].count("b")

MAJOR_SF = {"C": 0, "G": 1, "D": 2, "A": 3, "E": 4, "B": 5, "F#": 6, "C#": 7,
            "F": -1, "Bb": -2, "Eb": -3, "Ab": -4, "Db": -5, "Gb": -6, "Cb": -7}
MINOR_SF = {"a": 0, "e": 1, "b": 2, "f#": 3, "c#": 4, "g#": 5, "d#": 6, "a#": 7,
            "d": -1, "g": -2, "c": -3, "f": -4, "bb": -5, "eb": -6, "ab": -7}
ALL_KEYS = list(MAJOR_SF) + list(MINOR_SF)

def key_sig(k):
    return (MAJOR_SF[k], 0) if k in MAJOR_SF else (MINOR_SF[k], 1)

def tick_of(v):
    return round(F(288) / F(v))          # Fraction.__round__ is ties-to-even, like float round

def is_whole_ticks(v):
    q = F(288) / F(v)
    return abs(q - round(q)) < F(1, 10 ** 9)

def denote_track(kind, payload, rep):
    """-> dict(ons, offs, names, sigs, program, flat) in absolute ticks; `flat` is the C17 view:
    [(ticks, frozenset of (pitch, ch, vel))] per entry, rests as empty sets"""
    ons, offs, names, sigs, flat, tempos = [], [], [], [], [], []
    t = 0
    first_ch = None
    for _ in range(rep + 1):
        if kind in ("note", "nc"):
            ns = [payload] if kind == "note" else payload
            for n in ns:
                ons.append((t, n[2], pitch(n) + 12, n[3]))
                offs.append((t + 72, n[2], pitch(n) + 12, n[3]))
            if ns:
                t += 72
            continue
        bars = [payload] if kind == "bar" else payload[2]
        if kind != "bar":
            names.append(payload[0])
        for key, count, unit, entries in bars:
            sigs.append((count, unit.bit_length() - 1) + key_sig(key))
            for e_ in entries:
                v, ns = e_[0], e_[1]
                d = tick_of(v)
                if len(e_) > 2 and ns:
                    tempos.append((t, 60000000 // e_[2]))      # a container carrying a bpm attribute: tempo change where it starts
                flat.append((d, frozenset((pitch(n) + 12, n[2], n[3]) for n in (ns or []))))
                for n in ns or []:
                    if first_ch is None:
                        first_ch = n[2]
                    ons.append((t, n[2], pitch(n) + 12, n[3]))
                    offs.append((t + d, n[2], pitch(n) + 12, n[3]))
                t += d
    instr = payload[1] if kind not in ("note", "nc", "bar") else None
    return dict(ons=sorted(ons), offs=sorted(offs), names=names, sigs=sigs,
                program=None if instr is None or first_ch is None else (first_ch, instr), flat=flat, tempos=tempos,
                passes=rep + 1)

# ------------------------------------------------------------------ generators

NAMES = ["C", "C#", "Db", "D", "Eb", "E", "F", "F#", "G", "Ab", "A", "Bb", "B", "Cb", "B#", "E#", "Fb", "C##", "Dbb"]
INT_VALUES = [1, 2, 4, 8, 16, 32, 64, 128]
ROUNDING_VALUES = [3, 5, 6, 7, 9, 10, 12, 24, 48, 96, 192, 4 / 1.5, 8 / 1.5, 16 / 1.5, 4 / 1.75, 2 / 1.5, 11, 13, 100, 144, 288]
METERS = [(4, 4), (3, 4), (2, 4), (6, 8), (12, 8), (7, 8), (2, 2), (5, 4), (9, 8), (1, 1), (3, 2), (15, 16), (1, 128), (255, 4), (4, 1)]

def rand_note(rng, ch=None, in_range=True):
    name = rng.choice(NAMES)
    octv = rng.randint(0, 8)
    return [name, octv, rng.randint(0, 15) if ch is None else ch, rng.choice([0, 1, 40, 64, 100, 127, rng.randint(0, 127)])]

def rand_chord(rng, size, vel_min=0):
    """sorted by pitch (the order a NoteContainer keeps), no two notes on the same channel and pitch"""
    out, seen = [], set()
    tries = 0
    while len(out) < size and tries < 50:
        tries += 1
        n = rand_note(rng)
        if n[3] < vel_min:
            n[3] = vel_min
        key = pitch(n)
        if key in seen or (n[0], n[1]) in [(m[0], m[1]) for m in out]:
            continue
        seen.add(key)
        out.append(n)
    out.sort(key=pitch)
    return out

def rand_bar(rng, values, key=None, meter=None, rest_p=0.25, max_chord=4, vel_min=0, whole_ticks=False):
    key = key or rng.choice(ALL_KEYS)
    count, unit = meter or rng.choice(METERS[:12])
    length = F(count, unit)
    entries, total = [], F(0)
    for _ in range(rng.randint(0, 10)):
        v = rng.choice(values)
        if whole_ticks and not is_whole_ticks(v):
            continue
        dur = 1 / F(v)
        dy = (F(v).denominator == 1 and (int(v) & (int(v) - 1)) == 0)
        if total + dur > length - (0 if dy and all(e[2] for e in entries) else F(1, 500)):
            continue
        total += dur
        r = rng.random()
        if r < rest_p:
            ns = None if rng.random() < 0.7 else []
        else:
            ns = rand_chord(rng, rng.choice([1, 1, 1, 2, 3, max_chord]), vel_min)
        entries.append([v, ns, dy])
    return [key, count, unit, [[v, ns] for v, ns, _ in entries]]

def rand_track(rng, values, **kw):
    name = rng.choice(["Untitled", "", "lead", "a track with a longer name, 0123456789 !?", "x" * rng.choice([1, 127, 128, 200])])
    instr = rng.choice([None, None, 0, 1, 42, 127, rng.randint(0, 127)])
    key = rng.choice(ALL_KEYS) if kw.pop("one_key", False) else None
    meter = rng.choice(METERS[:9]) if kw.pop("one_meter", False) else None
    return [name, instr, [rand_bar(rng, values, key=key, meter=meter, **kw) for _ in range(rng.randint(0, 4))]]
