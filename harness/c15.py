"""C15 correspondence + oracle (no hidden shared state: memo tables, arguments, instances, fft position memory)."""
import copy, inspect, json, os, subprocess, sys, warnings, importlib
warnings.filterwarnings("ignore")
from fractions import Fraction as F
from tools.framework import Case, Err, err_of, REPO
from harness.common import *
from harness.c04 import ALL as KEYS

ID = "C15"
LEAN_MODULES = ["Mingus.Props.C15", "Mingus.Props.C15Fft", "Mingus.Tie.C15"]
RULE = ("seeded random call histories, each on freshly re-executed theory modules (<=60 calls, a third of them mutations of previously returned lists) over the memoised theory "
        "API, compared call by call with the heap model and, after the history, a fixed battery of ~200 queries compared with a "
        "cold interpreter (subprocess); every public function of the seven core modules and the container methods that take "
        "lists, enumerated by introspection, called on deep-copied arguments that are compared afterwards; sibling-instance "
        "scripts for Note, NoteContainer, Bar, Track, Composition, Suite, MidiFile, MidiTrack, Sequencer; copies of notes and "
        "containers; frequency lookups in seeded random order incl. the bins around the end of the table, against a freshly "
        "imported module")
EXHAUSTIVE = {"quick": False, "thorough": False}

from mingus.core import keys, chords, progressions, intervals, notes, scales, value, meter
from mingus.containers import Note, NoteContainer, Bar, Track, Composition, Suite
from mingus.midi import midi_track, midi_file_out, sequencer
from mingus.extra import fft

FUNCS = ["tonic", "supertonic", "mediant", "subdominant", "dominant", "submediant", "subtonic", "tonic7", "dominant7", "I", "ii", "V7", "vii7", "VII7"]

def battery():
    out = []
    # FIRST (so that the cold interpreter answers them with empty memo tables): chords built on ANY note in a key, also
    # notes outside the key - must not depend on what was computed before
    for k in ("C", "Eb", "f#", "a", "G", "Bb"):
        for n in [l + a for l in "CDEFGAB" for a in ("", "#", "b")]:
            for f in ("triad", "seventh"):
                try:
                    out.append((f, n, k, getattr(chords, f)(n, k)))
                except Exception as e:
                    out.append((f, n, k, "raised " + type(e).__name__))
    for k in KEYS:
        out.append(("get_notes", k, keys.get_notes(k)))
        out.append(("triads", k, chords.triads(k)))
        out.append(("sevenths", k, chords.sevenths(k)))
        out.append(("accidentals", k, keys.get_key_signature_accidentals(k)))
    for k in ("C", "Eb", "f#"):
        for f in FUNCS:
            out.append(("func", f, k, getattr(chords, f)(k)))
        for n in ("I", "ii7", "bVII", "V7", "IVM7"):
            out.append(("to_chords", n, k, progressions.to_chords([n], k)))
        for n in "CDEFGAB":
            out.append(("third", n, k, intervals.third(n, k)))
    out.append(("scale", scales.Major("Eb").ascending(), scales.MelodicMinor("A").descending()))
    out.append(("shorthand", chords.from_shorthand("Am7|G"), chords.determine(["C", "E", "G", "B"])))
    return json.loads(json.dumps(out))

_cold = None
def cold_battery():
    global _cold
    if _cold is None:
        code = ("import sys, json; sys.path.insert(0, %r); sys.path.insert(0, %r); import warnings; warnings.filterwarnings('ignore'); "
                "from harness import c15; print(json.dumps(c15.battery()))" % (REPO, os.path.dirname(os.path.dirname(os.path.abspath(__file__)))))
        p = subprocess.run([sys.executable, "-c", code], capture_output=True, text=True)
        _cold = json.loads(p.stdout.strip().splitlines()[-1])
    return _cold

def enc_any(r):
    return "!" + r.name if isinstance(r, Err) else json.dumps(r)

def cold_modules():
    """every history starts on freshly executed theory modules (whatever memo tables they keep are empty again): a table that
    leaks only on a miss is then exposed by every history, not just by the first one of the process"""
    for m in (notes, keys, intervals, chords, progressions, scales):
        importlib.reload(m)

def run_memo(calls):
    """execute the history on cold module state; mutate the real returned objects"""
    cold_modules()
    handed = []
    out = []
    for c in calls:
        try:
            if c[0] == "q":
                a = c[1]
                if a == "get_notes":
                    r = keys.get_notes(c[2]); handed.append([r]); out.append([list(r)])
                elif a == "triads":
                    r = chords.triads(c[2]); handed.append(r); out.append(copy.deepcopy(r))
                elif a == "sevenths":
                    r = chords.sevenths(c[2]); handed.append(r); out.append(copy.deepcopy(r))
                elif a == "func":
                    r = getattr(chords, c[2])(c[3]); handed.append([r]); out.append([list(r)])
                elif a == "to_chords":
                    r = progressions.to_chords([c[2]], c[3]); handed.append(r); out.append(copy.deepcopy(r))
            elif c[0] == "append":
                if c[1] < len(handed) and c[2] < len(handed[c[1]]):
                    handed[c[1]][c[2]].append(c[3])
                out.append([])
            elif c[0] == "set":
                if c[1] < len(handed) and c[2] < len(handed[c[1]]) and c[3] < len(handed[c[1]][c[2]]):
                    handed[c[1]][c[2]][c[3]] = c[4]
                out.append([])
            elif c[0] == "droprow":
                if c[1] < len(handed) and handed[c[1]]:
                    del handed[c[1]][0]
                out.append([])
        except Exception as e:
            out.append(err_of(e))
    return out

def memo_then_battery(calls):
    run_memo(calls)
    return battery() == cold_battery()

def public_functions():
    for mod in (notes, keys, intervals, chords, progressions, scales, value):
        for name, f in sorted(vars(mod).items()):
            if inspect.isfunction(f) and f.__module__ == mod.__name__ and not name.startswith("_"):
                yield mod.__name__.split(".")[-1] + "." + name, f

ARGSETS = [
    (["C", "E", "G"],), (["C", "E", "G", "B"],), (["C", "E", "G", "B", "D"],), ("C",), ("C", "E"), ("C", "3"), ("C", "E", True),
    (["I", "IV", "V7"], 0), (["I", "IV", "V7"], 1, True), (["IIm", "Vdim7", "I"], 1), (["I", "bVIIM7"], "C"), ("Am7",), (["Am7", "C"],),
    (["C", "E", "G"], "C"), (["C", "E", "G"], True), (["C", "E", "G"], "C", True), (4,), (4, 2), (3, "b"), ((6, 8),), (["C", "G"],),
    ("I", "C"), (["A", "Bb", "E", "F#", "G"],), (["E", "G", "C"], False, True), (["C#"],), ([],), (["C#"], True), (["G", "B"], True),
    ("NC",), ("N.C.",), (["NC", "C", "N.C."],), ("",), ("C/E",), ("Dm|G",),
]
# every list length the recognisers take, with every combination of their flags (shorthand, no_inversion, no_polychords): a
# function that rotates or trims the caller's list does so only on some paths
for _l in (["C", "E"], ["E", "G", "C"], ["C", "E", "G", "B"], ["E", "G", "B", "C"], ["C", "E", "G", "B", "D"], ["C", "E", "G", "Bb", "D", "F"],
           ["C", "E", "G", "Bb", "D", "F", "A"], ["C", "Eb", "Gb", "A"]):
    for _fl in ((), (True,), (False, True), (True, True), (False, False, True), (True, True, True), (False, True, True)):
        ARGSETS.append((_l,) + _fl)

def arg_aliasing(fname):
    f = dict(public_functions())[fname]
    changed = []
    for args in ARGSETS:
        a = copy.deepcopy(args)
        try:
            r = f(*a)
        except Exception:
            continue
        if a != copy.deepcopy(args):
            changed.append(repr(args))
            continue
        # (a result that IS the caller's own list - determine(['C#']) today - is not something the statement forbids: it
        #  speaks of arguments modified by the call and of later calls changed by modifying a result)
        # modifying the result must not change a later identical call
        try:
            if isinstance(r, list):
                before = copy.deepcopy(r)
                r.append("Z")
                if r and isinstance(r[0], list):
                    r[0].append("Z")
                r2 = f(*copy.deepcopy(args))
                if r2 != before:
                    changed.append("result of %r" % (args,))
        except Exception:
            pass
    return changed

def method_aliasing():
    bad = []
    l = ["C", "E", "G"]; a = list(l); NoteContainer(a); NoteContainer().add_notes(a)
    if a != l: bad.append("NoteContainer(list)")
    l2 = [["C", 4], ["E", 5]]; b = copy.deepcopy(l2); NoteContainer(b)
    if b != l2: bad.append("NoteContainer(list of pairs)")
    c = ["C", "E"]; d = list(c); Bar().place_notes(d, 4)
    if d != c: bad.append("Bar.place_notes(list)")
    e = ["C", None, ["Am", "F"]]; g = copy.deepcopy(e); Track().from_chords(g)
    if g != e: bad.append("Track.from_chords(list)")
    h = ["C", "E"]; i = list(h); bb = Bar(); bb.place_notes("C", 4); bb[0] = i
    if i != h: bad.append("Bar.__setitem__(list)")
    nc = NoteContainer(["C", "E"]); m = ["G", "B"]; n = list(m); nc + n; nc - n
    if n != m: bad.append("NoteContainer +/- list")
    # comparing containers: neither side is reordered or otherwise changed
    lst = [Note("G", 4), Note("C", 4), Note("E", 4)]; keep = [(n.name, n.octave) for n in lst]
    NoteContainer(["C", "E", "G"]) == lst; NoteContainer(["C", "E", "G"]) != lst
    if [(n.name, n.octave) for n in lst] != keep: bad.append("NoteContainer == list of notes (the list was reordered)")
    other = NoteContainer(["C", "E"]); other.notes.append(Note("A", 2)); keep = [(n.name, n.octave) for n in other.notes]
    NoteContainer(["C", "E", "A"]) == other
    if [(n.name, n.octave) for n in other.notes] != keep: bad.append("NoteContainer == container (the other container was reordered)")
    b1, b2 = Bar(), Bar(); b1.place_notes(["C", "E"], 4); b2.place_notes(["C", "E"], 4); b2.bar[0][2].notes.reverse()
    keep = [(n.name, n.octave) for n in b2.bar[0][2].notes]; b1 == b2
    if [(n.name, n.octave) for n in b2.bar[0][2].notes] != keep: bad.append("Bar == Bar (a container of the other bar was reordered)")
    # a tuning hands out fresh notes: what the caller does to them does not retune the instrument or a sibling result
    from mingus.extra import tunings as _tun
    tn = _tun.StringTuning("x", "y", ["E-2", "A-2", "D-3"])
    before = [str(tn.get_Note(i, 0)) for i in range(3)]
    n0 = tn.get_Note(1, 0); n0.transpose("3"); n0.octave_up()
    c1 = tn.frets_to_NoteContainer([0, 0, 2]); c2 = tn.frets_to_NoteContainer([0, 0, 2])
    c1.transpose("5")
    if [str(tn.get_Note(i, 0)) for i in range(3)] != before: bad.append("StringTuning.get_Note(open string) hands out the tuning's own note")
    if [str(n) for n in c2] != [str(n) for n in tn.frets_to_NoteContainer([0, 0, 2])]: bad.append("frets_to_NoteContainer: two results share notes")
    # a tuning built from the caller's Note objects (plain strings and courses) copies them: what the caller does to his notes
    # afterwards does not retune the instrument, and two tunings built from the same notes do not share them
    from mingus.containers import Note as _N
    mine = [_N("E", 2), _N("A", 2), _N("D", 3)]
    pair = [_N("G", 3), _N("G", 4)]
    ta = _tun.StringTuning("x", "y", mine); tb_ = _tun.StringTuning("x", "z", mine); tc = _tun.StringTuning("x", "c", [pair, pair])
    before = [str(ta.get_Note(i, 0)) for i in range(3)]; before_c = [[str(n) for n in crs] for crs in tc.tuning]
    mine[0].transpose("3"); mine[1].octave_up(); pair[0].octave_down()
    if [str(ta.get_Note(i, 0)) for i in range(3)] != before: bad.append("StringTuning(list of Note objects) keeps the caller's notes: changing them afterwards retunes the instrument")
    if [[str(n) for n in crs] for crs in tc.tuning] != before_c: bad.append("StringTuning(courses of Note objects) keeps the caller's notes")
    ta.tuning[2].octave_up()
    if str(tb_.get_Note(2, 0)) != "'D-3'" and str(tb_.get_Note(2, 0)) != before[2]: bad.append("two tunings built from the same notes share them")
    # the list of excluded strings handed to a fingering search: unchanged whether the search succeeds or gives up with an error
    gt = _tun.get_tuning("guitar", "standard")
    for notes_, ex in ((["E-3", "A-3"], [0]), (["E-3", "A-3", "D-4"], []), (["E-3", "A-3", "H-3"], [0]), (["E-3", "A-3", None], [5]),
                       (["E-3", "A-3", "D-4", "Q-1"], [])):
        keep = list(ex)
        try:
            gt.find_fingering(notes_, 4, ex)
        except Exception:
            pass
        if ex != keep: bad.append("StringTuning.find_fingering(%r, 4, not_strings=%r) left the caller's list as %r" % (notes_, keep, ex))
    # a container placed on an entry that holds nothing yet (an empty container) in two bars: the bars, and the caller's
    # container, stay independent, as they do when the entry already holds notes
    for first in ([], ["A"]):
        ba, bb_ = Bar(), Bar(); ba.place_notes(list(first), 4); bb_.place_notes(list(first), 4)
        chord = NoteContainer(["C", "E", "G"])
        ba.place_notes_at(chord, 0.0); bb_.place_notes_at(chord, 0.0)
        keep_b = [(n.name, n.octave) for n in bb_[0][2]]
        ba.transpose("3"); ba[0][2].add_note("B", 6)
        if [(n.name, n.octave) for n in chord] != [("C", 4), ("E", 4), ("G", 4)]:
            bad.append("Bar.place_notes_at(container) on an entry holding %r: changing the bar changed the caller's container" % first)
        if [(n.name, n.octave) for n in bb_[0][2]] != keep_b:
            bad.append("Bar.place_notes_at(container) on an entry holding %r in two bars: changing one bar changed the other" % first)
        chord.add_note("D", 7)
        if [(n.name, n.octave) for n in bb_[0][2]] != keep_b:
            bad.append("Bar.place_notes_at(container) on an entry holding %r: a later change of the caller's container reached the bar" % first)
    # the channel list handed to play_Composition (too short, exactly right) and the meter handed to a bar as a LIST
    for chans in ([9], [3, 4], [1, 2, 3]):
        seq = sequencer.Sequencer(); comp = Composition()
        for _ in range(3):
            tr = Track(); tr.add_notes("C", 4); comp.add_track(tr)
        keep = list(chans)
        try:
            seq.play_Composition(comp, chans, 6000)
        except Exception:
            pass
        if chans != keep: bad.append("Sequencer.play_Composition(channels=%s) changed the caller's list to %s" % (keep, chans))
    # the instruments of the tracks that were played: name, number and range as before
    from mingus.containers.instrument import MidiInstrument as _MI
    for nm_, nr_ in (("Vibraphone", 13), ("Acoustic Grand Piano", 5), ("no such instrument", 40)):
        seq = sequencer.Sequencer(); comp = Composition()
        tr = Track(); ins = _MI(); ins.name = nm_; ins.instrument_nr = nr_; tr.instrument = ins
        tr.add_notes("C", 4); comp.add_track(tr)
        try:
            seq.play_Composition(comp, [1], 6000)
            seq.play_Tracks([tr], [2], 6000)
        except Exception:
            pass
        if (ins.name, ins.instrument_nr) != (nm_, nr_):
            bad.append("Sequencer.play_Composition / play_Tracks changed the track's instrument from %r to %r" % ((nm_, nr_), (ins.name, ins.instrument_nr)))
    m = [3, 4]; bm = Bar("C", m); m[0] = 7; m.append(1)
    if tuple(bm.meter) != (3, 4) or bm.length != 0.75: bad.append("Bar(key, meter list): the bar follows later changes of the caller's list")
    m2 = [6, 8]; b2 = Bar(); b2.set_meter(m2); m2[1] = 4
    if tuple(b2.meter) != (6, 8): bad.append("Bar.set_meter(list): the bar follows later changes of the caller's list")
    # dictionaries handed to a call
    for kw in ({}, {"velocity": 90}, {"channel": 5}, {"velocity": 1, "channel": 2}):
        d = {"velocity": 70, "channel": 3}; d0 = dict(d)
        Note("C", 4, d, **kw)
        if d != d0: bad.append("Note(name, octave, dynamics dict, %s)" % sorted(kw))
        d = {"velocity": 70}; d0 = dict(d)
        x = Note("E", 4); x.set_note("G", 5, d, **kw) if kw else x.set_note("G", 5, d)
        if d != d0: bad.append("Note.set_note(name, octave, dynamics dict, %s)" % sorted(kw))
    # the track list handed to a MIDI file object
    for setter in ("ctor", "attr"):
        a, b, c_ = midi_track.MidiTrack(), midi_track.MidiTrack(), midi_track.MidiTrack()
        a.play_Note(Note("C")); c_.play_Note(Note("E"))
        b.reset() if hasattr(b, "reset") else None
        lst = [a, b, c_]; keep = list(lst)
        keep_data = [bytes(t_.track_data) for t_ in lst]
        mf = midi_file_out.MidiFile(lst) if setter == "ctor" else midi_file_out.MidiFile()
        if [bytes(t_.track_data) for t_ in lst] != keep_data and setter == "ctor":
            bad.append("MidiFile(tracks): building the file object changed what the caller's tracks hold")
        if setter == "attr": mf.tracks = lst
        try:
            mf.get_midi_data()
        except Exception:
            pass
        if lst != keep: bad.append("MidiFile(%s).get_midi_data() changed the caller's track list (%d of %d left)" % (setter, len(lst), len(keep)))
    # sample lists handed to the frequency analysis
    import math
    data = [int(8000 * math.sin(2 * math.pi * 440 * i / 44100.0)) for i in range(2048)]
    keep = list(data)
    r1 = [str(a) for a in fft.analyze_chunks(data, 44100, 16, 512)]
    if data != keep: bad.append("fft.analyze_chunks(list of samples)")
    r2 = [str(a) for a in fft.analyze_chunks(list(keep), 44100, 16, 512)]
    if r1 != r2: bad.append("fft.analyze_chunks: the same samples analysed twice give other notes")
    d2 = list(keep); fft.find_frequencies(d2, 44100, 16); fft.find_notes(fft.find_frequencies(d2, 44100, 16), 60)
    if d2 != keep: bad.append("fft.find_frequencies(list of samples)")
    return bad

def siblings():
    bad = []
    a, b = NoteContainer(), NoteContainer(); a.add_note("C")
    if len(b) != 0 or NoteContainer.notes != []: bad.append("NoteContainer")
    a, b = Bar(), Bar(); a.place_notes("C", 4); a.set_meter((3, 4))
    if len(b) != 0 or b.meter != (4, 4) or b.current_beat != 0 or Bar.bar != []: bad.append("Bar")
    a, b = Track(), Track(); a.add_notes("C"); a.name = "x"
    if len(b) != 0 or b.name != "Untitled" or Track.bars != []: bad.append("Track")
    a, b = Composition(), Composition(); a.add_track(Track()); a.set_title("t")
    if len(b) != 0 or b.title != "Untitled" or b.selected_tracks != [] or Composition.tracks != []: bad.append("Composition")
    a, b = Suite(), Suite(); a.add_composition(Composition()); a.set_title("s")
    if len(b) != 0 or b.title != "Untitled" or Suite.compositions != []: bad.append("Suite")
    a, b = Note("C"), Note("C"); a.augment(); a.set_velocity(3); a.set_channel(9)
    if (b.name, b.velocity, b.channel) != ("C", 64, 1) or Note("E").velocity != 64: bad.append("Note")
    a, b = midi_track.MidiTrack(), midi_track.MidiTrack(); a.play_Note(Note("C")); a.set_deltatime(5)
    fresh = midi_track.MidiTrack()
    if b.track_data != fresh.track_data or b.delta_time != b"\x00" or fresh.delta_time != b"\x00" or a.track_data == fresh.track_data: bad.append("MidiTrack")
    a, b = midi_file_out.MidiFile(), midi_file_out.MidiFile(); a.tracks.append(midi_track.MidiTrack())
    if len(b.tracks) != 0 or midi_file_out.MidiFile.tracks != []: bad.append("MidiFile")
    a, b = sequencer.Sequencer(), sequencer.Sequencer(); a.attach(object())
    if len(b.listeners) != 0: bad.append("Sequencer")
    Note("C", 4, velocity=101, channel=9); Note("G", 5, dynamics={"velocity": 7})
    d = Note("E")
    if (d.velocity, d.channel) != (64, 1): bad.append("Note() after Note(velocity=..., channel=...)")
    NoteContainer(["C", "E"]); Bar("Eb", (3, 4)); Track(Note)
    if len(NoteContainer()) != 0 or Bar().meter != (4, 4) or Bar().key.key != "C" or Track().instrument is not None: bad.append("constructor defaults")
    n = Note("C", 4, velocity=90); m = Note(n); m.augment(); m.set_velocity(10)
    if (n.name, n.velocity) != ("C", 90): bad.append("Note(note)")
    x = NoteContainer(["C", "E"]); y = NoteContainer(x); y.transpose("3"); y.add_note("B")
    if [str(z) for z in x] != ["'C-4'", "'E-4'"]: bad.append("NoteContainer(container)")
    return bad

def midi_order():
    """two MIDI tracks written one after the other, in both orders, each order on freshly executed modules: what a track
    writes must not depend on which other track was written before it"""
    def track_a(mt):
        t = mt.MidiTrack()
        b1 = Bar("C", (4, 4)); b1.place_notes("C", 2); b1.place_rest(2)            # ends in a rest: carried over the bar line
        b2 = Bar("C", (3, 4)); b2.place_notes("E", 4); b2.place_rest(2)
        b3 = Bar("G", (6, 8)); b3.place_notes("G", 8)
        for b in (b1, b2, b3):
            t.play_Bar(b)
        return bytes(t.track_data)
    def track_b(mt):
        t = mt.MidiTrack()
        b1 = Bar("C", (3, 4)); b1.place_notes("A", 4); b1.place_notes("B", 2)
        b2 = Bar("G", (6, 8)); b2.place_rest(8); b2.place_notes("D", 8)
        b3 = Bar("C", (4, 4)); b3.place_notes("C", 1)
        for b in (b1, b2, b3):
            t.play_Bar(b)
        return bytes(t.track_data)
    bad = []
    mt = importlib.reload(midi_track); a1 = track_a(mt); b1 = track_b(mt)
    mt = importlib.reload(midi_track); b2 = track_b(mt); a2 = track_a(mt); a3 = track_a(mt)
    if a1 != a2: bad.append("a track ending bars in rests writes other bytes after another track has been written")
    if b1 != b2: bad.append("a track writes other bytes after a track with carried-over rests has been written")
    if a2 != a3: bad.append("the same music written twice gives other bytes the second time")
    return bad

def midi_comp():
    """a composition of several tracks written to a file: every track chunk is what that track gives when written alone"""
    import tempfile
    def chunks(path):
        data = open(path, "rb").read()
        out, i = [], 14
        while i + 8 <= len(data):
            n = int.from_bytes(data[i + 4:i + 8], "big")
            out.append(data[i:i + 8 + n]); i += 8 + n
        return out
    def mk(k):
        t = Track()
        for j, nm in enumerate(["C", "E", "G", "B"][k:] + ["D"] * k):
            t.add_notes(Note(nm, 3 + k), [4, 8, 2][j % 3])
        t.name = "track %d" % k
        return t
    bad = []
    # (other histories of this harness re-execute the theory modules; the MIDI modules hold classes imported from them, so
    #  they are re-executed too before they are used)
    importlib.reload(midi_track); mfo = importlib.reload(midi_file_out)
    d = tempfile.mkdtemp(prefix="verif_c15_")
    try:
        for n in (2, 3):
            comp = Composition()
            for k in range(n):
                comp.add_track(mk(k))
            p = os.path.join(d, "all.mid")
            mfo.write_Composition(p, comp, 120, 0)
            got = chunks(p)
            if len(got) != n:
                bad.append("%d track chunks for %d tracks" % (len(got), n)); continue
            for k in range(n):
                one = Composition(); one.add_track(mk(k))
                q = os.path.join(d, "one.mid")
                mfo.write_Composition(q, one, 120, 0)
                alone = chunks(q)
                if len(alone) != 1 or alone[0] != got[k]:
                    bad.append("track %d of %d: its chunk differs from the same track written alone (%d bytes, alone %d)" %
                               (k, n, len(got[k]), len(alone[0]) if alone else -1))
    finally:
        import shutil
        shutil.rmtree(d, ignore_errors=True)
    return bad

def inst_script(cls_name, ops):
    cls = {"NoteContainer": NoteContainer, "Bar": Bar, "Track": Track, "Composition": Composition, "Suite": Suite}[cls_name]
    objs = []
    for op in ops:
        if op[0] == "create":
            objs.append(cls())
        elif op[1] < len(objs):
            o = objs[op[1]]
            if cls is NoteContainer: o.add_note(Note("C", len(o) + 1))
            elif cls is Bar: o.place_notes("C", 128)
            elif cls is Track: o.add_bar(Bar())
            elif cls is Composition: o.add_track(Track())
            elif cls is Suite: o.add_composition(Composition())
    field = {"NoteContainer": "notes", "Bar": "bar", "Track": "bars", "Composition": "tracks", "Suite": "compositions"}[cls_name]
    return [len(getattr(o, field)) for o in objs]

def lookups(fs):
    m = importlib.reload(fft)
    return [m._find_log_index(float(f)) for f in fs]

def lookups_cold(fs):
    out = []
    for f in fs:
        m = importlib.reload(fft)
        out.append(m._find_log_index(float(f)))
    return out

def find_notes_history(tables, max_note):
    """find_notes on several (frequency, amplitude) tables one after the other, against each table on a freshly reloaded
    module: an answer must not remember the tables seen before (result objects are also mutated after each call)"""
    warm, cold = [], []
    for tb in tables:
        t = [(float(f), float(a)) for f, a in tb]
        keep_t = list(t)
        r = fft.find_notes(t, max_note)
        if t != keep_t:
            warm.append(["find_notes changed the caller's table (order or content)"])
        warm.append([[None if n is None else int(n), F(a)] for n, a in r if a != 0])
        try:
            r[0] = ("scribble", 1e9); r.append(("scribble", 1e9))
        except Exception:
            pass
    for tb in tables:
        m = importlib.reload(fft)
        t = [(float(f), float(a)) for f, a in tb]
        cold.append([[None if n is None else int(n), F(a)] for n, a in m.find_notes(t, max_note) if a != 0])
    return [warm, cold]

TABLE = [F(x) for x in fft._log_cache]

def built_track_sharing(how, arg):
    """build a track in one call (from_chords on a chord list with repeats, add_notes of one container several times, a
    NoteContainer built from another), then change ONE entry's container in place and report every OTHER entry that changed"""
    t = Track()
    if how == "from_chords":
        t.from_chords(arg, 1)
    elif how == "same_container":
        nc = NoteContainer(arg)
        for _ in range(3):
            t.add_notes(nc, 4)
    elif how == "copied_container":
        nc = NoteContainer(arg)
        t.add_notes(nc, 4); t.add_notes(NoteContainer(nc), 4); t.add_notes(NoteContainer() + nc, 4)
    def snap():
        return [None if e[2] is None else [(n.name, n.octave) for n in e[2]] for b in t.bars for e in b.bar]
    bad = []
    entries = [e for b in t.bars for e in b.bar]
    for i, e in enumerate(entries):
        if e[2] is None:
            continue
        before = snap()
        e[2].augment()
        after = snap()
        for j in range(len(before)):
            if j != i and before[j] != after[j]:
                bad.append("changing entry %d of a track built with %s(%r) changed entry %d" % (i, how, arg, j))
        e[2].diminish()
    return bad[:3]

IMPL = {
    "alias.built": built_track_sharing,
    "alias.find_notes": find_notes_history,
    "alias.memo": run_memo,
    "alias.battery": memo_then_battery,
    "alias.args": arg_aliasing,
    "alias.methods": method_aliasing,
    "alias.siblings": siblings,
    "alias.midi_order": midi_order,
    "alias.midi_comp": midi_comp,
    "alias.inst_real": inst_script,
    "alias.lookup": lambda table, fs: lookups(fs),
    "alias.lookup_cold": lambda fs: [lookups(fs), lookups_cold(fs)],
}
MODEL = {"alias.memo", "alias.lookup"}
def has_model(c):
    return c["fn"] in MODEL

def rand_calls(rng, n):
    calls = []
    nq = 0
    for _ in range(n):
        k = rng.random()
        key = rng.choice(["C", "Eb", "f#", "a", "G", "Bb", "H", "G#", "db"]) if rng.random() < 0.7 else rng.choice(KEYS)
        if k < 0.65 or nq == 0:
            a = rng.choice(["get_notes", "triads", "sevenths", "func", "func", "to_chords"])
            if a == "func":
                calls.append(["q", "func", rng.choice(FUNCS), key])
            elif a == "to_chords":
                calls.append(["q", "to_chords", rng.choice(["I", "ii7", "bVII", "V7", "IVM7", "X"]), key])
            else:
                calls.append(["q", a, key])
            nq += 1
        elif k < 0.85:
            calls.append(["append", rng.randrange(nq), rng.randint(0, 2), "Z"])
        elif k < 0.95:
            calls.append(["set", rng.randrange(nq), rng.randint(0, 2), rng.randint(0, 3), "Q"])
        else:
            calls.append(["droprow", rng.randrange(nq)])
    return calls

def cases(tier, rng):
    for _ in range(120 if tier == "quick" else 1200):
        calls = rand_calls(rng, rng.randint(3, 60))
        yield Case("alias.memo", [calls], "memo/history", kind=("memo",))
    for _ in range(15 if tier == "quick" else 100):
        yield Case("alias.battery", [rand_calls(rng, rng.randint(10, 60))], "memo/battery", model=False, kind=("battery",))
    for name, _ in public_functions():
        yield Case("alias.args", [name], "args/" + name.split(".")[0], model=False, kind=("args",))
    for cl in (["C", "F", "G", "C"], ["Am", "Am"], ["C", ["F", "C"], None, "C"], ["Dm7", "G7", "Dm7", "G7"]):
        yield Case("alias.built", ["from_chords", cl], "instances/built-track", model=False, kind=("list",))
    yield Case("alias.built", ["copied_container", ["C", "E", "G"]], "instances/built-track", model=False, kind=("list",))
    for _ in range(10 if tier == "quick" else 100):
        tabs = []
        for _ in range(rng.randint(2, 5)):
            tabs.append([[F(rng.choice([27.5, 440.0, 441.0, 4186.0, 9000.0, 15000.0, 26000.0, 30000.0, 0.0, -3.0, 2 ** rng.uniform(4, 15)])),
                          F(rng.choice([0, 1, 2, 4, 50]))] for _ in range(rng.randint(0, 8))])
        yield Case("alias.find_notes", [tabs, rng.choice([100, 60, 128])], "lookup/find_notes", model=False, kind=("lookup_cold",))
    yield Case("alias.methods", [], "args/methods", model=False, kind=("list",))
    yield Case("alias.siblings", [], "instances/siblings", model=False, kind=("list",))
    yield Case("alias.midi_order", [], "instances/midi-order", model=False, kind=("list",))
    yield Case("alias.midi_comp", [], "instances/midi-composition", model=False, kind=("list",))
    for cls in ["NoteContainer", "Bar", "Track", "Composition", "Suite"]:
        for _ in range(10):
            ops = [["create"]] + [rng.choice([["create"], ["append", rng.randint(0, 3), "x"]]) for _ in range(rng.randint(2, 12))]
            yield Case("alias.inst_real", [cls, ops], "instances/" + cls, model=False, kind=("inst", cls))
    edge = [float(x) for x in fft._log_cache[120:]] + [24000.0, 26000.0, 27000.0, 26579.0, 30000.0, 12000.0, 8.0, 0.0, -5.0]
    for _ in range(40 if tier == "quick" else 400):
        n = rng.randint(2, 60)
        fs = [rng.choice(edge) * rng.choice([1.0, 0.999, 1.001, 1.0]) if rng.random() < 0.4 else
              (2 ** rng.uniform(3, 15)) for _ in range(n)]
        if rng.random() < 0.5:
            fs.sort()
        yield Case("alias.lookup", [TABLE, [F(f) for f in fs]], "lookup/history", kind=("lookup",))
        yield Case("alias.lookup_cold", [[F(f) for f in fs]], "lookup/cold", model=False, kind=("lookup_cold",))

def oracle(c, obs):
    kind = c["kind"][0]
    if kind == "memo":
        # every query must answer what the same query answers on a cold interpreter: compare with the first answer in
        # this history of an identical query made before any mutation, and with the cold battery where it is listed
        calls = c["args"][0]
        cold = {json.dumps(x[:-1]): x[-1] for x in cold_battery() if x[0] in ("get_notes", "triads", "sevenths")}
        for call, r in zip(calls, obs):
            if call[0] != "q":
                continue
            if call[1] in ("get_notes", "triads", "sevenths"):
                want = cold.get(json.dumps([call[1], call[2]]))
                if want is not None:
                    got = r[0] if call[1] == "get_notes" and not isinstance(r, Err) else r
                    if got != want:
                        return "a query returned a value that differs from a cold interpreter's after the preceding calls"
        # the history starts on cold modules, so the first answer to a query IS the cold answer: every later identical query
        # (valid or invalid key alike) must answer the same, whatever was called or scribbled in between
        first = {}
        for call, r in zip(calls, obs):
            if call[0] != "q":
                continue
            k = json.dumps(call)
            if k in first:
                if enc_any(r) != first[k]:
                    return "the same query answered differently later in the history (first %s, then %s)" % (first[k][:60], enc_any(r)[:60])
            else:
                first[k] = enc_any(r)
        return None
    if kind == "battery":
        return None if obs is True else "after a history of calls and mutations the query battery differs from a cold interpreter"
    if kind == "args":
        return None if obs == [] else "argument or result aliasing: %s" % obs[:3]
    if kind == "list":
        return None if obs == [] else "shared state: %s" % obs
    if kind == "inst":
        ops = c["args"][1]
        want = []
        for op in ops:
            if op[0] == "create":
                want.append(0)
            elif op[1] < len(want):
                want[op[1]] += 1
        return None if obs == want else "operating on one instance changed another"
    if kind == "lookup_cold":
        return None if obs[0] == obs[1] else "a lookup with position memory differs from the lookup on a fresh module"
    return None
