"""C19 correspondence + oracle (LilyPond and MusicXML export preserve the written music)."""
import re, warnings
warnings.filterwarnings("ignore")
from fractions import Fraction as F
from tools.framework import Case, Err
from harness.midi_common import *

ID = "C19"
LEAN_MODULES = ["Mingus.Props.C19", "Mingus.Props.C19Entry", "Mingus.Props.C19Bar", "Mingus.Props.C19Track", "Mingus.Props.C19Comp", "Mingus.Tie.C19"]
RULE = ("systematic: every name up to double accidentals x octaves 0-8 (from_Note, all four flag combinations), every value of "
        "the vocabulary (13 base values longa..128th x 0-2 dots, and x triplet/quintuplet/septuplet) as a one-entry bar, all 30 "
        "keys, 12 meters, chords of 1-5 notes, rests as None and as the empty container, empty bars, key/meter changes between "
        "bars of a track, titles/authors/names with markup characters; seeded random compositions (0-3 tracks x 0-4 bars x 0-8 "
        "entries): the LilyPond strings are compared with the Lean model character for character and decoded by an independent "
        "reader of the subset; the MusicXML string is parsed by expat (xml.etree), compared with the Lean model's element tree "
        "(ids and the date canonicalised) and judged element by element")
EXHAUSTIVE = {"quick": False, "thorough": False}
ASSUMPTIONS = ["XML text-level serialisation (escaping, attribute quoting, pretty-printing) is minidom's; it is validated per "
               "generated document by parsing the text with expat, not modelled",
               "part and instrument ids are Python object ids; they are compared after renaming by first appearance",
               "the encoding-date element (today's date) is ignored"]

# ------------------------------------------------------------------ implementation side

def mk_comp(c, share=False):
    from mingus.containers import Composition
    from mingus.containers.instrument import MidiInstrument, Instrument
    title, author, subtitle, tracks = c
    comp = Composition()
    comp.set_title(title, subtitle)
    comp.set_author(author)
    made = {}        # share: tracks that name the same instrument get THE SAME instrument object (one player, several parts)
    for t in tracks:
        tr = mk_track([t[0], None, t[2]])
        if t[1] is not None:
            kind, name, nr = t[1]
            if not share or (kind, name, nr) not in made:
                i = MidiInstrument() if kind == "midi" else Instrument()
                i.name = name
                if kind == "midi":
                    i.instrument_nr = nr
                made[(kind, name, nr)] = i
            tr.instrument = made[(kind, name, nr)]
        comp.add_track(tr)
    return comp

def ly_track(t):
    from mingus.extra import lilypond
    return lilypond.from_Track(mk_track([t[0], None, t[2]]))

def xml_tree(c, share=False):
    import xml.etree.ElementTree as ET
    from mingus.extra import musicxml
    comp = mk_comp(c, share)
    def snap():
        return [[[(e[0], e[1], None if e[2] is None else [(n.name, n.octave) for n in getattr(e[2], "notes", e[2])])
                  for e in b.bar] for b in t.bars] for t in comp.tracks]
    before = snap()
    text = musicxml.from_Composition(comp)
    if snap() != before:
        # an exporter reads the music; one that rewrites it spoils every later export of the same objects
        raise RuntimeError("the MusicXML export changed the composition it was given")
    root = ET.fromstring(text)
    ids = {}
    def rename(v, prefix):
        if v not in ids:
            ids[v] = "%s%d" % (prefix, len([k for k in ids.values() if k.startswith(prefix)]))
        return ids[v]
    def conv(e):
        attrs = []
        for k in sorted(e.attrib):
            v = e.attrib[k]
            if k == "id":
                v = rename(v, "I" if e.tag in ("score-instrument", "midi-instrument") else "P")
            attrs.append([k, v])
        text = (e.text or "").strip() if len(e) == 0 else ""
        if e.tag == "encoding-date":
            text = ""
        return [e.tag, attrs, text, [conv(ch) for ch in e]]
    raw_part_ids = [p.attrib.get("id") for p in root.iter("part")]
    raw_list_ids = [p.attrib.get("id") for p in root.iter("score-part")]
    return [conv(root), [raw_part_ids == raw_list_ids, len(set(raw_part_ids)) == len(raw_part_ids)]]

def impl_ly(fn):
    def f(*a):
        from mingus.extra import lilypond
        return getattr(lilypond, fn)(*a)
    return f

IMPL = {
    "ly.note": lambda n, po, sa: impl_ly("from_Note")(mk_note(n), po, sa),
    "ly.nc": lambda ns, d, sa: impl_ly("from_NoteContainer")(None if ns is None else mk_nc(ns), d, sa),
    "ly.bar": lambda b, sk, st: impl_ly("from_Bar")(mk_bar(b), sk, st),
    "ly.track": ly_track,
    "ly.composition": lambda c: impl_ly("from_Composition")(mk_comp(c)),
    "xml.composition": xml_tree,
    "xml.composition_shared": lambda c: xml_tree(c, True),
}

def has_model(c):
    return True

# ------------------------------------------------------------------ the value vocabulary (independent)

BASES = [F(1, 4), F(1, 2), 1, 2, 4, 8, 16, 32, 64, 128]
TUPLETS = [(3, 2), (5, 4), (7, 4)]

def vocab():
    """(float value, base, dots, actual, normal) built from the definition of dots and tuplets"""
    out = []
    for b in BASES:
        for d in (0, 1, 2):
            out.append((float(F(b) / (2 - F(1, 2 ** d))), F(b), d, 1, 1))
        if b >= 1:
            for a, n in TUPLETS:
                out.append((float(F(b) * a / n), F(b), 0, a, n))
    return out

VOCAB = vocab()

def analyse(v):
    """independent re-analysis of a value: the vocabulary entry it is (within 1e-9)"""
    for x, b, d, a, n in VOCAB:
        if abs(x - v) <= 1e-9 * max(1, abs(x)):
            return (b, d, a, n)
    return None

# values whose analysis is ambiguous between a base value and a tuplet of a longer one (3 = 2*3/2 ...) are fine: the
# vocabulary above lists every value once because base values are powers of two and tuplet values are not
assert len(set(round(x[0], 9) for x in VOCAB)) == len(VOCAB)

# ------------------------------------------------------------------ independent LilyPond-subset reader

class LyError(Exception):
    pass

NOTE_RE = re.compile(r"([a-g])((?:is|es)*)([',]*)$")
DUR_RE = re.compile(r"(.*?)(\\longa|\\breve|\d+)?(\.*)$", re.S)

def ly_pitch(tok, octaves=True):
    m = NOTE_RE.match(tok)
    if not m:
        raise LyError("not a pitch: %r" % tok)
    acc = re.findall("is|es", m.group(2))
    marks = m.group(3)
    if marks and len(set(marks)) > 1:
        raise LyError("mixed octave marks in %r" % tok)
    octave = 3 + (len(marks) if "'" in marks else -len(marks))
    return (m.group(1).upper(), "".join("#" if a == "is" else "b" for a in acc), octave)

def ly_split_dur(tok):
    m = re.match(r"^(.*?)(\\longa|\\breve|\d+)?(\.*)$", tok, re.S)
    body, base, dots = m.group(1), m.group(2), m.group(3)
    if base is None:
        if dots:
            raise LyError("dots without a duration in %r" % tok)
        return body, None
    b = F(1, 4) if base == "\\longa" else F(1, 2) if base == "\\breve" else F(int(base))
    return body, (b, len(dots))

def ly_entry(tok):
    """one entry token (note, chord or rest with optional duration) -> (notes, duration)"""
    if tok.startswith("<"):
        close = tok.index(">")
        inner = tok[1:close]
        body, dur = ly_split_dur(tok[close + 1:])
        if body:
            raise LyError("junk after chord in %r" % tok)
        return [ly_pitch(t) for t in inner.split(" ")], dur
    body, dur = ly_split_dur(tok)
    if body == "r":
        return [], dur
    return [ly_pitch(body)], dur

def ly_tokens(s):
    """LilyPond is whitespace-insensitive around braces: split them off, split on blanks, keep <...> chords together"""
    parts = re.sub(r"([{}])", r" \1 ", s).split()
    toks, i = [], 0
    while i < len(parts):
        p = parts[i]
        if p.startswith("<") and ">" not in p:
            j = i
            while ">" not in parts[j]:
                j += 1
                if j >= len(parts):
                    raise LyError("unclosed chord")
            p = " ".join(parts[i:j + 1])
            i = j
        toks.append(p)
        i += 1
    return toks

def ly_read_bar(toks, pos):
    """'{' ... '}' -> dict(time, key, entries=[(notes, base, dots, ratio)]), new position"""
    if toks[pos] != "{":
        raise LyError("bar does not open with '{' at token %d (%r)" % (pos, toks[pos]))
    pos += 1
    out = dict(time=None, key=None, entries=[])
    ratio = (1, 1)
    depth = 0
    while True:
        if pos >= len(toks):
            raise LyError("bar not closed")
        t = toks[pos]
        if t == "\\time":
            n, d = toks[pos + 1].split("/")
            out["time"] = (int(n), int(d)); pos += 2
        elif t == "\\key":
            out["key"] = (ly_pitch(toks[pos + 1])[:2], toks[pos + 2].lstrip("\\")); pos += 3
        elif t == "\\times":
            n, d = toks[pos + 1].split("/")
            if toks[pos + 2] != "{":
                raise LyError("\\times without a block")
            ratio = (int(d), int(n)); depth += 1; pos += 3          # \times 2/3 = 3 in the time of 2
        elif t == "}":
            if depth > 0:
                depth -= 1; ratio = (1, 1); pos += 1
            else:
                return out, pos + 1
        elif t == "":
            raise LyError("double space at token %d" % pos)
        else:
            notes, dur = ly_entry(t)
            if dur is None:
                raise LyError("entry without a duration: %r" % t)
            out["entries"].append((notes, dur[0], dur[1], ratio)); pos += 1

def ly_read_track(toks, pos):
    if toks[pos] != "{":
        raise LyError("track does not open with '{'")
    pos += 1
    bars = []
    while toks[pos] != "}":
        b, pos = ly_read_bar(toks, pos)
        bars.append(b)
    return bars, pos + 1

def ly_read_composition(s):
    m = re.match(r'^\\header \{ title = "(.*?)" composer = "(.*?)" opus = "(.*?)" \}( |$)', s, re.S)
    if not m:
        raise LyError("no header")
    rest = s[m.end():]
    tracks = []
    if rest:
        toks = ly_tokens(rest)
        pos = 0
        while pos < len(toks):
            t, pos = ly_read_track(toks, pos)
            tracks.append(t)
    return dict(title=m.group(1), author=m.group(2), subtitle=m.group(3), tracks=tracks)

# ------------------------------------------------------------------ expectations

def want_note(n):
    return (n[0][0], n[0][1:], n[1])

def want_entries(bar):
    out = []
    for v, ns in bar[3]:
        a = analyse(v)
        out.append(([want_note(n) for n in (ns or [])], a[0], a[1], (a[2], a[3])))
    return out

def mode_of(key):
    return "minor" if key[0].islower() else "major"

def check_bar(got, bar, showkey, showtime):
    if showtime != (got["time"] is not None):
        return "time signature %s" % ("missing" if showtime else "shown although the meter did not change")
    if showtime and got["time"] != (bar[1], bar[2]):
        return "time signature %s, the bar is in %s" % (got["time"], (bar[1], bar[2]))
    if showkey != (got["key"] is not None):
        return "key %s" % ("missing" if showkey else "shown although the key did not change")
    if showkey:
        want = ((bar[0][0].upper(), bar[0][1:]), mode_of(bar[0]))
        if got["key"] != want:
            return "key %s, the bar is in %s" % (got["key"], want)
    we = want_entries(bar)
    if len(got["entries"]) != len(we):
        return "%d entries, the bar has %d" % (len(got["entries"]), len(we))
    for i, (g, w) in enumerate(zip(got["entries"], we)):
        if g[0] != w[0]:
            return "entry %d has notes %s, written %s" % (i, g[0], w[0])
        if (g[1], g[2]) != (w[1], w[2]):
            return "entry %d has base value %s with %d dots, written %s with %d" % (i, g[1], g[2], w[1], w[2])
        if F(g[3][0], g[3][1]) != F(w[3][0], w[3][1]):
            return "entry %d is in tuplet ratio %s, written %s" % (i, g[3], w[3])
    return None

def check_track(got_bars, bars):
    if len(got_bars) != len(bars):
        return "%d bars, the track has %d" % (len(got_bars), len(bars))
    lastkey, lasttime = "C", (4, 4)
    for i, (g, b) in enumerate(zip(got_bars, bars)):
        r = check_bar(g, b, b[0] != lastkey, (b[1], b[2]) != lasttime)
        if r:
            return "bar %d: %s" % (i, r)
        lastkey, lasttime = b[0], (b[1], b[2])
    return None

# ------------------------------------------------------------------ MusicXML expectations

def child(e, tag):
    return [c for c in e[3] if c[0] == tag]

def text_of(e, tag):
    c = child(e, tag)
    return c[0][2] if c else None

def check_xml(tree, flags, comp):
    title, author, subtitle, tracks = comp
    if tree[0] != "score-partwise":
        return "root element is %s" % tree[0]
    if not flags[0]:
        return "the ids of the parts do not match the part list"
    if not flags[1]:
        return "two parts share an id"
    if title and text_of(tree, "movement-title") != title.strip():
        return "title %r, written %r" % (text_of(tree, "movement-title"), title)
    ident = child(tree, "identification")
    if author:
        cr = child(ident[0], "creator") if ident else []
        if not cr or cr[0][2] != author.strip():
            return "author %r, written %r" % (cr[0][2] if cr else None, author)
    plist = child(tree, "part-list")
    parts = child(tree, "part")
    sparts = child(plist[0], "score-part") if plist else []
    if len(parts) != len(tracks) or len(sparts) != len(tracks):
        return "%d parts and %d part-list entries for %d tracks" % (len(parts), len(sparts), len(tracks))
    for ti, (sp, part, tr) in enumerate(zip(sparts, parts, tracks)):
        where = "track %d: " % ti
        if text_of(sp, "part-name") != tr[0].strip():
            return where + "part name %r, written %r" % (text_of(sp, "part-name"), tr[0])
        if tr[1] is not None:
            si = child(sp, "score-instrument")
            if not si or text_of(si[0], "instrument-name") != tr[1][1].strip():
                return where + "instrument name %r, written %r" % (text_of(si[0], "instrument-name") if si else None, tr[1][1])
        measures = child(part, "measure")
        if len(measures) != len(tr[2]):
            return where + "%d measures for %d bars" % (len(measures), len(tr[2]))
        for bi, (m, bar) in enumerate(zip(measures, tr[2])):
            wh = where + "bar %d: " % bi
            if dict(map(tuple, m[1])).get("number") != str(bi + 1):
                return wh + "measure number %r" % dict(map(tuple, m[1])).get("number")
            attr = child(m, "attributes")
            if len(attr) != 1:
                return wh + "%d attributes elements" % len(attr)
            a = attr[0]
            div = text_of(a, "divisions")
            if div is None or not re.fullmatch(r"[1-9][0-9]*", div):
                return wh + "divisions %r is not a positive whole number" % div
            div = int(div)
            tm = child(a, "time")
            if not tm or (text_of(tm[0], "beats"), text_of(tm[0], "beat-type")) != (str(bar[1]), str(bar[2])):
                return wh + "time %s, the bar is in %d/%d" % ([(c[0], c[2]) for c in tm[0][3]] if tm else None, bar[1], bar[2])
            k = child(a, "key")
            sf, mi = key_sig(bar[0])
            if not k or (text_of(k[0], "fifths"), text_of(k[0], "mode")) != (str(sf), "minor" if mi else "major"):
                return wh + "key %s, the bar is in %s (%d fifths)" % ([(c[0], c[2]) for c in k[0][3]] if k else None, bar[0], sf)
            notes = child(m, "note")
            want = []
            for v, ns in bar[3]:
                b, d, act, nor = analyse(v)
                length = F(4) / F(b) * F(nor, act) * (2 - F(1, 2 ** d))
                if ns:
                    for j, n in enumerate(ns):
                        want.append((want_note(n), j > 0, d, length))
                else:
                    want.append((None, False, d, length))
            if len(notes) != len(want):
                return wh + "%d note elements for %d notes and rests" % (len(notes), len(want))
            for ni, (ne, w) in enumerate(zip(notes, want)):
                w0 = wh + "note element %d: " % ni
                p = child(ne, "pitch")
                if w[0] is None:
                    if p or not child(ne, "rest"):
                        return w0 + "a rest was written"
                else:
                    if not p:
                        return w0 + "no pitch"
                    step, octv, alter = text_of(p[0], "step"), text_of(p[0], "octave"), text_of(p[0], "alter")
                    wa = w[0][1].count("#") - w[0][1].count("b")
                    if (step, octv, int(alter or 0)) != (w[0][0], str(w[0][2]), wa):
                        return w0 + "pitch (%s, %s, %s), written %s" % (step, alter, octv, w[0])
                if bool(child(ne, "chord")) != w[1]:
                    return w0 + ("chord flag missing" if w[1] else "chord flag on the first note of the entry")
                if len(child(ne, "dot")) != w[2]:
                    return w0 + "%d dots, written %d" % (len(child(ne, "dot")), w[2])
                dur = text_of(ne, "duration")
                if dur is None or not re.fullmatch(r"[0-9]+", dur) or F(int(dur), div) != w[3]:
                    return w0 + "duration %s / divisions %d is not the entry's length of %s quarter notes" % (dur, div, w[3])
    return None

# ------------------------------------------------------------------ cases

def all_names():
    for l in "CDEFGAB":
        for a in ("", "#", "b", "##", "bb", "#b", "b#"):
            yield l + a

def value_pool():
    return [x[0] for x in VOCAB]

def ly_bar_fill(rng, meter=None, key=None, max_entries=8):
    count, unit = meter or rng.choice(METERS[:12])
    entries = []
    for _ in range(rng.randint(0, max_entries)):
        v = rng.choice(value_pool())
        r = rng.random()
        ns = (None if rng.random() < 0.6 else []) if r < 0.25 else rand_chord(rng, rng.choice([1, 1, 2, 3, 5]))
        entries.append([v if v != int(v) or rng.random() < 0.5 else int(v), ns])
    return [key or rng.choice(ALL_KEYS), count, unit, entries]

TITLES = ["Untitled", "", "Sonata", "Tom & Jerry", "a < b > c", "it's 5 o'clock", "Ünïcode ♪", "  padded  ", "x" * 80,
          "Suite\n\nNo. 1", "Op. 1 -- Allegro", "a--b-->c", "line\n   \nend", "<!-- x -->", "]]>", "tab\there"]

def rand_comp(rng, xml=False):
    tracks = []
    for _ in range(rng.randint(0, 3)):
        key = rng.choice(ALL_KEYS); meter = rng.choice(METERS[:9])
        bars = []
        for _ in range(rng.randint(0, 4)):
            if rng.random() < 0.3:
                key = rng.choice(ALL_KEYS)
            if rng.random() < 0.3:
                meter = rng.choice(METERS[:9])
            bars.append(ly_bar_fill(rng, meter, key))
        instr = rng.choice([None, None, ["midi", rng.choice(["", "Violin", "Tom & Jerry <b>"]), rng.randint(0, 127)], ["plain", rng.choice(["Piano", "x & y"]), 0]])
        tracks.append([rng.choice(TITLES[:6]), instr, bars])
    titles = TITLES if xml else [t for t in TITLES if '"' not in t]
    return [rng.choice(titles), rng.choice(titles), rng.choice(titles[:5]), tracks]

def cases(tier, rng):
    out = []
    for nm in all_names():
        for o in range(0, 9):
            n = [nm, o, 1, 64]
            for po in (True, False):
                for sa in (True, False):
                    out.append(Case("ly.note", [n, po, sa], tag="ly:note"))
            out.append(Case("ly.nc", [[n], 4, False], tag="ly:nc"))
    for v in value_pool():
        for vv in ([v, int(v)] if v == int(v) else [v]):
            out.append(Case("ly.nc", [[["C", 4, 1, 64]], vv, True], tag="ly:value"))
            out.append(Case("ly.bar", [["C", 4, 1, [[vv, [["C", 4, 1, 64]]], [vv, None], [vv, [["D", 4, 1, 64], ["F#", 4, 1, 64]]]]], True, True], tag="ly:value"))
            out.append(Case("xml.composition", [["t", "a", "s", [["tr", None, [["C", 4, 1, [[vv, [["C", 4, 1, 64]]], [vv, None], [vv, [["D", 4, 1, 64], ["F#", 4, 1, 64]]]]]]]]]], tag="xml:value"))
    for ns in (None, [], [["C", 4, 1, 64]], [["C", 4, 1, 64], ["E", 4, 1, 64]], [["Cb", 0, 1, 64], ["E#", 3, 1, 64], ["G##", 4, 1, 64], ["Bbb", 7, 1, 64], ["C", 8, 1, 64]]):
        for d in (None, 4, 8 / 1.5):
            for sa in (True, False):
                out.append(Case("ly.nc", [ns, d, sa], tag="ly:nc"))
    for k in ALL_KEYS:
        for sk in (True, False):
            for stt in (True, False):
                out.append(Case("ly.bar", [[k, 3, 4, [[4, [["C", 4, 1, 64]]]]], sk, stt], tag="ly:key"))
        out.append(Case("ly.track", [["t", None, [[k, 4, 4, [[1, None]]], [k, 4, 4, []], ["C", 3, 4, [[2, [["E", 4, 1, 64]]]]]]]], tag="ly:track"))
        out.append(Case("xml.composition", [["t", "a", "", [["tr", None, [[k, 4, 4, [[1, None]]], [k, 6, 8, []]]]]]], tag="xml:key"))
    for m in METERS[:12]:
        out.append(Case("ly.bar", [["C", m[0], m[1], []], False, True], tag="ly:meter"))
        out.append(Case("ly.track", [["t", None, [["C", m[0], m[1], [[m[1], None]]], ["C", 4, 4, []], ["C", m[0], m[1], []]]]], tag="ly:track"))
    # tuplet grouping
    t8, q5 = 12.0, 5.0
    for seq in ([t8, t8, t8], [4, t8, t8, t8, 4], [t8, t8, t8, q5, q5, q5, q5, q5], [t8, 4, t8], [4], [q5]):
        out.append(Case("ly.bar", [["C", 4, 4, [[v, [["C", 4, 1, 64]]] for v in seq]], True, True], tag="ly:tuplets"))
    # several tracks on one instrument
    one = [["C", 4, 4, [[4, [["C", 4, 1, 64]]]]]]
    out.append(Case("xml.composition", [["t", "a", "s", [["v1", ["midi", "Violin", 40], one], ["v2", ["midi", "Violin", 40], one],
                                                          ["p", ["plain", "Piano", 0], one], ["v3", ["midi", "Violin", 40], []],
                                                          ["p2", ["plain", "Piano", 0], one]]]], tag="xml:same-instrument"))
    # ... and the same with ONE instrument object assigned to several tracks (instrument ids are object ids: not modelled)
    out.append(Case("xml.composition_shared", [out[-1]["args"][0]], tag="xml:shared-instrument-object", model=False))
    # a double quote inside the header fields (not readable as LilyPond any more, but the text must still be carried)
    for t in ('Die "Forelle"', 'a "b', '"'):
        out.append(Case("ly.composition", [[t, "me", t, [["n", None, one]]]], tag="ly:titles-quoted", kind=("quoted",)))
    for t in TITLES:
        out.append(Case("xml.composition", [[t, t, t, [[t, ["midi", t, 5], [["C", 4, 4, [[4, [["C", 4, 1, 64]]]]]]], [t, ["plain", t, 0], []]]]], tag="xml:titles"))
        if '"' not in t:
            out.append(Case("ly.composition", [[t, t, t, [["n", None, [["C", 4, 4, [[4, [["C", 4, 1, 64]]]]]]]]]], tag="ly:titles"))
    # the same bar several times in one track (the harness adds one Bar object repeatedly)
    b1 = ["C", 4, 4, [[4, [["C", 4, 1, 64]]], [4, None], [2, [["E", 4, 1, 64], ["G", 4, 1, 64]]]]]
    b2 = ["G", 3, 4, [[2, [["D", 5, 1, 64]]], [4, [["B", 4, 1, 64]]]]]
    for bars in ([b1, b1], [b1, b2, b1, b1], [b2, b1, b2], [b1, b1, b1, b2]):
        out.append(Case("xml.composition", [["t", "a", "", [["tr", None, bars], ["tr2", None, list(reversed(bars))]]]], tag="xml:repeated-bar"))
        out.append(Case("ly.track", [["t", None, bars]], tag="ly:repeated-bar"))
        out.append(Case("ly.composition", [["t", "a", "s", [["n", None, bars]]]], tag="ly:repeated-bar"))
    out.append(Case("ly.composition", [["t", "a", "s", []]], tag="ly:empty"))
    out.append(Case("xml.composition", [["t", "a", "s", []]], tag="xml:empty"))
    n_rand = 200 if tier == "quick" else 3000
    for _ in range(n_rand):
        c = rand_comp(rng)
        out.append(Case("ly.composition", [c], tag="ly:random"))
        out.append(Case("xml.composition", [rand_comp(rng, xml=True)], tag="xml:random"))
        out.append(Case("ly.bar", [ly_bar_fill(rng), rng.random() < 0.5, rng.random() < 0.5], tag="ly:random-bar"))
    return out

# ------------------------------------------------------------------ oracle

def oracle(c, obs):
    fn, a = c["fn"], c["args"]
    if isinstance(obs, Err):
        return "the exporter raised %s" % obs.name
    try:
        if fn == "ly.note":
            n, po, sa = a
            s = obs
            if sa:
                if not (s.startswith("{ ") and s.endswith(" }")):
                    return "standalone note is not wrapped in braces: %r" % s
                s = s[2:-2]
            got = ly_pitch(s)
            want = want_note(n) if po else (n[0][0], n[0][1:], 3)
            if got != want:
                return "decodes to %s, the note is %s" % (got, want)
        elif fn == "ly.nc":
            ns, d, sa = a
            s = obs
            if sa:
                if not (s.startswith("{ ") and s.endswith(" }")):
                    return "standalone container is not wrapped in braces: %r" % s
                s = s[2:-2]
            notes, dur = ly_entry(s)
            if notes != [want_note(n) for n in (ns or [])]:
                return "decodes to notes %s, written %s" % (notes, [want_note(n) for n in (ns or [])])
            if d is None:
                if dur is not None:
                    return "a duration appears although none was given"
            else:
                an = analyse(d)
                if dur != (an[0], an[1]):
                    return "duration decodes to base %s with %d dots, written %s with %d" % (dur + (an[0], an[1]))
        elif fn == "ly.bar":
            bar, sk, stt = a
            toks = ly_tokens(obs)
            got, pos = ly_read_bar(toks, 0)
            if pos != len(toks):
                return "text after the bar"
            return check_bar(got, bar, sk, stt)
        elif fn == "ly.track":
            toks = ly_tokens(obs)
            got, pos = ly_read_track(toks, 0)
            if pos != len(toks):
                return "text after the track"
            return check_track(got, a[0][2])
        elif fn == "ly.composition" and c.get("kind") == ("quoted",):
            comp = a[0]
            if isinstance(obs, Err) or not isinstance(obs, str):
                return "raised"
            head = obs[obs.find("\\header"):obs.find("}", obs.find("\\header")) + 1] if "\\header" in obs else ""
            for what, text in (("title", comp[0]), ("composer", comp[1]), ("opus", comp[2])):
                if text and (what + ' = "' + text + '"') not in head:
                    return "the header does not carry the %s %r as written" % (what, text)
        elif fn == "ly.composition":
            comp = a[0]
            got = ly_read_composition(obs)
            if (got["title"], got["author"], got["subtitle"]) != (comp[0], comp[1], comp[2]):
                return "header carries %r, written %r" % ((got["title"], got["author"], got["subtitle"]), tuple(comp[:3]))
            if len(got["tracks"]) != len(comp[3]):
                return "%d tracks, written %d" % (len(got["tracks"]), len(comp[3]))
            for i, (g, t) in enumerate(zip(got["tracks"], comp[3])):
                r = check_track(g, t[2])
                if r:
                    return "track %d: %s" % (i, r)
        elif fn in ("xml.composition", "xml.composition_shared"):
            return check_xml(obs[0], obs[1], a[0])
    except LyError as e:
        return "the LilyPond text does not parse in the subset: %s" % e
    except (ValueError, IndexError) as e:
        return "the LilyPond text does not parse in the subset: %s: %s" % (type(e).__name__, e)
    return None
