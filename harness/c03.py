"""C03 correspondence + oracle (intervals.determine / from_shorthand / invert)."""
from tools.framework import Case, Err
from harness.common import *
from mingus.core import intervals

ID = "C03"
LEAN_MODULES = ["Mingus.Props.C03", "Mingus.Tie.C03"]
RULE = ("all ordered pairs of names with <=2 (quick) / <=3 (thorough) accidentals in any order x {long, short} through "
        "determine, and determine->from_shorthand round trips; all those names x 35 shorthands (<=2 accidentals + digit) "
        "x {up, down}; up-then-down on canonical names; invert on random lists with an aliasing check")
EXHAUSTIVE = {"quick": True, "thorough": True}
MAJOR = [0, 2, 4, 5, 7, 9, 11]
NUMBER = ["unison", "second", "third", "fourth", "fifth", "sixth", "seventh"]
SHORTHANDS = [a + d for a in ("", "#", "b", "##", "bb") for d in "1234567"]

def det_roundtrip(a, b):
    sh = intervals.determine(a, b, True)
    return [sh, intervals.from_shorthand(a, sh, True)]

def updown(n, sh):
    u = intervals.from_shorthand(n, sh, True)
    return [u, intervals.from_shorthand(u, sh, False)]

def invert(l):
    arg = list(l)
    res = intervals.invert(arg)
    return [res, arg]

IMPL = {
    "intervals.determine": intervals.determine,
    "intervals.det_roundtrip": det_roundtrip,
    "intervals.from_shorthand": intervals.from_shorthand,
    "intervals.updown": updown,
    "intervals.invert": invert,
}

def has_model(c):
    return True

def cases(tier, rng):
    n = 2 if tier == "quick" else 3
    nm = list(names(n))
    for a in nm:
        for b in nm:
            yield Case("intervals.determine", [a, b, False], "determine/long")
            yield Case("intervals.determine", [a, b, True], "determine/short")
            yield Case("intervals.det_roundtrip", [a, b], "roundtrip" + ("" if unmixed(b) else "/mixed-target"))
    for a in nm:
        for sh in SHORTHANDS:
            for up in (True, False):
                yield Case("intervals.from_shorthand", [a, sh, up], "from_shorthand/" + ("up" if up else "down"))
    for a in canon_names(2 if tier == "quick" else 3):
        for sh in SHORTHANDS:
            yield Case("intervals.updown", [a, sh], "updown")
    for a in ["C", "F#"]:
        for sh in ["", "8", "9", "0", "x", "#", "b", "3x", "x3", "#x3", " 3"]:
            for up in (True, False):
                yield Case("intervals.from_shorthand", [a, sh, up], "from_shorthand/odd")
    # lists whose first and last note are the same (not palindromes), a palindrome, and long lists
    for l in (["C", "E", "G", "C"], ["A", "B", "C#", "D", "A"], ["C", "C"], ["C", "E", "C"], ["F#", "A", "F#", "B", "F#"], ["G", "B", "B", "G"],
              ["C", "D", "E", "F", "G", "A", "B"] * 6, ["Bb"] * 9 + ["C"], ["C", "E", "G", "B"] * 700):
        yield Case("intervals.invert", [list(l)], "invert/equal-ends")
    pool = list(names(1))
    for k in range(0, 7):
        for _ in range(5):
            yield Case("intervals.invert", [[rng.choice(pool) for _ in range(k)]], "invert/len%d" % k)

def span(a, b):
    ld = (LETTERS.index(b[0]) - LETTERS.index(a[0])) % 7
    nat = (NATURAL[b[0]] - NATURAL[a[0]]) % 12 if ld else 0
    return ld, nat + net(b) - net(a)

def oracle(c, obs):
    fn, a = c["fn"], c["args"]
    if fn == "intervals.determine":
        n1, n2, short = a
        ld, d = span(n1, n2)
        if not 0 <= d <= 11:
            return None
        off = d - MAJOR[ld]
        if short:
            if not isinstance(obs, str) or obs[-1:] != str(ld + 1):
                return "shorthand does not end in the interval number given by the letters"
            return None    # the accidentals of the shorthand are judged by the round-trip clause (det_roundtrip)
        qual = (["major", "perfect"] if ld in (0, 3, 4) else ["major"]) if off == 0 else ["minor"] if off == -1 else ["diminished"] if off < -1 else ["augmented"]
        if ld in (3, 4) and off == 0:
            qual = ["perfect"]
        return None if obs in [q + " " + NUMBER[ld] for q in qual] else "interval name has the wrong number or quality"
    if fn == "intervals.det_roundtrip":
        n1, n2 = a
        ld, d = span(n1, n2)
        if not 0 <= d <= 11 or not unmixed(n2):
            return None
        return None if isinstance(obs, list) and obs[1] == n2 else "applying the returned shorthand upward does not reproduce the second note"
    if fn == "intervals.from_shorthand":
        n, sh, up = a
        if sh not in SHORTHANDS:
            return None
        deg = int(sh[-1]) - 1
        size = MAJOR[deg] + sh.count("#") - sh.count("b")
        sgn = 1 if up else -1
        if not is_name(obs):
            return "result is not a valid name"
        if obs[0] != LETTERS[(LETTERS.index(n[0]) + sgn * deg) % 7]:
            return "result is on the wrong letter"
        return None if spec_pc(obs) == (spec_pc(n) + sgn * size) % 12 else "result is not (major size + sharps - flats) semitones away"
    if fn == "intervals.updown":
        return None if isinstance(obs, list) and obs[1] == a[0] else "up followed by down does not return the starting name"
    if fn == "intervals.invert":
        l = a[0]
        if obs[0] != list(reversed(l)):
            return "result is not the reversed list"
        return None if obs[1] == l else "the argument was changed"
    return None

def _unison_mixed(c, obs):
    if c["fn"] != "intervals.det_roundtrip":
        return False
    n1, n2 = c["args"]
    if n1[0] != n2[0] or unmixed(n1):
        return False
    r = obs[1] if isinstance(obs, list) else None
    return is_name(r) and r[0] == n2[0] and spec_pc(r) == spec_pc(n2)

KNOWN = {"C03-unison-mixed-first-note": _unison_mixed}
