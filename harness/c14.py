"""C14 correspondence + oracle (Track / Composition accumulate music faithfully)."""
import itertools
from fractions import Fraction as F
from tools.framework import Case, Err
from harness import machines
from harness.c13 import VOC, SMALL
from harness.c06 import spec_notes_of
from harness.common import NATURAL, net
from mingus.containers import Track, Composition, Bar, Note

ID = "C14"
LEAN_MODULES = ["Mingus.Props.C14", "Mingus.Props.C14Full", "Mingus.Props.C14Chords", "Mingus.Tie.C14"]
RULE = ("all add_notes/'+'/add_bar sequences of depth <=3 (quick) / <=4 (thorough) over notes, chords, rests x 6 values x "
        "instruments {none, Instrument, Piano, Guitar, MidiInstrument}; seeded random histories up to 60 steps over the whole "
        "value vocabulary, 4 meters, 3 keys; in-range / out-of-range notes and rests for every instrument; from_chords on "
        "(nested) chord lists with rests; composition scripts (add_track / add_note / selection); indexing, length and equality")
EXHAUSTIVE = {"quick": True, "thorough": True}

def comp_misc(script):
    c = Composition()
    t1, t2 = Track(), Track()
    c.add_track(t1); c.add_track(t2)
    c.add_note("C")
    c2 = Composition(); t3 = Track(); t3 + "C"; c2.add_track(Track()); c2.add_track(t3)
    return [len(c), len(c[0]), len(c[1]), c[1] is t2, t2 == t3, t1 == Track(), len(t2[0]), t2[0] == t3[0]]

def comp_setitem(n, idx):
    """a composition of n tracks (track i holds i+1 quarter notes), then comp[idx] = a new track holding a half note"""
    c = Composition()
    for i in range(n):
        t = Track()
        for _ in range(i + 1):
            t.add_notes("C", 4)
        c.add_track(t)
    new = Track(); new.add_notes("G", 2)
    c[idx] = new
    sizes = [[len(b) for b in t.bars] + [t.bars[0].bar[0][1] if t.bars and t.bars[0].bar else 0] for t in c.tracks]
    return [len(c), sizes, c[idx] is new]

def track_eq(ops_a, ops_b):
    """two tracks built by the two histories: ==, == the other way round, != ; and the same for compositions holding them"""
    def build(ops):
        t = Track()
        for op in ops:
            machines.track_step(t, op)
        return t
    a, b = build(ops_a), build(ops_b)
    ca, cb = Composition(), Composition()
    ca.add_track(a); cb.add_track(b)
    def contents(t):      # what equality is about: bar by bar, the entries (beat, value, notes by pitch or rest)
        return [[[F(e[0]), F(e[1]), None if e[2] is None else sorted(int(n) for n in e[2])] for e in b.bar] for b in t.bars]
    return [a == b, b == a, contents(a) == contents(b), ca == cb, cb == ca, len(a), len(b)]

def comp_eq(specs_a, specs_b):
    """two compositions, each a list of tracks given by their histories: [a == b, b == a, a != b]"""
    def build(specs):
        c = Composition()
        for ops in specs:
            t = Track()
            for op in ops:
                machines.track_step(t, op)
            c.add_track(t)
        return c
    a, b = build(specs_a), build(specs_b)
    return [a == b, b == a, a != b]

def run_track_late(spec, ops):
    """a track built with one instrument (or none) that gets another one ATTACHED AFTERWARDS (`track.instrument = ...`, as
    the MIDI reader and writer do): the range test follows the instrument the track carries now"""
    first, later = spec.split(">")
    from mingus.containers import Track
    t = Track(machines.INSTR[first]())
    t.instrument = machines.INSTR[later]()
    out = []
    for op in ops:
        try:
            r = machines.track_step(t, op)
            out.append([r, machines.track_out(t)])
        except Exception as e:
            out.append([machines.canon(e), machines.track_out(t)])
    out.append(machines.track_out(t))
    return out

IMPL = {"track.run_late": run_track_late, "comp.eq": comp_eq, "track.run": machines.run_track, "comp.run": machines.run_comp, "comp.two": machines.run_comps, "comp.misc": comp_misc, "track.eq": track_eq, "comp.setitem": comp_setitem}
NO_MODEL = {"comp.misc", "track.eq", "comp.two", "comp.eq", "comp.setitem"}
def has_model(c):
    return c["fn"] not in NO_MODEL

C4 = [["obj", "C", 4]]
CHORD = [["obj", "C", 4], ["obj", "E", 4], ["obj", "G", 4]]
LOW = [["obj", "C", 0]]
HIGH = [["obj", "C", 9]]
E3 = [["obj", "E", 3]]
SEVEN = [["obj", n, 4] for n in "CDEFGAB"]

def fl(v):
    return F(v[0])

def cases(tier, rng):
    depth = 3 if tier == "quick" else 4
    vals = [v for v in SMALL[:6]]
    alpha = [["add", C4, fl(vals[2])], ["add", CHORD, fl(vals[3])], ["add", None, fl(vals[2])], ["add", C4, fl(vals[0])],
             ["add", None, fl(vals[4])], ["plus", CHORD], ["add_bar", "Eb", 3, 4], ["add", CHORD, fl(vals[5])], ["add", C4, F(1, 2)]]
    for instr in ("none", "Piano"):
        for d in range(0, depth + 1):
            if instr != "none" and d == depth:
                continue
            for seq in itertools.product(alpha, repeat=d):
                yield Case("track.run", [instr, list(seq)], "history/depth%d" % d, kind=("run",))
    for instr in machines.INSTR:
        ops = [["add", C4, 4], ["add", None, 4], ["add", LOW, 4], ["add", HIGH, 4], ["add", E3, 4], ["add", SEVEN, 4],
               ["add", None, 2], ["add", CHORD, 4], ["add", None, 1]]
        yield Case("track.run", [instr, ops], "instrument/" + instr, kind=("instrument", instr))
        yield Case("track.run", [instr, [["add", HIGH, 4], ["add", E3, 4], ["add", E3, 4], ["add", E3, 4], ["add", E3, 4], ["add", HIGH, 4],
                                         ["add", LOW, 1], ["add", E3, 2]]], "instrument/boundary/" + instr, kind=("run",))
    # the instrument attached (or taken away) after the track was built
    for first in ("none", "Piano", "Guitar"):
        for later in machines.INSTR:
            if later == first:
                continue
            ops = [["add", C4, 4], ["add", None, 4], ["add", LOW, 4], ["add", HIGH, 4], ["add", E3, 4], ["add", SEVEN, 4],
                   ["add", None, 2], ["add", CHORD, 4], ["add", None, 1]]
            yield Case("track.run_late", [first + ">" + later, ops], "instrument/attached-later", model=False, kind=("instrument", later))
    # plain lists of notes, unsorted, with the note outside the range first, in the middle and last
    for instr in machines.INSTR:
        raws = [[["obj", "G", 4], ["obj", "C", 4], ["obj", "E", 4]], [["obj", "C", 4], ["obj", "C", 9], ["obj", "E", 4]],
                [["obj", "E", 4], ["obj", "C", 0], ["obj", "G", 4]], [["obj", "C", 9], ["obj", "C", 4]], [["obj", "C", 4], ["obj", "C", 9]],
                [["obj", "G", 5], ["obj", "C", 0], ["obj", "C", 9], ["obj", "E", 4]], [["obj", "B", 6], ["obj", "E", 3]],
                # spelled across an octave line: the PITCH decides (Cb-9 is B-8, B#-7 is C-8, Fb-7 is E-7, E#-0 is F-0, Cb-0 is below C-0)
                [["obj", "Cb", 9]], [["obj", "C", 4], ["obj", "Cbb", 9]], [["obj", "B#", 7]], [["obj", "Fb", 7]], [["obj", "E#", 0]],
                [["obj", "Cb", 0]], [["obj", "B#", 8]], [["obj", "Dbb", 3], ["obj", "Fb", 3]],
                # exactly six notes (one per guitar string) and seven
                [["obj", n_, o_] for n_, o_ in (("E", 3), ("A", 3), ("D", 4), ("G", 4), ("B", 4), ("E", 5))],
                [["obj", n_, o_] for n_, o_ in (("E", 3), ("A", 3), ("D", 4), ("G", 4), ("B", 4), ("E", 5), ("A", 5))],
                [["obj", n_, o_] for n_, o_ in (("E", 3), ("A", 3), ("D", 4), ("G", 4), ("B", 4))]]
        yield Case("track.run", [instr, [["add_raw", r, 4] for r in raws]], "instrument/raw-list/" + instr, kind=("rawrange", instr))
    # a free-meter bar (0, 0) is never full: everything added after it lands in that one bar
    for instr in ("none", "Piano"):
        ops = [["add_bar", "C", 0, 0], ["add", C4, 4], ["add", CHORD, 4], ["add", None, 2], ["add", C4, 1], ["plus", CHORD], ["add", E3, 8]]
        yield Case("track.run", [instr, ops], "free-meter", kind=("freebar",))
        yield Case("track.run", [instr, [["add", C4, 1], ["add_bar", "Eb", 0, 0]] + ops[1:]], "free-meter/after-full-bar", kind=("freebar",))
    chord_lists = [["C", "Am", "F", "G7"], ["C", None, "G"], [None], [["C", "G"], "Am"], [["C", ["F", None]], None, "Dm7"],
                   ["C", "C", "C", "C", "C"], [None, None, None], ["Ebm7b5", ["Ab13", None, ["Db", "Gb"]]]]
    for cl in chord_lists:
        for v in (1, 2, 4, F(1, 2), F(4 / 3.0), 3):
            yield Case("track.run", ["none", [["from_chords", cl, v]]], "from_chords", kind=("from_chords", v))
            if v >= 1:   # an item longer than a whole bar that starts mid-bar would need two splits: outside the stated behaviour
                yield Case("track.run", ["none", [["add", C4, 4], ["from_chords", cl, v]]], "from_chords/offset", kind=("from_chords_off", v))
        yield Case("track.run", ["Piano", [["from_chords", cl, 1]]], "from_chords/instrument", kind=("from_chords", 1))
    # nesting that takes an item's value past a 128th: short top-level values, and eight levels down from a whole note
    deep = "C"
    for _ in range(8):
        deep = [deep, None]
    for cl, v in ((["C", ["F", "G"]], 128), ([["C", "G"], "Am"], 64), ([["C", ["F", None]], "Dm"], 64), ([["C", "G"]], 128), ([deep], 1), ([deep, "G"], 2)):
        yield Case("track.run", ["none", [["from_chords", cl, v]]], "from_chords/very-short", kind=("from_chords", v))
    # bars added one after the other (the first stays empty), and a bar added right after a refused note
    for instr in ("none", "Piano"):
        yield Case("track.run", [instr, [["add_bar", "C", 4, 4], ["add_bar", "G", 3, 4], ["add_bar", "D", 6, 8], ["add", C4, 8]]],
                   "history/empty-bars", kind=("run",))
        yield Case("track.run", [instr, [["add", C4, 1], ["add", C4, F(1, 2)], ["add_bar", "F", 2, 2], ["add_bar", "F", 2, 2], ["add", C4, 2]]],
                   "history/empty-bars", kind=("run",))
    # a chord given as a plain list of octave-less names, with and without an instrument attached: voiced upward as written
    for instr in ("none", "Instrument", "Piano", "Guitar", "MidiInstrument"):
        for names_, want in ((["A", "C", "E"], [["A", 4], ["C", 5], ["E", 5]]), (["G", "B", "D"], [["G", 4], ["B", 4], ["D", 5]]),
                             (["C", "E", "G"], [["C", 4], ["E", 4], ["G", 4]]), (["E"], [["E", 4]]), (["B", "C"], [["B", 4], ["C", 5]])):
            yield Case("track.run", [instr, [["add_strs", names_, 4], ["add_strs", names_, 2]]], "history/string-lists", model=False,
                       kind=("strs", want))
    # a section in another key and meter added as a bar in the MIDDLE of a track: the bars opened after it continue ITS key and
    # meter (not the first bar's, not the default)
    for first in ([["add", C4, 1]], [["add_bar", "Eb", 3, 4], ["add", C4, 2], ["add", C4, 4]], []):
        for key, cnt, unit in (("D", 6, 8), ("f#", 2, 2), ("Bb", 5, 4), ("C", 3, 8)):
            fill = [["add", C4, unit]] * (cnt + 2) + [["add", None, unit]] * cnt + [["plus", CHORD]]
            yield Case("track.run", ["none", first + [["add_bar", key, cnt, unit]] + fill], "history/section-change", kind=("run",))
            yield Case("track.run", ["none", first + [["add_bar", key, cnt, unit]] + fill + [["add_bar", "A", 4, 4]] + [["add", C4, 2]] * 3],
                       "history/section-change", kind=("run",))
    for _ in range(150 if tier == "quick" else 1500):
        ops = []
        if rng.random() < 0.5:
            ops.append(["add_bar", rng.choice(["C", "Eb", "f#"]), *rng.choice([(4, 4), (3, 4), (6, 8), (2, 2)])])
        for _ in range(rng.randint(5, 60)):
            k = rng.random()
            v = rng.choice(VOC)
            if k < 0.85:
                ops.append(["add", rng.choice([C4, CHORD, None, E3]), fl(v)])
            elif k < 0.93:
                ops.append(["plus", rng.choice([C4, CHORD])])
            elif k < 0.96:
                ops.append(["add_bar", rng.choice(["C", "Eb", "f#", "D"]), *rng.choice([(4, 4), (3, 4), (6, 8), (2, 2), (5, 8)])])
            else:
                ops.append(["add", C4, rng.choice([F(1, 2), F(1, 4)])])
        yield Case("track.run", ["none", ops], "history/random", kind=("run",))
    scripts = [
        [["add_note", C4]],
        [["add_track", "none"], ["add_note", C4], ["add_track", "Piano"], ["add_note", CHORD], ["add_note", E3]],
        [["add_track", "none"], ["add_track", "none"], ["add_track", "Guitar"], ["select", [0, 2]], ["add_note", E3], ["add_note", CHORD],
         ["select", []], ["add_note", C4], ["select", [1]], ["add_note", C4]],
        [["add_track", "none"], ["add_track", "none"], ["select", [0, 1]]] + [["add_note", CHORD]] * 6,
    ]
    # equality follows the contents: every ordered pair of a pool that contains prefixes of one another
    pool = [[], [["add", C4, 4]], [["add", C4, 4]] * 4, [["add", C4, 4]] * 5, [["add", C4, 1]], [["add", C4, 1], ["add", C4, 1]],
            [["add", C4, 1], ["add", CHORD, 1]], [["add", CHORD, 4]], [["add", None, 4]], [["add", C4, 1], ["add", None, 1], ["add", C4, 1]],
            [["add_bar", "C", 4, 4]], [["add_bar", "Eb", 3, 4]], [["add_bar", "C", 4, 4], ["add_bar", "C", 4, 4]]]
    for a in pool:
        for b in pool:
            yield Case("track.eq", [a, b], "equality", model=False, kind=("eq",))
    for sc in scripts:
        yield Case("comp.run", [sc], "composition", kind=("comp",))
    # a selected track whose last bar has no room for the quarter note refuses it; the OTHER selected tracks still get it
    nearly = [["track_add", 0, C4, 4]] * 3 + [["track_add", 0, C4, 8]]            # 7/8 of a 4/4 bar
    for sel in ([0, 1, 2], [1, 0, 2], [2, 1, 0], [0, 2], [0]):
        sc = [["add_track", "none"], ["add_track", "none"], ["add_track", "none"]] + nearly + [["select", sel], ["add_note", C4],
              ["add_note", CHORD]]
        yield Case("comp.run", [sc], "composition/one-track-refuses", model=False, kind=("comp",))
    sc = [["add_track", "none"], ["add_track", "none"], ["track_add", 1, C4, 2], ["track_add", 1, C4, 4], ["track_add", 1, C4, 8],
          ["select", [1, 0]], ["add_note", C4], ["select", [0, 1]], ["add_note", E3]]
    yield Case("comp.run", [sc], "composition/one-track-refuses", model=False, kind=("comp",))
    # selections the caller wrote by hand: counted from the end, the same track twice, both together
    for sel in ([-1], [-2], [0, 0], [1, 1, 0], [-1, 0], [-3, 2], [2, -1]):
        sc = [["add_track", "none"], ["add_track", "none"], ["add_track", "none"], ["select", sel], ["add_note", C4], ["add_note", CHORD],
              ["select", [1]], ["add_note", E3], ["select", sel], ["add_note", E3]]
        yield Case("comp.run", [sc], "composition/select-negative-repeated", model=False, kind=("comp",))
    yield Case("comp.misc", [[]], "composition/misc", model=False, kind=("misc",))
    for n in (1, 2, 3, 4):
        for idx in range(-n, n):
            yield Case("comp.setitem", [n, idx], "composition/setitem", model=False, kind=("setitem",))
    # a Bar handed to a composition: appended as a bar to exactly the selected tracks
    for sel in ([0, 1], [1], [0]):
        # (with two tracks selected both receive THE SAME Bar object - the caller's choice - so nothing is added after it there)
        sc = [["add_track", "none"], ["add_track", "none"], ["select", sel], ["add_note", C4], ["add_bar_obj", "D", 3, 4]] + \
             ([["add_note", C4]] if len(sel) == 1 else [])
        yield Case("comp.run", [sc], "composition/bar-object", model=False, kind=("compbar", tuple(sel)))
    # composition equality: the same tracks in the same order, as often as they occur
    A_, B_, C_ = [["add", C4, 4]], [["add", CHORD, 2]], [["add", None, 4], ["add", E3, 4]]
    for x, y in (([A_, B_], [A_, B_]), ([A_, B_], [B_, A_]), ([A_, A_, B_], [A_, B_, B_]), ([A_, B_, C_], [C_, B_, A_]), ([A_], [A_, A_]),
                 ([], []), ([A_, B_, A_], [A_, A_, B_]), ([C_, C_], [C_, C_])):
        yield Case("comp.eq", [x, y], "composition/equality", model=False, kind=("compeq",))
    # chords given to a track as nested [name, octave] lists (and with a third element, the dynamics)
    for instr in ("none",):      # (with an instrument attached the range test does not take this form: not documented there)
        yield Case("track.run", [instr, [["add_pairs", [["C", 5], ["E", 5]], 4], ["add_pairs", [["A", 3]], 4], ["add_pairs", [["C", 4], ["G", 4], ["E", 5]], 2]]],
                   "history/pair-lists", model=False, kind=("pairs",))
    # two (three) compositions in use at the same time: what is done to one must not reach the other
    inter = [
        [["add_track", 0, "none"], ["add_track", 1, "none"], ["add_track", 1, "none"], ["add_note", 0, C4], ["add_note", 1, E3], ["add_note", 0, CHORD]],
        [["add_track", 0, "none"], ["add_track", 0, "none"], ["add_track", 1, "none"], ["add_note", 0, C4], ["add_note", 1, C4]],
        [["add_track", 0, "none"], ["add_track", 0, "none"], ["add_track", 0, "none"], ["select", 0, [0, 2]], ["add_track", 1, "none"],
         ["add_note", 0, C4], ["add_note", 1, CHORD], ["add_note", 0, E3]],
        [["add_track", 0, "none"], ["add_track", 1, "none"], ["add_track", 2, "none"], ["add_track", 2, "none"], ["add_note", 0, C4],
         ["add_note", 1, C4], ["add_note", 2, C4], ["add_note", 0, C4]],
    ]
    for sc in inter:
        yield Case("comp.two", [3, sc], "composition/interleaved", model=False, kind=("two",))

def exact_of(v):
    for fv, ex, _ in VOC:
        if F(fv) == v:
            return ex
    return F(v)

def check_track(c, obs):
    """per step: accepted items appear in order with value and content; refused changes nothing; bars before the last are
    full; a bar opened by add_notes inherits key and meter. Returns (clause, info) or None."""
    instr, ops = c["args"]
    prev = []
    for i, op in enumerate(ops):
        st = obs[i]
        if op[0] in ("add", "plus"):
            res, bars = st
            if isinstance(res, Err):
                if bars != prev:
                    return "an item refused with %s changed the track" % res.name, {"step": i}
                continue
            flat_prev = [e for b in prev for e in b[4]]
            flat = [e for b in bars for e in b[4]]
            content = None if op[1] is None else [[x[1], x[2]] for x in op[1]]
            val = op[2] if op[0] == "add" else F(4)
            if res:
                if len(flat) != len(flat_prev) + 1 or flat[:-1] != flat_prev:
                    return "an accepted item did not append exactly one entry", {"step": i}
                if flat[-1][1] != val or flat[-1][2] != content:
                    return "the appended entry does not carry the item's value and content", {"step": i}
                if len(bars) > len(prev):
                    if prev:
                        if bars[-1][5] != prev[-1][5] or bars[-1][6] != prev[-1][6]:
                            return "a new bar does not inherit key and meter of its predecessor", {"step": i}
                        if bars[-1][1] != prev[-1][1]:
                            return "a new bar shows the inherited meter but not its length (%s, predecessor %s)" % (bars[-1][1], prev[-1][1]), {"step": i}
                        if not prev[-1][2]:
                            return "a new bar was opened although the last one was not full", {"step": i}
            else:
                if bars != prev:
                    opened = len(bars) == len(prev) + 1 and bars[:-1] == prev and bars[-1][4] == []
                    return "a refused item changed the track", {"step": i, "only_empty_bar": opened,
                                                                   "was_empty_or_full": (not prev) or bool(prev[-1][2])}
            for b in bars[:-1]:
                if not b[2] and b[4] != [] and op[0] != "add_bar":
                    pass
            prev = bars
        elif op[0] == "add_bar":
            if isinstance(st[0], Err):
                return "add_bar raised", {"step": i}
            bars = st[1]
            want_m = [op[2], F(op[3])]
            if len(bars) != len(prev) + 1 or bars[:-1] != prev:
                return "add_bar did not append exactly one bar and leave the others alone (%d bars before, %d after)" % (len(prev), len(bars)), {"step": i}
            if bars[-1][4] != [] or bars[-1][5] != want_m or bars[-1][6] != op[1]:
                return "the bar added is not the empty bar in the given key and meter", {"step": i}
            prev = bars
        else:
            prev = st[1]
    return None

def oracle(c, obs):
    kind = c["kind"]
    if c["fn"] == "comp.setitem":
        n, idx = c["args"]
        if isinstance(obs, Err):
            return "comp[%d] = track raised %s on a composition of %d tracks" % (idx, obs.name, n)
        want = [[i + 1, 4] for i in range(n)]
        want[idx % n] = [1, 2]
        return None if obs == [n, want, True] else "after comp[%d] = track the composition of %d tracks is %s, expected %s" % (idx, n, obs, [n, want, True])
    if isinstance(obs, Err):
        return "raised %s" % obs.name
    if kind[0] == "run":
        r = check_track(c, obs)
        if r:
            return r[0]
        ops = c["args"][1]
        if not any(op[0] == "add_bar" for op in ops):
            final = obs[-1]
            for b in final[:-1]:
                if not b[2] and b[4]:
                    return "a bar before the last one is not full"
            tot = sum(1 / exact_of(e[1]) for b in final for e in b[4])
            acc = sum(1 / exact_of(op[2] if op[0] == "add" else F(4)) for op, st in zip(ops, obs) if op[0] in ("add", "plus") and st[0] is True)
            if tot != acc:
                return "sum of entry lengths is not the sum of accepted lengths"
        return None
    if kind[0] == "instrument":
        instr = kind[1]
        ops = c["args"][1]
        lo_ok = {"none": True, "Instrument": True, "Piano": False, "Guitar": False, "MidiInstrument": True}[instr]
        hi_ok = instr == "none"
        e3_ok = True
        seven_ok = instr != "Guitar"
        expect = {0: True, 1: True, 2: lo_ok, 3: hi_ok, 4: e3_ok, 5: seven_ok, 6: True, 7: True, 8: True}
        if instr == "Guitar":
            expect[0] = True   # C-4 is inside E-3..E-7
        r = check_track(c, obs)
        if r:
            return r[0]
        for i, want in expect.items():
            st = obs[i][0]
            content = ops[i][1]
            if content is None:
                if isinstance(st, Err):
                    return "a rest was refused because an instrument is attached"
                continue
            if want and isinstance(st, Err):
                return "a note inside the instrument's range was refused"
            if not want and st != Err("InstrumentRangeError"):
                return "a note outside the instrument's range was not refused with InstrumentRangeError"
        return None
    if kind[0] == "eq":
        if isinstance(obs, Err):
            return "comparing two tracks raised %s" % obs.name
        eq_ab, eq_ba, same, ceq_ab, ceq_ba, la, lb = obs
        if eq_ab is not same or eq_ba is not same:
            return "track equality does not follow the contents (or is not symmetric)"
        if ceq_ab is not same or ceq_ba is not same:
            return "composition equality does not follow the tracks' contents"
        return None
    if kind[0] == "freebar":
        ops = c["args"][1]
        k = [i for i, op in enumerate(ops) if op[0] == "add_bar"][0]
        nb = len(obs[k][1])                       # bars right after the free-meter bar was appended
        for op, st in zip(ops[k + 1:], obs[k + 1:]):
            if isinstance(st[0], Err) or st[0] is not True:
                return "an item added to a free-meter bar was not accepted"
            if len(st[1]) != nb:
                return "a new bar was opened although the last bar (free meter) is not full"
        if len(obs[-1][-1][4]) != len(ops) - k - 1:
            return "the free-meter bar does not hold every item added after it"
        return None
    if kind[0] == "rawrange":
        instr = kind[1]
        lo = {"none": None, "Instrument": 0, "Piano": 5, "Guitar": 40, "MidiInstrument": 0}[instr]     # C-0, F-0, E-3, C-0
        hi = {"none": None, "Instrument": 96, "Piano": 107, "Guitar": 88, "MidiInstrument": 107}[instr]  # C-8, B-8, E-7, B-8
        for op, st in zip(c["args"][1], obs):
            ps = [12 * o + NATURAL[n[0]] + net(n) for _, n, o in op[1]]
            inside = lo is None or all(lo <= p <= hi for p in ps)
            if instr == "Guitar" and len(ps) > 6:
                inside = False                      # at most one note per string
            if inside and isinstance(st[0], Err):
                return "a list of notes inside the instrument's range was refused"
            if not inside and st[0] != Err("InstrumentRangeError"):
                return "a list holding a note outside the instrument's range was not refused with InstrumentRangeError"
        return None
    if kind[0] in ("from_chords", "from_chords_off"):
        st = obs[0] if kind[0] == "from_chords" else obs[1]
        if isinstance(st[0], Err):
            return "from_chords raised %s" % st[0].name
        items = []
        def walk(x, v):
            if isinstance(x, list):
                for y in x:
                    walk(y, v * 2)
            else:
                items.append((x, v))
        fc = c["args"][1][-1]
        for x in fc[1]:
            walk(x, F(fc[2]))
        bars = st[1]
        flat = [e for b in bars for e in b[4]]
        if kind[0] == "from_chords_off":
            flat = flat[1:]
        # every chord and every rest in order (an item may be split into consecutive pieces with equal content)
        j = 0
        for x, v in items:
            want = None if x is None else [[n, None] for n in spec_notes_of(*split_root(x))]
            need = 1 / F(exact_float(v))
            got = F(0)
            while j < len(flat) and got < need - F(1, 10 ** 9):
                e = flat[j]
                if (e[2] is None) != (want is None) or (want is not None and [n for n, o in e[2]] != [w[0] for w in want]):
                    return "from_chords did not place every chord and rest in order"
                got += 1 / F(e[1]); j += 1
            if abs(got - need) > F(1, 10 ** 6):
                return "from_chords: total length of an item is not its requested length"
        if j != len(flat):
            return "from_chords placed extra entries"
        return None
    if kind[0] == "comp":
        script = c["args"][0]
        # independent model: which tracks receive each note
        # (bars are 4/4; a track's `+` places a quarter note: refused when the last bar has less than a quarter left)
        tracks, fill, sel = [], [], []
        def put(s, v):
            if fill[s] == 1:
                fill[s] = F(0)
            if fill[s] + F(1) / F(v) <= 1:
                fill[s] += F(1) / F(v); tracks[s] += 1
        for op in script:
            if op[0] == "add_track":
                tracks.append(0); fill.append(F(0)); sel = [len(tracks) - 1]
            elif op[0] == "select":
                sel = list(op[1])
            elif op[0] == "add_note":
                for s in sel:
                    put(s, 4)
            elif op[0] == "track_add":
                put(op[1], op[3])
        got = [sum(len(b[4]) for b in t) for t in obs]
        # Guitar refuses nothing here (E-3 is its lowest note, C-E-G in octave 4 fits)
        return None if got == tracks else "adding notes to a composition did not reach exactly the selected tracks"
    if kind[0] == "strs":
        want = kind[1]
        for i, st in enumerate(obs[:2]):
            if isinstance(st, Err) or isinstance(st[0], Err):
                return "adding a list of note names raised"
            flat = [e for b in st[1] for e in b[4]]
            if st[0] is not True or len(flat) != i + 1 or flat[-1][2] != want:
                return "a chord given as a list of names %s was stored as %s, expected %s" % (
                    c["args"][1][0][1], flat[-1][2] if flat else None, want)
        return None
    if kind[0] == "compbar":
        sel = list(kind[1])
        if isinstance(obs, Err):
            return "raised"
        for ti, t in enumerate(obs):
            if ti in sel:
                shape = [(len(b[4]), b[5], b[6]) for b in t]
                want = [(1, [4, F(4)], "C"), (1 if len(sel) == 1 else 0, [3, F(4)], "D")]
                if shape != want:
                    return "a Bar added to the composition: selected track %d holds bars %s, expected %s" % (ti, shape, want)
            elif t != []:
                return "a Bar added to the composition reached track %d, which is not selected" % ti
        return None
    if kind[0] == "compeq":
        x, y = c["args"]
        want = x == y
        return None if obs == [want, want, not want] else \
            "composition ==, == the other way round, != give %s; the track lists are %s" % (obs, "the same" if want else "different (order and multiplicity count)")
    if kind[0] == "pairs":
        ops = c["args"][1]
        for i, st in enumerate(obs[:len(ops)]):
            if isinstance(st, Err) or isinstance(st[0], Err):
                return "a chord given as a list of [name, octave] pairs raised"
            flat = [e for b in st[1] for e in b[4]]
            want = [[n, o] for n, o in ops[i][1]]
            if st[0] is not True or len(flat) != i + 1 or flat[-1][2] != want:
                return "a chord given as [name, octave] pairs %s was stored as %s" % (want, flat[-1][2] if flat else None)
        return None
    if kind[0] == "two":
        n, script = c["args"]
        tracks = [[] for _ in range(n)]; sel = [[] for _ in range(n)]
        for op in script:
            ci = op[1]
            if op[0] == "add_track":
                tracks[ci].append(0); sel[ci] = [len(tracks[ci]) - 1]
            elif op[0] == "select":
                sel[ci] = list(op[2])
            elif op[0] == "add_note":
                for s_ in sel[ci]:
                    tracks[ci][s_] += 1
        if isinstance(obs, Err):
            return "raised"
        got = [[sum(len(b[4]) for b in t) for t in comp] for comp in obs]
        return None if got == tracks else \
            "compositions used side by side: notes reached %s entries per track, expected %s (exactly the selected tracks of THAT composition)" % (got, tracks)
    if kind[0] == "misc":
        return None if obs == [2, 0, 1, True, True, True, 1, True] else "indexing / length / equality do not follow contents"
    return None

def split_root(x):
    i = 1
    while i < len(x) and x[i] in "#b":
        i += 1
    return x[:i], x[i:]

def exact_float(v):
    return v

def _refused_opens_bar(c, obs):
    if c["kind"][0] != "run" or isinstance(obs, Err):
        return False
    r = check_track(c, obs)
    return bool(r) and r[0] == "a refused item changed the track" and r[1].get("only_empty_bar") and r[1].get("was_empty_or_full")

KNOWN = {"C14-refused-add-opens-bar": _refused_opens_bar}
