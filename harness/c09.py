"""C09 correspondence + oracle (mingus.core.value, mingus.core.meter)."""
import math, signal
from fractions import Fraction as F
from tools.framework import Case, Err, enc, dec
from mingus.core import value, meter

ID = "C09"
LEAN_MODULES = ["Mingus.Props.C09", "Mingus.Props.C09Float", "Mingus.Lemmas.FloatErr", "Mingus.Tie.C09"]
RULE = ("the 80-value vocabulary (10 base values x dots 0..4, x triplet/quintuplet/septuplet) built with the library's own "
        "constructors and analysed; every vocabulary value x perturbations {+-1%, +-0.5%, +-0.1%} and the doubles adjacent to "
        "every branch threshold at every scale; seeded random positive doubles; add/subtract on all ordered pairs of a 20-value "
        "subset and every vocabulary value with itself; beat units as ints and as integral floats: integers -8..1100, 2^k and 2^k+-1 up to 2^40, 2^k with odd and even neighbours and other even numbers for k up to 200, halves, thirds, 1e308, inf, -inf, nan; counts -3..24. "
        "Floats travel as exact fractions. Every meter call runs under a 2 s alarm (a timeout is the observation Hang)")
EXHAUSTIVE = {"quick": False, "thorough": False}
ASSUMPTIONS = []
BASES = [0.25, 0.5, 1, 2, 4, 8, 16, 32, 64, 128]

class _Timeout(Exception):
    pass
def _alarm(*a):
    raise _Timeout()
def guarded(f):
    def g(*args):
        signal.signal(signal.SIGALRM, _alarm)
        signal.setitimer(signal.ITIMER_REAL, 2.0)
        try:
            return f(*args)
        except _Timeout:
            return Err("Hang")
        finally:
            signal.setitimer(signal.ITIMER_REAL, 0)
    return g

def num(x):
    """protocol number -> python number"""
    if isinstance(x, str):
        return float(x)
    if isinstance(x, F):
        return int(x) if x.denominator == 1 else float(x)
    return x

def as_frac(x):
    return F(x)

def determine(q):
    b, d, r1, r2 = value.determine(num(q))
    return [F(b), d, r1, r2]

IMPL = {
    "value.determine": determine,
    "value.dots": lambda q, n: F(value.dots(num(q), n)),
    "value.tuplet": lambda q, a, b: F(value.tuplet(num(q), a, b)),
    "value.named_tuplet": lambda name, q: [F(getattr(value, name)(num(q))), F(value.tuplet(num(q), {"triplet": 3, "quintuplet": 5, "septuplet": 7}[name], 2 if name == "triplet" else 4))],
    "value.add": lambda a, b: F(value.add(num(a), num(b))),
    "value.subtract": lambda a, b: F(value.subtract(num(a), num(b))),
    "value.addsub": lambda a, b: F(value.subtract(value.add(num(a), num(b)), num(b))),
    "meter.valid_beat_duration": guarded(lambda b: meter.valid_beat_duration(num(b))),
    "meter.is_valid": guarded(lambda c, b: meter.is_valid((c, num(b)))),
    "value.septuplet8": lambda q: [F(value.septuplet(num(q), False)), F(value.tuplet(num(q), 7, 8))],
    "meter.is_simple": guarded(lambda c, b: meter.is_simple((c, num(b)))),
    "meter.is_compound": guarded(lambda c, b: meter.is_compound((c, num(b)))),
    "meter.is_asymmetrical": guarded(lambda c, b: meter.is_asymmetrical((c, num(b)))),
}
NO_MODEL = {"value.named_tuplet", "value.addsub", "value.septuplet8"}

def has_model(c):
    return c["fn"] not in NO_MODEL

def vocab():
    for b in BASES:
        for n in range(5):
            yield value.dots(b, n) if n else b, (b, n, 1, 1)
        yield value.triplet(b), (b, 0, 3, 2)
        yield value.quintuplet(b), (b, 0, 5, 4)
        yield value.septuplet(b), (b, 0, 7, 4)

def cases(tier, rng):
    for b in BASES:
        for n in range(5):
            yield Case("value.dots", [F(b), n], "dots/%d" % n)
        for name in ("triplet", "quintuplet", "septuplet"):
            yield Case("value.named_tuplet", [name, F(b)], "tuplet/named", model=False)
        yield Case("value.septuplet8", [F(b)], "tuplet/septuplet-in-eighths", model=False)
        for a, c in ((3, 2), (5, 4), (7, 4), (7, 8)):
            yield Case("value.tuplet", [F(b), a, c], "tuplet")
        # tuplets OF DOTTED values, by the named helpers and by the general formula: the same double as r1 * value / r2
        for n in (1, 2, 3):
            d = value.dots(b, n)
            for name in ("triplet", "quintuplet", "septuplet"):
                yield Case("value.named_tuplet", [name, F(d)], "tuplet/named-dotted", model=False)
            for a, c in ((3, 2), (5, 4), (7, 4)):
                yield Case("value.tuplet", [F(d), a, c], "tuplet/dotted", model=False)
    voc = list(vocab())
    for x, want in voc:
        yield Case("value.determine", [F(x)], "determine/built", kind=("built", want))
        for pct in (0.01, -0.01, 0.005, -0.005, 0.001, -0.001, 0.0099, -0.0099, 1 / 127.0, 1 / 255.0, 1 / 511.0, 1 / 1023.0, -1 / 127.0,
                    0.002, 0.003, 0.004, 0.006, 0.007, 0.008, 0.009, -0.003, -0.007):
            tag = "near" if want[1] <= 1 and want[2] == 1 else "perturbed"
            yield Case("value.determine", [F(x * (1 + pct))], "determine/" + tag, kind=(tag, want, x))
    thr = [0.9375, 0.8125, 17 / 24.0, 31 / 48.0, 67 / 112.0, 4.0 / 7, 8.0 / 15, 16.0 / 31, 0.5, 1.0]
    for i in range(-3, 10):
        for t in thr:
            x = t * 2.0 ** i
            for y in (x, math.nextafter(x, math.inf), math.nextafter(x, -math.inf)):
                yield Case("value.determine", [F(y)], "determine/threshold", kind=("free",))
    for _ in range(500 if tier == "quick" else 20000):
        x = math.exp(rng.uniform(math.log(0.05), math.log(400)))
        yield Case("value.determine", [F(x)], "determine/random", kind=("free",))
    sub = [x for x, w in voc][::4]
    for a in sub:
        for b in sub:
            if a != b:
                yield Case("value.add", [F(a), F(b)], "add")
                yield Case("value.subtract", [F(a), F(b)], "subtract")
                yield Case("value.addsub", [F(a), F(b)], "addsub", model=False)
    for a in [x for x, w in voc] + [3, 5, 6, 7, 12, 0.75, 1.5]:       # a value added to itself (its difference is a division by zero)
        yield Case("value.add", [F(a), F(a)], "add/equal")
        yield Case("value.addsub", [F(a), F(a)], "addsub/equal", model=False)
    for a, b in ((0, 4), (4, 0), (4, 4), (4, -4), (-3, 5), (F(1, 3), F(1, 3)), (8, F(8, 3))):      # zero operands, zero sums, negative values
        yield Case("value.add", [F(a), F(b)], "add/edge")
        yield Case("value.subtract", [F(a), F(b)], "subtract/edge")
    beats = list(range(-8, 1101)) + [2 ** k for k in range(11, 41)] + [2 ** k + 1 for k in range(1, 41)] + [2 ** k - 1 for k in range(2, 41)]
    # integers far beyond 2^53 (where a float cannot hold them): powers of two, their odd and even neighbours, other even numbers
    big = []
    for k in (52, 53, 54, 55, 60, 63, 64, 70, 100, 200):
        big += [2 ** k, 2 ** k + 1, 2 ** k - 1, 2 ** k + 2, 2 ** k - 2, 3 * 2 ** k, 2 ** k + 2 ** (k - 50), 2 ** k + 2 ** (k - 1)]
    beats += big
    beats += [F(1, 2), F(1, 4), F(3, 2), F(5, 2), F(1, 3), F(2, 3), F(7, 4), F(-1, 2), F(1e308), F(2.0 ** 1000), F(1e-300), "inf", "-inf", "nan"]
    for b in beats:
        yield Case("meter.valid_beat_duration", [b], "beat/" + ("special" if isinstance(b, str) else "int" if isinstance(b, int) else "frac"))
    # the same numbers as Python floats (4.0 == 4): the predicates are about the number, not its type
    floats = ["1.0", "2.0", "3.0", "4.0", "6.0", "8.0", "16.0", "12.0", "0.0", "-4.0", "1024.0", "1000.0", "4294967296.0"]
    for b in floats:
        yield Case("meter.valid_beat_duration", [b], "beat/float", model=False)
        for c in (3, 4, 6, 9, 0, -3):
            for f in ("meter.is_valid", "meter.is_simple", "meter.is_compound", "meter.is_asymmetrical"):
                yield Case(f, [c, b], f.split(".")[1] + "/float", model=False)
    for c in (3, 6, 4, 0):
        for b in (2 ** 54, 2 ** 54 + 2, 2 ** 60 + 3, 2 ** 64 - 2, 2 ** 70, 3 * 2 ** 70):
            for f in ("meter.is_valid", "meter.is_simple", "meter.is_compound", "meter.is_asymmetrical"):
                yield Case(f, [c, b], f.split(".")[1] + "/big")
    for c in (10 ** 17 + 1, 10 ** 17 + 2, 3 * 10 ** 17, 3 * 10 ** 17 + 1, 2 ** 53 + 1, 2 ** 53 + 2, 3 * 2 ** 60, 3 * 2 ** 60 + 1, 2 ** 64 + 1, 9 * 2 ** 70 + 2):
        for b in (4, 8, 3):
            for f in ("meter.is_valid", "meter.is_simple", "meter.is_compound", "meter.is_asymmetrical"):
                yield Case(f, [c, b], f.split(".")[1] + "/big-count")
    for c in range(-3, 25):
        for b in [1, 2, 3, 4, 6, 8, 16, 0, -4, 12, 64, F(1, 2), F(5, 2), "inf", "nan", 1024, 1000]:
            for f in ("meter.is_valid", "meter.is_simple", "meter.is_compound", "meter.is_asymmetrical"):
                yield Case(f, [c, b], f.split(".")[1])

def is_pow2(b):
    if isinstance(b, str):
        x = float(b)
        if not math.isfinite(x):
            return False
        b = F(x)
    q = F(b)
    return q >= 1 and q.denominator == 1 and (q.numerator & (q.numerator - 1)) == 0

def close(x, y, tol=1e-12):
    return abs(F(x) - F(y)) <= tol * abs(F(y))

def compare(c, obs, model_line):
    # add / subtract are modelled in double arithmetic (Value.addF / subtractF): compared bit for bit like everything else
    return enc(obs) == model_line

def oracle(c, obs):
    fn, a = c["fn"], c["args"]
    kind = c.get("kind", ())
    if isinstance(obs, Err) and obs.name == "Hang":
        return "the call did not terminate"
    if fn == "value.determine":
        if kind[0] == "built":
            w = kind[1]
            return None if obs == [F(w[0]), w[1], w[2], w[3]] else "analysis does not return the (base, dots, ratio) the value was built from"
        if kind[0] == "near":
            w = kind[1]
            return None if obs == [F(w[0]), w[1], w[2], w[3]] else "a value within 1%% of %r is not analysed as that value" % (kind[2],)
        return None
    if fn == "value.dots":
        b, n = F(a[0]), a[1]
        return None if close(obs, b / 2 / (1 - F(1, 2 ** (n + 1)))) else "dots() is not value/2/(1-2^-(n+1))"
    if fn == "value.tuplet":
        if c["tag"].endswith("dotted") and not isinstance(obs, Err):
            return None if obs == F(a[1] * float(a[0]) / a[2]) else "tuplet() is not the double r1 * value / r2"
        return None if close(obs, F(a[1]) * F(a[0]) / a[2]) else "tuplet() is not the ratio formula"
    if fn == "value.septuplet8":
        return None if obs[0] == obs[1] else "septuplet(value, in_fourths=False) differs from the general ratio formula 7:8"
    if fn == "value.named_tuplet":
        return None if obs[0] == obs[1] else "tuplet helper differs from the general ratio formula"
    if fn in ("value.add", "value.subtract"):
        x, y = F(a[0]), F(a[1])
        if x == 0 or y == 0:
            return None                                   # a zero value stands for no duration at all: outside the statement
        tot = 1 / x + 1 / y if fn == "value.add" else 1 / x - 1 / y
        if tot == 0:
            return None if isinstance(obs, Err) else "the difference of equal durations is not a note value"
        if isinstance(obs, Err):
            return "%s raised %s" % (fn, obs.name)
        return None if close(obs, 1 / tot) else ("add is not the sum of the durations" if fn == "value.add" else "subtract is not the difference of the durations")
    if fn == "value.addsub":
        return None if close(obs, a[0], 1e-9) else "subtract does not invert add"
    if fn == "meter.valid_beat_duration":
        return None if obs is is_pow2(a[0]) else "beat unit validity is not 'a non-negative power of two'"
    valid = a[0] > 0 and is_pow2(a[1])
    if fn in ("meter.is_valid", "meter.is_simple"):
        return None if obs is valid else "meter validity is not (count > 0 and beat unit a power of two)"
    if fn == "meter.is_compound":
        return None if obs is (valid and a[0] % 3 == 0 and a[0] >= 6) else "compound is not (valid, count divisible by 3 and >= 6)"
    if fn == "meter.is_asymmetrical":
        return None if obs is (valid and a[0] % 2 == 1) else "asymmetrical is not (valid and odd count)"
    return None
