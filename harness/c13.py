"""C13 correspondence + oracle (mingus.containers.Bar time accounting against an exact rational bar)."""
import itertools
from fractions import Fraction as F
from tools.framework import Case, Err
from harness import machines
from mingus.core import value as mvalue

ID = "C13"
LEAN_MODULES = ["Mingus.Props.C13", "Mingus.Props.C13Dyadic", "Mingus.Lemmas.Float", "Mingus.Tie.C13"]
RULE = ("all sequences of depth <=3 (quick) / <=4 (thorough) over {place v, rest v, +, remove-last} x 9 values x 7 meters; every "
        "single-value and two-value alternating fill-to-capacity (and one placement beyond) over the vocabulary (base values with "
        "0-2 dots, triplets, quintuplets, septuplets) x 7 meters; set-item / place-at / set-meter scripts; seeded random histories "
        "up to 200 steps. Values are generated structurally (base, dots, tuplet) so the exact rational length is known; the "
        "implementation receives the float the library's own constructors produce. The Lean model reproduces the float "
        "arithmetic exactly; the oracle is the exact rational bar")
EXHAUSTIVE = {"quick": True, "thorough": True}
METERS = [(4, 4), (3, 4), (6, 8), (12, 8), (2, 2), (5, 4), (0, 0)]

def vocab(maxdots=2):
    out = []
    for b in [1, 2, 4, 8, 16, 32, 64]:
        for d in range(maxdots + 1):
            exact = F(b) / 2 / (1 - F(1, 2 ** (d + 1))) if d else F(b)
            out.append((mvalue.dots(b, d) if d else b, exact, "b%dd%d" % (b, d)))
        out.append((mvalue.triplet(b), F(3 * b, 2), "b%dt3" % b))
        out.append((mvalue.quintuplet(b), F(5 * b, 4), "b%dt5" % b))
        out.append((mvalue.septuplet(b), F(7 * b, 4), "b%dt7" % b))
    return out
VOC = vocab()
SMALL = [v for v in VOC if v[2] in ("b1d0", "b2d0", "b4d0", "b8d0", "b4d1", "b8t3", "b16t5", "b2d1", "b16d0")]

def fl(x):
    return F(x)

def meter_from_list(cnt, unit, ops):
    """the same history on a bar whose meter was set from a tuple and on one whose meter was set from a LIST that the caller
    changes right afterwards"""
    from mingus.containers import Bar
    outs = []
    for as_list in (False, True):
        b = Bar("C", (4, 4))
        m = [cnt, unit] if as_list else (cnt, unit)
        b.set_meter(m)
        if as_list:
            m[1] = m[1] * 2; m[0] = m[0] + 1
        tr = []
        for op in ops:
            try:
                r = machines.bar_step(b, op)
                tr.append([r, machines.bar_out(b)])
            except Exception as e:
                tr.append(machines.canon(e))
        outs.append(tr)
    return outs

IMPL = {"bar.run": machines.run_bar, "bar.meter_list": meter_from_list}

def has_model(c):
    return c["fn"] != "bar.meter_list"

C_E = [["obj", "C", 4], ["obj", "E", 4]]
def mk_ops(seq):
    """seq of (kind, vocab-entry) -> (ops for the protocol, exact values)"""
    ops, exact = [], []
    for kind, v in seq:
        if kind == "place":
            ops.append(["place", C_E, fl(v[0])]); exact.append(v[1])
        elif kind == "rest":
            ops.append(["rest", fl(v[0])]); exact.append(v[1])
        elif kind == "plus":
            ops.append(["plus", [["bare", "G"]]]); exact.append(None)
        elif kind == "remove_last":
            ops.append(["remove_last"]); exact.append(None)
    return ops, exact

def cases(tier, rng):
    depth = 3 if tier == "quick" else 4
    alpha = [("place", v) for v in SMALL[:5]] + [("rest", v) for v in SMALL[5:9]] + [("plus", None), ("remove_last", None)]
    for m in METERS:
        for d in range(0, depth + 1):
            if tier == "quick" and d == depth and m not in ((4, 4), (6, 8)):
                continue
            for seq in itertools.product(alpha, repeat=d):
                ops, exact = mk_ops(seq)
                yield Case("bar.run", ["C", m[0], m[1], ops], "history/depth%d" % d, kind=("run", m, exact))
    # meters with a zero count and a real beat unit: the bar is unbounded, '+' still places one beat unit
    for m in [(0, 8), (0, 1), (0, 16), (0, 2)]:
        for d in range(0, 3):
            for seq in itertools.product(alpha, repeat=d):
                ops, exact = mk_ops(seq)
                yield Case("bar.run", ["C", m[0], m[1], ops], "history/zero-count", kind=("run", m, exact))
    # fills to capacity
    for m in METERS[:-1]:
        length = F(m[0], m[1])
        for v in VOC:
            n = length * v[1]
            if n.denominator == 1 and 1 <= n <= 128:
                seq = [("place", v)] * (int(n) + 1)
                ops, exact = mk_ops(seq)
                yield Case("bar.run", ["C", m[0], m[1], ops], "fill/single", kind=("run", m, exact))
        for v, w in itertools.permutations(SMALL, 2):
            seq, tot, k = [], F(0), 0
            while tot + 1 / (v if k % 2 == 0 else w)[1] <= length and k < 200:
                x = v if k % 2 == 0 else w
                seq.append(("place" if k % 3 else "rest", x)); tot += 1 / x[1]; k += 1
            seq.append(("place", v)); seq.append(("place", w))
            ops, exact = mk_ops(seq)
            yield Case("bar.run", ["C", m[0], m[1], ops], "fill/alternating" + ("/exact" if tot == length else ""), kind=("run", m, exact))
    # content-only operations and meters
    for m in METERS:
        ops = [["place", C_E, 4], ["rest", 4], ["set_item", 0, [["bare", "A"], ["bare", "C"]]], ["set_item", 1, [["obj", "D", 5]]],
               ["place_at", [["bare", "B"]], F(0)], ["place_at", [["bare", "B"]], F(1, 4)], ["set_item", 5, None], ["value_left"],
               ["remove_last"], ["remove_last"], ["remove_last"]]
        yield Case("bar.run", ["Eb", m[0], m[1], ops], "content", kind=("content", m))
    # the content of a placement in every form the documentation allows (the harness builds nothing itself)
    RAW = [(["str", "C"], [["C", 4]]), (["note", ["F#", 2]], [["F#", 2]]), (["strs", ["C", "E", "G"]], [["C", 4], ["E", 4], ["G", 4]]),
           (["pairs", [["C", 5], ["E", 5]]], [["C", 5], ["E", 5]]), (["mixed", ["A", ["C", 6]]], [["A", 4], ["C", 6]]),
           (["notes", [["D", 3], ["A", 3]]], [["D", 3], ["A", 3]]), (["pairs", [["Bb", 0]]], [["Bb", 0]]),
           (["strs", ["G"]], [["G", 4]]), (["mixed", [["E", 2], "G"]], [["E", 2], ["G", 2]])]
    for m in ((4, 4), (0, 0), (6, 8)):
        for raw, want in RAW:
            yield Case("bar.run", ["C", m[0], m[1], [["place", C_E, 4], ["place_raw", raw, 8]]], "content/raw-form", model=False,
                       kind=("raw", want))
    # assigning a rest (None) to an index: the entry becomes a rest, nothing else changes; assigning notes to a rest
    for m in METERS:
        ops = [["place", C_E, 4], ["place", [["obj", "D", 5]], 4], ["rest", 8], ["set_item", 0, None], ["set_item", 2, [["bare", "G"]]],
               ["set_item", 1, None]]
        yield Case("bar.run", ["C", m[0], m[1], ops], "content/rest-assigned", kind=("setrest", m))
    # the same through indices counted from the end (b[-1] is the last entry, for reading and for assigning)
    for m in METERS:
        for assigns in ([(-1, None), (-3, [["G", 4]]), (-2, None)], [(-3, None), (2, [["G", 4]]), (-1, [["G", 4]])]):
            ops = [["place", C_E, 4], ["place", [["obj", "D", 5]], 4], ["rest", 8]] + \
                  [["set_item", i, None if x is None else [["bare", "G"]]] for i, x in assigns]
            yield Case("bar.run", ["C", m[0], m[1], ops], "content/assigned-from-the-end", model=False, kind=("setrest", m, tuple(assigns)))
    # a note container handed over as such is the entry's content, as given
    for how in ("place", "plus"):
        yield Case("bar.run", ["C", 4, 4, [["place", C_E, 4], ["place_same", 4, how]]], "content/container-as-given", model=False, kind=("same",))
    for cnt, unit in ((6, 8), (3, 4), (4, 4), (5, 16), (2, 2)):
        yield Case("bar.meter_list", [cnt, unit, [["plus", C_E], ["place", C_E, unit], ["plus", C_E], ["rest", unit], ["plus", C_E], ["plus", C_E], ["plus", C_E]]],
                   "set_meter/from-list", model=False, kind=("meter_list",))
    for cnt, unit in [(4, 4), (3, 8), (7, 16), (0, 0), (4, 3), (4, 0), (0, 4), (5, 6), (2, 1), (9, 128), (4, 12), (3, F(1, 2)), (-2, 4)]:
        yield Case("bar.run", ["C", 4, 4, [["set_meter", cnt, unit], ["place", C_E, 4]]], "set_meter", kind=("meter", cnt, unit))
        yield Case("bar.run", ["C", cnt, unit, [["place", C_E, 4]]], "ctor_meter", kind=("ctor", cnt, unit))
    # beat units that are large powers of two (exactly representable, but a logarithm is not), and their neighbours
    for k in (10, 11, 20, 29, 31, 39, 47, 51, 55, 58, 59, 62, 64):
        for unit in (2 ** k, 2 ** k + 1, 3 * 2 ** (k - 1)):
            yield Case("bar.run", ["C", 4, 4, [["set_meter", 4, unit], ["place", C_E, 4]]], "set_meter/large-unit", kind=("meter", 4, unit))
            yield Case("bar.run", ["C", 1, unit, [["value_left"], ["place", C_E, unit], ["remove_last"], ["value_left"]]],
                       "ctor_meter/large-unit", kind=("ctor", 1, unit))
    # '+' places one beat unit: it fits exactly as long as the total does not exceed the length, however little is left
    for cnt, unit in ((2, 1024), (3, 2048), (2, 4096), (4, 1024)):
        yield Case("bar.run", ["C", cnt, unit, [["plus", C_E]] * (cnt + 1)], "plus/tiny-units", kind=("plusfill", cnt))
    # the beat unit as a Python float (8.0 == 8): accepted exactly like the integer
    for cnt, unit in [(4, 4), (6, 8), (3, 2), (5, 16), (2, 1), (4, 3), (4, 6), (7, 128)]:
        yield Case("bar.run", ["C", 4, 4, [["set_meter_f", cnt, unit], ["place", C_E, 4]]], "set_meter/float-unit", kind=("meter", cnt, unit))
    # adding notes at the start beat an entry ACTUALLY has (after placements and removals the starts are rounded sums):
    # only that entry changes
    for _ in range(80 if tier == "quick" else 800):
        m = rng.choice(METERS[:-1])
        seq = []
        for _ in range(rng.randint(3, 14)):
            k = rng.random()
            v = rng.choice(VOC)
            seq.append(("place", v) if k < 0.6 else ("rest", v) if k < 0.75 else ("remove_last", None))
        ops, _ = mk_ops(seq)
        n_at = rng.randint(1, 4)
        for _ in range(n_at):
            ops.append(["place_at_entry", [["obj", rng.choice(["B", "F#", "Db"]), rng.choice([2, 5, 6])]], rng.randint(0, 8)])
        yield Case("bar.run", ["C", m[0], m[1], ops], "place_at/actual-start", kind=("placeat", n_at))
    for key in ["H", "Fb", ""]:
        yield Case("bar.run", [key, 4, 4, []], "badkey", kind=("badkey",))
    for _ in range(60 if tier == "quick" else 600):
        m = rng.choice(METERS)
        seq = []
        for _ in range(rng.randint(20, 200)):
            k = rng.random()
            v = rng.choice(VOC)
            seq.append(("place", v) if k < 0.55 else ("rest", v) if k < 0.8 else ("plus", None) if k < 0.88 else ("remove_last", None))
        ops, exact = mk_ops(seq)
        yield Case("bar.run", ["C", m[0], m[1], ops], "history/random", kind=("run", m, exact))

def is_pow2(u):
    q = F(u)
    return q >= 1 and q.denominator == 1 and (q.numerator & (q.numerator - 1)) == 0

def check_run(c, obs):
    """returns (clause, info) or None; info = dict for the known-finding matcher"""
    _, m, exact = c["kind"]
    ops = c["args"][3]
    if isinstance(obs, Err):
        return "bar construction raised", {}
    length = F(m[0], m[1]) if m[1] else F(0)
    entries = []          # (exact length or None for unknown, value arg, content)
    fcur = 0.0            # the documented float accounting, replayed: current += 1.0 / value on accept, -= on removal
    for i, op in enumerate(ops):
        st = obs[i]
        t = op[0]
        tot = sum(e[0] for e in entries)
        if t in ("place", "rest", "plus"):
            if isinstance(st, Err):
                return "placement raised %s" % st.name, {}
            res, bar = st
            if t == "plus":
                ex = F(m[1]) if m[1] else F(4)
                varg = F(m[1]) if m[1] else F(4)
                cont = [["G", 4]]
            else:
                ex = exact[i]
                varg = op[2] if t == "place" else op[1]
                cont = [["C", 4], ["E", 4]] if t == "place" else None
            want = (tot + 1 / ex <= length) or length == 0
            fstep = 1.0 / float(varg)
            if res is not want:
                return ("placement %s although the exact total %s + %s %s the bar length %s" %
                        ("refused" if want else "accepted", tot, 1 / ex, "fits" if want else "exceeds", length)), \
                       {"kind": "accept", "want": want, "tot": tot, "step": 1 / ex, "length": length,
                        "float_overshoot": fcur + fstep > float(length)}
            if res:
                entries.append((1 / ex, varg, cont)); fcur += fstep
        elif t == "remove_last":
            if not entries:
                if not isinstance(st, Err):
                    return "remove-last on an empty bar did not raise", {}
                continue
            if isinstance(st, Err):
                return "remove-last raised", {}
            res, bar = st
            fcur -= 1.0 / float(entries[-1][1])
            entries.pop()
        bar = st[1]
        cur, blen, full, space, ents, meter, key = bar
        tot = sum(e[0] for e in entries)
        if len(ents) != len(entries):
            return "number of entries is not the number of accepted placements", {}
        acc = F(0)
        for (el, varg, cont), (start, val, content) in zip(entries, ents):
            if abs(start - acc) > F(1, 10 ** 9):
                return "an entry's start beat is not the sum of the lengths before it", {}
            if val != varg or content != cont:
                return "an entry does not carry the value and content it was placed with", {}
            acc += el
        if abs(cur - tot) > F(1, 10 ** 9):
            return "current beat is not the total length", {}
        if abs(cur + space - blen) > F(1, 10 ** 9) or blen != length:
            return "current beat plus space left is not the bar length", {}
        left = length - tot
        if abs(left - F(1, 1000)) > F(1, 10 ** 6):
            want_full = bool(entries) and length != 0 and left <= F(1, 1000)
            if full is not want_full:
                return "is_full disagrees with (non-empty and nothing left)", {}
    return None

def oracle(c, obs):
    if c["fn"] == "bar.meter_list":
        if isinstance(obs, Err):
            return "raised %s" % obs.name
        return None if obs[0] == obs[1] else "a bar whose meter was set from a list (changed by the caller afterwards) does not behave like the bar whose meter was set from the same numbers as a tuple"
    kind = c["kind"]
    if kind[0] == "run":
        r = check_run(c, obs)
        return r[0] if r else None
    if kind[0] in ("meter", "ctor"):
        _, cnt, unit = kind
        ok = is_pow2(unit) or (cnt == 0 and unit == 0)
        if kind[0] == "ctor":
            if not ok:
                return None if isinstance(obs, Err) else "invalid meter accepted by the constructor"
            if isinstance(obs, Err):
                return "valid meter rejected by the constructor"
            if obs[-1][1] != (F(cnt) / F(unit) if unit else 0):
                return "bar length is not count/unit"
            if cnt < 0:
                for st in obs[:-1]:
                    if isinstance(st, list) and len(st) == 2 and st[0] is True:
                        return "a placement was accepted in a bar of negative length"
            for st in obs:
                stt = st[1] if (isinstance(st, list) and len(st) == 2 and isinstance(st[1], list)) else st
                if isinstance(stt, list) and len(stt) >= 5 and stt[4] == [] and stt[2] is True:
                    return "an empty bar reports full"
            return None
        st = obs[0]
        if not ok:
            if not isinstance(st, Err):
                return "set_meter accepted a beat unit that is not a power of two"
            # a refused meter leaves the bar as it was: 4/4, one whole note long, and the next placement lands in that bar
            after = obs[1]
            if isinstance(after, Err) or after[1][5] != [4, F(4)] or after[1][1] != 1:
                return "a refused set_meter changed the bar (meter %s, length %s afterwards)" % (
                    ("?", "?") if isinstance(after, Err) else (after[1][5], after[1][1]))
            return None
        if isinstance(st, Err):
            return "set_meter rejected a power-of-two beat unit"
        return None if st[1][1] == (F(cnt) / F(unit) if unit else 0) else "length after set_meter is not count/unit"
    if kind[0] == "content":
        if isinstance(obs, Err):
            return "raised"
        # set_item / place_at change only that entry's content
        s0, s1, s2, s3, s4, s5 = obs[0], obs[1], obs[2], obs[3], obs[4], obs[5]
        if any(isinstance(x, Err) for x in (s0, s1)):
            m = kind[1]
            fits = m[1] == 0 or F(1, 2) <= F(m[0]) / F(m[1])
            return ("a placement that fits the bar raised or was lost" if fits else None)
        if any(isinstance(x, Err) for x in (s2, s3, s4)):
            return "assigning content to an existing index, or adding notes at an entry's beat, raised"
        e2 = s2[1][4]; e3 = s3[1][4]; e4 = s4[1][4]
        if [e[:2] for e in e2] != [e[:2] for e in s1[1][4]] or e2[1] != s1[1][4][1]:
            return "assigning content to an index changed something else"
        if e2[0][2] != [["A", 4], ["C", 5]] or e3[1][2] != [["D", 5]]:
            return "assigned content is not the converted note container"
        if e4[0][2] != [["A", 4], ["C", 5], ["B", 5]] or e4[1] != e3[1]:
            return "adding notes at a beat did not change exactly that entry"
        return None
    if kind[0] == "raw":
        if isinstance(obs, Err) or isinstance(obs[0], Err):
            return "raised"
        if isinstance(obs[1], Err):
            return "placing notes given as %s raised %s (strings, notes and lists become note containers)" % (c["args"][3][1][1][0], obs[1].name)
        r, st = obs[1]
        ents = st[4]
        if r is not True or len(ents) != 2:
            return "a placement that fits was not accepted as one new entry"
        if ents[1][1] != 8 or ents[1][2] != kind[1]:
            return "the new entry does not hold the given value and the given notes (got %s)" % (ents[1][1:],)
        return None
    if kind[0] == "plusfill":
        cnt = kind[1]
        if isinstance(obs, Err):
            return "raised"
        for i, st in enumerate(obs[:cnt + 1]):
            if isinstance(st, Err):
                return "'+' raised"
            want = i < cnt
            if st[0] is not want:
                return "'+' number %d of a %d-beat bar returned %s (it fits exactly as long as the bar is not over-full)" % (i + 1, cnt, st[0])
        return None
    if kind[0] == "setrest":
        if isinstance(obs, Err):
            return "raised"
        if any(isinstance(o, Err) for o in obs[:3]):
            return None                                  # the meter did not take the three placements: nothing to assign to
        before = obs[2][1][4]
        if len(before) < 3:
            return None
        want = [list(e) for e in before]
        for i, (idx, new) in enumerate(kind[2] if len(kind) > 2 else [(0, None), (2, [["G", 4]]), (1, None)]):
            st = obs[3 + i]
            if isinstance(st, Err):
                return "assigning content to an existing index raised"
            want[idx] = [want[idx][0], want[idx][1], new]
            if st[1][4] != want:
                return "assigning %s to index %d did not change exactly that entry's content (None stays a rest)" % (
                    "a rest" if new is None else "notes", idx)
            if st[1][:4] != obs[2][1][:4]:
                return "assigning content changed the bar's time accounting"
        return None
    if kind[0] == "same":
        if isinstance(obs, Err) or isinstance(obs[1], Err) or isinstance(obs[1][0], Err):
            return "placing a note container raised"
        (r, same), st = obs[1]
        if r is not True:
            return "a quarter-note container was refused in a 4/4 bar holding one quarter"
        if not same or st[4][-1][2] != [["C#", 4], ["Db", 4]]:
            return "a note container handed to the bar is not the entry's content as given (got %s)" % (st[4][-1][2],)
        return None
    if kind[0] == "placeat":
        if isinstance(obs, Err):
            return "raised"
        ops = c["args"][3]
        n_at = kind[1]
        first = len(ops) - n_at
        prev = None
        for i in range(first - 1, -1, -1):          # the bar before the first place_at
            if not isinstance(obs[i], Err):
                prev = obs[i][1][4]; break
        if prev is None:
            prev = []
        for i in range(first, len(ops)):
            k = ops[i][2]
            st = obs[i]
            if k >= len(prev):
                if isinstance(st, Err) or st[1][4] != prev:
                    return "adding notes at a beat where no entry starts changed the bar"
                continue
            if prev[k][2] is None:
                if not isinstance(st, Err):
                    return None if st[1][4] == prev else "adding notes to a rest changed the bar"
                continue
            if isinstance(st, Err):
                return "adding notes to entry %d raised %s" % (k, st.name)
            cur = st[1][4]
            if len(cur) != len(prev) or any(cur[j] != prev[j] for j in range(len(prev)) if j != k):
                return "adding notes at the start beat of entry %d changed another entry" % k
            if cur[k][:2] != prev[k][:2]:
                return "adding notes at a beat changed the entry's beat or value"
            n, o = ops[i][1][0][1], ops[i][1][0][2]
            have = {(x[0], x[1]) for x in prev[k][2]}
            want = have | {(n, o)}
            got = {(x[0], x[1]) for x in cur[k][2]}
            from harness.common import NATURAL, net
            pit = lambda x: 12 * x[1] + NATURAL[x[0][0]] + net(x[0])
            if {pit(x) for x in got} != {pit(x) for x in want}:
                return "adding notes at the start beat of entry %d did not add exactly those notes to it" % k
            prev = cur
        return None
    if kind[0] == "badkey":
        return None if isinstance(obs, Err) else "unknown key accepted"
    return None

def _float_fill(c, obs):
    """known finding: a placement whose exact total equals the bar length is refused (float total overshoots by < 1e-9)"""
    if c["kind"][0] != "run":
        return False
    r = check_run(c, obs)
    if not r or r[1].get("kind") != "accept":
        return False
    i = r[1]
    return i["want"] is True and i["tot"] + i["step"] == i["length"] and i["float_overshoot"]

KNOWN = {"C13-float-exact-fill": _float_fill}
