"""C20 correspondence + oracle (string tunings, fingerings and tablature are consistent with pitch arithmetic)."""
import itertools, os, re, warnings
warnings.filterwarnings("ignore")
from fractions import Fraction as F
from harness.common import NATURAL, net
from tools.framework import Case, Err
from harness.midi_common import *

ID = "C20"
LEAN_MODULES = ["Mingus.Props.C20", "Mingus.Props.C20Chord", "Mingus.Props.C20Decode", "Mingus.Props.C20Track", "Mingus.Props.C20Comp", "Mingus.Props.C20Pinned", "Mingus.Props.C20Header", "Mingus.Tie.C20"]
RULE = ("every registered tuning (76) x every string x notes 0..127 (quick: every 3rd) x maxfret {0,12,24}: find_frets and "
        "get_Note incl. out-of-range strings and frets; seeded random note sets (1-4 notes) per tuning x max_distance 1-6 against "
        "a brute-force specification of find_fingering; chord shorthands x roots on the guitar-family single-string tunings for "
        "find_chord_fingering; registry lookups over instrument/description prefixes x string counts x course counts; ASCII "
        "tablature of notes, containers, bars, tracks and compositions at page widths 30-200 on the default and other "
        "single-string tunings, compared with the Lean model line by line and decoded column by column")
EXHAUSTIVE = {"quick": False, "thorough": False}
ASSUMPTIONS = ["tablature is only rendered for tunings without courses (begin_track cannot label a course)",
               "notes carry no forced string/fret attributes",
               "os.linesep separates the lines"]

# ------------------------------------------------------------------ implementation side

def mk_tuning(t):
    from mingus.extra.tunings import StringTuning
    return StringTuning("x", "y", t)

def note_of(n):
    from mingus.containers import Note
    return Note(n[0], n[1])

def registry():
    from mingus.extra import tunings
    out = []
    for k in sorted(tunings._known):
        name, d = tunings._known[k]
        for dk in sorted(d):
            t = d[dk]
            out.append([name, t.description, [[("%s-%d" % (n.name, n.octave)) for n in x] if isinstance(x, list) else "%s-%d" % (x.name, x.octave) for x in t.tuning]])
    return out

def tun_frets(t, n, maxfret):
    return mk_tuning(t).find_frets(note_of(n), maxfret)

def tun_note(t, string, fret, maxfret):
    tun = mk_tuning(t)
    n = tun.get_Note(string, fret, maxfret)
    out = [n.name, n.octave]
    # a caller that keeps working with the note it was handed: the tuning must not notice
    n.transpose("3"); n.octave += 1
    again = tun.get_Note(string, fret, maxfret)
    if [again.name, again.octave] != out or tun.find_frets(mk_plain_note(out)) != mk_tuning(t).find_frets(mk_plain_note(out)):
        raise AssertionError("the tuning changed after the caller transposed a note that get_Note returned")
    return out

def mk_plain_note(no):
    from mingus.containers import Note
    return Note(no[0], no[1])

def tun_fingering(t, notes, max_distance):
    # the same notes in one of the argument forms the function accepts, chosen by the input itself: Note objects, note
    # strings in the given order, or (when that changes nothing: sorted, all pitches different) a NoteContainer
    from mingus.containers import NoteContainer
    form = (sum(n[1] for n in notes) + max_distance + len(notes)) % 3
    ps = [12 * n[1] + NATURAL[n[0][0]] + net(n[0]) for n in notes]
    if form == 1:
        arg = ["%s-%d" % (n[0], n[1]) for n in notes]
    elif form == 2 and ps == sorted(ps) and len(set(ps)) == len(ps):
        arg = NoteContainer([note_of(n) for n in notes])
    else:
        arg = [note_of(n) for n in notes]
    r = mk_tuning(t).find_fingering(arg, max_distance)
    return [[list(p) for p in f] for f in r]

def tun_chord(t, names, max_distance, maxfret, max_fingers):
    return mk_tuning(t).find_chord_fingering(list(names), max_distance, maxfret, max_fingers)

def tun_get(instrument, description, ns, nc):
    from mingus.extra import tunings
    t = tunings.get_tuning(instrument, description, ns, nc)
    return None if t is None else [t.instrument, t.description]

def tun_gets(instrument, ns, nc):
    from mingus.extra import tunings
    return sorted([t.instrument, t.description] for t in tunings.get_tunings(instrument, ns, nc))

def lines(s):
    return s.split(os.linesep)

def tab_note(t, n, width):
    from mingus.extra import tablature
    return lines(tablature.from_Note(note_of(n), width, None if t is None else mk_tuning(t)))

def tab_nc(t, ns, width):
    from mingus.extra import tablature
    return lines(tablature.from_NoteContainer(mk_nc(ns), width, None if t is None else mk_tuning(t)))

def tab_nc_form(t, ns, width, form):
    """the documented other forms of the argument: a list of 'C-4' strings, a list of Note objects"""
    from mingus.extra import tablature
    arg = ["%s-%d" % (n[0], n[1]) for n in ns] if form == "strings" else [note_of(n) for n in ns]
    return lines(tablature.from_NoteContainer(arg, width, None if t is None else mk_tuning(t)))

def tab_bar(t, bar, width):
    from mingus.extra import tablature
    return lines(tablature.from_Bar(mk_bar(bar), width, None if t is None else mk_tuning(t)))

def tab_bar_twice(t, bar, width, first):
    """THE SAME Bar object drawn first on another tuning, then on `t`: drawing reads the music, it leaves nothing on the notes"""
    from mingus.extra import tablature
    b = mk_bar(bar)
    try:
        tablature.from_Bar(b, width, mk_tuning(first))
    except Exception:
        pass
    return lines(tablature.from_Bar(b, width, None if t is None else mk_tuning(t)))

def tab_track(t, track, maxwidth):
    from mingus.extra import tablature
    return lines(tablature.from_Track(mk_track(track), maxwidth, None if t is None else mk_tuning(t)))

def tab_track_via(t, track, maxwidth, how):
    """the tuning is not passed to from_Track but held by the track (Track.tuning / set_tuning) or by its instrument only"""
    from mingus.extra import tablature
    from mingus.containers.instrument import Instrument
    tr = mk_track(track)
    tun = mk_tuning(t)
    if how == "track":
        tr.tuning = tun
    elif how == "set_tuning":
        tr.instrument = Instrument(); tr.set_tuning(tun)
    else:                                   # "instrument": only the instrument knows the tuning
        tr.instrument = Instrument(); tr.instrument.tuning = tun
    return lines(tablature.from_Track(tr, maxwidth))

def tab_bar_pinned(t, entries, width):
    """a bar whose notes come from the tuning itself (get_Note(string, fret)): they carry string / fret attributes"""
    from mingus.extra import tablature
    from mingus.containers import Bar, NoteContainer
    tun = mk_tuning(t)
    b = Bar("C", (4, 4))
    for v, pins in entries:
        if pins is None:
            b.place_rest(v)
        else:
            nc = NoteContainer()
            for s_, f_ in pins:
                nc.add_note(tun.get_Note(s_, f_))
            b.place_notes(nc, v)
    return lines(tablature.from_Bar(b, width, tun))

def tab_note_pinned(t, s_, f_, width):
    """one note taken from the tuning (get_Note(string, fret)): it carries string / fret attributes"""
    from mingus.extra import tablature
    tun = mk_tuning(t)
    return lines(tablature.from_Note(tun.get_Note(s_, f_), width, tun))

def tab_composition(comp, width):
    from mingus.extra import tablature
    from mingus.containers import Composition
    title, subtitle, author, email, description, tracks = comp
    c = Composition()
    c.set_title(title, subtitle)
    c.set_author(author, email)
    c.description = description
    for t in tracks:
        tr = mk_track(t[:3])
        if len(t) > 3 and t[3] is not None:
            tr.set_tuning(mk_tuning(t[3]))          # this track on its own tuning; the others on the default
        c.add_track(tr)
    return lines(tablature.from_Composition(c, width))

def tab_composition_safe(comp, width):
    from tools.framework import err_of
    try:
        return tab_composition(comp, width)
    except Exception as e:
        return err_of(e)

IMPL = {"tun.frets": tun_frets, "tun.note": tun_note, "tun.fingering": tun_fingering, "tun.chord": tun_chord,
        "tun.get": tun_get, "tun.gets": tun_gets, "tab.note": tab_note, "tab.nc": tab_nc, "tab.bar_pinned": tab_bar_pinned, "tab.note_pinned": tab_note_pinned, "tab.nc_form": tab_nc_form, "tab.track_via": tab_track_via, "tab.bar": tab_bar,
        "tab.bar_twice": tab_bar_twice, "tab.track": tab_track, "tab.composition": tab_composition}

def has_model(c):
    return True

# ------------------------------------------------------------------ independent arithmetic

def parse_open(s):
    name, octv = s.split("-")
    return int(octv) * 12 + NAT[name[0]] + name.count("#") - name[1:].count("b")

def open_pitches(t):
    return [parse_open(x[0] if isinstance(x, list) else x) for x in t]

def npitch(n):
    return pitch(n)

STD = ["E-2", "A-2", "D-3", "G-3", "B-3", "E-4"]

def spec_fingerings(t, notes, max_distance, maxfret=24):
    opens = open_pitches(t)
    out = []
    for strings in itertools.permutations(range(len(opens)), len(notes)):
        frets = [npitch(n) - opens[s] for n, s in zip(notes, strings)]
        if any(f < 0 or f > maxfret for f in frets):
            continue
        nz = [f for f in frets if f != 0]
        if nz and not (max(nz) - min(nz) < max_distance):
            continue
        out.append([[s, f] for s, f in zip(strings, frets)])
    return out

# ------------------------------------------------------------------ tablature decoding

def decode_tab(string_lines, opens):
    """string_lines: highest string first. -> list of sorted pitch lists, one per column group holding fret numbers"""
    body = []
    for ln in string_lines:
        i = ln.find("||")
        if i < 0:
            return None, "a string line has no '||'"
        body.append(ln[i + 2:])
    if len(set(len(b) for b in body)) != 1:
        return None, "string lines differ in length"
    n = len(body[0])
    cols = [any(b[c].isdigit() for b in body) for c in range(n)]
    groups, c = [], 0
    while c < n:
        if cols[c]:
            d = c
            while d < n and cols[d]:
                d += 1
            groups.append((c, d)); c = d
        else:
            c += 1
    entries = []
    for a, b in groups:
        ps = []
        for k, ln in enumerate(body):
            seg = ln[a:b].replace("-", "").replace(" ", "")
            if seg:
                if not seg.isdigit():
                    return None, "junk in a fret column: %r" % ln[a:b]
                string = len(body) - 1 - k
                ps.append(opens[string] + int(seg))
        entries.append(sorted(ps))
    return entries, None

def pn_(p):
    o, pc = divmod(p, 12)
    return [["C", "C#", "D", "Eb", "E", "F", "F#", "G", "Ab", "A", "Bb", "B"][pc], o, 1, 64]

def spec_fingers(f):
    """fingers a fingering needs, by the rule the library documents: going from the HIGHEST string down, the index finger lies
    across the lowest fretted position and covers every string at that fret until an open string is met (an open string cannot
    be barred over); every other entry that is not an open string takes a finger of its own"""
    fretted = [x for x in f if x]
    if not fretted:
        return 0
    low, n, index_used, open_met = min(fretted), 0, False, False
    for x in reversed(f):
        if x == 0 and x is not None:
            open_met = True
        elif not open_met and x == low:
            if not index_used:
                n += 1; index_used = True
        else:
            n += 1
    return n

def check_tab(out_lines, opens, want_entries, header_lines=0):
    """want_entries: list of sorted pitch lists of the sounding entries in order"""
    ls = out_lines
    if len(ls) != len(opens) + header_lines:
        return "%d lines for %d strings" % (len(ls), len(opens))
    sl = ls[header_lines:]
    if len(set(len(x) for x in sl)) != 1:
        return "string lines differ in length: %s" % [len(x) for x in sl]
    got, why = decode_tab(sl, opens)
    if got is None:
        return why
    if got != want_entries:
        return "reading the frets column by column gives pitches %s, written %s" % (got, want_entries)
    return None

def split_systems(ls, nstrings):
    """from_Track / from_Composition output -> list of systems (lists of nstrings string lines)"""
    systems, cur = [], []
    for ln in ls:
        if "||" in ln and re.search(r"\|\|[-0-9|]", ln):
            cur.append(ln)
            if len(cur) == nstrings:
                systems.append(cur); cur = []
        else:
            if cur:
                return None
    return None if cur else systems

# ------------------------------------------------------------------ cases

CHORDS = ["", "m", "7", "M7", "m7", "dim", "aug", "sus4", "6", "9"]

def cases(tier, rng):
    out = []
    reg = registry()
    step = 3 if tier == "quick" else 1
    for name, desc, t in reg:
        for i in range(0, 128, step):
            o, pc = divmod(i, 12)
            n = [["C", "C#", "D", "Eb", "E", "F", "F#", "G", "Ab", "A", "Bb", "B"][pc], o]
            for mf in (0, 12, 24):
                out.append(Case("tun.frets", [t, n, mf], tag="frets"))
        for s in range(-1, len(t) + 1):
            for f in (-1, 0, 1, 5, 12, 24, 25):
                out.append(Case("tun.note", [t, s, f, 24], tag="get_note"))
            out.append(Case("tun.note", [t, s, 13, 12], tag="get_note"))
        opens = open_pitches(t)
        for _ in range(4 if tier == "quick" else 30):
            k = rng.randint(1, min(4, len(t)))
            notes = []
            for _ in range(k):
                p = rng.choice(opens) + rng.randint(-2, 14)
                p = max(0, min(115, p))
                o, pc = divmod(p, 12)
                notes.append([["C", "Db", "D", "D#", "E", "F", "Gb", "G", "G#", "A", "A#", "B"][pc], o])
            out.append(Case("tun.fingering", [t, notes, rng.randint(1, 6)], tag="fingering"))
        out.append(Case("tun.fingering", [t, [], 4], tag="fingering"))
        # the same note twice, and notes given from high to low (entry i must sound notes[i])
        ops_ = open_pitches(t)
        for base in (ops_[0] + 7, ops_[-1] + 2):
            o_, pc_ = divmod(base, 12)
            nm_ = ["C", "C#", "D", "Eb", "E", "F", "F#", "G", "Ab", "A", "Bb", "B"][pc_]
            for md_ in (3, 4, 5):
                out.append(Case("tun.fingering", [t, [[nm_, o_], [nm_, o_]], md_], tag="fingering/doubled"))
                o2, pc2 = divmod(base - 5, 12)
                out.append(Case("tun.fingering", [t, [[nm_, o_], [["C", "C#", "D", "Eb", "E", "F", "F#", "G", "Ab", "A", "Bb", "B"][pc2], o2]], md_], tag="fingering/descending"))
    singles = [r for r in reg if not any(isinstance(x, list) for x in r[2])]
    guitars = [r for r in singles if "uitar" in r[0] or "Ukulele" in r[0] or "Banjo" in r[0]]
    from harness.c04 import ALL as _K
    roots = ["C", "D", "E", "F#", "G", "A", "Bb"]
    for name, desc, t in (guitars if tier == "thorough" else guitars[:6]):
        for root in roots:
            for ch in CHORDS:
                out.append(Case("tun.chord", [t, chord_names(root, ch), 4, 18, 4], tag="chord"))
        out.append(Case("tun.chord", [t, ["C", "E", "G"], 3, 12, 3], tag="chord"))
        out.append(Case("tun.chord", [t, [], 4, 18, 4], tag="chord"))
    # registry
    instruments = sorted(set(r[0] for r in reg))
    for ins in instruments + ["gui", "bass", "Ban", "", "zzz", "GUITAR", "guitar", "Mando"]:
        for desc in ("", "Standard", "standard tuning", "Open", "zzz", "D"):
            for ns in (None, 4, 6, 12):
                for nc in (None, 1, 2):
                    out.append(Case("tun.get", [ins, desc, ns, nc], tag="registry"))
        for ns in (None, 3, 4, 5, 6, 8):
            for nc in (None, 1, 2, 1.5):
                out.append(Case("tun.gets", [ins, ns, nc], tag="registry"))
    out.append(Case("tun.gets", [None, None, None], tag="registry"))
    out.append(Case("tun.gets", [None, 4, None], tag="registry"))
    out.append(Case("tun.gets", [None, None, 2], tag="registry"))
    # tablature
    tunings_for_tab = [None, STD] + [r[2] for r in singles[:: (8 if tier == "quick" else 2)]]
    for t in tunings_for_tab:
        opens = open_pitches(t or STD)
        for w in (30, 40, 60, 80, 120, 200):
            for p in sorted(set([opens[0] - 1, opens[0], opens[0] + 5, opens[-1], opens[-1] + 24, opens[-1] + 25, opens[len(opens) // 2] + 10])):
                if 0 <= p <= 115:
                    o, pc = divmod(p, 12)
                    out.append(Case("tab.note", [t, [["C", "C#", "D", "Eb", "E", "F", "F#", "G", "Ab", "A", "Bb", "B"][pc], o, 1, 64], w], tag="tab:note"))
    # EVERY single-string tuning of the registry once (label columns differ: 'B,,' and "e''" are three characters wide)
    for r in singles:
        t = r[2]
        opens = open_pitches(t)
        for p in (opens[0], opens[-1] + 3, opens[len(opens) // 2] + 1):
            if 0 <= p <= 115:
                o, pc = divmod(p, 12)
                nn = [["C", "C#", "D", "Eb", "E", "F", "F#", "G", "Ab", "A", "Bb", "B"][pc], o, 1, 64]
                out.append(Case("tab.note", [t, nn, 60], tag="tab:note-every-tuning"))
                out.append(Case("tab.bar", [t, ["C", 4, 4, [[4, [nn]], [4, None], [2, [nn]]]], 60], tag="tab:bar-every-tuning"))
    pn = pn_
    # values that are floats (dotted notes, triplets) next to whole ones, at a width that gives every entry its columns
    for tn in (None, STD):
        opens_ = open_pitches(tn or STD)
        for vals in ([4 / 1.5, 8, 4, 4], [12.0, 12.0, 12.0, 2, 4], [2 / 1.5, 4], [8 / 1.5, 16, 4.0, 2.0]):
            bar_ = ["C", 4, 4, [[v, [pn(opens_[j % len(opens_)] + 2)]] for j, v in enumerate(vals)]]
            out.append(Case("tab.bar", [tn, bar_, 120], tag="tab:bar-float-values"))
    # notes taken from the tuning (they remember string and fret), two of them from the SAME string in one entry
    for tn in (STD, ["E-1", "A-1", "D-2", "G-2"]):
        for ents in ([[4, [[2, 0], [2, 2]]], [4, None], [2, [[1, 3]]]], [[2, [[0, 0], [0, 5], [3, 2]]], [2, [[1, 0], [2, 0]]]],
                     [[4, [[3, 1]]], [4, [[3, 1], [3, 3]]], [4, [[0, 3], [1, 2], [2, 0], [3, 0]]], [4, None]]):
            out.append(Case("tab.bar_pinned", [tn, ents, 80], tag="tab:bar-pinned", model=False))
        for s_ in range(len(tn)):
            for f_ in (0, 1, 3, 7, 12, 17, 24):
                out.append(Case("tab.note_pinned", [tn, s_, f_, 40], tag="tab:note-pinned"))
    # a track drawn on the tuning IT holds (Track.tuning, set_tuning) or that only its instrument holds: no tuning argument
    def pn(p):
        o, pc = divmod(p, 12)
        return [["C", "C#", "D", "Eb", "E", "F", "F#", "G", "Ab", "A", "Bb", "B"][pc], o, 1, 64]
    bass = ["E-1", "A-1", "D-2", "G-2"]
    uke = ["G-4", "C-4", "E-4", "A-4"]
    for tn, lo in ((bass, 28), (uke, 60), (STD, 40)):
        trk = ["t", None, [["C", 4, 4, [[4, [pn(lo)]], [4, None], [2, [pn(lo + 7)]]]], ["C", 4, 4, [[2, [pn(lo + 5)]], [2, [pn(lo + 9)]]]]]]
        for how in ("track", "set_tuning", "instrument"):
            out.append(Case("tab.track_via", [tn, trk, 80, how], tag="tab:track-own-tuning", model=False))
    # entries that cannot be fingered, in every form of the argument: the error must be the finger error
    NAMES12 = ["C", "C#", "D", "Eb", "E", "F", "F#", "G", "Ab", "A", "Bb", "B"]
    def pn(p):
        o, pc = divmod(p, 12)
        return [NAMES12[pc], o, 1, 64]
    for t in tunings_for_tab:
        opens = open_pitches(t or STD)
        sets = [[opens[0] - 1], [opens[0], opens[0] + 1], [opens[-1] + 40], [opens[0] - 2, opens[-1]], [opens[0], opens[-1] + 2]]
        for ps in sets:
            if all(0 <= p <= 115 for p in ps):
                ch = [pn(p) for p in ps]
                out.append(Case("tab.nc", [t, ch, 60], tag="tab:nc-unplayable"))
                for form in ("strings", "notes"):
                    out.append(Case("tab.nc_form", [t, ch, 60, form], tag="tab:nc-unplayable-" + form, model=False))
    n_rand = 150 if tier == "quick" else 2500
    for _ in range(n_rand):
        t = rng.choice(tunings_for_tab)
        opens = open_pitches(t or STD)
        w = rng.choice([40, 50, 60, 80, 100, 120])
        out.append(Case("tab.nc", [t, tab_chord(rng, opens), w], tag="tab:nc"))
        if _ < 60:
            ch = tab_chord(rng, opens)
            for form in ("strings", "notes"):
                out.append(Case("tab.nc_form", [t, ch, w, form], tag="tab:nc-" + form, model=False))
        out.append(Case("tab.bar", [t, tab_bar_payload(rng, opens), rng.choice([40, 60, 80])], tag="tab:bar"))
        out.append(Case("tab.track", [t, ["t", None, [tab_bar_payload(rng, opens) for _ in range(rng.randint(0, 5))]], rng.choice([60, 80, 100, 120, 150, 200])], tag="tab:track"))
        if t is None or t == STD:
            trs = [["t", None, [tab_bar_payload(rng, opens) for _ in range(rng.randint(0, 4))]] for _ in range(rng.randint(1, 3))]
            out.append(Case("tab.composition", [[rng.choice(["Untitled", "a title"]), rng.choice(["", "sub"]), rng.choice(["", "me"]), rng.choice(["", "me@x.org"]), rng.choice(["", "some words " * 12]), trs], rng.choice([80, 100, 120, 160])], tag="tab:composition"))
    # compositions whose tracks have DIFFERENT tunings (a tuned track before, between and after untuned ones)
    bass = ["E-1", "A-1", "D-2", "G-2"]
    uke = ["G-4", "C-4", "E-4", "A-4"]
    for _ in range(12 if tier == "quick" else 120):
        def trk(tun):
            opens_ = open_pitches(tun or STD)
            return ["t", None, [tab_bar_payload(rng, opens_) for _ in range(rng.randint(1, 3))], tun]
        for layout in ([bass, None], [None, uke], [None, bass, None], [uke, bass], [bass, None, uke]):
            out.append(Case("tab.composition", [["mixed", "", "", "", "", [trk(t_) for t_ in layout]], rng.choice([80, 100, 120, 160])], tag="tab:composition-mixed"))
    # page headers: centring at odd/even widths and text lengths, the description's word wrapping (a word longer than the
    # line first, runs of blanks, tabs and newlines between words, many short words)  [C20Header.lean]
    letters = "abcdefghijklmnopqrstuvwxyzABCDEFGHIJ"
    def word(lo, hi):
        return "".join(rng.choice(letters) for _ in range(rng.randint(lo, hi)))
    for k in range(40 if tier == "quick" else 400):
        w = rng.choice([60, 61, 80, 81, 100, 101, 121, 160])
        nw = rng.choice([0, 1, 2, 5, 12, 30, 60])
        ws = [word(1, 9) if rng.random() < 0.85 else word(w - 14, w + 5) for _ in range(nw)]
        if k % 5 == 0 and ws:
            ws[0] = word(w - 11, w - 8)          # the first word at the edge of what a line takes
        desc = ""
        for x in ws:
            desc += x + rng.choice([" ", " ", " ", "  ", "\t", "\n", " \n "])
        if k % 3 == 0:
            desc = desc.rstrip()
        ttl = " ".join(word(1, 8) for _ in range(rng.randint(1, 4)))
        if k % 7 == 0:
            ttl = word(w // 3, w // 2)           # spaced out, wider than the page
        sub = rng.choice(["", word(1, 12), word(2, 7) + " " + word(1, 7) + "'s " + word(1, 3)])
        au = rng.choice(["", word(1, 10), word(3, 8) + " " + word(3, 8)])
        em = rng.choice(["", word(2, 6) + "@" + word(2, 6) + ".org"])
        trs = [["t", None, [tab_bar_payload(rng, open_pitches(STD)) for _ in range(rng.randint(0, 2))]] for _ in range(rng.randint(1, 2))]
        out.append(Case("tab.composition", [[ttl, sub, au, em, desc, trs], w], tag="tab:composition-header"))
    # one Bar object drawn on two tunings one after the other (six strings then four, four then six, ...)
    GTR12 = ["E-2", "A-2", "D-3", "G-3", "B-3", "E-4"]
    for _ in range(30 if tier == "quick" else 300):
        second, first = rng.choice([(["C-3", "G-3", "D-4", "A-4"], GTR12), (None, ["C-3", "G-3", "D-4", "A-4"]), (["G-4", "C-4", "E-4", "A-4"], GTR12),
                                    (GTR12, ["E-1", "A-1", "D-2", "G-2"]), (["E-1", "A-1", "D-2", "G-2"], GTR12)])
        out.append(Case("tab.bar_twice", [second, tab_bar_payload(rng, open_pitches(second or STD)), rng.choice([40, 60, 80]), first],
                        tag="tab:bar-drawn-twice", model=False))
    out.append(Case("tab.bar", [None, ["C", 4, 4, []], 40], tag="tab:bar"))
    out.append(Case("tab.track", [None, ["t", None, []], 80], tag="tab:track"))
    return out

def chord_names(root, ch):
    semis = {"": [0, 4, 7], "m": [0, 3, 7], "7": [0, 4, 7, 10], "M7": [0, 4, 7, 11], "m7": [0, 3, 7, 10], "dim": [0, 3, 6],
             "aug": [0, 4, 8], "sus4": [0, 5, 7], "6": [0, 4, 7, 9], "9": [0, 4, 7, 10, 2]}[ch]
    r = NAT[root[0]] + root.count("#") - root[1:].count("b")
    names = ["C", "C#", "D", "Eb", "E", "F", "F#", "G", "Ab", "A", "Bb", "B"]
    return [names[(r + s) % 12] for s in semis]

def tab_chord(rng, opens):
    k = rng.randint(1, min(4, len(opens)))
    ps = set()
    while len(ps) < k:
        ps.add(max(0, min(115, rng.choice(opens) + rng.randint(0, 9))))
    out = []
    for p in sorted(ps):
        o, pc = divmod(p, 12)
        out.append([["C", "C#", "D", "Eb", "E", "F", "F#", "G", "Ab", "A", "Bb", "B"][pc], o, 1, 64])
    return out

def tab_bar_payload(rng, opens):
    entries, total = [], F(0)
    for _ in range(rng.randint(0, 6)):
        v = rng.choice([1, 2, 4, 4, 8, 8])
        if total + F(1, v) > 1:
            continue
        total += F(1, v)
        entries.append([v, None if rng.random() < 0.2 else tab_chord(rng, opens)])
    return ["C", 4, 4, entries]

# ------------------------------------------------------------------ oracle

def fingerable(t, ns):
    return bool(spec_fingerings(t, ns, 4))

def oracle(c, obs):
    fn, a = c["fn"], c["args"]
    if fn == "tab.bar_twice":
        fn, a = "tab.bar", a[:3]
    if fn == "tun.frets":
        t, n, mf = a
        if isinstance(obs, Err):
            return "find_frets raised %s" % obs.name
        want = [(npitch(n + [0, 0]) - o) if 0 <= npitch(n + [0, 0]) - o <= mf else None for o in open_pitches(t)]
        if obs != want:
            return "frets %s, the semitone distances from the open strings within 0..%d are %s" % (obs, mf, want)
    elif fn == "tun.note":
        t, s, f, mf = a
        ok = 0 <= s < len(t) and 0 <= f <= mf
        if not ok:
            if not (isinstance(obs, Err) and obs.name == "RangeError"):
                return "string %d fret %d (maxfret %d) is out of range but gave %s" % (s, f, mf, obs)
        else:
            if isinstance(obs, Err):
                return "get_Note raised %s for a playable position" % obs.name
            got = npitch([obs[0], obs[1], 0, 0])
            if got != open_pitches(t)[s] + f:
                return "note %s at string %d fret %d, the open string raised by %d semitones is pitch %d" % (obs, s, f, f, open_pitches(t)[s] + f)
    elif fn == "tun.fingering":
        t, notes, md = a
        if isinstance(obs, Err):
            return "find_fingering raised %s" % obs.name
        want = spec_fingerings(t, [n + [0, 0] for n in notes], md) if notes else []
        key = lambda f: tuple(map(tuple, f))
        if sorted(map(key, obs)) != sorted(map(key, want)):
            extra = [f for f in obs if f not in want][:2]; missing = [f for f in want if f not in obs][:2]
            return "fingerings differ from the specification: not allowed %s, missing %s" % (extra, missing)
        totals = [sum(p[1] for p in f) for f in obs]
        if totals != sorted(totals):
            return "fingerings are not ordered by total fret number: %s" % totals
    elif fn == "tun.chord":
        t, names, md, mf, mfing = a
        if isinstance(obs, Err):
            return "find_chord_fingering raised %s" % obs.name
        opens = open_pitches(t)
        pcs = set((NAT[x[0]] + x.count("#") - x[1:].count("b")) % 12 for x in names)
        for f in obs:
            if len(f) != len(opens):
                return "fingering %s has %d entries for %d strings" % (f, len(f), len(opens))
            sounding = [(opens[i] + x) % 12 for i, x in enumerate(f) if x is not None]
            if not set(sounding) <= pcs:
                return "fingering %s sounds pitch classes %s outside the chord %s" % (f, sorted(set(sounding) - pcs), sorted(pcs))
            if set(sounding) != pcs:
                return "fingering %s does not cover the chord: missing %s" % (f, sorted(pcs - set(sounding)))
            nz = [x for x in f if x not in (None, 0)]
            if nz and not (max(nz) - min(nz) < md):
                return "fingering %s spans %d frets, the limit is %d" % (f, max(nz) - min(nz), md)
            if any(x is not None and not (0 <= x <= mf) for x in f):
                return "fingering %s uses a fret outside 0..%d" % (f, mf)
            if spec_fingers(f) > mfing:
                return "fingering %s needs %d fingers, the limit is %d" % (f, spec_fingers(f), mfing)
    elif fn == "tun.get":
        ins, desc, ns, nc = a
        reg = registry()
        def ok(r):
            t = r[2]
            courses = sum(len(x) if isinstance(x, list) else 1 for x in t) / float(len(t))
            return (r[0].upper().startswith(ins.upper()) and r[1].upper().startswith(desc.upper())
                    and (ns is None or len(t) == ns) and (nc is None or courses == nc))
        if isinstance(obs, Err):
            return "get_tuning raised %s" % obs.name
        if obs is not None:
            m = [r for r in reg if r[0] == obs[0] and r[1] == obs[1]]
            if not m or not ok(m[0]):
                return "returned %s, which does not satisfy the constraints" % obs
    elif fn == "tun.gets":
        ins, ns, nc = a
        if isinstance(obs, Err):
            return "get_tunings raised %s" % obs.name
        reg = registry()
        for o in obs:
            m = [r for r in reg if r[0] == o[0] and r[1] == o[1]][0]
            t = m[2]
            courses = sum(len(x) if isinstance(x, list) else 1 for x in t) / float(len(t))
            if ins is not None and not m[0].upper().startswith(ins.upper()):
                return "returned %s for the instrument prefix %r" % (o, ins)
            if ns is not None and len(t) != ns:
                return "returned %s with %d strings, asked for %d" % (o, len(t), ns)
            if nc is not None and courses != nc:
                return "returned %s with %s courses per string, asked for %s" % (o, courses, nc)
    elif fn in ("tab.note", "tab.nc", "tab.nc_form"):
        t, n, w = a[:3]
        opens = open_pitches(t or STD)
        ns = [n] if fn == "tab.note" else n
        playable = fingerable(t or STD, ns)
        if not playable:
            want = "RangeError" if fn == "tab.note" else "FingerError"
            if not (isinstance(obs, Err) and obs.name == want):
                return "no fingering exists but the result is %s, not %s" % (str(obs)[:80], want)
            return None
        if isinstance(obs, Err):
            return "a playable %s raised %s" % ("note" if fn == "tab.note" else "container", obs.name)
        return check_tab(obs, opens, [sorted(npitch(x) for x in ns)])
    elif fn == "tab.note_pinned":
        t, s_, f_, w = a
        opens = open_pitches(t)
        if isinstance(obs, Err):
            return "a note taken from the tuning (string %d, fret %d) raised %s" % (s_, f_, obs.name)
        return check_tab(obs, opens, [[opens[s_] + f_]])
    elif fn == "tab.bar_pinned":
        t, ents, w = a
        opens = open_pitches(t)
        want = [sorted(set(opens[s_] + f_ for s_, f_ in pins)) for v, pins in ents if pins]
        sets = [[pn_(p) for p in ps] for ps in want]
        if any(not fingerable(t, ns) for ns in sets):
            return None if (isinstance(obs, Err) and obs.name == "FingerError") else "an entry has no fingering but the result is %s" % str(obs)[:60]
        if isinstance(obs, Err):
            return "a playable bar of notes taken from the tuning raised %s" % obs.name
        return check_tab(obs, opens, want, header_lines=1)
    elif fn == "tab.bar":
        t, bar, w = a
        opens = open_pitches(t or STD)
        sounding = [e[1] for e in bar[3] if e[1]]
        if any(not fingerable(t or STD, ns) for ns in sounding):
            if not (isinstance(obs, Err) and obs.name == "FingerError"):
                return "an entry has no fingering but the result is %s, not FingerError" % str(obs)[:80]
            return None
        if isinstance(obs, Err):
            return "a playable bar raised %s" % obs.name
        if not tab_room(t, bar, w):
            return None                     # outside the stated domain: an entry gets no column of its own
        return check_tab(obs, opens, [sorted(npitch(x) for x in ns) for ns in sounding], header_lines=1)
    elif fn == "tab.composition" and any(len(tr) > 3 and tr[3] is not None for tr in a[0][5]):
        # tracks on different tunings: every track must be drawn exactly as it is drawn alone (on ITS tuning)
        comp, w = a
        if isinstance(obs, Err):
            singles_err = [tab_composition_safe(comp[:5] + [[tr]], w) for tr in comp[5]]
            return None if any(isinstance(x, Err) for x in singles_err) else "a composition of playable tracks raised %s" % obs.name
        is_string = lambda ln: "|" in ln and "-" in ln
        multi = [ln for ln in obs if is_string(ln)]
        total = 0
        for j, tr in enumerate(comp[5]):
            single = tab_composition_safe(comp[:5] + [[tr]], w)
            if isinstance(single, Err):
                return None
            want = [ln for ln in single if is_string(ln)]
            total += len(want)
            it = iter(multi)
            if not all(any(x == y for y in it) for x in want):
                return "track %d of the composition is not drawn as it is drawn alone on its own tuning (%d string lines expected)" % (j, len(want))
        if total != len(multi):
            return "the composition has %d string lines, its tracks drawn alone have %d" % (len(multi), total)
        return None
    elif fn in ("tab.track", "tab.track_via", "tab.composition"):
        if fn in ("tab.track", "tab.track_via"):
            t, track, w = a[:3]
            tracks = [track]; opens = open_pitches(t or STD); tun = t or STD
        else:
            comp, w = a
            tracks = comp[5]; opens = open_pitches(STD); tun = STD
        sounding = [[e[1] for b in tr[2] for e in b[3] if e[1]] for tr in tracks]
        if any(not fingerable(tun, ns) for s in sounding for ns in s):
            if not (isinstance(obs, Err) and obs.name == "FingerError"):
                return "an entry has no fingering but the result is %s, not FingerError" % str(obs)[:80]
            return None
        if isinstance(obs, Err):
            return "playable music raised %s" % obs.name
        if fn == "tab.composition":
            why = check_header(obs, comp, w)
            if why:
                return why
        bw = bar_width(w)
        if any(not tab_room(None if tun == STD and fn == "tab.composition" else (a[0] if fn in ("tab.track", "tab.track_via") else None), b, bw) for tr in tracks for b in tr[2]):
            return None
        systems = split_systems(obs, len(opens))
        if systems is None:
            return "the string lines do not come in groups of %d" % len(opens)
        got = []
        for sysl in systems:
            if len(set(len(x) for x in sysl)) != 1:
                return "string lines of one system differ in length: %s" % [len(x) for x in sysl]
            # a system holds several bars one after the other: decode everything after the first '||'
            e, why = decode_tab(sysl, opens)
            if e is None:
                return why
            got.append(e)
        if fn in ("tab.track", "tab.track_via"):
            flat = [x for s in got for x in s]
            want = [sorted(npitch(x) for x in ns) for ns in sounding[0]]
            if flat != want:
                return "reading the frets column by column gives pitches %s, written %s" % (flat[:12], want[:12])
        else:
            # systems alternate between tracks within a page row; compare as multisets of entries per track count only
            flat = sorted(tuple(x) for s in got for x in s)
            want = sorted(tuple(sorted(npitch(x) for x in ns)) for s in sounding for ns in s)
            if flat != want:
                return "the fret numbers read off the page give entries %s, written %s" % (flat[:10], want[:10])
    return None

def check_header(page, comp, width):
    """the page header: every line centred (blanks only, sides differ by at most one, never cut), the description's words all
    there, once and in order, right before the instrument list; the page opens with an empty line and the spaced-out title"""
    title, subtitle, author, email, description = comp[:5]
    k = next((i for i, ln in enumerate(page) if ln.strip(" ") == "Instruments"), None)
    if k is None:
        return "the page header has no 'Instruments' line"
    hdr = page[:k]
    if len(hdr) < 2 or hdr[0] != "" or hdr[1].strip(" ") != "  ".join(title.upper()).strip(" "):
        return "the page does not open with an empty line and the spaced-out upper-case title: %r" % (hdr[:2],)
    for ln in hdr:
        core = ln.strip(" ")
        if not core:
            # "" between blocks; `width` blanks where the wrapping loop closed an empty line (first word longer than a line)
            if ln != "" and ln != " " * width:
                return "a blank header line is neither empty nor %d blanks: %r" % (width, ln)
            continue
        left = len(ln) - len(ln.lstrip(" ")); right = len(ln) - len(ln.rstrip(" "))
        if len(ln) != max(width, len(core)) or abs(left - right) > 1:
            return "header line not centred in %d columns: %r" % (width, ln)
    dw = description.split()
    if description != "":
        if hdr[-2:] != ["", ""]:
            return "the header block before the instrument list does not end with two empty lines"
        body = hdr[:-2]; dl = []
        while body and body[-1] != "":
            dl.insert(0, body.pop())
        got = [x for ln in dl for x in ln.split()]
        if got != dw:
            return "the description's words are not all in the header, once and in order: %s ... written %s ..." % (got[:8], dw[:8])
        for ln in dl:
            if len(ln.split()) >= 2 and len(" ".join(ln.split())) >= width - 10:
                return "a wrapped description line of several words is %d characters, not shorter than width - 10 = %d" % (len(" ".join(ln.split())), width - 10)
    return None

def bar_width(maxwidth):
    if maxwidth <= 60:
        return maxwidth
    if maxwidth <= 120:
        return maxwidth // 2
    return maxwidth // 3

def label(s):
    """Helmholtz label of an open string: C-2 -> 'C', C-1 -> 'C,', C-3 -> 'c', C-4 -> "c'" """
    name, octv = s.split("-")
    o = int(octv)
    if o >= 3:
        return name[0].lower() + name[1:] + "'" * (o - 3)
    return name + "," * (2 - o)

def tab_room(t, bar, width):
    """the statement's domain: the width gives each entry at least one column beyond its fret digits"""
    tun = t or STD
    labels = [label(x) for x in tun]
    basesize = len(max(labels)) + 3          # the layout rule of begin_track / _get_qsize
    q = max(0, int(((width - basesize) - 3) / 4.5))
    if q <= 0:
        return False
    for e in bar[3]:
        if int((1.0 / e[0]) * q * 4) - 2 < 1:       # two digits is the widest fret number
            return False
    return True
