"""C18 correspondence + oracle (sequencer playback emits a balanced, ordered, correctly timed event stream)."""
import warnings, json
warnings.filterwarnings("ignore")
from fractions import Fraction as F
from tools.framework import Case, Err
from harness.midi_common import *

ID = "C18"
LEAN_MODULES = ["Mingus.Props.C18", "Mingus.Props.C18Par", "Mingus.Props.C18Tracks", "Mingus.Props.C18Tempo", "Mingus.Tie.C18"]
RULE = ("seeded random scripts of sequencer calls (attach/detach of two recording observers, play/stop of notes and containers, "
        "bars and tracks with chords, rests in every position, tempo-changing containers, channels 0-15, velocities 0-127, "
        "control changes over -2..130 x -2..130 boundary sets, instrument changes) on a recording Sequencer subclass; parallel "
        "playback of 1-4 bars / tracks / a composition with equal rhythms (dyadic and non-dyadic values, full and partial bars) "
        "and with unequal rhythms; MIDI instruments by number and by General MIDI name; every trace compared with the Lean trace "
        "machine where it is modelled and judged by an independent event oracle (balance, order, absolute times from the "
        "cumulated sleeps, observer = hooks while attached, return values)")
EXHAUSTIVE = {"quick": False, "thorough": False}
ASSUMPTIONS = ["time is the sequence of sleep() arguments (exact doubles); no real clock, audio or FluidSynth is involved",
               "high-level observer callbacks (play_Note ... play_Composition with object arguments) are checked for count and kind, "
               "not for object identity"]

# ------------------------------------------------------------------ implementation side

def run(script):
    from mingus.midi.sequencer import Sequencer
    from mingus.midi.sequencer_observer import SequencerObserver
    from mingus.containers.instrument import MidiInstrument

    class Rec(Sequencer):
        def init(self):
            self.trace = []
        def play_event(self, note, channel, velocity):
            self.trace.append(["play", note, channel, velocity])
        def stop_event(self, note, channel):
            self.trace.append(["stop", note, channel])
        def cc_event(self, channel, control, value):
            self.trace.append(["cc", channel, control, value])
        def instr_event(self, channel, instr, bank):
            self.trace.append(["instr", channel, instr, bank])
        def sleep(self, seconds):
            self.trace.append(["sleep", F(seconds)])

    class Obs(SequencerObserver):
        def __init__(self):
            self.trace = []
            self.high = []
        def play_int_note_event(self, int_note, channel, velocity):
            self.trace.append(["play", int_note, channel, velocity])
        def stop_int_note_event(self, int_note, channel):
            self.trace.append(["stop", int_note, channel])
        def cc_event(self, channel, control, value):
            self.trace.append(["cc", channel, control, value])
        def instr_event(self, channel, instr, bank):
            self.trace.append(["instr", channel, instr, bank])
        def sleep(self, seconds):
            self.trace.append(["sleep", F(seconds)])
        def play_Note(self, note, channel, velocity): self.high.append("play_Note")
        def stop_Note(self, note, channel): self.high.append("stop_Note")
        def play_NoteContainer(self, notes, channel): self.high.append("play_NC")
        def stop_NoteContainer(self, notes, channel): self.high.append("stop_NC")
        def play_Bar(self, bar, channel, bpm): self.high.append("play_Bar")
        def play_Bars(self, bars, channels, bpm): self.high.append("play_Bars")
        def play_Track(self, track, channel, bpm): self.high.append("play_Track")
        def play_Tracks(self, tracks, channels, bpm): self.high.append("play_Tracks")
        def play_Composition(self, composition, channels, bpm): self.high.append("play_Composition")

    def track_of(t):
        tr = mk_track([t[0], None, t[2]])
        if t[1] is not None:
            i = MidiInstrument()
            if isinstance(t[1], str):
                i.name = t[1]
            else:
                i.instrument_nr = t[1]
            tr.instrument = i
        return tr

    def ret(r):
        if isinstance(r, dict):
            return r.get("bpm", "empty")
        return r

    s = Rec()
    obs = [Obs(), Obs()]
    rets = []
    for op in script:
        k = op[0]
        if k == "attach":
            s.attach(obs[op[1]]); rets.append(None)
        elif k == "detach":
            s.detach(obs[op[1]]); rets.append(None)
        elif k == "play_note":
            rets.append(ret(s.play_Note(mk_note(op[1]))))
        elif k == "stop_note":
            rets.append(ret(s.stop_Note(mk_note(op[1]))))
        elif k == "play_nc":
            rets.append(ret(s.play_NoteContainer(None if op[1] is None else mk_nc(op[1]), op[2])))
        elif k == "stop_nc":
            rets.append(ret(s.stop_NoteContainer(None if op[1] is None else mk_nc(op[1]), op[2])))
        elif k == "bar":
            rets.append(ret(s.play_Bar(mk_bar(op[1]), op[2], op[3])))
        elif k == "track":
            rets.append(ret(s.play_Track(track_of(op[1]), op[2], op[3])))
        elif k == "bars":
            rets.append(ret(s.play_Bars([mk_bar(b) for b in op[1]], op[2], op[3])))
        elif k == "tracks":
            rets.append(ret(s.play_Tracks([track_of(t) for t in op[1]], op[2], op[3])))
        elif k == "composition":
            c = mk_composition([])
            for t in op[1]:
                c.add_track(track_of(t))
            # channels None = the argument is OMITTED (the default is used, call after call), as a caller would write it
            rets.append(ret(s.play_Composition(c, bpm=op[3]) if op[2] is None else s.play_Composition(c, op[2], op[3])))
        elif k == "cc":
            fl_ = lambda x: float(x) if isinstance(x, F) else x
            rets.append(ret(s.control_change(op[1], fl_(op[2]), fl_(op[3]))))
        elif k == "modulation":
            rets.append(ret(s.modulation(op[1], op[2])))
        elif k == "main_volume":
            rets.append(ret(s.main_volume(op[1], op[2])))
        elif k == "instr":
            s.set_instrument(op[1], op[2], op[3]); rets.append(None)
        else:
            raise HarnessError("unknown op %r" % (k,))
    return [rets, s.trace, obs[0].trace, obs[1].trace, [len(obs[0].high), len(obs[1].high)]]

def isolated(notes):
    """two sequencers, one observer each: what one plays must reach only its own observer"""
    from mingus.midi.sequencer import Sequencer
    from mingus.midi.sequencer_observer import SequencerObserver
    class Rec(Sequencer):
        def init(self): self.trace = []
        def play_event(self, note, channel, velocity): self.trace.append(["play", note, channel, velocity])
        def stop_event(self, note, channel): self.trace.append(["stop", note, channel])
        def sleep(self, seconds): pass
    class Obs(SequencerObserver):
        def __init__(self): self.trace = []
        def play_int_note_event(self, int_note, channel, velocity): self.trace.append(["play", int_note, channel, velocity])
        def stop_int_note_event(self, int_note, channel): self.trace.append(["stop", int_note, channel])
    a, b = Rec(), Rec()
    oa, ob = Obs(), Obs()
    a.attach(oa); b.attach(ob)
    for n in notes:
        a.play_Note(mk_note(n)); a.stop_Note(mk_note(n))
    leak_ab = [len(ob.trace), len(b.trace)]
    na = len(oa.trace)
    for n in notes:
        b.play_Note(mk_note(n))
    c = Rec()                                   # a sequencer created later starts with no observers
    c.play_Note(mk_note(notes[0]))
    return [leak_ab, len(oa.trace) - na, len(ob.trace) - leak_ab[0] - len(notes), [len(oa.trace) - na, len(c.trace)]]

def kept_messages(notes):
    """a plain observer (notify(msg_type, params)) that KEEPS the message it is handed, as a recording observer does: what it
    holds at the end must still be what it was handed"""
    from mingus.midi.sequencer import Sequencer
    from mingus.containers import Note, NoteContainer
    def snap(params):
        return sorted((k, v if isinstance(v, (int, float, str)) or v is None else type(v).__name__) for k, v in params.items())
    class Keep(object):
        def __init__(self): self.kept = []
        def notify(self, msg_type, params): self.kept.append((msg_type, params, snap(params)))
    s = Sequencer(); k = Keep(); s.attach(k)
    for n in notes:
        x = Note(n[0], n[1]); x.channel = n[2]; x.velocity = n[3]
        s.play_Note(x); s.stop_Note(x)
    nc = NoteContainer([Note(n[0], n[1]) for n in notes])
    s.play_NoteContainer(nc, 3); s.stop_NoteContainer(nc, 3)
    s.control_change(2, 7, 100); s.set_instrument(1, 5)
    changed = []
    for i, (mt, params, was) in enumerate(k.kept):
        now = snap(params)
        if now != was:
            changed.append([i, str(mt), str(was), str(now)])
    return [len(k.kept), changed[:4]]

IMPL = {"seq.run": run, "seq.isolated": isolated, "seq.kept": kept_messages}

PARALLEL = ("bars", "tracks", "composition")

def rhythm(bar):
    return [F(e[0]) for e in bar[3]]

def float_full(bar):
    """does the float tick accumulation of play_Bars end exactly at the bar's float length?"""
    tick = 0.0
    for e in bar[3]:
        tick += 1.0 / e[0]
    return tick == bar[1] * (1.0 / bar[2])

def groups_of(op):
    if op[0] == "bars":
        return [op[1]]
    trs = op[1]
    n = len(trs[0][2]) if trs else 0
    return [[t[2][i] for t in trs if i < len(t[2])] for i in range(n)]

def simple_parallel(op):
    """parallel playback inside the domain where the scheduler of play_Bars works: every simultaneous group has one
    rhythm, fills its bar exactly (in the scheduler's own float arithmetic), has at least one entry"""
    if op[0] in ("tracks", "composition") and len(set(len(t[2]) for t in op[1])) > 1:
        return False
    for g in groups_of(op):
        if not g or any(len(b[3]) == 0 for b in g):
            return False
        if any(rhythm(b) != rhythm(g[0]) for b in g) or not all(float_full(b) for b in g):
            return False
        if any(len(e) > 2 for b in g for e in b[3]):
            return False
    return True

def has_model(c):
    return True

# ------------------------------------------------------------------ cases

def S(script, tag, model=True):
    return Case("seq.run", [script], tag=tag, model=model)

VALS = [1, 2, 4, 8, 16, 32, 3, 6, 12, 5, 7, 4 / 1.5, 8 / 1.5]
DY = [1, 2, 4, 8, 16]

def seq_bar(rng, values, key="C", meter=(4, 4), tempo_p=0.15, full=False, rhythm_=None):
    count, unit = meter
    length = F(count, unit)
    entries, total = [], F(0)
    vals = rhythm_ if rhythm_ is not None else None
    i = 0
    while True:
        if vals is not None:
            if i >= len(vals):
                break
            v = vals[i]; i += 1
        else:
            if len(entries) >= 8:
                break
            v = rng.choice(values)
            if total + 1 / F(v) > length - (0 if F(v).denominator == 1 and (int(v) & (int(v) - 1)) == 0 else F(1, 500)):
                if full and total < length:
                    continue
                break
            if not full and rng.random() < 0.15:
                break
        total += 1 / F(v)
        r = rng.random()
        ns = (None if rng.random() < 0.7 else []) if r < 0.25 else rand_chord(rng, rng.choice([1, 1, 2, 3]))
        e = [v, ns]
        if ns and rng.random() < tempo_p:
            e.append(rng.choice([60, 90, 120, 200, 33]))
        entries.append(e)
        if full and total == length:
            break
    return [key, count, unit, entries]

def voice(bar, j):
    """give the notes of the j-th simultaneous bar their own channels (4j..4j+3): two voices never share a (channel, pitch)"""
    return [bar[0], bar[1], bar[2], [[e[0], None if e[1] is None else [[n[0], n[1], 4 * j + n[2] % 4, n[3]] for n in e[1]]] + e[2:] for e in bar[3]]]

def cases(tier, rng):
    out = []
    A, B = ["C", 4, 1, 64], ["E", 4, 3, 90]
    # control changes
    edge = [-2, -1, 0, 1, 64, 127, 128, 129, 130]
    for c in edge:
        for v in edge:
            out.append(S([["attach", 0], ["cc", 3, c, v], ["modulation", 2, v], ["main_volume", 15, c]], "cc"))
    # observers
    # numbers just outside 0..128 that are not integers (oracle only: the Lean model's control numbers are integers)
    for c, v in ((7, F(257, 2)), (7, F(-1, 2)), (F(257, 2), 64), (F(-1, 4), 64), (F(513, 4), F(513, 4)), (7, F(1025, 8))):
        out.append(S([["attach", 0], ["cc", 3, c, v]], "cc/fractional", model=False))
    out.append(Case("seq.isolated", [[A, B]], tag="instances", model=False))
    out.append(Case("seq.kept", [[A, B]], tag="observer:kept-messages", model=False))
    out.append(Case("seq.kept", [[["C", 4, 1, 64], ["Bb", 2, 9, 127], ["F#", 6, 15, 1]]], tag="observer:kept-messages", model=False))
    body = [["play_note", A], ["stop_note", A], ["instr", 2, 42, 0], ["cc", 1, 7, 100]]
    out.append(S(body, "observer:none"))
    out.append(S([["attach", 0]] + body, "observer:attached"))
    out.append(S([["attach", 0], ["attach", 0]] + body, "observer:attached-twice"))
    out.append(S([["attach", 0], ["attach", 1]] + body + [["detach", 0]] + body + [["detach", 0], ["detach", 1]] + body, "observer:detach"))
    out.append(S([["detach", 1], ["attach", 1], ["detach", 1]] + body + [["attach", 1]] + body, "observer:detach"))
    # notes and containers
    for ch in range(16):
        for vel in (0, 1, 64, 127):
            n = ["G", 3, ch, vel]
            out.append(S([["attach", 1], ["play_note", n], ["stop_note", n], ["play_nc", [n, ["B", 3, 15 - ch, vel]], 5], ["stop_nc", [n, ["B", 3, 15 - ch, vel]], 5]], "note"))
    out.append(S([["attach", 0], ["play_nc", None, 1], ["stop_nc", None, 1], ["play_nc", [], 1], ["stop_nc", [], 1]], "note:rest"))
    # the lowest and the highest notes there are (pitch number + 12 whatever it comes to), alone, in containers and in a bar
    for n in (["C", 0, 1, 64], ["Cb", 0, 2, 64], ["G", 9, 1, 64], ["G#", 9, 3, 64], ["B", 9, 1, 100], ["C", 10, 4, 64], ["B#", 10, 1, 64]):
        _pv = lambda x: 12 * x[1] + {"C": 0, "D": 2, "E": 4, "F": 5, "G": 7, "A": 9, "B": 11}[x[0][0]] + x[0].count("#") - x[0].count("b")
        pair = sorted([n, ["A", 9, 5, 1]], key=_pv)            # a container holds its notes from low to high
        pair2 = sorted([n, ["A#", 9, 1, 64]], key=_pv)
        out.append(S([["attach", 0], ["play_note", n], ["stop_note", n], ["play_nc", pair, 2], ["stop_nc", pair, 2],
                      ["bar", ["C", 4, 4, [[2, [n]], [2, pair2]]], 1, 120]], "note:extreme"))
    # every whole tempo up to 300, as the call's tempo and as a container's tempo change: the return value reports it
    for bpm in range(1, 301):
        if bpm % 2:
            out.append(S([["bar", ["C", 4, 4, [[32, [A]]]], 1, bpm]], "bar:tempo-every"))
        else:
            out.append(S([["track", ["t", None, [["C", 4, 4, [[32, [A]], [32, [B], bpm]]]]], 1, 120]], "bar:tempo-every"))
    # sequential bars: a rest in every position, tempo changes
    for n in range(1, 5):
        for mask in range(2 ** n):
            entries = [[4, (None if (i % 2 == 0) else []) if mask >> i & 1 else ([A] if i % 2 else [A, B])] for i in range(n)]
            out.append(S([["attach", 0], ["bar", ["C", 4, 4, entries], 1, 120], ["track", ["t", None, [["C", 4, 4, entries]] * 2], 2, 90]], "bar:rests"))
    for v in VALS + [64, 128, 9, 100]:
        out.append(S([["bar", ["C", 4, 1, [[v, [A]], [v, None], [v, [A, B], 77], [v, [B]]]], 1, 120]], "bar:value"))
    for bpm in (1, 30, 60, 119, 120, 121, 240, 1000):
        out.append(S([["bar", ["C", 4, 4, [[4, [A]], [2, [B], 60], [4, None]]], 1, bpm], ["track", ["t", 5, []], 1, bpm]], "bar:tempo"))
    # parallel: equal rhythms
    for rh in ([4, 4, 4, 4], [2, 2], [1], [8] * 8, [2, 4, 4], [4, 2, 4], [16] * 16):
        for k in (1, 2, 3, 4):
            bars = [voice(["C", 4, 4, [[v, rand_chord(rng, rng.choice([0, 1, 2]))] for v in rh]], j) for j in range(k)]
            out.append(S([["attach", 0], ["bars", bars, list(range(1, k + 1)), 120]], "parallel:equal"))
            # the same music with ONE tempo-changing container, in each voice in turn (first, middle, last)
            for j in sorted({0, k // 2, k - 1}):
                tb = json.loads(json.dumps(bars))
                steps = [s_ for s_, e in enumerate(tb[j][3]) if e[1]]
                if steps:
                    s_ = steps[len(steps) // 2]
                    tb[j][3][s_] = tb[j][3][s_][:2] + [rng.choice([60, 90, 200, 33])]
                    out.append(S([["attach", 0], ["bars", tb, list(range(1, k + 1)), 120]], "parallel:equal-tempo"))
                    ttr = [["t%d" % i, None, [tb[i], voice(bars[(i + 1) % k], i)]] for i in range(k)]
                    out.append(S([["tracks", ttr, list(range(3, k + 3)), 100]], "parallel:equal-tempo"))
            trs = [["t%d" % i, rng.choice([None, 0, 7, 42, 127, "Violin", "Acoustic Grand Piano", "no such name"]), [bars[i], voice(bars[(i + 1) % k], i)]] for i in range(k)]
            out.append(S([["attach", 1], ["tracks", trs, list(range(3, k + 3)), 100]], "parallel:equal-tracks"))
            out.append(S([["composition", trs, None, 60]], "parallel:composition"))
            out.append(S([["attach", 0], ["attach", 1], ["composition", trs, list(range(k)), 60], ["detach", 0]], "parallel:composition"))
    # parallel: the cases the scheduler gets wrong
    out.append(S([["bars", [["C", 4, 4, [[2, [A]], [2, [A]]]], ["C", 4, 4, [[4, [B]]] * 4]], [1, 2], 120]], "parallel:unequal"))
    out.append(S([["bars", [["C", 4, 4, [[4, [A]]]]], [1], 120]], "parallel:partial-bar"))
    out.append(S([["bars", [["C", 4, 4, [[6, [A]]] * 6]], [1], 120]], "parallel:non-dyadic"))
    out.append(S([["tracks", [["a", 1, [["C", 4, 4, [[1, [A]]]]]], ["b", None, [["C", 4, 4, [[2, [B]], [2, [B]]]]]]], [1, 2], 120]], "parallel:unequal"))
    # random scripts
    n_rand = 300 if tier == "quick" else 5000
    for i in range(n_rand):
        script = []
        for _ in range(rng.randint(1, 6)):
            r = rng.random()
            if r < 0.15:
                script.append([rng.choice(["attach", "detach"]), rng.randint(0, 1)])
            elif r < 0.25:
                n = rand_note(rng)
                script.append([rng.choice(["play_note", "stop_note"]), n])
            elif r < 0.3:
                script.append(["cc", rng.randint(0, 15), rng.randint(-3, 131), rng.randint(-3, 131)])
            elif r < 0.35:
                script.append(["instr", rng.randint(0, 15), rng.randint(0, 127), rng.randint(0, 3)])
            elif r < 0.55:
                script.append(["bar", seq_bar(rng, VALS, meter=rng.choice(METERS[:9])), rng.randint(0, 15), rng.choice([120, 60, 90, 200])])
            elif r < 0.7:
                m = rng.choice(METERS[:9])
                script.append(["track", ["t", rng.choice([None, 3]), [seq_bar(rng, VALS, meter=m) for _ in range(rng.randint(0, 3))]], rng.randint(0, 15), rng.choice([120, 77])])
            else:
                k = rng.randint(1, 4)
                nb = rng.randint(1, 3)
                m = rng.choice([(4, 4), (3, 4), (2, 2), (6, 8)])
                equal = rng.random() < 0.7
                groups = []
                for _ in range(nb):
                    base = seq_bar(rng, DY if equal else VALS, meter=m, tempo_p=0, full=equal)
                    rh = [e[0] for e in base[3]]
                    g = [voice(seq_bar(rng, DY, meter=m, tempo_p=0, rhythm_=rh) if equal else seq_bar(rng, VALS, meter=m, tempo_p=0), j) for j in range(k)]
                    groups.append(g)
                chans = [rng.randint(0, 15) for _ in range(k)]
                if rng.random() < 0.4:
                    script.append(["bars", groups[0], chans, rng.choice([120, 60])])
                else:
                    trs = [["p%d" % j, rng.choice([None, 0, 42, "Flute", "x"]), [g[j] for g in groups]] for j in range(k)]
                    script.append([rng.choice(["tracks", "composition"]), trs, rng.choice([chans, chans, None]) if True else chans, rng.choice([120, 90])])
                    if script[-1][0] == "tracks" and script[-1][2] is None:
                        script[-1][2] = chans
                break          # a parallel call ends its script (the oracle delimits its events by the end of the trace)
        out.append(S(script, "random:" + ("parallel" if any(o[0] in PARALLEL for o in script) else "sequential")))
    return out

# ------------------------------------------------------------------ oracle

GM = None
def gm_names():
    global GM
    if GM is None:
        from mingus.containers.instrument import MidiInstrument
        GM = list(MidiInstrument.names)
    return GM

def program_of(instr):
    """the statement: the MIDI instrument's program, otherwise 1.  A General MIDI name denotes its index; a number itself."""
    if instr is None:
        return 1
    if isinstance(instr, str):
        return gm_names().index(instr) if instr in gm_names() else 1
    return instr

def note_ev(n):
    return (pitch(n) + 12, n[2], n[3])

def expect_bar(bar, bpm):
    """sequential playback of one bar -> (events, final bpm)"""
    evs = []
    for e in bar[3]:
        ns = e[1] or []
        for n in ns:
            evs.append(["play"] + list(note_ev(n)))
        if len(e) > 2 and e[1]:
            bpm = e[2]
        evs.append(["sleep", F(240) / (F(bpm) * F(e[0]))])
        for n in ns:
            evs.append(["stop", note_ev(n)[0], note_ev(n)[1]])
    return evs, bpm

def close(a, b):
    return abs(F(a) - F(b)) <= F(1, 10 ** 9) * max(1, abs(F(b)))

def same_events(got, want):
    if len(got) != len(want):
        return "%d events, expected %d" % (len(got), len(want))
    for i, (g, w) in enumerate(zip(got, want)):
        if g[0] != w[0]:
            return "event %d is %s, expected %s" % (i, g, w)
        if g[0] == "sleep":
            if not close(g[1], w[1]):
                return "event %d sleeps %s s, expected %s s" % (i, float(g[1]), float(w[1]))
        elif list(g) != list(w):
            return "event %d is %s, expected %s" % (i, g, w)
    return None

def timeline(evs):
    """absolute (time, kind, pitch, channel[, velocity]) from the cumulated sleeps"""
    t = F(0)
    out = []
    for e in evs:
        if e[0] == "sleep":
            t += F(e[1])
        elif e[0] in ("play", "stop"):
            out.append((t,) + tuple(e))
    return out, t

FINAL_BPM = [None]
def check_parallel(op, seg, bpm):
    kind = op[0]
    trs = op[1]
    chans = op[2]
    if kind == "composition" and chans is None:
        chans = [x + 1 for x in range(len(trs))]
    body = seg
    if kind != "bars":
        n = len(trs)
        head, body = seg[:n], seg[n:]
        want = [["instr", chans[i], program_of(trs[i][1]), 0] for i in range(n)]
        if [list(h) for h in head] != want:
            return "instrument announcements %s, expected one per track on its channel: %s" % (head, want)
        if any(e[0] == "instr" for e in body):
            return "an instrument change in the middle of the music"
    groups = groups_of(op)
    # expected absolute times, all in exact rationals
    want_on, want_off = [], []
    t0 = F(0)
    for g in groups:
        if any(len(e) > 2 for b in g for e in b[3]):
            # a tempo-changing container (only generated inside one common rhythm): from its step on, every voice runs at
            # the new tempo
            t = t0
            for s_ in range(len(g[0][3])):
                for b in g:
                    e = b[3][s_]
                    if len(e) > 2 and e[1]:
                        bpm = e[2]
                d = F(240) / (F(bpm) * F(g[0][3][s_][0]))
                for b in g:
                    for n in b[3][s_][1] or []:
                        want_on.append((t, "play") + note_ev(n))
                        want_off.append((t + d, "stop") + note_ev(n)[:2])
                t += d
            t0 = t
            continue
        for b in g:
            t = t0
            for e in b[3]:
                d = F(240) / (F(bpm) * F(e[0]))
                for n in e[1] or []:
                    want_on.append((t, "play") + note_ev(n))
                    want_off.append((t + d, "stop") + note_ev(n)[:2])
                t += d
        t0 += F(240) / F(bpm) * F(g[0][1], g[0][2])
    FINAL_BPM[0] = bpm
    got, total = timeline(body)
    sounding = {}
    for ev in got:
        k = (ev[2], ev[3])
        if ev[1] == "play":
            if sounding.get(k):
                return "note %s on channel %d is started again at %.4f s while it is sounding" % (k[0], k[1], float(ev[0]))
            sounding[k] = True
        else:
            if not sounding.get(k):
                return "note %s on channel %d is stopped at %.4f s but was not sounding" % (k[0], k[1], float(ev[0]))
            sounding[k] = False
    left = [k for k, v in sounding.items() if v]
    if left:
        return "notes left sounding: %s" % left
    def norm(l):
        return sorted((round(float(x[0]) * 10 ** 7),) + tuple(x[1:]) for x in l)
    g_on = norm([x for x in got if x[1] == "play"]); g_off = norm([x for x in got if x[1] == "stop"])
    if g_on != norm(want_on):
        return "play events (time, pitch, channel, velocity) differ from the music: got %s…, expected %s…" % (first_diff(g_on, norm(want_on)))
    if g_off != norm(want_off):
        return "stop events (time, pitch, channel) differ from the entry ends: got %s…, expected %s…" % (first_diff(g_off, norm(want_off)))
    if not close(total, t0):
        return "slept %s s in total, the music lasts %s s" % (float(total), float(t0))
    return None

def first_diff(a, b):
    for x, y in zip(a, b):
        if x != y:
            return (x, y)
    return ("%d events" % len(a), "%d events" % len(b))

def oracle(c, obs):
    if c["fn"] == "seq.kept":
        if isinstance(obs, Err):
            return "raised %s" % obs.name
        if obs[0] == 0:
            return "the attached observer received nothing"
        return None if obs[1] == [] else "a message an observer was handed changed after delivery (message index, type, then, now): %s" % obs[1][:2]
    if c["fn"] == "seq.isolated":
        if isinstance(obs, Err):
            return "two sequencers side by side raised %s" % obs.name
        return None if obs == [[0, 0], 0, 0, [0, 1]] else "events of one sequencer reached another sequencer's observer (or hooks): %s" % (obs,)
    script = c["args"][0]
    if isinstance(obs, Err):
        par = [i for i, op in enumerate(script) if op[0] in PARALLEL]
        if par:      # a parallel call is the last emitting call of its script; sequential calls are never seen to raise
            return "call %d (%s): the sequencer raised %s" % (par[-1], script[par[-1]][0], obs.name)
        return "the sequencer raised %s" % obs.name
    rets, trace, o0, o1, high = obs
    pos = 0
    attached = [False, False]
    want_obs = [[], []]
    for i, op in enumerate(script):
        k = op[0]
        where = "call %d (%s): " % (i, k)
        want_ret = None
        seg_want = None
        if k == "attach":
            attached[op[1]] = True; seg_want = []
        elif k == "detach":
            attached[op[1]] = False; seg_want = []
        elif k == "play_note":
            seg_want = [["play"] + list(note_ev(op[1]))]; want_ret = True
        elif k == "stop_note":
            seg_want = [["stop"] + list(note_ev(op[1])[:2])]; want_ret = True
        elif k == "play_nc":
            seg_want = [["play"] + list(note_ev(n)) for n in (op[1] or [])]; want_ret = True
        elif k == "stop_nc":
            seg_want = [["stop"] + list(note_ev(n)[:2]) for n in (op[1] or [])]; want_ret = True
        elif k == "bar":
            seg_want, b = expect_bar(op[1], op[3]); want_ret = b
        elif k == "track":
            seg_want, b = [], op[3]
            for bar in op[1][2]:
                e, b = expect_bar(bar, b)
                seg_want += e
            want_ret = b
        elif k in ("cc", "modulation", "main_volume"):
            ch = op[1]
            control, value = (op[2], op[3]) if k == "cc" else ((1, op[2]) if k == "modulation" else (7, op[2]))
            refused = control < 0 or control > 128 or value < 0 or value > 128
            seg_want = [] if refused else [["cc", ch, control, value]]
            want_ret = not refused
        elif k == "instr":
            seg_want = [["instr", op[1], op[2], op[3]]]
        if seg_want is not None:
            seg = trace[pos:pos + len(seg_want)]
            r = same_events(seg, seg_want)
            if r:
                return where + r
            pos += len(seg_want)
        else:
            # parallel: the segment runs up to the events of the next call, which we cannot delimit without trusting the
            # implementation - so a parallel call must be the last call of its script or be followed by non-emitting calls
            rest_emits = any(o[0] not in ("attach", "detach") for o in script[i + 1:])
            if rest_emits:
                return None if False else "harness: parallel call followed by emitting calls"
            seg = trace[pos:]
            r = check_parallel(op, seg, op[3])
            if r:
                return where + r
            pos = len(trace)
            want_ret = FINAL_BPM[0]
        for j in (0, 1):
            if attached[j] and k not in ("attach", "detach"):
                want_obs[j] += [list(e) for e in seg]
        if want_ret is not None and rets[i] != want_ret:
            return where + "returned %r, expected %r" % (rets[i], want_ret)
    if pos != len(trace):
        return "%d events after the last expected one: %s" % (len(trace) - pos, trace[pos:pos + 3])
    for j, o in enumerate((o0, o1)):
        if [list(e) for e in o] != want_obs[j]:
            return "observer %d received %d low-level events, the hooks saw %d while it was attached%s" % (
                j, len(o), len(want_obs[j]), "" if len(o) != len(want_obs[j]) else " (different events)")
    return None

# ------------------------------------------------------------------ known findings

def known_parallel(c, obs, clause=None):
    if clause is None:
        clause = oracle(c, obs) or ""
    """C18-parallel-scheduler: play_Bars outside its working domain (bars sounding together whose rhythms differ, that do
    not fill their bar exactly in the scheduler's float arithmetic, or that are empty) - and the failing call is that one"""
    script = c["args"][0]
    for i, op in enumerate(script):
        if op[0] in PARALLEL and not simple_parallel(op) and clause.startswith("call %d (" % i) and not any(len(e) > 2 for g in groups_of(op) for b in g for e in b[3]):
            return True
    return False

KNOWN = {"C18-parallel-scheduler": known_parallel}
