"""C07 correspondence + oracle (chords.determine inverts chords.from_shorthand)."""
import itertools
from tools.framework import Case, Err
from harness.common import *
from harness.c06 import FORMULA, spec_notes_of
from mingus.core import chords, intervals

ID = "C07"
LEAN_MODULES = ["Mingus.Props.C07", "Mingus.Props.C07Forms", "Mingus.Tie.C07"]
RULE = ("every shorthand key x the 21 roots with at most one accidental (+ seeded double-accidental roots) x every rotation, both "
        "output forms at once; all 21^3 three-note inputs; 0/1/2-note inputs; seeded random 4-7 note inputs "
        "(2 000 quick / 20 000 thorough), half of them perturbed built chords")
EXHAUSTIVE = {"quick": False, "thorough": False}
ORD = ["", ", first inversion", ", second inversion", ", third inversion", ", fourth inversion", ", fifth inversion", ", sixth inversion"]
POOL21 = [l + a for l in LETTERS for a in ("", "#", "b")]

def both(chord):
    # ONE list object for both calls, as a caller asking for both forms has: recognition must leave it as it was
    c = list(chord)
    short = chords.determine(c, True)
    long_ = chords.determine(c, False)
    if c != list(chord):
        raise AssertionError("determine changed the caller's list")
    return [short, long_]

IMPL = {"chords.both": both}

def has_model(c):
    return True

def rot(l, k):
    k %= len(l)
    return l[k:] + l[:k]

def cases(tier, rng):
    roots = list(POOL21)
    dbl = [l + a for l in LETTERS for a in ("##", "bb")]
    roots += rng.sample(dbl, 4 if tier == "quick" else 14)
    for k in FORMULA:
        for r in roots:
            ch = spec_notes_of(r, k)
            for i in range(len(ch)):
                yield Case("chords.both", [rot(ch, i)], "built/%dnotes/rot%d" % (len(ch), i), kind=("built", r, k, i))
    # complete stacks of thirds up to the thirteenth (five, six and seven notes, with the eleventh - more than any shorthand
    # builds), every rotation: the two output forms must still have the same length and order and every name must construct
    def stack(root, semis):
        out = []
        for j, sm in enumerate(semis):
            l = LETTERS[(LETTERS.index(root[0]) + 2 * j) % 7]
            diff = (spec_pc(root) + sm - NATURAL[l]) % 12
            if diff > 6:
                diff -= 12
            out.append(canon(l, diff))
        return out
    for r in ["C", "A", "Eb", "F#", "Bb", "D", "G", "E"]:
        for semis in ([0, 4, 7, 10, 14, 17, 21], [0, 3, 7, 10, 14, 17, 21], [0, 4, 7, 11, 14, 17, 21], [0, 4, 7, 10, 14, 18, 21],
                      [0, 3, 6, 10, 13, 17, 20], [0, 4, 6, 10, 13, 17, 21], [0, 4, 6, 10, 14, 18, 21], [0, 4, 8, 10, 14, 17, 21],
                      [0, 4, 6, 10, 13, 18, 20]):
            for n in (5, 6, 7):
                ch = stack(r, semis[:n])
                for i in range(n):
                    yield Case("chords.both", [rot(ch, i)], "stack/%dnotes" % n, kind=("random",))
    for t in itertools.product(POOL21, repeat=3):
        yield Case("chords.both", [list(t)], "triple", kind=("triple",))
    yield Case("chords.both", [[]], "trivial", kind=("trivial",))
    for a_, b_ in (("C#", "Cbb"), ("C##", "Cb"), ("F#", "Fbb"), ("Bb", "B##"), ("G", "Gbbb"), ("E##", "Ebb"), ("A", "A"), ("Db", "D"), ("D", "Db"),
                   ("Ab", "Abbb")):
        yield Case("chords.both", [[a_, b_]], "trivial/same-letter", kind=("trivial",))
    for a in POOL21:
        yield Case("chords.both", [[a]], "trivial", kind=("trivial",))
    for a in POOL21[::2]:
        for b in POOL21[::2]:
            yield Case("chords.both", [[a, b]], "trivial", kind=("trivial",))
    keys = list(FORMULA)
    for _ in range(2000 if tier == "quick" else 20000):
        n = rng.randint(4, 7)
        if rng.random() < 0.5:
            ch = [rng.choice(POOL21) for _ in range(n)]
        else:
            k = rng.choice([k for k in keys if len(FORMULA[k]) >= 4])
            ch = spec_notes_of(rng.choice(POOL21), k)
            ch = rot(ch, rng.randint(0, len(ch) - 1))
            if rng.random() < 0.6:
                ch[rng.randrange(len(ch))] = rng.choice(POOL21)
            if rng.random() < 0.3 and len(ch) < 7:
                ch.append(rng.choice(POOL21))
        yield Case("chords.both", [ch], "random/%dnotes" % len(ch), kind=("random",))
    for n in (8, 9):
        for _ in range(10):
            yield Case("chords.both", [[rng.choice(POOL21) for _ in range(n)]], "random/%dnotes" % n, kind=("random",))

def split_root(name):
    i = 1
    while i < len(name) and name[i] in "#b":
        i += 1
    return name[:i], name[i:]

def constructible(name):
    """the name as a whole is accepted by chord construction, and so is each half of a polychord name; a polychord 'X|Y' is
    Y's notes followed by X's (a note equal to the one just before it not repeated), so no half loses a note"""
    try:
        whole = chords.from_shorthand(name)
        if "|" in name:
            x, y = name.split("|", 1)
            cx, cy = chords.from_shorthand(x), chords.from_shorthand(y)
            want = list(cy)
            for n in cx:
                if not want or want[-1] != n:
                    want.append(n)
            if whole != want:
                return False
        return True
    except Exception:
        return False

def oracle(c, obs):
    kind = c["kind"]
    chord = c["args"][0]
    if isinstance(obs, Err):
        return "recognition raised %s" % obs.name
    short, long_ = obs
    if len(chord) <= 2:
        if len(chord) == 0:
            return None if short == [] and long_ == [] else "empty chord: not the empty answer"
        if len(chord) == 1:
            return None if short == chord and long_ == chord else "single note: not the note itself"
        want = [intervals.determine(chord[0], chord[1])]
        if chord[0][0] == chord[1][0]:
            # two names on one letter: the documented answer is the kind of unison, by the direction of the alteration
            x, y = net(chord[0]), net(chord[1])
            name = "major unison" if x == y else "augmented unison" if x < y else "minor unison" if x - y == 1 else "diminished unison"
            if short != [name] or long_ != [name]:
                return "two notes on one letter (%+d then %+d): answered %s, the documented answer is %r" % (x, y, short, name)
        return None if short == want and long_ == want else "two notes: not the interval name"
    if not isinstance(short, list) or not isinstance(long_, list) or len(short) != len(long_):
        return "long-form and shorthand-form answers differ in length"
    for nm in short:
        if not constructible(nm):
            return "returned shorthand name %r is not accepted by chord construction" % nm
    if kind[0] == "built":
        _, r, k, i = kind
        if len(FORMULA[k]) < 3:
            return None
        orig = spec_notes_of(r, k)
        for idx, nm in enumerate(short):
            if "|" in nm:
                continue
            try:
                if chords.from_shorthand(nm) != orig:
                    continue
            except Exception:
                continue
            rt, sh = split_root(nm)
            if long_[idx] == rt + chords.chord_shorthand_meaning.get(sh, "?") + ORD[i]:
                return None
        return "no answer rebuilds the original chord with the right inversion ordinal"
    if kind[0] == "triple":
        for nm in short:
            if "|" in nm:
                continue
            if not set(chord) <= set(chords.from_shorthand(nm)):
                return "returned name %r denotes a chord that does not contain all the given notes" % nm
    return None
