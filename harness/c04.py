"""C04 correspondence + oracle (mingus.core.keys, diatonic steps of mingus.core.intervals)."""
from tools.framework import Case, Err
from harness.common import *
from mingus.core import keys, intervals

ID = "C04"
LEAN_MODULES = ["Mingus.Props.C04", "Mingus.Tie.C04"]
RULE = ("every list returned is scribbled over by the caller after copying (answers must not depend on it); all 30 keys x every query; signature numbers -20..20 and random 64-bit; every string of length <=3 over the key "
        "alphabet and seeded random strings as candidate keys; 30 keys x 7 letters x accidental strings of length <=2 "
        "(quick) / <=4 (thorough) x steps 1..6 x the six diatonic functions and interval()")
EXHAUSTIVE = {"quick": True, "thorough": True}
ASSUMPTIONS = ["the empty string as a key is outside the property (Key('') raises IndexError) and is only generated for the string queries"]

# independent specification of the 30 keys from music theory
SHARP_ORDER = "FCGDAEB"
FLAT_ORDER = "BEADGCF"
MAJORS = ["Cb", "Gb", "Db", "Ab", "Eb", "Bb", "F", "C", "G", "D", "A", "E", "B", "F#", "C#"]
def spec_sig(k):
    if k in MAJORS:
        return MAJORS.index(k) - 7
    return None
def spec_minor_of(major):
    l = LETTERS[(LETTERS.index(major[0]) + 5) % 7]
    pc = (spec_pc(major) + 9) % 12
    for acc in ("", "#", "b"):
        if spec_pc(l + acc) == pc:
            return (l + acc).lower() if acc != "b" else l.lower() + "b"
MINORS = [spec_minor_of(m) for m in MAJORS]
ALL = MAJORS + MINORS
def spec_signature(k):
    return MAJORS.index(k) - 7 if k in MAJORS else MINORS.index(k) - 7
def spec_accidentals(k):
    n = spec_signature(k)
    if n > 0:
        return [c + "#" for c in SHARP_ORDER[:n]]
    return [c + "b" for c in FLAT_ORDER[:-n]] if n < 0 else []
def spec_notes(k):
    acc = {a[0]: a[1] for a in spec_accidentals(k)}
    i = LETTERS.index(k[0].upper())
    return [LETTERS[(i + j) % 7] + acc.get(LETTERS[(i + j) % 7], "") for j in range(7)]

def key_obj(k):
    o = keys.Key(k)
    return [o.name, o.mode, o.signature]

def hostile(f):
    """A caller that scribbles over every list it is handed after taking a copy: the next answer must not depend on it
    (an implementation that hands out its memo table would; a correct one is unaffected)."""
    def g(*a):
        r = f(*a)
        if isinstance(r, list):
            out = list(r)
            r.reverse()
            r.append("scribble")
            return out
        return r
    return g

DIATONIC = {"second": 1, "third": 2, "fourth": 3, "fifth": 4, "sixth": 5, "seventh": 6}
IMPL = {
    "keys.is_valid_key": keys.is_valid_key,
    "keys.get_key": keys.get_key,
    "keys.get_key_signature": keys.get_key_signature,
    "keys.get_key_signature_accidentals": hostile(keys.get_key_signature_accidentals),
    "keys.get_notes": hostile(keys.get_notes),
    "keys.relative_major": keys.relative_major,
    "keys.relative_minor": keys.relative_minor,
    "keys.Key": key_obj,
    "intervals.interval": intervals.interval,
    "intervals.diatonic": lambda name, n, k: getattr(intervals, name)(n, k),
}
def _twice(fname):
    """the same query asked twice in a row: [first answer, second answer] (an error is an answer)"""
    from tools.framework import err_of
    def g(k):
        out = []
        for _ in range(2):
            try:
                out.append(IMPL[fname](k))
            except Exception as e:
                out.append(err_of(e))
        return out
    return g
for _f in ("keys.get_notes", "keys.get_key_signature", "keys.get_key_signature_accidentals", "keys.relative_major", "keys.relative_minor",
           "keys.is_valid_key", "keys.Key"):
    IMPL["twice:" + _f] = _twice(_f)

STRFNS = ["keys.is_valid_key", "keys.get_key_signature", "keys.get_key_signature_accidentals", "keys.get_notes",
          "keys.relative_major", "keys.relative_minor", "keys.Key"]

def has_model(c):
    return not c["fn"].startswith("twice:")

def cases(tier, rng):
    import itertools
    for k in ALL:
        for f in STRFNS:
            yield Case(f, [k], "key/" + f.split(".")[1])
    # every query asked twice in a row, for known and for unknown keys: the second answer is the first
    for k in ["H", "h", "C##", "c##", "Fb", "db", "e#", "am", "Cmaj", "x", "B#", "a##", "G", "e", "Cb", "a#"]:
        for f in STRFNS:
            yield Case("twice:" + f, [k], "key/asked-twice", model=False)
    # unknown keys that contain characters with a meaning in %-formatting or str.format (error messages are formatted)
    for k in ["{", "}", "C{", "{1}", "{key}", "{}", "{0}", "%", "%s", "%d", "C%", "%(key)s", "100%", "{{", "a}", "\\", "%%s"]:
        for f in STRFNS:
            yield Case(f, [k], "key/format-characters")
    for i in list(range(-20, 21)) + list(range(120, 136)) + list(range(240, 272)) + list(range(-272, -240)) + [65535, 65529, 2**31, -2**31] + \
            [rng.randint(-2**63, 2**63) for _ in range(20)]:
        yield Case("keys.get_key", [i], "get_key/" + ("in" if -7 <= i <= 7 else "out"))
    alpha = "CcAaFf#bH"
    cands = set()
    for n in range(1, 4):
        for t in itertools.product(alpha, repeat=n):
            cands.add("".join(t))
    for _ in range(300):
        cands.add("".join(rng.choice("ABCDEFGabcdefg#b xh1") for _ in range(rng.randint(1, 5))))
    for s in sorted(cands):
        if s not in ALL:
            for f in STRFNS:
                yield Case(f, [s], "unknown/" + f.split(".")[1])
    for f in STRFNS:                      # the empty string (Key('') itself is outside the property, see ASSUMPTIONS)
        if f != "keys.Key":
            yield Case(f, [""], "unknown/empty")
    n = 2 if tier == "quick" else 4
    for k in ALL:
        for l in LETTERS:
            for t in acc_strings(n):
                for name, st in DIATONIC.items():
                    yield Case("intervals.diatonic", [name, l + t, k], "diatonic/len%d" % len(t))
                if len(t) <= 1:
                    for st in range(0, 8):
                        yield Case("intervals.interval", [k, l + t, st], "interval")

def oracle(c, obs):
    fn, a = c["fn"], c["args"]
    if fn == "keys.get_key":
        i = a[0]
        if not -7 <= i <= 7:
            return None if obs == Err("RangeError") else "signature number outside -7..7 not rejected with RangeError"
        return None if obs == [MAJORS[i + 7], MINORS[i + 7]] else "key lookup is not the inverse of signature lookup"
    if fn.startswith("twice:"):
        if not (isinstance(obs, list) and len(obs) == 2):
            return "raised"
        inner = Case(fn[6:], a, c["tag"])
        r = oracle(inner, obs[0]) or oracle(inner, obs[1])
        return ("asked twice in a row: " + r) if r else None
    if fn in STRFNS:
        k = a[0]
        if k not in ALL:
            if fn == "keys.is_valid_key":
                return None if obs is False else "unknown key reported valid"
            # only Key('') itself indexes the empty string before validating (outside the property, see ASSUMPTIONS)
            return None if obs == Err("NoteFormatError") or (k == "" and fn == "keys.Key" and obs == Err("IndexError")) else "unknown key not rejected with NoteFormatError"
        if fn == "keys.is_valid_key":
            return None if obs is True else "known key reported invalid"
        if fn == "keys.get_key_signature":
            return None if obs == spec_signature(k) else "wrong signature number"
        if fn == "keys.get_key_signature_accidentals":
            return None if obs == spec_accidentals(k) else "signature accidentals: wrong count, sign or circle-of-fifths order"
        if fn == "keys.get_notes":
            if obs != spec_notes(k):
                return "key notes are not tonic-first letters in order with exactly the signature's accidentals"
            pat = [2, 2, 1, 2, 2, 2, 1] if k in MAJORS else [2, 1, 2, 2, 1, 2, 2]
            steps = [(spec_pc(obs[(j + 1) % 7]) - spec_pc(obs[j])) % 12 for j in range(7)]
            return None if steps == pat else "key notes do not follow the step pattern"
        if fn == "keys.relative_major":
            if k in MINORS:
                return None if obs == MAJORS[MINORS.index(k)] else "wrong relative major"
            return None if obs == Err("NoteFormatError") else "relative major of a non-minor key not rejected"
        if fn == "keys.relative_minor":
            if k in MAJORS:
                return None if obs == MINORS[MAJORS.index(k)] else "wrong relative minor"
            return None if obs == Err("NoteFormatError") else "relative minor of a non-major key not rejected"
        if fn == "keys.Key":
            mode = "major" if k in MAJORS else "minor"
            sym = {"#": "sharp ", "b": "flat "}.get(k[1:2], "")
            want = ["%s %s%s" % (k[0].upper(), sym, mode), mode, spec_signature(k)]
            return None if obs == want else "key object name/mode/signature mismatch"
    if fn in ("intervals.diatonic", "intervals.interval"):
        if fn == "intervals.diatonic":
            st, n, k = DIATONIC[a[0]], a[1], a[2]
        else:
            k, n, st = a
        ns = spec_notes(k)
        want = [x for x in ns if x[0] == LETTERS[(LETTERS.index(n[0]) + st) % 7]][0]
        return None if obs == want else "diatonic step is not the key's note that many letters above"
    return None
