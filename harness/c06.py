"""C06 correspondence + oracle (chords.from_shorthand and the chord builders)."""
import itertools
from tools.framework import Case, Err
from harness.common import *
from mingus.core import chords

ID = "C06"
LEAN_MODULES = ["Mingus.Props.C06", "Mingus.Props.C06Poly", "Mingus.Tie.C06"]
RULE = ("every shorthand key x every root with <=2 (quick) / <=3 (thorough) accidentals in any order (+ seeded roots with up to 12); "
        "every alias spelling (min/mi/- for m, maj/ma for M, each occurrence) x 10 roots; every key x 10 roots x slash basses; "
        "all ordered pairs of 14 representative shorthands as polychords x root pairs; NC/N.C./lists; named builder functions; "
        "malformed: valid root + every string of length <=3 over the shorthand alphabet that is not a key, bad first characters, "
        "seeded random strings (compared with the model only unless classified)")
EXHAUSTIVE = {"quick": False, "thorough": False}

P1=(0,0); m2=(1,1); M2=(1,2); A2=(1,3); m3=(2,3); M3=(2,4); P4=(3,5); A4=(3,6); d5=(4,6); P5=(4,7); A5=(4,8)
M6=(5,9); d7=(6,9); m7=(6,10); M7=(6,11)
FORMULA = {
 "m": [P1,m3,P5], "M": [P1,M3,P5], "": [P1,M3,P5], "dim": [P1,m3,d5], "aug": [P1,M3,A5], "+": [P1,M3,A5],
 "7#5": [P1,M3,A5,m7], "M7+5": [P1,M3,A5,m7], "m7+": [P1,M3,A5,m7], "M7+": [P1,M3,A5,M7], "7+": [P1,M3,A5,M7],
 "sus47": [P1,P4,P5,m7], "7sus4": [P1,P4,P5,m7], "sus4": [P1,P4,P5], "sus": [P1,P4,P5], "sus2": [P1,M2,P5],
 "11": [P1,P5,m7,P4], "add11": [P1,P5,m7,P4], "sus4b9": [P1,P4,P5,m2], "susb9": [P1,P4,P5,m2],
 "m7": [P1,m3,P5,m7], "M7": [P1,M3,P5,M7], "7": [P1,M3,P5,m7], "dom7": [P1,M3,P5,m7], "m7b5": [P1,m3,d5,m7],
 "dim7": [P1,m3,d5,d7], "m/M7": [P1,m3,P5,M7], "mM7": [P1,m3,P5,M7], "m6": [P1,m3,P5,M6], "M6": [P1,M3,P5,M6],
 "6": [P1,M3,P5,M6], "6/7": [P1,M3,P5,M6,m7], "67": [P1,M3,P5,M6,m7], "6/9": [P1,M3,P5,M6,M2], "69": [P1,M3,P5,M6,M2],
 "9": [P1,M3,P5,m7,M2], "add9": [P1,M3,P5,m7,M2], "7b9": [P1,M3,P5,m7,m2], "7#9": [P1,M3,P5,m7,A2],
 "M9": [P1,M3,P5,M7,M2], "m9": [P1,m3,P5,m7,M2], "7#11": [P1,M3,P5,m7,A4], "m11": [P1,m3,P5,m7,P4],
 "M11": [P1,M3,P5,M7,M2,P4], "M13": [P1,M3,P5,M7,M2,M6], "m13": [P1,m3,P5,m7,M2,M6], "13": [P1,M3,P5,m7,M2,M6],
 "add13": [P1,M3,P5,m7,M2,M6], "7b5": [P1,M3,d5,m7], "hendrix": [P1,M3,P5,m7,m3], "7b12": [P1,M3,P5,m7,m3], "5": [P1,P5],
}
# named builder functions -> the shorthand they implement
NAMED = {"major_triad": "M", "minor_triad": "m", "diminished_triad": "dim", "augmented_triad": "aug",
 "major_seventh": "M7", "minor_seventh": "m7", "dominant_seventh": "7", "half_diminished_seventh": "m7b5",
 "minor_seventh_flat_five": "m7b5", "diminished_seventh": "dim7", "minor_major_seventh": "mM7", "minor_sixth": "m6",
 "major_sixth": "M6", "dominant_sixth": "67", "sixth_ninth": "69", "minor_ninth": "m9", "major_ninth": "M9",
 "dominant_ninth": "9", "dominant_flat_ninth": "7b9", "dominant_sharp_ninth": "7#9", "eleventh": "11",
 "minor_eleventh": "m11", "major_eleventh": "M11", "minor_thirteenth": "m13", "major_thirteenth": "M13",
 "dominant_thirteenth": "13", "suspended_triad": "sus", "suspended_second_triad": "sus2", "suspended_fourth_triad": "sus4",
 "suspended_seventh": "sus47", "suspended_fourth_ninth": "susb9", "augmented_major_seventh": "M7+",
 "augmented_minor_seventh": "m7+", "dominant_flat_five": "7b5", "lydian_dominant_seventh": "7#11", "hendrix_chord": "hendrix"}

def spec_chord_ok(root, key, got):
    f = FORMULA[key]
    if not isinstance(got, list) or len(got) != len(f):
        return "wrong number of chord notes"
    if got[0] != root:
        return "chord does not start on the root"
    for (d, sm), n in zip(f, got):
        if not is_name(n) or n[0] != LETTERS[(LETTERS.index(root[0]) + d) % 7] or spec_pc(n) != (spec_pc(root) + sm) % 12:
            return "a chord note is not on the letter / semitone distance its formula prescribes"
    return None

def spec_notes_of(root, key):
    """spelled chord from the formula (canonical spelling on the required letter, nearest accidental count)"""
    out = [root]
    for d, sm in FORMULA[key][1:]:
        l = LETTERS[(LETTERS.index(root[0]) + d) % 7]
        diff = (spec_pc(root) + sm - NATURAL[l]) % 12
        if diff > 6:
            diff -= 12
        out.append(canon(l, diff))
    return out

def normalize(x):
    for a, b in (("min", "m"), ("mi", "m"), ("-", "m"), ("maj", "M"), ("ma", "M")):
        x = x.replace(a, b)
    return x

def alias_spellings(key):
    opts = []
    for ch in key:
        if ch == "m":
            opts.append(["m", "min", "mi", "-"])
        elif ch == "M":
            opts.append(["M", "maj", "ma"])
        else:
            opts.append([ch])
    for t in itertools.product(*opts):
        k = "".join(t)
        if k != key and normalize(k) == key:
            yield k

def tables():
    return [sorted(chords.chord_shorthand.keys()), sorted(chords.chord_shorthand_meaning.keys())]

IMPL = {
    "chords.from_shorthand": chords.from_shorthand,
    "chords.from_shorthand_list": chords.from_shorthand,
    "chords.builder": lambda name, root: getattr(chords, name)(root),
    "chords.tables_sorted": tables,
    "chords.meaning": lambda k: chords.chord_shorthand_meaning.get(k),
}
MODEL_FNS = {"chords.from_shorthand", "chords.from_shorthand_list", "chords.meaning", "chords.builder"}

def has_model(c):
    return c["fn"] in MODEL_FNS

REPS = ["", "m", "dim", "aug", "7", "M7", "m7", "sus4", "6", "9", "m7b5", "5", "13", "7b5"]
ROOTS10 = ["C", "F#", "Bb", "E", "Ab", "D#", "G", "Cb", "B#", "Fbb"]

def cases(tier, rng):
    n = 2 if tier == "quick" else 3
    roots = list(names(n)) + [rng.choice(LETTERS) + "".join(rng.choice("#b") for _ in range(rng.randint(3, 12))) for _ in range(20)]
    for k in FORMULA:
        for r in roots:
            yield Case("chords.from_shorthand", [r + k], "plain/" + ("mixed-root" if not unmixed(r) else "len%d" % min(len(r) - 1, 3)), kind=("plain", r, k))
        for a in alias_spellings(k):
            for r in ROOTS10:
                yield Case("chords.from_shorthand", [r + a], "alias", kind=("plain", r, k))
        for r in ROOTS10:
            for b in ["G", "Bb", "F#", "C", "E#", "Abb", "D"]:
                yield Case("chords.from_shorthand", [r + k + "/" + b], "slash", kind=("slash", r, k, b))
            yield Case("chords.from_shorthand", [r + k + "/H"], "slash/bad-bass", kind=("slashbad",))
        # near-miss bass names: a valid name with a line end, blank, NUL or octave glued on (what `$`, strip() or int() let through)
        for b in ["G\n", "Bb\n", "G#\r\n", "G ", " G", "\nG", "G\r", "G\x00", "G\t", "g", "G-4", "Gn", "G\u2028", "Gb\n\n"]:
            yield Case("chords.from_shorthand", ["C" + k + "/" + b], "slash/near-miss-bass", kind=("slashbad",))
        yield Case("chords.meaning", [k], "meaning")
    for k1 in REPS:
        for k2 in REPS:
            for r1, r2 in [("C", "G"), ("D", "F#"), ("Bb", "Bb"), ("E", "C"), ("A", "E"), ("F#", "Db")]:
                yield Case("chords.from_shorthand", [r1 + k1 + "|" + r2 + k2], "poly", kind=("poly", r1, k1, r2, k2))
    # polychords whose halves are shorthands that contain a slash themselves (6/9, m/M7, 6/7), and a right half on a bass
    SL = ["6/9", "m/M7", "6/7"]
    for k1 in SL + ["m", "7"]:
        for k2 in SL + ["", "m7"]:
            if k1 in SL or k2 in SL:
                for r1, r2 in [("C", "D"), ("A", "G"), ("Bb", "F#")]:
                    yield Case("chords.from_shorthand", [r1 + k1 + "|" + r2 + k2], "poly/slash-names", kind=("poly", r1, k1, r2, k2))
    for k1 in ["m", "7", "6/9"]:
        for k2 in ["", "m7", "6/9"]:
            for r1, r2, b in [("D", "G", "B"), ("C", "F", "A"), ("E", "A", "C#")]:
                yield Case("chords.from_shorthand", [r1 + k1 + "|" + r2 + k2 + "/" + b], "poly/right-half-on-bass", kind=("polyslash", r1, k1, r2, k2, b))
    for fn, k in NAMED.items():
        for r in roots:
            yield Case("chords.builder", [fn, r], "named", kind=("plain", r, k))
    yield Case("chords.from_shorthand", ["NC"], "nc", kind=("nc",))
    yield Case("chords.from_shorthand", ["N.C."], "nc", kind=("nc",))
    yield Case("chords.from_shorthand_list", [["Am", "NC", "C7", "Ebdim7", "N.C."]], "list", kind=("list",))
    yield Case("chords.from_shorthand_list", [[]], "list", kind=("list",))
    yield Case("chords.from_shorthand_list", [["C", "Am7", "NC", "G7"] * 600], "list/long", kind=("list",), model=False)
    yield Case("chords.from_shorthand_list", [[r + k for r in ROOTS10[:3] for k in REPS]], "list", kind=("list",))
    yield Case("chords.tables_sorted", [], "tables", model=False)
    alpha = "mM7#b+sdi69u-aj/|x5"
    # polychords of three and four chords ('X|Y|Z' = Z's notes, then Y's, then X's); a slash bass only on the LAST chord (what
    # a slash in the middle of several bars means the statement does not say)
    for parts in (["Am", "C", "G"], ["C", "G", "D", "A"], ["Dm7", "G7", "CM7"], ["C", "C", "C"], ["F#", "Bb", "Eb"], ["Em", "C", "D/F#"]):
        yield Case("chords.from_shorthand", ["|".join(parts)], "poly/several", kind=("polyn", tuple(parts)))
    # shorthands that exist only in lower case, written with a capital first letter: unknown
    for k in sorted(FORMULA):
        if k and k[0].islower() and k[0] != "m":
            cap = k[0].upper() + k[1:]
            if cap not in FORMULA and normalize(cap) not in FORMULA:
                for r in ("C", "F#", "Bbb"):
                    yield Case("chords.from_shorthand", [r + cap], "unknown/capitalised", kind=("unknown",))
    junk = set()
    for ln in range(1, 4 if tier == "quick" else 5):
        for t in itertools.product("mM7#b+s9-ax", repeat=ln):
            junk.add("".join(t))
    for j in sorted(junk):
        if normalize(j) not in FORMULA and not j.startswith(("#", "b")):
            for r in ("C", "F#"):
                yield Case("chords.from_shorthand", [r + j], "unknown", kind=("unknown",))
    for bad in ["H", "c", "x7", "1", " C", "#C", "bC", "mC", "-7", "maj7", "/G", "|C", "h", "é"]:
        yield Case("chords.from_shorthand", [bad], "badroot", kind=("badroot",))
    # a full stop belongs to 'N.C.' and to nothing else: inside, before or behind any other shorthand it is malformed
    for r in ("C", "F#", "Bb"):
        for k in ("", "m", "7", "m7", "M7", "dim", "sus4", "6/9", "m/M7", "7b9"):
            for x in (r + k + ".", r + "." + k, "." + r + k, r + k[:1] + "." + k[1:], r + k + "./G", r + k + "/G.", r + k + "|.C"):
                yield Case("chords.from_shorthand", [x], "malformed/full-stop", kind=("random",))
    for x in ("N.C", "NC.", "N.C..", ".NC", "N..C.", "N.C./G", "C|N.C."):
        yield Case("chords.from_shorthand", [x], "malformed/full-stop", kind=("random",))
    for _ in range(400 if tier == "quick" else 4000):
        x = rng.choice(LETTERS + "Hc") + "".join(rng.choice(alpha) for _ in range(rng.randint(0, 8)))
        yield Case("chords.from_shorthand", [x], "random", kind=("random",))
        y = rng.choice(ROOTS10) + rng.choice(list(FORMULA)) + rng.choice(["/", "|"]) + rng.choice(ROOTS10) + rng.choice(list(FORMULA)) + rng.choice(["", "/G", "|C", "/"])
        yield Case("chords.from_shorthand", [y], "random/sep", kind=("random",))

def poly_expect(x, y):
    r = list(y)
    for n in x:
        if n != r[-1]:
            r.append(n)
    return r

def oracle(c, obs):
    fn = c["fn"]
    kind = c.get("kind", ("random",))
    if fn == "chords.tables_sorted":
        if obs[0] != obs[1]:
            return "set of constructible shorthands != set of shorthands with a meaning: %r" % sorted(set(obs[0]) ^ set(obs[1]))
        by_meaning = {}
        for k in obs[1]:
            by_meaning.setdefault(chords.chord_shorthand_meaning[k], []).append(k)
        for m, ks in by_meaning.items():
            for r in ("C", "F#", "Bb"):
                got = {tuple(chords.chord_shorthand[k](r)) for k in ks if k in chords.chord_shorthand}
                if len(got) > 1:
                    return "shorthands with the same meaning %r build different chords" % m
        return None
    if fn == "chords.meaning":
        return None if isinstance(obs, str) and obs.startswith(" ") else "shorthand has no textual meaning"
    if kind[0] == "plain":
        _, r, k = kind
        return spec_chord_ok(r, k, obs)
    if kind[0] == "slash":
        _, r, k, b = kind
        if not isinstance(obs, list) or not obs or obs[0] != b:
            return "slash chord does not start with the bass note"
        return spec_chord_ok(r, k, obs[1:])
    if kind[0] == "slashbad":
        return None if obs == Err("NoteFormatError") else "bad slash bass not rejected with NoteFormatError"
    if kind[0] == "poly":
        _, r1, k1, r2, k2 = kind
        want = poly_expect(spec_notes_of(r1, k1), spec_notes_of(r2, k2))
        return None if obs == want else "polychord is not Y's notes followed by X's notes without immediate repeats"
    if kind[0] == "polyn":
        parts = list(kind[1])
        def notes_of(x):
            if "/" in x:
                ch, b = x.split("/")
                return [b] + chords.from_shorthand(ch)
            return chords.from_shorthand(x)
        want = notes_of(parts[-1])
        for x in reversed(parts[:-1]):
            want = poly_expect(notes_of(x), want)
        return None if obs == want else "a polychord of %d chords is %s, expected the last chord's notes first and the first chord's last: %s" % (len(parts), obs, want)
    if kind[0] == "polyslash":
        _, r1, k1, r2, k2, b = kind
        want = poly_expect(spec_notes_of(r1, k1), [b] + spec_notes_of(r2, k2))
        return None if obs == want else "polychord 'X|Y/b' is not (b, Y's notes) followed by X's notes without immediate repeats"
    if kind[0] == "nc":
        return None if obs == [] else "NC is not the empty chord"
    if kind[0] == "list":
        want = [chords.from_shorthand(x) for x in c["args"][0]]
        return None if obs == want else "list of shorthands does not map element-wise"
    if kind[0] == "unknown":
        return None if obs == Err("FormatError") else "unknown shorthand not rejected with FormatError"
    if kind[0] == "badroot":
        return None if obs == Err("NoteFormatError") else "bad root not rejected with NoteFormatError"
    return None
