"""Shared generators and the independent (property-statement) view of note names."""
import itertools
from tools.framework import Case, Err

LETTERS = "CDEFGAB"
NATURAL = {"C": 0, "D": 2, "E": 4, "F": 5, "G": 7, "A": 9, "B": 11}

def is_name(s):
    return isinstance(s, str) and len(s) >= 1 and s[0] in LETTERS and all(c in "#b" for c in s[1:])

def spec_pc(s):
    return (NATURAL[s[0]] + s.count("#") - s.count("b")) % 12

def net(s):
    return s.count("#") - s.count("b")

def acc_strings(maxlen):
    for k in range(maxlen + 1):
        for t in itertools.product("#b", repeat=k):
            yield "".join(t)

def names(maxlen):
    for l in LETTERS:
        for t in acc_strings(maxlen):
            yield l + t

def canon(l, v):
    return l + ("#" * v if v >= 0 else "b" * (-v))

def canon_names(maxacc):
    for l in LETTERS:
        for v in range(-maxacc, maxacc + 1):
            yield canon(l, v)

def unmixed(s):
    return not ("#" in s[1:] and "b" in s[1:])

MALFORMED_ALPHABET = ["c", "H", "1", "-", " ", "#", "b", "C", "x", "é", "B", "A"]

def malformed(maxlen, rng, extra=200):
    seen = set()
    for k in range(1, maxlen + 1):
        for t in itertools.product(MALFORMED_ALPHABET, repeat=k):
            s = "".join(t)
            if not is_name(s):
                yield s
    # near misses: a valid name with one foreign character glued on, in front, behind or inside (line ends, blanks and NUL
    # are what anchored regular expressions, strip() and C-string habits let through)
    for nm in ("C", "C#", "Bb", "F##", "Abb", "G#b"):
        for ch in ("\n", "\r", "\t", " ", "\x00", "\x0b", "\u00a0", "\u2028", "♯", "♭", "n", "-4", "\n\n", "\r\n"):
            for s in (nm + ch, ch + nm, nm[0] + ch + nm[1:], nm.lower()):
                if not is_name(s) and s not in seen:
                    seen.add(s)
                    yield s
    # strings that mean something to %-formatting and str.format (error messages are formatted with the offending text)
    for s in ("%", "%s", "%d", "%(note)s", "C%", "C%s", "{", "}", "{}", "{0}", "{note}", "C{", "C}", "C{0}", "%%", "\\", "C\\"):
        if not is_name(s) and s not in seen:
            seen.add(s)
            yield s
    pool = "abcdefgABCDEFGH#b♯♭0123456789 -_/|xXé中\n\t"
    for _ in range(extra):
        n = rng.randint(1, 6)
        s = "".join(rng.choice(pool) for _ in range(n))
        if not is_name(s) and s not in seen:
            seen.add(s)
            yield s
