"""C11 correspondence + oracle (transposition / augment / diminish at every container level)."""
from fractions import Fraction as F
from tools.framework import Case, Err
from harness.common import *
from harness import machines
from harness.c03 import SHORTHANDS, MAJOR
from mingus.containers import Note

ID = "C11"
LEAN_MODULES = ["Mingus.Props.C11", "Mingus.Tie.C11"]
RULE = ("all names with <=2 accidentals (any order; + seeded names with up to 4) x octaves 0..8 x 35 shorthands x {up, down} at the Note "
        "level, up-then-down on canonical names; change_octave; seeded random note containers, bars and tracks (notes, chords, "
        "rests, mixed values incl. dotted and tuplets) x every shorthand x both directions, and histories of up to 6 "
        "transposition / augment / diminish steps, comparing every entry's beat, value and content")
EXHAUSTIVE = {"quick": False, "thorough": False}

def pitch(n, o):
    return 12 * o + NATURAL[n[0]] + net(n)

def note_tr(nm, o, sh, up):
    n = Note(nm, o); n.transpose(sh, up)
    return [n.name, n.octave, n.channel, n.velocity]
def note_tr_dyn(nm, o, sh, up, ch, vel):
    n = Note(nm, o, channel=ch, velocity=vel); n.transpose(sh, up)
    return [n.name, n.octave, n.channel, n.velocity]
def updown(nm, o, sh):
    n = Note(nm, o); n.transpose(sh, True); n.transpose(sh, False)
    return [n.name, n.octave]
def augdim(nm):
    n = Note(nm, 4); n.augment(); a = n.name; n.diminish()
    return [a, n.name]
def change_octave(nm, o, d):
    n = Note(nm, o); n.change_octave(d)
    return [n.name, n.octave, n.channel, n.velocity]

from harness.c12 import run as nc_run
IMPL = {
    "note.transpose": note_tr,
    "note.updown": updown,
    "note.transpose_dyn": note_tr_dyn,
    "note.augdim": augdim,
    "note.change_octave": change_octave,
    "nc.run": nc_run,
    "bar.run": machines.run_bar,
    "track.run": machines.run_track,
}
NO_MODEL = {"note.updown", "note.augdim", "note.transpose_dyn"}
def has_model(c):
    return c["fn"] not in NO_MODEL

def rand_content(rng):
    k = rng.random()
    if k < 0.2:
        return None
    n = rng.choice([1, 1, 2, 3, 4])
    return [["obj", rng.choice(LETTERS) + rng.choice(["", "", "#", "b", "##", "bb"]), rng.randint(1, 6)] for _ in range(n)]

VALUES = [1, 2, 4, 8, 16, 6, 12, 3, F(8 / 3.0), 5, 7, F(16 / 3.0)]

def rand_transform(rng):
    k = rng.random()
    if k < 0.6:
        return ["transpose", rng.choice(SHORTHANDS), rng.random() < 0.5]
    return ["augment"] if k < 0.8 else ["diminish"]

def cases(tier, rng):
    nm = list(names(2)) + [rng.choice(LETTERS) + "".join(rng.choice("#b") for _ in range(rng.randint(3, 4))) for _ in range(10)]
    for x in nm:
        for o in (range(0, 9) if len(x) <= 2 else (3, 4)):
            for sh in SHORTHANDS:
                for up in (True, False):
                    yield Case("note.transpose", [x, o, sh, up], "note/" + ("up" if up else "down"), kind=("note",))
    # the same for notes that sound on another channel, at another velocity: the pitch moves as before, the dynamics stay
    for x in ("C", "D", "F#", "Bb", "E", "Cb", "B#"):
        for o in (0, 4, 7):
            for sh in SHORTHANDS:
                for up in (True, False):
                    for ch, vel in ((2, 64), (9, 100), (15, 1)):
                        yield Case("note.transpose_dyn", [x, o, sh, up, ch, vel], "note/other-channel", model=False, kind=("notedyn",))
    for x in canon_names(2):
        for o in (1, 4, 7):
            for sh in SHORTHANDS:
                yield Case("note.updown", [x, o, sh], "updown", model=False, kind=("updown",))
    for x in names(3):
        yield Case("note.augdim", [x], "augdim", model=False, kind=("augdim",))
    for x in names(1):
        for o in (0, 1, 2):
            for d in (-3, -1, 0, 2):
                yield Case("note.change_octave", [x, o, d], "change_octave", kind=("oct",))
    for c in sequence_cases():
        yield c
    for c in instrument_track_cases():
        yield c
    for c in section_cases():
        yield c
    for c in setitem_cases():
        yield c
    for _ in range(150 if tier == "quick" else 1500):
        items = [c for c in (rand_content(rng) for _ in range(1)) if c][0:1]
        if items:
            ops = [["add_list", items[0]]] + [rand_transform(rng) for _ in range(rng.randint(1, 6))]
            yield Case("nc.run", [ops], "container", kind=("nc",))
        ops = []
        for _ in range(rng.randint(1, 6)):
            ops.append(["place", rand_content(rng), rng.choice(VALUES)] if rng.random() < 0.8 else ["rest", rng.choice(VALUES)])
        ops += [rand_transform(rng) for _ in range(rng.randint(1, 6))]
        yield Case("bar.run", [rng.choice(["C", "Eb", "f#"]), 0, 0, ops], "bar", kind=("bar",))
        ops = []
        for j in range(rng.randint(2, 12)):
            if j > 0 and rng.random() < 0.25:
                ops.append(["add_copy", rng.randrange(j), rng.choice(VALUES)])      # a chord copy-constructed from an earlier one
            else:
                ops.append(["add", rand_content(rng), rng.choice(VALUES)])
        ops += [rand_transform(rng) for _ in range(rng.randint(1, 6))]
        yield Case("track.run", ["none", ops], "track", kind=("track",))

# melodic sequences: every bar holds what the bar before it becomes under the transformation, so that a bar, once
# transformed, EQUALS a later bar that is still to be transformed (and bars that are equal from the start)
SEQUENCES = [
    ([("C", 4), ("D", 4), ("E", 4), ("F#", 4)], ["transpose", "2", True]),
    ([("E", 4), ("D", 4), ("C", 4), ("Bb", 3)], ["transpose", "2", False]),
    ([("C", 4), ("E", 4), ("G#", 4)], ["transpose", "3", True]),
    ([("C", 4), ("Eb", 4), ("Gb", 4), ("Bbb", 4)], ["transpose", "b3", True]),
    ([("C", 4), ("G", 4), ("D", 5), ("A", 5)], ["transpose", "5", True]),
    ([("C", 5), ("G", 4), ("D", 4), ("A", 3)], ["transpose", "4", False]),
    ([("C", 4), ("C#", 4), ("C##", 4)], ["augment"]),
    ([("C", 4), ("Cb", 4), ("Cbb", 4)], ["diminish"]),
    ([("C", 4), ("C", 4), ("D", 4), ("C", 4), ("D", 4)], ["transpose", "2", True]),
    ([("A", 3), ("A", 3), ("A", 3)], ["transpose", "b7", False]),
]
def instrument_track_cases():
    """a track that has an instrument attached and holds rests between its notes, transformed as a whole"""
    for instr in ("Piano", "Instrument", "MidiInstrument"):
        for tr in (["transpose", "3", True], ["transpose", "5", False], ["augment"], ["diminish"]):
            ops = [["add", [["obj", "C", 4]], 4], ["add", None, 4], ["add", [["obj", "E", 4], ["obj", "G", 4]], 2], ["add", None, 1],
                   ["add", [["obj", "A", 3]], 2], ["add", None, 2]]
            yield Case("track.run", [instr, ops + [tr]], "track/instrument-with-rests", kind=("track",))
            yield Case("track.run", [instr, ops + [tr, tr]], "track/instrument-with-rests", kind=("track",))

def sequence_cases():
    for notes, tr in SEQUENCES:
        for value in (1, 2):             # one note per 4/4 bar, or two equal notes per bar
            ops = []
            for (n, o) in notes:
                for _ in range(value):
                    ops.append(["add", [["obj", n, o]], value])
            yield Case("track.run", ["none", ops + [tr]], "track/sequence", kind=("track",))
            yield Case("track.run", ["none", ops + [tr, tr]], "track/sequence", kind=("track",))

def section_cases():
    """tracks whose bars differ in meter and key, with a bar that is not full before the end and an empty bar in the middle:
    a transformation must leave the bars as they are"""
    A, B, R = [["obj", "A", 3]], [["obj", "C", 4], ["obj", "E", 4]], None
    ops = [["add_bar", "C", 3, 4], ["add", A, 4], ["add", B, 4], ["add", R, 4],
           ["add_bar", "C", 4, 4], ["add", B, 2], ["add", A, 4],                     # 3/4 of a 4/4 bar: not full
           ["add_bar", "G", 6, 8], ["add", A, 8], ["add", R, 8], ["add", B, 4],
           ["add_bar", "D", 2, 2],                                                   # an empty bar
           ["add_bar", "f#", 5, 8], ["add", B, 8], ["add", A, 2]]
    for tr in (["transpose", "3", True], ["transpose", "b7", False], ["augment"], ["diminish"], ["transpose", "5", True]):
        yield Case("track.run", ["none", ops + [tr]], "track/sections", kind=("track",))
        yield Case("track.run", ["none", ops[:7] + [tr] + ops[7:] + [tr]], "track/sections", kind=("track",))

def setitem_cases():
    """entries replaced through bar[i] = ... (a rest turned into notes, notes into other notes) before the transformation"""
    A, B, Cn = [["obj", "A", 3]], [["obj", "C", 4], ["obj", "E", 4]], [["obj", "F#", 5]]
    for tr in (["transpose", "3", True], ["transpose", "b7", False], ["augment"], ["diminish"]):
        ops = [["place", A, 4], ["rest", 4], ["place", B, 4], ["set_item", 1, Cn], ["set_item", 0, B], tr]
        yield Case("bar.run", ["C", 4, 4, ops], "bar/assigned-entries", kind=("bar",))
        yield Case("bar.run", ["C", 4, 4, ops[:3] + [tr, ["set_item", 2, A], tr]], "bar/assigned-entries", kind=("bar",))

def spec_transpose(nm, o, sh, up):
    """(letter, pitch) the statement prescribes"""
    deg = int(sh[-1]) - 1
    size = MAJOR[deg] + sh.count("#") - sh.count("b")
    sgn = 1 if up else -1
    return LETTERS[(LETTERS.index(nm[0]) + sgn * deg) % 7], pitch(nm, o) + sgn * size, size

def check_note(before, after, op):
    nm, o = before
    if len(nm) - 1 > 4:
        return None     # beyond four accidentals the >6 re-spelling of the constructors moves octaves (outside the stated domain)
    if op[0] == "transpose":
        sh, up = op[1], op[2]
        letter, p, size = spec_transpose(nm, o, sh, up)
        if not 0 <= size <= 11:
            return None
        if not is_name(after[0]) or after[0][0] != letter:
            return "transposed note is not on the letter the interval number requires"
        if pitch(after[0], after[1]) != p:
            return "pitch number did not move by exactly the interval's size"
        return None
    d = 1 if op[0] == "augment" else -1
    if not is_name(after[0]) or after[0][0] != nm[0] or after[1] != o or pitch(after[0], after[1]) != pitch(nm, o) + d:
        return "augment/diminish did not move exactly that note by one semitone on the same letter"
    return None

def entries_of(kind, state):
    if kind == "nc":
        return [[None, None, state]]
    if kind == "bar":
        return [[e[0], e[1], e[2]] for e in state[4]]
    return [[e[0], e[1], e[2]] for b in state for e in b[4]]

def oracle(c, obs):
    kind = c["kind"][0]
    a = c["args"]
    if isinstance(obs, Err):
        return "raised %s" % obs.name
    if kind == "note":
        return check_note([a[0], a[1]], obs, ["transpose", a[2], a[3]]) or (None if obs[2:] == [1, 64] else "dynamics changed")
    if kind == "notedyn":
        return check_note([a[0], a[1]], obs, ["transpose", a[2], a[3]]) or (None if obs[2:] == [a[4], a[5]] else "dynamics changed")
    if kind == "updown":
        _, _, size = spec_transpose(a[0], a[1], a[2], True)
        if not 0 <= size <= 11:
            return None
        return None if obs == [a[0], a[1]] else "up then down does not restore the original name and octave"
    if kind == "augdim":
        return None if obs[1] == a[0] else "augment followed by diminish is not the identity on names"
    if kind == "oct":
        return None if obs[:2] == [a[0], max(0, a[1] + a[2])] else "change_octave went below 0 or missed"
    ops = a[-1]
    states = []
    for st in obs[:-1]:
        if isinstance(st, Err):
            return "operation raised %s" % st.name
        states.append(st if kind == "nc" else st[1])
    for i, op in enumerate(ops):
        if op[0] not in ("transpose", "augment", "diminish"):
            continue
        before, after = entries_of(kind, states[i - 1]), entries_of(kind, states[i])
        if len(before) != len(after):
            return "number of entries changed"
        for eb, ea in zip(before, after):
            if eb[:2] != ea[:2]:
                return "beat position or duration changed"
            if (eb[2] is None) != (ea[2] is None):
                return "a rest did not stay a rest"
            if eb[2] is None:
                continue
            if len(eb[2]) != len(ea[2]):
                return "number of notes in an entry changed"
            for nb, na in zip(eb[2], ea[2]):
                r = check_note(nb, na, op)
                if r:
                    return r
    return None

def _augdim_mixed(c, obs):
    """known finding: a name ending in '#b' (mixed accidentals) loses both on augment+diminish"""
    return c["kind"][0] == "augdim" and not unmixed(c["args"][0])

KNOWN = {"C11-augment-diminish-mixed-name": _augdim_mixed}
