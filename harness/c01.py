"""C01 correspondence + oracle (mingus.core.notes)."""
from tools.framework import Case, Err
from harness.common import *
from mingus.core import notes

ID = "C01"
LEAN_MODULES = ["Mingus.Props.C01", "Mingus.Tie.C01"]
RULE = ("exhaustive: 7 letters x every '#'/'b' string up to length 8 (quick) / 11 (thorough) through "
        "note_to_int, is_valid_note, augment, diminish, reduce_accidentals, remove_redundant_accidentals; all "
        "ordered pairs of names with <=2 accidentals for is_enharmonic; all malformed strings of length <=3 "
        "over a 12-symbol alphabet plus seeded random ones; integers -50..50 and random 64-bit x 5 styles")
EXHAUSTIVE = {"quick": False, "thorough": False}
ASSUMPTIONS = ["the empty string (Python IndexError) is outside the property and is not generated as a note name"]

IMPL = {
    "notes.is_valid_note": notes.is_valid_note,
    "notes.note_to_int": notes.note_to_int,
    "notes.int_to_note": notes.int_to_note,
    "notes.is_enharmonic": notes.is_enharmonic,
    "notes.augment": notes.augment,
    "notes.diminish": notes.diminish,
    "notes.reduce_accidentals": notes.reduce_accidentals,
    "notes.remove_redundant_accidentals": notes.remove_redundant_accidentals,
}

def _by_keyword(f):
    """the same function, every argument passed by its parameter name (a guard that only looks at positional arguments,
    e.g. in a decorator, is skipped by such a call)"""
    import inspect
    params = list(inspect.signature(f).parameters)
    def call(*a):
        return f(**dict(zip(params, a)))
    return call

for _k in list(IMPL):
    IMPL["kw:" + _k] = _by_keyword(IMPL[_k])

def has_model(c):
    return True

def cases(tier, rng):
    n = 8 if tier == "quick" else 11
    for s in names(n):
        tag = "len%d" % (len(s) - 1)
        yield Case("notes.note_to_int", [s], "pc/" + tag)
        yield Case("notes.is_valid_note", [s], "valid/" + tag)
        yield Case("notes.augment", [s], "aug/" + tag)
        yield Case("notes.diminish", [s], "dim/" + tag)
        yield Case("notes.reduce_accidentals", [s], "reduce/" + tag)
        yield Case("notes.remove_redundant_accidentals", [s], "redund/" + tag)
    small = list(names(2))
    for a in small:
        for b in small:
            yield Case("notes.is_enharmonic", [a, b], "enh")
    # names whose accidentals add up to one, two or three octaves and their neighbours, written with one kind of accidental,
    # with the other kind in front, behind and interleaved (deterministic: what a single wrap-around instead of `% 12` gets wrong)
    def spellings(letter, k):
        sgn, opp = ("#", "b") if k >= 0 else ("b", "#")
        m = abs(k)
        yield letter + sgn * m
        yield letter + opp * 3 + sgn * (m + 3)
        yield letter + sgn * (m + 2) + opp * 2
        yield letter + (sgn + opp) * 4 + sgn * m
    far = [k for base in (12, 24, 36) for k in (base - 1, base, base + 1, base + 2)] + [6, 7]
    for letter in LETTERS:
        for k in far:
            for kk in (k, -k):
                for s in spellings(letter, kk):
                    yield Case("notes.note_to_int", [s], "pc/octaves")
                    yield Case("notes.reduce_accidentals", [s], "reduce/octaves")
                    yield Case("notes.remove_redundant_accidentals", [s], "redund/octaves")
                    yield Case("notes.augment", [s], "aug/octaves")
                    yield Case("notes.diminish", [s], "dim/octaves")
                    yield Case("notes.is_valid_note", [s], "valid/octaves")
    for s in ("C" + "#" * 1500, "E" + "b" * 2401, "A" + "#b" * 1200 + "b"):
        for f in ("notes.note_to_int", "notes.is_valid_note", "notes.reduce_accidentals", "notes.remove_redundant_accidentals",
                  "notes.augment", "notes.diminish"):
            yield Case(f, [s], f.split(".")[1] + "/very-long")
        yield Case("notes.is_enharmonic", [s, "C"], "enh/very-long")
    for letter in LETTERS:
        for a0 in (-2, 0, 1):
            for d in (12, -12, 24, -24, 11, 13, -11, -13, 0):
                for x in spellings(letter, a0):
                    for y in list(spellings(letter, a0 + d))[:2]:
                        yield Case("notes.is_enharmonic", [x, y], "enh/octaves")
                other = LETTERS[(LETTERS.index(letter) + 1) % 7]
                yield Case("notes.is_enharmonic", [letter + ("#" * (a0 + 14)), other + ("#" * (a0 + 14 + d)) if a0 + 14 + d >= 0 else other], "enh/octaves")
    for _ in range(300 if tier == "quick" else 3000):
        a = rng.choice(LETTERS) + "".join(rng.choice("#b") for _ in range(rng.randint(0, 30)))
        b = rng.choice(LETTERS) + "".join(rng.choice("#b") for _ in range(rng.randint(0, 30)))
        yield Case("notes.is_enharmonic", [a, b], "enh/long")
        yield Case("notes.note_to_int", [a], "pc/long")
        yield Case("notes.reduce_accidentals", [a], "reduce/long")
        yield Case("notes.remove_redundant_accidentals", [b], "redund/long")
        yield Case("notes.augment", [a], "aug/long")
        yield Case("notes.diminish", [b], "dim/long")
    for s in malformed(3 if tier == "quick" else 4, rng, 300 if tier == "quick" else 3000):
        yield Case("notes.note_to_int", [s], "pc/malformed")
        yield Case("notes.reduce_accidentals", [s], "reduce/malformed")
        yield Case("notes.is_valid_note", [s], "valid/malformed")
    # the same calls with the arguments passed by name (judged by the oracle; the model has no notion of call style)
    kw_names = list(names(3)) + [x for k, x in enumerate(malformed(2, rng, 40)) if k % 3 == 0][:200]
    for s in kw_names:
        for f in ("notes.note_to_int", "notes.is_valid_note", "notes.reduce_accidentals"):
            yield Case("kw:" + f, [s], "kw/" + f.split(".")[1], model=False)
        if is_name(s):
            for f in ("notes.augment", "notes.diminish", "notes.remove_redundant_accidentals"):
                yield Case("kw:" + f, [s], "kw/" + f.split(".")[1], model=False)
            yield Case("kw:notes.is_enharmonic", [s, "Db"], "kw/enh", model=False)
    for i in (-1, 0, 5, 11, 12):
        for st in ("#", "b", "x"):
            yield Case("kw:notes.int_to_note", [i, st], "kw/i2n", model=False)
    ints = list(range(-50, 51)) + [rng.randint(-2**63, 2**63) for _ in range(50)]
    for i in ints:
        for st in ["#", "b", "", "x", "##", "bb", "B"]:
            yield Case("notes.int_to_note", [i, st], "i2n/%s" % ("in" if 0 <= i < 12 else "out"))

def oracle(c, obs):
    fn, a = c["fn"], c["args"]
    if fn.startswith("kw:"):
        fn = fn[3:]
    if fn == "notes.note_to_int":
        s = a[0]
        if is_name(s):
            return None if obs == spec_pc(s) else "pitch class != (natural + sharps - flats) mod 12"
        return None if obs == Err("NoteFormatError") else "malformed name not rejected with NoteFormatError"
    if fn == "notes.is_valid_note":
        return None if obs is is_name(a[0]) else "validity predicate wrong"
    if fn in ("notes.augment", "notes.diminish"):
        s = a[0]
        d = 1 if fn.endswith("augment") else -1
        if not is_name(obs):
            return "result is not a valid name"
        if obs[0] != s[0]:
            return "letter changed"
        return None if spec_pc(obs) == (spec_pc(s) + d) % 12 else "pitch class not moved by exactly %+d" % d
    if fn == "notes.remove_redundant_accidentals":
        s = a[0]
        return None if obs == canon(s[0], net(s)) else "not the letter with exactly the net accidentals"
    if fn == "notes.reduce_accidentals":
        s = a[0]
        if not is_name(s):
            return None if obs == Err("NoteFormatError") else "malformed name not rejected with NoteFormatError"
        if not is_name(obs) or spec_pc(obs) != spec_pc(s):
            return "pitch class not preserved"
        if len(obs) > 2:
            return "more than one accidental left"
        if len(obs) == 2 and ((net(s) > 0 and obs[1] != "#") or (net(s) < 0 and obs[1] != "b")):
            return "wrong accidental kind for the net direction"
        return None
    if fn == "notes.is_enharmonic":
        return None if obs is (spec_pc(a[0]) == spec_pc(a[1])) else "enharmonic != equal pitch classes"
    if fn == "notes.int_to_note":
        i, st = a
        if not (0 <= i < 12):
            return None if obs == Err("RangeError") else "out-of-range integer not rejected with RangeError"
        if st not in ("#", "b"):
            return None if obs == Err("FormatError") else "unknown style not rejected with FormatError"
        if not is_name(obs) or spec_pc(obs) != i:
            return "name does not convert back to the pitch class"
        if len(obs) > 2 or (len(obs) == 2 and obs[1] != st):
            return "style uses something other than naturals and single %s" % st
        return None
    return None
