"""C05 correspondence + oracle (mingus.core.scales)."""
import itertools
from tools.framework import Case, Err
from harness.common import *
from harness.c04 import MAJORS, MINORS, ALL, spec_notes
from mingus.core import scales

ID = "C05"
LEAN_MODULES = ["Mingus.Props.C05", "Mingus.Tie.C05"]
RULE = ("17 scale classes (+ Diatonic with every pair of semitone positions) x every tonic valid for the class "
        "(free-tonic classes: all names with <=2 (quick) / <=3 (thorough) accidentals in any order; key-derived classes: the 15 "
        "major / 15 minor tonics; Chromatic: 30 keys) x octaves 1..3 x ascending/descending/len; every degree in both directions; "
        "equality on pairs; recognition on every subset of size <=2 (quick) / <=3 (thorough) of the 21 single-accidental names, "
        "every family scale's own note sets and their subsets, and seeded random sets up to size 9")
EXHAUSTIVE = {"quick": False, "thorough": False}

PAT = {
 "Ionian": [2,2,1,2,2,2,1], "Dorian": [2,1,2,2,2,1,2], "Phrygian": [1,2,2,2,1,2,2], "Lydian": [2,2,2,1,2,2,1],
 "Mixolydian": [2,2,1,2,2,1,2], "Aeolian": [2,1,2,2,1,2,2], "Locrian": [1,2,2,1,2,2,2],
 "Major": [2,2,1,2,2,2,1], "HarmonicMajor": [2,2,1,2,1,3,1], "NaturalMinor": [2,1,2,2,1,2,2],
 "HarmonicMinor": [2,1,2,2,1,3,1], "MelodicMinor": [2,1,2,2,2,2,1], "Bachian": [2,1,2,2,2,2,1],
 "MinorNeapolitan": [1,2,2,2,1,3,1], "WholeTone": [2]*6, "Octatonic": [2,1]*4, "Chromatic": [1]*12,
}
# descending forms that are not the reverse of the ascending one, as ascending-order step patterns
DESC_PAT = {"MelodicMinor": [2,1,2,2,1,2,2], "MinorNeapolitan": [1,2,2,2,1,2,2]}
FREE = ["Ionian", "Dorian", "Phrygian", "Lydian", "Mixolydian", "Aeolian", "Locrian", "WholeTone", "Octatonic"]
MAJ = ["Major", "HarmonicMajor"]
MIN = ["NaturalMinor", "HarmonicMinor", "MelodicMinor", "Bachian", "MinorNeapolitan"]
HEPT = set(PAT) - {"WholeTone", "Octatonic", "Chromatic"}
MINOR_TONICS = [m[0].upper() + m[1:] for m in MINORS]

def mk(kind, tonic, octs, semis):
    cls = getattr(scales, kind)
    if kind == "Diatonic":
        return cls(tonic, tuple(semis), octs)
    return cls(tonic, octs)

IMPL = {
    "scales.ascending": lambda k, t, o, sem: mk(k, t, o, sem).ascending(),
    "scales.descending": lambda k, t, o, sem: mk(k, t, o, sem).descending(),
    "scales.degree": lambda k, t, o, sem, n, d: mk(k, t, o, sem).degree(n, d),
    "scales.len": lambda k, t, o, sem: len(mk(k, t, o, sem)),
    "scales.eq": lambda k, t, o, sem, k2, t2, o2, sem2: mk(k, t, o, sem) == mk(k2, t2, o2, sem2),
    "scales.determine": scales.determine,
    # the two comparison operators, asked of the same pair of objects
    "scales.ne": lambda k, t, o, sem, k2, t2, o2, sem2: (lambda x, y: [x == y, x != y])(mk(k, t, o, sem), mk(k2, t2, o2, sem2)),
    # recognition on a one-shot iterable (iterator, generator, map object) instead of a list
    "scales.determine_form": lambda form, notes: scales.determine(
        iter(notes) if form == "iter" else (n for n in notes) if form == "gen" else map(str, notes) if form == "map"
        else tuple(notes) if form == "tuple" else set(notes)),
}

def has_model(c):
    return c["fn"] not in ("scales.ne", "scales.determine_form")

def tonics_for(kind, n):
    if kind in FREE or kind == "Diatonic":
        return list(names(n))
    if kind in MAJ:
        return MAJORS
    if kind in MIN:
        return MINOR_TONICS
    return ALL

# ---- independent construction of the family scales for the recognition spec
def aug(n):
    return n[:-1] if n.endswith("b") else n + "#"
def dim(n):
    return n[:-1] if n.endswith("#") else n + "b"
def family_scales():
    out = []
    for M, m in zip(MAJORS, MINORS):
        mj = spec_notes(M)
        hm = list(mj); hm[5] = dim(hm[5])
        out.append((M + " major", set(mj), set(mj)))
        out.append((M + " harmonic major", set(hm), set(hm)))
        t = m[0].upper() + m[1:]
        nm = spec_notes(m)
        har = list(nm); har[6] = aug(har[6])
        mel = list(nm); mel[5] = aug(mel[5]); mel[6] = aug(mel[6])
        nea = list(har); nea[1] = dim(nea[1])
        nead = list(nm); nead[1] = dim(nead[1])
        out.append((t + " natural minor", set(nm), set(nm)))
        out.append((t + " harmonic minor", set(har), set(har)))
        out.append((t + " melodic minor", set(mel), set(nm)))
        out.append((t + " Bachian", set(mel), set(mel)))
        out.append((t + " minor Neapolitan", set(nea), set(nead)))
    return out
FAMILY = family_scales()

def spec_determine(ns):
    s = set(ns)
    return sorted(name for name, a, d in FAMILY if s <= a or s <= d)

def cases(tier, rng):
    n = 2 if tier == "quick" else 3
    for kind in list(PAT) + ["Diatonic"]:
        semsets = [[]]
        if kind == "Diatonic":
            semsets = [list(p) for p in itertools.combinations(range(1, 8), 2)] + [[3, 7], [1], [], [2, 4, 6]]
        for sem in semsets:
            for t in tonics_for(kind, n if kind != "Diatonic" else 1):
                for o in ([1, 2] if (kind in FREE and len(t) > 2) else [1, 2, 3]):
                    tag = "%s/oct%d" % (kind, o)
                    yield Case("scales.ascending", [kind, t, o, sem], "asc/" + tag)
                    yield Case("scales.descending", [kind, t, o, sem], "desc/" + tag)
                    if len(t) <= 2:
                        yield Case("scales.len", [kind, t, o, sem], "len/" + kind)
                if len(t) <= 2 and kind != "Diatonic":
                    for o in (1, 2):
                        for d in range(0, len(PAT[kind]) * o + 3):
                            for dr in ("a", "d"):
                                yield Case("scales.degree", [kind, t, o, sem, d, dr], "degree/%s/%s" % (kind, dr))
                    yield Case("scales.degree", [kind, t, 1, sem, 1, "x"], "degree/baddir")
    reps = [("Major", "C", 1, []), ("Ionian", "C", 1, []), ("NaturalMinor", "A", 1, []), ("Aeolian", "A", 1, []),
            ("MelodicMinor", "A", 1, []), ("Bachian", "A", 1, []), ("Major", "C", 2, []), ("Diatonic", "C", 1, [3, 7]),
            ("HarmonicMinor", "A", 1, []), ("MinorNeapolitan", "A", 1, []), ("Major", "G", 1, []), ("Lydian", "F", 1, [])]
    for a in reps:
        for b in reps:
            yield Case("scales.eq", list(a) + list(b), "eq")
            yield Case("scales.ne", list(a) + list(b), "ne", model=False)
    # scales of ONE class: same tonic (equal), other octave count, other tonic, and tonics that give the same display name but
    # other notes (Chromatic on a major key and on the minor key of the same letter; Diatonic with other half-step places)
    same = []
    for kind in PAT:
        ts = tonics_for(kind, 1)
        t1, t2 = ts[0], ts[len(ts) // 2]
        same += [((kind, t1, 1, []), (kind, t1, 1, [])), ((kind, t1, 1, []), (kind, t1, 2, [])), ((kind, t1, 1, []), (kind, t2, 1, [])),
                 ((kind, t2, 2, []), (kind, t2, 2, []))]
    for M, m in (("C", "c"), ("A", "a"), ("Eb", "eb"), ("F#", "f#"), ("G", "g")):
        same += [(("Chromatic", M, 1, []), ("Chromatic", m, 1, [])), (("Chromatic", m, 1, []), ("Chromatic", M, 1, [])),
                 (("Chromatic", m, 2, []), ("Chromatic", m, 2, []))]
    same += [(("Diatonic", "C", 1, [3, 7]), ("Diatonic", "C", 1, [2, 5])), (("Diatonic", "C", 1, [3, 7]), ("Diatonic", "C", 1, [3, 7])),
             (("Diatonic", "D", 1, [2, 6]), ("Diatonic", "D", 2, [2, 6]))]
    for a, b in same:
        yield Case("scales.eq", list(a) + list(b), "eq/same-class")
        yield Case("scales.ne", list(a) + list(b), "ne/same-class", model=False)
    for form in ("iter", "gen", "map", "tuple", "set"):
        for l in (["C", "E", "G"], ["A", "B", "C", "D", "E", "F", "G#"], ["F#"], [], ["Bb", "Eb"], ["C", "C#"]):
            yield Case("scales.determine_form", [form, l], "determine/form-" + form, model=False)
    pool = [l + a for l in LETTERS for a in ("", "#", "b")]
    for k in range(0, n + 1):
        for sub in itertools.combinations(pool, k):
            yield Case("scales.determine", [list(sub)], "determine/size%d" % k)
    for name, a, d in FAMILY:
        for st in (a, d):
            l = sorted(st)
            yield Case("scales.determine", [l], "determine/own")
            for drop in range(len(l)):
                yield Case("scales.determine", [l[:drop] + l[drop + 1:]], "determine/own-1")
    # sets mixing notes of the ascending-only and descending-only forms
    for name, a, d in FAMILY:
        if a != d:
            for x in sorted(a - d):
                for y in sorted(d - a):
                    yield Case("scales.determine", [[x, y]], "determine/mix")
                    for z in sorted(a & d)[:3]:
                        yield Case("scales.determine", [[x, y, z]], "determine/mix")
    for _ in range(300 if tier == "quick" else 3000):
        k = rng.randint(4, 9)
        if rng.random() < 0.6:
            name, a, d = rng.choice(FAMILY)
            base = sorted(rng.choice([a, d]))
            sub = rng.sample(base, min(len(base), rng.randint(3, 7)))
            if rng.random() < 0.3:
                sub.append(rng.choice(pool))
        else:
            sub = rng.sample(pool + ["E#", "Fb", "B#", "F##", "Bbb"], k)
        yield Case("scales.determine", [sub], "determine/random")

def steps_of(l):
    return [(spec_pc(l[i + 1]) - spec_pc(l[i])) % 12 for i in range(len(l) - 1)]

def diatonic_pat(sem):
    p = [1 if n in sem else 2 for n in range(1, 7)]
    return p + [(12 - sum(p)) % 12]

def expected_tonic(kind, t):
    if kind == "Chromatic":
        return t[0].upper() + t[1:]
    return t

def check_list(kind, t, o, sem, l, direction):
    if not isinstance(l, list) or not all(is_name(x) for x in l):
        return "scale is not a list of valid names"
    pat = diatonic_pat(sem) if kind == "Diatonic" else PAT[kind]
    asc_like = l
    if direction == "d":
        asc_like = list(reversed(l))
        if kind in DESC_PAT:
            pat = DESC_PAT[kind]
    o = max(o, 0)
    if len(l) != len(pat) * o + 1:
        return "length is not pattern length x octaves + 1"
    ton = expected_tonic(kind, t)
    if l[0] != ton or l[-1] != ton:
        return "scale does not begin and end on the tonic"
    if steps_of(asc_like) != pat * o:
        return "scale does not follow its defining step pattern repeated per octave"
    if kind in HEPT or kind == "Diatonic":
        for i in range(len(asc_like) - 1):
            if LETTERS.index(asc_like[i + 1][0]) != (LETTERS.index(asc_like[i][0]) + 1) % 7:
                return "heptatonic scale does not use consecutive letters"
    return None

def oracle(c, obs):
    fn, a = c["fn"], c["args"]
    if fn in ("scales.ascending", "scales.descending"):
        kind, t, o, sem = a
        if kind == "Diatonic" and sum(diatonic_pat(sem)[:6]) > 11:
            return None
        return check_list(kind, t, o, sem, obs, "a" if fn.endswith("ascending") else "d")
    if fn == "scales.len":
        kind, t, o, sem = a
        n = len(diatonic_pat(sem) if kind == "Diatonic" else PAT[kind])
        return None if obs == n * max(o, 0) + 1 else "length does not follow the note list"
    if fn == "scales.degree":
        kind, t, o, sem, d, dr = a
        if dr not in ("a", "d"):
            return None if obs == Err("FormatError") else "unknown direction not rejected"
        if d < 1:
            return None if obs == Err("RangeError") else "degree < 1 not rejected with RangeError"
        sc = mk(kind, t, o, sem)
        lst = sc.ascending()[:-1] if dr == "a" else list(reversed(sc.descending()))[:-1]
        if d > len(lst):
            return None if isinstance(obs, Err) else "degree beyond the scale not rejected"
        return None if obs == lst[d - 1] else "degree lookup disagrees with the %s list" % ("ascending" if dr == "a" else "descending")
    if fn == "scales.eq":
        s1, s2 = mk(*a[:4]), mk(*a[4:])
        want = s1.ascending() == s2.ascending() and s1.descending() == s2.descending()
        return None if obs is want else "equality does not follow the note lists"
    if fn == "scales.ne":
        s1, s2 = mk(*a[:4]), mk(*a[4:])
        want = s1.ascending() == s2.ascending() and s1.descending() == s2.descending()
        return None if obs == [want, not want] else "== and != do not both follow the note lists"
    if fn == "scales.determine_form":
        if isinstance(obs, Err):
            return "recognition raised on a %s of names" % a[0]
        return None if sorted(obs) == spec_determine(a[1]) else \
            "recognition on a %s of names is not exactly the family scales containing every given note" % a[0]
    if fn == "scales.determine":
        if isinstance(obs, Err):
            return "recognition raised"
        return None if sorted(obs) == spec_determine(a[0]) else "recognition is not exactly the family scales containing every given note"
    return None
