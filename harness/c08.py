"""C08 correspondence + oracle (diatonic harmony: chords.triads/sevenths/functions, progressions)."""
import copy, itertools
from tools.framework import Case, Err
from harness.common import *
from harness.c04 import MAJORS, MINORS, ALL, spec_notes
from harness.c06 import FORMULA, spec_chord_ok
from mingus.core import chords, progressions

ID = "C08"
LEAN_MODULES = ["Mingus.Props.C08", "Mingus.Tie.C08"]
RULE = ("30 keys x {triads, sevenths} x 14 function names x 22 numeral aliases; progression strings in both cases x prefixes "
        "-3..3 (#/b) x every chord suffix in all 30 keys (quick: suffixes on 6 keys); unrecognised numerals; determine on every "
        "diatonic triad/seventh of the 15 major keys x both forms and its inverse; parse/format round trips; every numeral x "
        "suffix x prefix -3..3 through the 5 substitution rules x both flag values and substitute depth 0..2, with a deep copy "
        "of the caller's list compared afterwards; chord-level meaning of substitutes evaluated in every major key")
EXHAUSTIVE = {"quick": False, "thorough": False}
FUNCS = ["tonic", "supertonic", "mediant", "subdominant", "dominant", "submediant", "subtonic"]
NUM = ["I", "II", "III", "IV", "V", "VI", "VII"]
SEMI = [0, 2, 4, 5, 7, 9, 11]
ALIASES = {"I": 0, "ii": 1, "II": 1, "iii": 2, "III": 2, "IV": 3, "V": 4, "vi": 5, "VI": 5, "vii": 6, "VII": 6}
SHORTNUM = ["I", "ii", "iii", "IV", "V", "vi", "vii"]
SUBST = ["substitute_harmonic", "substitute_minor_for_major", "substitute_major_for_minor",
         "substitute_diminished_for_diminished", "substitute_diminished_for_dominant"]

def subst(name, prog, idx, ignore):
    p = list(prog)
    res = getattr(progressions, name)(p, idx, ignore)
    return [res, p]

def substitute(prog, idx, depth):
    p = list(prog)
    res = progressions.substitute(p, idx, depth)
    return [res, p]

def _after_edit(f, k):
    """the answer AFTER a caller has edited the chords of an earlier answer (reversed, a name appended, one overwritten)"""
    r = f(k)
    for ch in r:
        ch.reverse(); ch.append("X"); ch[0] = "Y"
    del r[2:]
    return copy.deepcopy(f(k))

IMPL = {
    "chords.triads": lambda k: copy.deepcopy(chords.triads(k)),
    "chords.sevenths": lambda k: copy.deepcopy(chords.sevenths(k)),
    "edited:chords.triads": lambda k: _after_edit(chords.triads, k),
    "edited:chords.sevenths": lambda k: _after_edit(chords.sevenths, k),
    "chords.function": lambda name, k: list(getattr(chords, name)(k)),
    "prog.parse_string": progressions.parse_string,
    "prog.tuple_to_string": lambda r, a, sf: progressions.tuple_to_string((r, a, sf)),
    "prog.to_chords": lambda p, k: copy.deepcopy(progressions.to_chords(list(p), k)),
    "prog.determine": progressions.determine,
    "prog.subst": subst,
    "prog.substitute": substitute,
    "prog.substitute_last": lambda prog, d: [progressions.substitute(list(prog), -1, d), progressions.substitute(list(prog), len(prog) - 1, d)],
    "prog.roundtrip": lambda x: progressions.tuple_to_string(progressions.parse_string(x)),
    "prog.det_inverse": lambda chord, k: [progressions.determine(list(chord), k, True),
                                          [copy.deepcopy(progressions.to_chords([n], k)) for n in progressions.determine(list(chord), k, True)]],
}
NO_MODEL = {"prog.roundtrip", "prog.det_inverse"}

def has_model(c):
    return c["fn"] not in NO_MODEL

def spec_triads(k):
    n = spec_notes(k)
    return [[n[i], n[(i + 2) % 7], n[(i + 4) % 7]] for i in range(7)]
def spec_sevenths(k):
    n = spec_notes(k)
    return [[n[i], n[(i + 2) % 7], n[(i + 4) % 7], n[(i + 6) % 7]] for i in range(7)]

def pre(a):
    return "#" * a if a >= 0 else "b" * (-a)

def cases(tier, rng):
    for k in ALL:
        yield Case("chords.triads", [k], "triads")
        yield Case("chords.sevenths", [k], "sevenths")
        yield Case("edited:chords.triads", [k], "triads/after-edit", model=False)
        yield Case("edited:chords.sevenths", [k], "sevenths/after-edit", model=False)
        for i, f in enumerate(FUNCS):
            yield Case("chords.function", [f, k], "function", kind=("fn", i, False))
            yield Case("chords.function", [f + "7", k], "function7", kind=("fn", i, True))
        for a, i in ALIASES.items():
            yield Case("chords.function", [a, k], "alias", kind=("fn", i, False))
            yield Case("chords.function", [a + "7", k], "alias7", kind=("fn", i, True))
        for i, n in enumerate(NUM):
            for case in (n, n.lower()):
                for acc in range(-3, 4):
                    for sf in ("", "7"):
                        yield Case("prog.to_chords", [[pre(acc) + case + sf], k], "to_chords/diatonic", kind=("tc", i, acc, sf))
        for bad in ["", "X", "IIII", "VIII", "IVI", "Q7", "H", "#", "bb"]:
            yield Case("prog.to_chords", [[bad], k], "to_chords/unrecognised", kind=("tcbad",))
        yield Case("prog.to_chords", [["I", "IV", "V7", "bVII", "ii7", "#ivdim7"], k], "to_chords/list", kind=("tclist",))
        # the same degree more than once in one progression, with and without an accidental prefix, in both orders
        for lst in (["bII", "II"], ["II", "bII", "II"], ["bI", "Im7"], ["#V7", "V7"], ["VII7", "bVII7", "VII7"], ["bbIII", "III", "#III"],
                    ["IV", "IV", "#IV", "IV"], ["vi7", "bvi7", "vi", "bvi"], ["I7", "I", "bI7", "I7", "I"]):
            yield Case("prog.to_chords", [lst, k], "to_chords/repeated-degree", kind=("tclist",))
        # one unrecognised numeral among good ones, in every position: the documented empty answer, not a shorter list
        for bad in ["IIII", "X", ""]:
            for lst in ([bad, "I"], ["I", bad], ["I", bad, "V7"], ["ii", "V7", bad]):
                yield Case("prog.to_chords", [lst, k], "to_chords/unrecognised-in-list", kind=("tcbad",))
    keys_for_suffix = ALL if tier != "quick" else ["C", "F#", "Eb", "a", "c#", "bb"]
    for k in keys_for_suffix:
        for i, n in enumerate(NUM):
            for sf in FORMULA:
                if sf in ("", "7"):
                    continue
                for acc in (0, -1, 2) if tier == "quick" else range(-3, 4):
                    yield Case("prog.to_chords", [[pre(acc) + n + sf], k], "to_chords/suffix", kind=("tc", i, acc, sf))
    for k in MAJORS:
        for i in range(7):
            for sev in (False, True):
                ch = (spec_sevenths if sev else spec_triads)(k)[i]
                for sh in (False, True):
                    yield Case("prog.determine", [ch, k, sh], "determine", kind=("det", i, sev))
                yield Case("prog.det_inverse", [ch, k], "det_inverse", model=False, kind=("detinv", i, sev))
    sufs = ["", "7", "m", "M", "m7", "M7", "dim", "dim7", "dom7", "6", "sus4", "m7b5"]
    for n in NUM:
        for sf in sufs:
            for acc in range(-3, 4):
                p = pre(acc) + n + sf
                yield Case("prog.roundtrip", [p], "roundtrip", model=False, kind=("rt",))
                yield Case("prog.parse_string", [p], "parse", kind=("parse", n, acc, sf))
                for name in SUBST:
                    for ig in (False, True):
                        yield Case("prog.subst", [name, ["I", p, "V7"], 1, ig], "subst/" + name[11:], kind=("subst", name, n, acc, sf, ig))
                for d in (0, 1, 2):
                    if d == 2 and (abs(acc) > 1 or sf not in ("", "7", "m", "dim")):
                        continue
                    yield Case("prog.substitute", [[p, "IV"], 0, d], "substitute/depth%d" % d, kind=("substitute",))
                    if acc == 0 and sf in ("", "7", "m", "dim"):
                        yield Case("prog.substitute_last", [["IV", p], d], "substitute/last/depth%d" % d, model=False, kind=("substitute_last",))
    for x in ["i#v", "#b#I", "vIi7", "IIb", "ivm7b5", "bbbbbbbVI", "#######I7", "Vsus4", "viidim7", "xyz"]:
        yield Case("prog.parse_string", [x], "parse/odd", kind=("parseodd",))
    for r in NUM:
        for a in list(range(-9, 10)):
            yield Case("prog.tuple_to_string", [r, a, "7"], "format", kind=("fmt",))
    # up to six accidentals the format keeps every one of them (beyond that the code folds them, outside the property):
    # deep substitution chains produce such prefixes
    for r in NUM:
        for sf in ("", "dim7", "m7"):
            for a in (-6, -5, -4, 4, 5, 6):
                yield Case("prog.roundtrip", [pre(a) + r + sf], "roundtrip/many-accidentals", model=False, kind=("rt",))

def shift_ok(base, got, acc):
    if not isinstance(got, list) or len(got) != len(base):
        return False
    return all(is_name(g) and g[0] == b[0] and spec_pc(g) == (spec_pc(b) + acc) % 12 for b, g in zip(base, got))

def semi_of(numeral_str):
    r, a, sf = progressions.parse_string(numeral_str)
    if r not in NUM:
        return None
    return (SEMI[NUM.index(r)] + a) % 12

def oracle(c, obs):
    fn, a = c["fn"], c["args"]
    kind = c.get("kind", ())
    if fn.startswith("edited:"):
        fn = fn[len("edited:"):]
    if fn == "chords.triads":
        return None if obs == spec_triads(a[0]) else "triads are not stacks of thirds inside the key's notes"
    if fn == "chords.sevenths":
        return None if obs == spec_sevenths(a[0]) else "sevenths are not stacks of thirds inside the key's notes"
    if fn == "chords.function":
        _, i, sev = kind
        want = (spec_sevenths if sev else spec_triads)(a[1])[i]
        return None if obs == want else "function name / numeral alias does not denote the diatonic chord on its degree"
    if fn == "prog.to_chords":
        if kind[0] == "tcbad":
            return None if obs == [] else "unrecognised numeral does not give the documented empty answer"
        if kind[0] == "tclist":
            if not (isinstance(obs, list) and len(obs) == len(a[0])):
                return "progression list not mapped element-wise"
            for x, got in zip(a[0], obs):
                if progressions.to_chords([x], a[1]) != [got]:
                    return "progression list not mapped element-wise"
            return None
        _, i, acc, sf = kind
        k = a[1]
        if sf in ("", "7"):
            base = (spec_sevenths if sf == "7" else spec_triads)(k)[i]
            if not (isinstance(obs, list) and len(obs) == 1 and shift_ok(base, obs[0], acc)):
                return "numeral string does not denote the diatonic chord shifted by its accidental prefix"
            return None
        root = spec_notes(k)[i]
        if not (isinstance(obs, list) and len(obs) == 1 and isinstance(obs[0], list)):
            return "suffix chord missing"
        unshifted = [g for g in obs[0]]
        # undo the prefix shift letter-wise: compare letters and pitch classes with the formula on the degree's root
        f = FORMULA[sf]
        if len(obs[0]) != len(f):
            return "suffix does not rebuild that chord type"
        for (d, sm), g in zip(f, obs[0]):
            if not is_name(g) or g[0] != LETTERS[(LETTERS.index(root[0]) + d) % 7] or spec_pc(g) != (spec_pc(root) + sm + acc) % 12:
                return "suffix does not rebuild that chord type on the degree's root (shifted by the prefix)"
        return None
    if fn == "prog.determine":
        _, i, sev = kind
        sh = a[2]
        want = (SHORTNUM[i] + ("7" if sev else "")) if sh else (FUNCS[i] + (" seventh" if sev else ""))
        return None if isinstance(obs, list) and want in obs else "harmonic function of a diatonic chord is not its function name / numeral"
    if fn == "prog.det_inverse":
        nums, chs = obs
        return None if any(ch == [a[0]] for ch in chs) else "numeral-to-chord is not the inverse of chord-to-numeral"
    if fn == "prog.roundtrip":
        return None if obs == a[0] else "numeral string does not survive parse followed by format"
    if fn == "prog.tuple_to_string":
        r, acc, sf = a
        if abs(acc) <= 6:
            return None if obs == pre(acc) + r + sf else "format does not write one accidental per unit of the prefix count"
        return None
    if fn == "prog.parse_string":
        if kind[0] == "parse":
            _, n, acc, sf = kind
            return None if obs == [n, acc, sf] else "parse_string does not split prefix / numeral / suffix"
        return None
    if fn == "prog.subst":
        _, name, n, acc, sf, ig = kind
        if isinstance(obs, Err):
            return "substitution raised %s" % obs.name
        res, after = obs
        if after != a[1]:
            return "substitution changed the caller's progression"
        base = (SEMI[NUM.index(n)] + acc) % 12
        for r in res:
            if semi_of(r) is None:
                return "substitution returned an ill-formed numeral %r" % r
        # each rule documents which chords it recognises; with ignore_suffix off, substitutes offered for any other chord are
        # not what the rule promises (diminished-for-diminished: the docstring says unsuffixed 'VI', the code 'VII'; both allowed)
        if not ig and res:
            doc = {"substitute_minor_for_major": sf in ("m", "m7") or (sf == "" and n in ("II", "III", "VI")),
                   "substitute_major_for_minor": sf in ("M", "M7") or (sf == "" and n in ("I", "IV", "V")),
                   "substitute_diminished_for_diminished": sf in ("dim", "dim7") or (sf == "" and n in ("VI", "VII")),
                   "substitute_diminished_for_dominant": sf in ("dim", "dim7") or (sf == "" and n in ("VI", "VII")),
                   "substitute_harmonic": sf in ("", "7")}
            if not doc.get(name, True):
                return "%s offered substitutes for a chord the rule is not documented for" % name
        if name == "substitute_minor_for_major":
            return None if all((semi_of(r) - base) % 12 == 3 for r in res) else "minor-for-major root is not a minor third above"
        if name == "substitute_major_for_minor":
            return None if all((semi_of(r) - base) % 12 == 9 for r in res) else "major-for-minor root is not a major sixth above"
        if name == "substitute_diminished_for_diminished":
            return None if all((semi_of(r) - base) % 12 == (3 * (j + 1)) % 12 for j, r in enumerate(res)) else "diminished substitutes do not cycle by minor thirds"
        # substitute_diminished_for_dominant: the property promises nothing beyond well-formed numerals (checked above);
        # its roots are tied to the model by the correspondence.
        if name == "substitute_harmonic" and acc == 0:
            # the substitute AS RETURNED (numeral with whatever suffix it carries) against the original degree's triad
            for k in MAJORS[5:10]:
                orig = progressions.to_chords([n], k)[0]
                for r in res:
                    subs = progressions.to_chords([r], k)
                    if not subs or len(set(orig) & set(subs[0])) < 2:
                        return "harmonic substitute %r shares fewer than two notes with the original triad" % r
        return None
    if fn == "prog.substitute_last":
        if isinstance(obs, Err):
            return "substitute raised %s" % obs.name
        return None if obs[0] == obs[1] else "substitute(progression, -1) differs from substitute(progression, len - 1): the same chord is addressed"
    if fn == "prog.substitute":
        if isinstance(obs, Err):
            return "substitute raised %s" % obs.name
        res, after = obs
        if after != a[0]:
            return "substitute changed the caller's progression"
        for r in res:
            if semi_of(r) is None:
                return "substitute returned an ill-formed numeral %r" % r
        return None
    return None
