#!/bin/bash
# run_all_seeds.sh [seed-name ...] : apply every seeded change (or the named ones) in turn, run the quick check of its
# property, record the verdict in seeded/RESULTS.tsv (rows of seeds not run are kept)
cd /verif
out=${RESULTS_OUT:-seeded/RESULTS.tsv}
tmp=$(mktemp)
if [ $# -gt 0 ]; then names="$@"; else names=$(cd seeded && ls -d C*/ | tr -d /); fi
for name in $names; do
  d=seeded/$name; id=${name%%-*}
  ( cd /repo && git apply /verif/$d/patch.diff ) || { printf '%s\t%s\t-\tpatch does not apply\t\n' "$name" "$id" >> $tmp; continue; }
  log=$(./check $id quick 2>&1); rc=$?
  git -C /repo checkout -- .
  v=$(echo "$log" | grep -a "^VIOLATION" | head -1)
  first=$(echo "$log" | grep -a -m1 "^property $id fails\|^PROOF\|^proof\|no-failing-input" | cut -c1-160 | tr '\t\r\n\\' '    ')
  kind="concrete input"
  echo "$v" | grep -q "no-failing-input-found" && kind="no-failing-input-found"
  [ -z "$v" ] && kind="NOT DETECTED"
  printf '%s\t%s\t%s\t%s\t%s\n' "$name" "$id" "$rc" "$kind" "$first" >> $tmp
done
# merge: new rows replace old rows of the same seed
python3 - "$out" "$tmp" <<'PY'
import sys
out, tmp = sys.argv[1], sys.argv[2]
rows = {}
try:
    for ln in open(out, errors="replace").read().splitlines()[1:]:
        p = ln.split("\t")
        if len(p) >= 4 and p[0].startswith("C"):
            rows[p[0]] = ln
except FileNotFoundError:
    pass
for ln in open(tmp, errors="replace").read().splitlines():
    p = ln.split("\t")
    if len(p) >= 4:
        rows[p[0]] = ln
with open(out, "w") as f:
    f.write("seed\tproperty\texit\tverdict\tfirst report\n")
    for k in sorted(rows):
        f.write(rows[k] + "\n")
PY
rm -f $tmp
# leave evidence of the clean tree behind
for i in $(echo $names | tr ' ' '\n' | sed 's/-.*//' | sort -u); do ./check $i quick >/dev/null 2>&1 || echo "WARNING clean $i failed"; done
echo done
