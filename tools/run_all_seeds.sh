#!/bin/bash
# run_all_seeds.sh : apply every seeded change in turn, run the quick check of its property, record the verdict
cd /verif
out=seeded/RESULTS.tsv
echo -e "seed\tproperty\texit\tverdict" > $out
for d in seeded/C*/; do
  name=$(basename $d); id=${name%%-*}
  ( cd /repo && git apply /verif/$d/patch.diff ) || { echo -e "$name\t$id\t-\tpatch does not apply" >> $out; continue; }
  log=$(./check $id quick 2>&1); rc=$?
  git -C /repo checkout -- .
  v=$(echo "$log" | grep "^VIOLATION" | head -1)
  first=$(echo "$log" | grep -m1 "^property $id fails\|^PROOF\|^proof\|no-failing-input" | cut -c1-160)
  kind="concrete input"
  echo "$v" | grep -q "no-failing-input-found" && kind="no-failing-input-found"
  [ -z "$v" ] && kind="NOT DETECTED"
  echo -e "$name\t$id\t$rc\t$kind\t$first" >> $out
done
# leave evidence of the clean tree behind
for i in 01 02 03 04 05 06 07 08 09 10 11 12 13 14 15 16 17 18 19 20; do ./check C$i quick >/dev/null 2>&1 || echo "WARNING clean C$i failed" >> $out; done
echo done >> $out
