#!/bin/bash
# run_all_seeds.sh [seed-name ...] : apply every seeded change (or the named ones) in turn, run the quick check of its
# property, record the verdict in seeded/RESULTS.tsv (rows of seeds not run are kept).
# Works ONLY on scratch copies: a clone of /repo and a copy of /verif (with its Lean build) under $SWEEP_DIR, with
# MINGUS_REPO pointing at the clone. /repo, /verif/evidence, /verif/lean and /verif/replays are never touched, so a sweep
# that is interrupted (or still running when something else looks at the tree) cannot leave a seeded change in /repo or
# a seeded run's evidence in /verif. Run it in the foreground and let it finish; it removes its scratch copies on exit.
set -u
SW=${SWEEP_DIR:-/root/scratch/sweep.$$}
out=${RESULTS_OUT:-/verif/seeded/RESULTS.tsv}
tmp=$(mktemp)
trap 'rm -rf "$SW" "$tmp"' EXIT
rm -rf "$SW"; mkdir -p "$SW" || exit 2
git clone -q /repo "$SW/repo" || exit 2
rsync -a --exclude .git --exclude replays --exclude soak.log /verif/ "$SW/verif/" || exit 2
export MINGUS_REPO="$SW/repo"
cd "$SW/verif"
if [ $# -gt 0 ]; then names="$@"; else names=$(cd /verif/seeded && ls -d C*/ | tr -d /); fi
for name in $names; do
  d=seeded/$name; id=${name%%-*}
  ( cd "$MINGUS_REPO" && git apply /verif/$d/patch.diff ) || { printf '%s\t%s\t-\tpatch does not apply\t\n' "$name" "$id" >> $tmp; continue; }
  log=$(./check $id quick 2>&1); rc=$?
  git -C "$MINGUS_REPO" checkout -- .
  v=$(echo "$log" | grep -a "^VIOLATION" | head -1)
  first=$(echo "$log" | grep -a -m1 "^property $id fails\|^PROOF\|^proof\|no-failing-input" | sed "s#$SW/verif#/verif#g" | cut -c1-160 | tr '\t\r\n\\' '    ')
  kind="concrete input"
  echo "$v" | grep -q "no-failing-input-found" && kind="no-failing-input-found"
  [ -z "$v" ] && kind="NOT DETECTED"
  printf '%s\t%s\t%s\t%s\t%s\n' "$name" "$id" "$rc" "$kind" "$first" >> $tmp
done
# merge: new rows replace old rows of the same seed
python3 - "$out" "$tmp" <<'PY'
import sys
out, tmp = sys.argv[1], sys.argv[2]
rows = {}
try:
    for ln in open(out, errors="replace").read().splitlines()[1:]:
        p = ln.split("\t")
        if len(p) >= 4 and p[0].startswith("C"):
            rows[p[0]] = ln
except FileNotFoundError:
    pass
for ln in open(tmp, errors="replace").read().splitlines():
    p = ln.split("\t")
    if len(p) >= 4:
        rows[p[0]] = ln
with open(out, "w") as f:
    f.write("seed\tproperty\texit\tverdict\tfirst report\n")
    for k in sorted(rows):
        f.write(rows[k] + "\n")
PY
echo done
