"""Check framework: regenerate Gen, build the Lean obligations, audit axioms, run the
correspondence (implementation vs. compiled Lean model) and the property oracle on the
implementation's observations, triage, write evidence.

Run under /venv/bin/python (mingus is imported from $MINGUS_REPO, default /repo).
Exit codes: 0 property held on everything explored; 1 VIOLATION printed; 2 infrastructure.
"""
import collections
import fcntl
import fractions
import hashlib
import importlib
import json
import os
import random
import re
import subprocess
import sys
import time

VERIF = os.path.dirname(os.path.dirname(os.path.abspath(__file__)))
LEAN = os.path.join(VERIF, "lean")
REPO = os.environ.get("MINGUS_REPO", "/repo")
DRIVER = os.path.join(LEAN, ".lake", "build", "bin", "driver")
ALLOWED_AXIOMS = {"propext", "Classical.choice", "Quot.sound"}
FORBIDDEN = re.compile(r"\bsorry\b|\badmit\b|^axiom |native_decide|bv_decide|implemented_by|\bunsafe |maxHeartbeats 0", re.M)

sys.path.insert(0, REPO)
sys.path.insert(0, VERIF)

# ------------------------------------------------------------------ value codec

class Err:
    """canonical error observation"""
    def __init__(self, name):
        self.name = name
    def __eq__(self, o):
        return isinstance(o, Err) and o.name == self.name
    def __hash__(self):
        return hash(("Err", self.name))
    def __repr__(self):
        return "Err(%s)" % self.name

KNOWN_ERRS = {"NoteFormatError", "RangeError", "FormatError", "KeyError", "IndexError", "TypeError",
              "ValueError", "AttributeError", "UnexpectedObjectError", "MeterFormatError",
              "InstrumentRangeError", "FingerError", "IOError", "HeaderError", "MidiFormatError",
              "ZeroDivisionError", "Hang"}

def err_of(e):
    n = type(e).__name__
    return Err(n if n in KNOWN_ERRS else "Other")

def enc(v):
    if isinstance(v, Err):
        return "!" + v.name
    if isinstance(v, str):
        return "'" + ".".join(str(ord(c)) for c in v)
    if isinstance(v, bool):
        return "T" if v else "F"
    if isinstance(v, int):
        return str(v)
    if v is None:
        return "N"
    if isinstance(v, float) and v == v and abs(v) != float("inf"):
        v = fractions.Fraction(v)      # every finite double is an exact rational
    if isinstance(v, fractions.Fraction):
        return "R%d/%d" % (v.numerator, v.denominator)
    if isinstance(v, (list, tuple)):
        return " ".join(["L%d" % len(v)] + [enc(x) for x in v])
    raise TypeError("cannot encode %r" % (v,))

def dec_tokens(toks, pos=0):
    t = toks[pos]
    if t.startswith("'"):
        body = t[1:]
        return ("".join(chr(int(p)) for p in body.split(".")) if body else ""), pos + 1
    if t == "T":
        return True, pos + 1
    if t == "F":
        return False, pos + 1
    if t == "N":
        return None, pos + 1
    if t.startswith("!"):
        return Err(t[1:]), pos + 1
    if t.startswith("R"):
        a, b = t[1:].split("/")
        return fractions.Fraction(int(a), int(b)), pos + 1
    if t.startswith("L"):
        n = int(t[1:])
        out = []
        pos += 1
        for _ in range(n):
            v, pos = dec_tokens(toks, pos)
            out.append(v)
        return out, pos
    return int(t), pos + 1

def dec(s):
    v, _ = dec_tokens(s.split(" "))
    return v

def norm(v):
    """tuples → lists, so impl and model observations compare structurally"""
    if isinstance(v, (list, tuple)):
        return [norm(x) for x in v]
    return v

# ------------------------------------------------------------------ cases

class Case(dict):
    """fn: protocol function name; args: python values; tag: branch label for the
    distribution; model: whether the Lean driver implements fn (compared then)."""
    def __init__(self, fn, args, tag="", model=True, **kw):
        dict.__init__(self, fn=fn, args=list(args), tag=tag, model=model, **kw)
    def line(self):
        return " ".join([self["fn"]] + [enc(a) for a in self["args"]])
    def key(self):
        return self.line()

class _CallTimeout(BaseException):
    pass

def _on_alarm(*_a):
    raise _CallTimeout()

CALL_TIMEOUT = float(os.environ.get("VERIF_CALL_TIMEOUT", "30"))

def call_impl(table, case):
    """one call of the implementation under a wall-clock limit: a (changed) implementation that does not come back, or
    that eats all memory (the process runs under RLIMIT_AS, see main), yields the observation Hang / MemoryError - which the
    oracles read as a raised call - instead of taking the machine down"""
    f = table[case["fn"]]
    import signal
    old = signal.signal(signal.SIGALRM, _on_alarm)
    signal.setitimer(signal.ITIMER_REAL, CALL_TIMEOUT)
    try:
        return norm(f(*case["args"]))
    except _CallTimeout:
        return Err("Hang")
    except MemoryError:
        return Err("MemoryError")
    except RecursionError:
        return Err("Other")
    except Exception as e:  # noqa
        return err_of(e)
    finally:
        signal.setitimer(signal.ITIMER_REAL, 0)
        signal.signal(signal.SIGALRM, old)

def run_driver(lines):
    if not lines:
        return []
    p = subprocess.run([DRIVER], input="\n".join(lines) + "\n", capture_output=True, text=True)
    if p.returncode != 0:
        raise RuntimeError("driver failed: %s" % p.stderr[-2000:])
    out = p.stdout.split("\n")
    if out and out[-1] == "":
        out.pop()
    if len(out) != len(lines):
        raise RuntimeError("driver returned %d lines for %d ops" % (len(out), len(lines)))
    return out

# ------------------------------------------------------------------ build + audit

def sh(cmd, cwd=None, timeout=3600):
    p = subprocess.run(cmd, cwd=cwd, capture_output=True, text=True, timeout=timeout)
    return p.returncode, p.stdout + p.stderr

def regenerate():
    rc, out = sh([sys.executable, os.path.join(VERIF, "tools", "extract.py"), REPO, LEAN])
    fails = [l for l in out.splitlines() if l.startswith("EXTRACT-FAIL")]
    return fails, out

def lake_build(targets):
    rc, out = sh(["lake", "build"] + targets, cwd=LEAN)
    return rc == 0, out

AUDIT_TMPL = """import Lean
%s
open Lean Elab Command
run_cmd do
  let env ← getEnv
  let prefixes : List Name := [%s]
  let mut names : Array Name := #[]
  for (n, ci) in env.constants.toList do
    if prefixes.any (fun p => p.isPrefixOf n) && !n.isInternalDetail then
      match ci with
      | .thmInfo _ => names := names.push n
      | _ => pure ()
  for n in names.qsort (fun a b => a.toString < b.toString) do
    let axs ← liftCoreM (collectAxioms n)
    IO.println s!"THEOREM {n} :: {axs.toList}"
"""

def audit(modules):
    """returns (list of (theorem, [axioms]), raw output, ok)"""
    src = AUDIT_TMPL % ("\n".join("import %s" % m for m in modules),
                        ", ".join("`%s" % m for m in modules))
    path = os.path.join(LEAN, ".lake", "audit_%d.lean" % os.getpid())
    with open(path, "w") as f:
        f.write(src)
    try:
        rc, out = sh(["lake", "env", "lean", path], cwd=LEAN)
    finally:
        os.unlink(path)
    thms = []
    for l in out.splitlines():
        m = re.match(r"THEOREM (\S+) :: \[(.*)\]", l)
        if m:
            axs = [a.strip() for a in m.group(2).split(",") if a.strip()]
            thms.append((m.group(1), axs))
    return thms, out, rc == 0

def strip_comments(src):
    src = re.sub(r"/-.*?-/", "", src, flags=re.S)
    src = re.sub(r"--.*", "", src)
    return src

def grep_forbidden():
    hits = []
    for root, _, files in os.walk(os.path.join(LEAN, "Mingus")):
        for fn in files:
            if fn.endswith(".lean"):
                p = os.path.join(root, fn)
                for m in FORBIDDEN.finditer(strip_comments(open(p).read())):
                    hits.append("%s: %s" % (os.path.relpath(p, LEAN), m.group(0)))
    p = os.path.join(LEAN, "Main.lean")
    for m in FORBIDDEN.finditer(strip_comments(open(p).read())):
        hits.append("Main.lean: %s" % m.group(0))
    return hits

def lean_files_of(modules):
    return [os.path.join(LEAN, *m.split(".")) + ".lean" for m in modules]

def failing_decls(build_out):
    """names of files/lines that failed, from lake's output"""
    return sorted(set(re.findall(r"error: (Mingus/[\w/]+\.lean:\d+):", build_out)))

# ------------------------------------------------------------------ known findings

# ------------------------------------------------------------------ regression corpus
# /verif/corpus/<ID>.json: the (minimised) failing inputs of every seeded change confirmed so far, stored with everything the
# harness's oracle needs (tag, kind, ...).  They run FIRST in every tier and with every VERIF_SEED, so that a change of the same
# kind is found without depending on what the random part of the generator happens to draw.  Written only by tools/mkcorpus.py.
def _cj_enc(v):
    if isinstance(v, Err):
        return {"__err__": v.name}
    if isinstance(v, fractions.Fraction):
        return {"__frac__": [str(v.numerator), str(v.denominator)]}
    if isinstance(v, tuple):
        return {"__tuple__": [_cj_enc(x) for x in v]}
    if isinstance(v, list):
        return [_cj_enc(x) for x in v]
    if isinstance(v, dict):
        return {"__dict__": [[_cj_enc(k), _cj_enc(x)] for k, x in v.items()]}
    if isinstance(v, int) and not isinstance(v, bool) and abs(v) > 2 ** 53:
        return {"__int__": str(v)}
    if isinstance(v, float) and (v != v or abs(v) == float("inf")):
        return {"__float__": repr(v)}
    return v

def _cj_dec(v):
    if isinstance(v, list):
        return [_cj_dec(x) for x in v]
    if isinstance(v, dict):
        if "__err__" in v:
            return Err(v["__err__"])
        if "__frac__" in v:
            return fractions.Fraction(int(v["__frac__"][0]), int(v["__frac__"][1]))
        if "__tuple__" in v:
            return tuple(_cj_dec(x) for x in v["__tuple__"])
        if "__dict__" in v:
            return {_cj_dec(k): _cj_dec(x) for k, x in v["__dict__"]}
        if "__int__" in v:
            return int(v["__int__"])
        if "__float__" in v:
            return float(v["__float__"])
    return v

def case_to_corpus(c, origin):
    kw = {k: _cj_enc(v) for k, v in c.items() if k not in ("fn", "args", "tag", "model", "second_pass", "corpus")}
    return {"origin": origin, "fn": c["fn"], "args": _cj_enc(c["args"]), "tag": c["tag"], "model": c["model"], "kw": kw}

def load_corpus(pid):
    p = os.path.join(VERIF, "corpus", pid + ".json")
    if not os.path.exists(p) or os.environ.get("VERIF_NO_CORPUS"):
        return []
    out = []
    for e in json.load(open(p)):
        kw = {k: _cj_dec(v) for k, v in e.get("kw", {}).items() if k not in ("second_pass", "corpus")}
        kw["corpus"] = e.get("origin", "")      # (the tag stays as generated: some oracles dispatch on it)
        out.append(Case(e["fn"], _cj_dec(e["args"]), e.get("tag", ""), e.get("model", True), **kw))
    return out

def load_known(pid):
    p = os.path.join(VERIF, "known_findings.json")
    if not os.path.exists(p):
        return []
    data = json.load(open(p))
    return [e for e in data.get("findings", []) if e.get("property") == pid and e.get("status") == "open"]

# ------------------------------------------------------------------ main flow

def gen_cases(h, tier, seed):
    rng = random.Random(seed)
    generated, by_key = [], {}
    for c in h.cases(tier, rng):
        k = c.key()
        if k not in by_key:
            by_key[k] = c; generated.append(c)
    # the corpus runs first; where the generator produces the same call, the GENERATED case is used in its place (its tag and
    # oracle arguments are the current ones, the corpus entry only moves it to the front)
    cases, seen = [], set()
    for c in load_corpus(h.ID) + (h.corpus_cases() if hasattr(h, "corpus_cases") else []):
        k = c.key()
        if k not in seen:
            seen.add(k)
            if k in by_key:
                g = by_key[k]; g["corpus"] = c.get("corpus", "")
                cases.append(g)
            else:
                cases.append(c)
    for c in generated:
        if c.key() not in seen:
            seen.add(c.key()); cases.append(c)
    return cases

def run_impl(h, cases, budget, order=None, twice=False):
    """observations of the implementation on `cases`, called in the given order (default: as generated); a (changed)
    implementation that gets slower and slower is cut off at the time budget: returns the observations made (index -> obs)"""
    import resource
    t0 = time.time()
    soft, hard = resource.getrlimit(resource.RLIMIT_AS)
    cap = int(os.environ.get("VERIF_IMPL_MEM_GB", "12")) * 2 ** 30
    try:
        resource.setrlimit(resource.RLIMIT_AS, (cap if hard == resource.RLIM_INFINITY else min(cap, hard), hard))
    except (ValueError, OSError):
        pass
    obs = {}
    try:
        for i in (order if order is not None else range(len(cases))):
            if time.time() - t0 > budget:
                print("NOTE: implementation phase stopped after %d of %d cases (time budget %.0f s)" % (len(obs), len(cases), budget))
                break
            obs[i] = call_impl(h.IMPL, cases[i])
            if twice:
                # the same call once more, immediately: the answer to a repeated question is the one that is kept
                obs[i] = call_impl(h.IMPL, cases[i])
    finally:
        try:
            resource.setrlimit(resource.RLIMIT_AS, (soft, hard))
        except (ValueError, OSError):
            pass
    return obs

def second_pass(h, tier, seed, cases, budget):
    """the same calls once more, in a FRESH interpreter, in REVERSE order and each made TWICE in a row (the second answer is
    kept): whatever the library remembers between calls
    (memo tables, class-level lists, default arguments, module-level caches) is then filled in another order, so an answer that
    depends on what was asked before is judged a second time.  Returns {index in `cases`: observation}."""
    import pickle, tempfile
    fd, out = tempfile.mkstemp(prefix="verif_pass2_", suffix=".pkl")
    os.close(fd)
    try:
        env = dict(os.environ, VERIF_IMPL_BUDGET=str(budget))
        p = subprocess.run([sys.executable, os.path.abspath(__file__), "--second-pass", h.ID, tier, str(seed), out],
                           cwd=VERIF, env=env, capture_output=True, text=True, timeout=budget + 600)
        if p.returncode != 0 or not os.path.getsize(out):
            raise RuntimeError("second pass failed:\n" + (p.stdout + p.stderr)[-3000:])
        got = pickle.load(open(out, "rb"))            # {case key: observation}
    finally:
        try:
            os.unlink(out)
        except OSError:
            pass
    return {i: got[c.key()] for i, c in enumerate(cases) if c.key() in got}

def second_pass_worker(pid, tier, seed, out):
    import pickle
    h = importlib.import_module("harness.%s" % pid.lower())
    cases = gen_cases(h, tier, seed)
    budget = float(os.environ.get("VERIF_IMPL_BUDGET", "240"))
    obs = run_impl(h, cases, budget, order=list(range(len(cases) - 1, -1, -1)), twice=True)
    res = {}
    for i, o in obs.items():
        try:
            pickle.dumps(o)
            res[cases[i].key()] = o
        except Exception:
            pass
    pickle.dump(res, open(out, "wb"))
    return 0

def explore(h, tier, seed):
    """run all cases of the tier: impl observation (twice: as generated, and cold in reverse order), model observation"""
    cases = gen_cases(h, tier, seed)
    t0 = time.time()
    budget = float(os.environ.get("VERIF_IMPL_BUDGET", "240" if tier == "quick" else "3600"))
    obs1 = run_impl(h, cases, budget)
    if len(obs1) < len(cases):
        cases = cases[:len(obs1)]
    impl_obs = [obs1[i] for i in range(len(cases))]
    n1 = len(cases)
    model_idx = [i for i, c in enumerate(cases) if c["model"]]
    if getattr(h, "SECOND_PASS", True) and os.environ.get("VERIF_SECOND_PASS", "1") != "0":
        obs2 = second_pass(h, tier, seed, cases, budget)
        for i in sorted(obs2):
            c2 = Case(cases[i]["fn"], cases[i]["args"], cases[i]["tag"], cases[i]["model"],
                      **{k: v for k, v in cases[i].items() if k not in ("fn", "args", "tag", "model")})
            c2["second_pass"] = True
            cases.append(c2); impl_obs.append(obs2[i])
    t_impl = time.time() - t0
    t0 = time.time()
    outs = run_driver([cases[i].line() for i in model_idx])
    t_model = time.time() - t0
    model_obs = {}
    for i, o in zip(model_idx, outs):
        model_obs[i] = o
    # the second-pass copies are compared with the same model lines
    back = {}
    for j in range(n1, len(cases)):
        back.setdefault(cases[j].key(), []).append(j)
    for i in model_idx:
        for j in back.get(cases[i].key(), []):
            model_obs[j] = model_obs[i]
    return cases, impl_obs, model_obs, dict(t_impl=t_impl, t_model=t_model, first_pass=n1, second_pass=len(cases) - n1)

def first_err(obs):
    """the first error observation inside a (nested) observation, if any"""
    if isinstance(obs, Err):
        return obs
    if isinstance(obs, (list, tuple)):
        for x in obs:
            e = first_err(x)
            if e is not None:
                return e
    return None

def judge(h, cases, impl_obs, model_obs, known):
    violations, known_hits, mismatches, bad_ops = [], collections.OrderedDict(), [], []
    matchers = getattr(h, "KNOWN", {})
    for i, c in enumerate(cases):
        obs = impl_obs[i]
        try:
            clause = h.oracle(c, obs)
        except Exception as ex:
            # the oracle could not read the observation.  When the implementation raised where the property's reading
            # expects a value, that is the failure to report; anything else is a defect of the harness (exit 2).
            inner = first_err(obs)
            if inner is not None:
                clause = "the implementation raised %s where the property expects a result" % inner.name
            else:
                raise
        if clause:
            hit = None
            for k in known:
                m = matchers.get(k["id"])
                if m and m(c, obs):
                    hit = k; break
            if hit:
                known_hits.setdefault(hit["id"], []).append((c, obs, clause))
            else:
                violations.append((c, obs, clause))
        if i in model_obs:
            try:
                e = enc(obs)
            except TypeError:
                e = "<unencodable %r>" % (obs,)
            if model_obs[i] == "bad-op":
                bad_ops.append(c)
            elif hasattr(h, "compare"):
                # property-specific comparison (e.g. a float result against the model's exact rational within the
                # property's own tolerance); must return True when the two observations agree
                if not h.compare(c, obs, model_obs[i]):
                    mismatches.append((c, obs, model_obs[i]))
            elif model_obs[i] != e:
                mismatches.append((c, obs, model_obs[i]))
    return violations, known_hits, mismatches, bad_ops

def obs_kind(o):
    if isinstance(o, Err):
        return "err:" + o.name
    if o in ([], "", None):
        return "empty"
    return "ok"

def pyrepr(v):
    try:
        json.dumps(v)
        return v
    except TypeError:
        return repr(v)

def case_json(c, obs, extra=None):
    d = {"fn": c["fn"], "args": pyrepr(norm_json(c["args"])), "impl": pyrepr(norm_json(obs))}
    if isinstance(c, dict) and c.get("second_pass"):
        d["second_pass"] = "fresh interpreter, all cases of the run called in reverse order of generation, each twice in a row (second answer)"
    if extra is not None:
        d.update(extra)
    return d

def norm_json(v):
    if isinstance(v, Err):
        return "!" + v.name
    if isinstance(v, fractions.Fraction):
        return "%d/%d" % (v.numerator, v.denominator)
    if isinstance(v, (list, tuple)):
        return [norm_json(x) for x in v]
    return v

def write_replay(pid, seed, tier, kind, items, broken=None):
    d = os.path.join(VERIF, "replays")
    os.makedirs(d, exist_ok=True)
    path = os.path.join(d, "%s-%s-%d-%d.json" % (pid, kind, seed, int(time.time())))
    json.dump({"property": pid, "seed": seed, "tier": tier, "kind": kind,
               "cases": items, "no_longer_checks": broken or []}, open(path, "w"), indent=1)
    return path

def shrink_pick(h, items):
    """smallest failing cases first (by encoded length)"""
    return sorted(items, key=lambda t: (len(t[0].line()), t[0].line()))

def main(argv):
    if len(argv) > 1 and argv[1] == "--second-pass":
        return second_pass_worker(argv[2], argv[3], int(argv[4]), argv[5])
    pid = argv[1]
    tier = os.environ.get("VERIF_TIER") or (argv[2] if len(argv) > 2 and not argv[2].startswith("--") else "quick")
    if len(argv) > 2 and argv[2] in ("quick", "thorough"):
        tier = argv[2]
    seed = int(os.environ.get("VERIF_SEED", "1"))
    replay = None
    if "--replay" in argv:
        replay = argv[argv.index("--replay") + 1]
    h = importlib.import_module("harness.%s" % pid.lower())
    t_start = time.time()

    if replay:
        return do_replay(h, pid, replay)

    # 1-3: regenerate, build, audit (serialised)
    os.makedirs(os.path.join(VERIF, "evidence"), exist_ok=True)
    lock = open(os.path.join(VERIF, ".lock"), "w")
    fcntl.flock(lock, fcntl.LOCK_EX)
    try:
        ext_fail, ext_out = regenerate()
        ok_driver, out_driver = lake_build(["driver"])
        if not ok_driver:
            print("INFRA: model driver does not build\n" + out_driver[-3000:])
            return 2
        ok_build, build_out = lake_build(h.LEAN_MODULES)
        thms, audit_out, audit_ok = ([], "", False)
        if ok_build:
            thms, audit_out, audit_ok = audit(h.LEAN_MODULES)
        forb = grep_forbidden()
        leanchecker = None
        if ok_build and tier == "thorough":
            rc, lc_out = sh(["lake", "env", "leanchecker"] + h.LEAN_MODULES, cwd=LEAN, timeout=3000)
            leanchecker = {"rc": rc, "tail": lc_out[-400:]}
    finally:
        fcntl.flock(lock, fcntl.LOCK_UN)
    bad_axioms = [(n, a) for n, a in thms if not set(a) <= ALLOWED_AXIOMS]
    proof_broken = []
    if ext_fail:
        proof_broken += ext_fail
    if not ok_build:
        proof_broken += ["lake build failed at " + x for x in failing_decls(build_out)] or ["lake build failed"]
    elif not audit_ok or not thms:
        print("INFRA: audit failed\n" + audit_out[-3000:])
        return 2
    if forb or bad_axioms:
        print("INFRA: forbidden construct or axiom: %r %r" % (forb, bad_axioms))
        return 2
    if leanchecker and leanchecker["rc"] != 0:
        print("INFRA: leanchecker rejected the compiled proofs\n" + leanchecker["tail"])
        return 2

    # 4: correspondence + oracle
    known = load_known(pid)
    cases, impl_obs, model_obs, timing = explore(h, tier, seed)
    violations, known_hits, mismatches, bad_ops = judge(h, cases, impl_obs, model_obs, known)
    if bad_ops:
        print("INFRA: driver answered bad-op for %d ops, e.g. %s" % (len(bad_ops), bad_ops[0].line()))
        return 2
    searched = None
    if not violations and (proof_broken or mismatches) and tier != "thorough":
        # failing-input search at the thorough bounds, judged by the oracle on the implementation
        c2, i2, m2, _ = explore(h, "thorough", seed)
        v2, k2, mm2, _ = judge(h, c2, i2, m2, known)
        searched = len(c2)
        violations = v2
        for k, v in k2.items():
            known_hits.setdefault(k, v)

    # 5: verdict
    for kid, hits in known_hits.items():
        desc = next(k["what"] for k in known if k["id"] == kid)
        c, obs, clause = shrink_pick(h, hits)[0]
        print("KNOWN-FINDING: property=%s %s [%s; %d matching inputs this run, e.g. %s -> %s]" %
              (pid, desc, kid, len(hits), c.line_h() if hasattr(c, "line_h") else human(c), human_obs(obs)))
    rc = 0
    replay_path = None
    if violations:
        picks = shrink_pick(h, violations)[:10]
        replay_path = write_replay(pid, seed, tier, "oracle",
                                   [case_json(c, o, {"clause": cl}) for c, o, cl in picks],
                                   proof_broken + (["correspondence model≠impl on %d inputs" % len(mismatches)] if mismatches else []))
        c, o, cl = picks[0]
        print("property %s fails on the implementation: %s -> %s : %s" % (pid, human(c), human_obs(o), cl))
        print("VIOLATION property=%s replay=%s" % (pid, replay_path))
        rc = 1
    elif proof_broken or mismatches:
        items = [case_json(c, o, {"model": str(m)[:4000]}) for c, o, m in shrink_pick(h, mismatches)[:10]]
        broken = list(proof_broken)
        if mismatches:
            broken.append("correspondence: model and implementation differ on %d of %d compared inputs (first: %s impl=%s model=%s)" %
                          (len(mismatches), len(model_obs), human(mismatches[0][0]), human_obs(mismatches[0][1]), str(mismatches[0][2])[:200]))
        replay_path = write_replay(pid, seed, tier, "unproved", items, broken)
        for b in broken:
            print("no longer checks: " + b)
        print("VIOLATION property=%s replay=%s no-failing-input-found" % (pid, replay_path))
        rc = 1

    # evidence
    dist = collections.Counter(("corpus:" if c.get("corpus") else "") + c["tag"] for c in cases)
    kinds = collections.Counter(obs_kind(o) for o in impl_obs)
    nontriv = len({c.key() for c, o in zip(cases, impl_obs) if obs_kind(o) == "ok"})
    sample_idx = sorted(set([0, len(cases) // 3, (2 * len(cases)) // 3, len(cases) - 1])) if cases else []
    samples = [dict(case_json(cases[i], impl_obs[i]), model=model_obs.get(i)) for i in sample_idx]
    obligations = len(thms) if ok_build else max(1, len(proof_broken))
    ev = {
        "property_id": pid, "tier": tier, "seed": seed, "level": "proof",
        "coverage": {
            "obligations": obligations,
            "discharged": len(thms) if ok_build else 0,
            "checker_cmd": "cd /verif/lean && lake build %s && lake env lean <audit script printing Lean.collectAxioms per theorem>%s" %
                           (" ".join(h.LEAN_MODULES), " && lake env leanchecker ..." if tier == "thorough" else ""),
            "trusted_base": ["Lean 4.33.0 kernel", "axioms: " + ", ".join(sorted({a for _, ax in thms for a in ax}) or ["none"]),
                             "tools/extract.py (Tie A)", "harness/%s.py + tools/framework.py + driver line protocol (Tie B)" % pid.lower(),
                             "CPython semantics of the constructs listed in DESIGN.md §7"] + list(getattr(h, "TRUSTED", [])),
            "theorems": [{"name": n, "axioms": a} for n, a in thms],
            "not_proved": getattr(h, "NOT_PROVED", []),
            "evaluations": len(cases),
            "distinct_nontrivial": nontriv,
            "rule": getattr(h, "RULE", "") + " | non-trivial = distinct op line whose implementation observation is neither an error nor empty"
                    " | every case is run again in a fresh interpreter, in reverse order, twice in a row (second answer judged)",
            "samples": samples,
            "exhaustive": bool(getattr(h, "EXHAUSTIVE", {}).get(tier, False)),
            "compared_with_model": len(model_obs),
            "model_mismatches": len(mismatches),
            "oracle_failures_unlisted": len(violations),
            "known_finding_hits": {k: len(v) for k, v in known_hits.items()},
            "input_distribution": dict(dist),
            "observation_kinds": dict(kinds),
            "search_cases_after_break": searched,
            "proof_broken": proof_broken,
            "leanchecker": leanchecker,
            "timing_s": timing,
        },
        "assumptions": list(getattr(h, "ASSUMPTIONS", [])),
        "wall_s": round(time.time() - t_start, 2),
        "violations": (1 if rc == 1 else 0),
    }
    # written under a private name and renamed, so a reader never sees a half-written record
    ev_path = os.path.join(VERIF, "evidence", "%s.json" % pid)
    with open(ev_path + ".%d.tmp" % os.getpid(), "w") as f:
        json.dump(ev, f, indent=1)
    os.replace(ev_path + ".%d.tmp" % os.getpid(), ev_path)
    print("%s %s: %d theorems, %d cases (%d compared with the model, %d mismatches), %d known-finding inputs, %.1fs -> exit %d" %
          (pid, tier, len(thms), len(cases), len(model_obs), len(mismatches), sum(len(v) for v in known_hits.values()), time.time() - t_start, rc))
    return rc

def human(c):
    s = "%s(%s)" % (c["fn"], ", ".join(repr(a) for a in c["args"]))
    s = s if len(s) < 400 else s[:400] + "…"
    return s + (" [second pass: fresh interpreter, cases in reverse order, each asked twice in a row - this is the second answer]" if c.get("second_pass") else "")

def human_obs(o):
    s = repr(o)
    return s if len(s) < 200 else s[:200] + "…"

def do_replay(h, pid, path):
    data = json.load(open(path))
    known = load_known(pid)
    bad = 0
    for item in data["cases"]:
        c = Case(item["fn"], h.decode_args(item["fn"], item["args"]) if hasattr(h, "decode_args") else item["args"])
        obs = call_impl(h.IMPL, c)
        clause = h.oracle(c, obs)
        mo = run_driver([c.line()])[0] if h.has_model(c) else None
        print("replay %s -> impl %s ; model %s ; oracle: %s" % (human(c), human_obs(obs), mo, clause or "ok"))
        if clause or (mo is not None and mo != enc(obs)):
            bad += 1
    if bad:
        print("VIOLATION property=%s replay=%s" % (pid, path))
        return 1
    return 0

if __name__ == "__main__":
    from tools import framework as _fw   # one module identity for Err/Case across harness imports
    try:
        rc = _fw.main(sys.argv)
    except SystemExit:
        raise
    except BaseException:
        # a defect of the machinery itself (harness, framework, environment) is never a verdict on the property
        import traceback
        traceback.print_exc()
        print("INFRASTRUCTURE ERROR: the check itself failed; no verdict (exit 2)")
        rc = 2
    sys.exit(rc)
