#!/usr/bin/env python3
"""mkcorpus.py [seed-name ...]: (re)build /verif/corpus/<ID>.json, the regression corpus of failing inputs.

For every seeded change under /verif/seeded (or the named ones) the patch is applied to a SCRATCH clone of /repo (never to /repo
itself), the property's harness is run against that clone (implementation + oracle + compiled model, as in a quick check) with
VERIF_SEED 1, 2, 3 until an input fails, and the smallest failing input is stored with everything its oracle needs.  Entries of
seeds that are not re-run are kept.  The checks only READ the corpus (tools/framework.load_corpus); nothing adds to it at check
time.  Usage: /venv/bin/python tools/mkcorpus.py            (all seeds, 8 properties in parallel)
"""
import json, os, subprocess, sys, tempfile, shutil
V = os.path.dirname(os.path.dirname(os.path.abspath(__file__)))

WORKER = r'''
import sys, os, json, importlib
clone, pid, seed = sys.argv[1], sys.argv[2], int(sys.argv[3])
os.environ["MINGUS_REPO"] = clone
os.environ["VERIF_NO_CORPUS"] = "1"
sys.path.insert(0, %r)
from tools import framework as fw
import mingus
assert mingus.__file__.startswith(clone), mingus.__file__
h = importlib.import_module("harness." + pid.lower())
cases, impl_obs, model_obs, _ = fw.explore(h, "quick", seed)
v, kh, mm, bad = fw.judge(h, cases, impl_obs, model_obs, fw.load_known(pid))
items = [(c, o) for c, o, _ in v] or [(c, o) for c, o, _ in mm]
items.sort(key=lambda t: (len(t[0].line()), t[0].line()))
print("RESULT " + json.dumps([fw.case_to_corpus(c, "") for c, o in items[:2]]))
''' % V

def run_seed(clone, name):
    pid = name.split("-")[0]
    subprocess.run(["git", "-C", clone, "checkout", "-q", "--", "."], check=True)
    r = subprocess.run(["git", "-C", clone, "apply", os.path.join(V, "seeded", name, "patch.diff")])
    if r.returncode != 0:
        return None
    try:
        for seed in (1, 2, 3):
            p = subprocess.run(["/venv/bin/python", "-c", WORKER, clone, pid, str(seed)], cwd=V, capture_output=True, text=True, timeout=1800)
            for ln in p.stdout.splitlines():
                if ln.startswith("RESULT "):
                    got = json.loads(ln[7:])
                    if got:
                        for g in got:
                            g["origin"] = name
                        return got
        return []
    finally:
        subprocess.run(["git", "-C", clone, "checkout", "-q", "--", "."], check=True)

def worker_property(pid, names, outdir):
    clone = tempfile.mkdtemp(prefix="corpus_%s_" % pid, dir="/tmp")
    try:
        subprocess.run(["git", "clone", "-q", os.environ.get("MINGUS_REPO", "/repo"), clone], check=True)
        res = {}
        for n in names:
            res[n] = run_seed(clone, n)
        json.dump(res, open(os.path.join(outdir, pid + ".json"), "w"))
    finally:
        shutil.rmtree(clone, ignore_errors=True)

def main(argv):
    if len(argv) > 1 and argv[1] == "--one":
        worker_property(argv[2], argv[4:], argv[3]); return 0
    names = argv[1:] or sorted(d for d in os.listdir(os.path.join(V, "seeded")) if os.path.isdir(os.path.join(V, "seeded", d)))
    by = {}
    for n in names:
        by.setdefault(n.split("-")[0], []).append(n)
    outdir = tempfile.mkdtemp(prefix="corpus_out_", dir="/tmp")
    procs = []
    pids = sorted(by)
    running = []
    for pid in pids:
        running.append((pid, subprocess.Popen([sys.executable, os.path.abspath(__file__), "--one", pid, outdir] + by[pid])))
        if len(running) >= 8:
            running.pop(0)[1].wait()
    for _, p in running:
        p.wait()
    os.makedirs(os.path.join(V, "corpus"), exist_ok=True)
    for pid in pids:
        path = os.path.join(V, "corpus", pid + ".json")
        old = json.load(open(path)) if os.path.exists(path) else []
        new = json.load(open(os.path.join(outdir, pid + ".json")))
        keep = [e for e in old if e.get("origin") not in new]
        for n in sorted(new):
            if new[n] is None:
                print("%s: patch does not apply" % n)
            elif not new[n]:
                print("%s: no failing input found (seeds 1-3)" % n)
            else:
                keep += new[n]
        seen, out = set(), []
        for e in keep:
            k = json.dumps([e["fn"], e["args"]], sort_keys=True)
            if k not in seen:
                seen.add(k); out.append(e)
        json.dump(out, open(path, "w"), indent=0, sort_keys=True)
        print("%s: %d corpus inputs" % (pid, len(out)))
    shutil.rmtree(outdir, ignore_errors=True)
    return 0

if __name__ == "__main__":
    sys.exit(main(sys.argv))
