#!/usr/bin/env python3
"""Writes /verif/MANIFEST.json from the per-property table below (single source of truth)."""
import json, os
V = os.path.dirname(os.path.dirname(os.path.abspath(__file__)))
TRUST = ("Trusted: Lean 4.33 kernel; axioms propext, Classical.choice, Quot.sound only (audited per theorem every run; no sorry/"
         "native_decide/bv_decide/own axioms); tools/extract.py (Tie A: tables regenerated from the source and proved equal to the "
         "model's); harness + driver line protocol (Tie B: implementation vs compiled Lean model on the same inputs, plus an "
         "independent oracle written from the property statement and evaluated on the implementation's observations); CPython "
         "semantics of str/list/dict/%/sort are modelled, not verified. ")
CLAIMED = {
 "C01": dict(
   text="Lean theorems over all accidental strings of any length and order (pitch-class formula, augment/diminish, redundancy "
        "removal, reduction, validity iff, rejections; 12x2 number->name table by kernel evaluation). Model tied to notes.py by "
        "regenerated tables (Tie A) and exhaustive differential execution up to 8/11 accidentals plus malformed streams (Tie B).",
   note=TRUST + "The empty string (IndexError) is outside the property and guarded explicitly.",
   design="§4 C01"),
 "C02": dict(
   text="Lean theorem ctor_spec: for every (step, semitone) row of the constructor table and every valid name with any number "
        "and order of accidentals the result is valid, on the required letter, exactly the defining semitones above, unmixed, "
        "<=6 accidentals (closed form of the augment/diminish loop by induction on fuel + normalisation arithmetic); measure and "
        "the four consonance predicates are the stated functions. Unison clause: letter/semitone proved for all inputs; the "
        "unmixed/<=6 clause only _partial (canonical input, <=5 accidentals) with a kernel-checked counterexample = known finding "
        "C02-unison-passthrough. Constructor rows regenerated from intervals.py and proved equal to the model's (Tie A); "
        "17 constructors x all names <=6/8 accidentals differential (Tie B).",
   note=TRUST + "Known finding C02-unison-passthrough is listed in known_findings.json with a matcher on (constructor is a unison, "
        "input mixed or >=6 accidentals); any other failure is a violation.",
   design="§4 C02"),
 "C03": dict(
   text="Lean theorem fromShorthand_spec, unbounded: any valid note (any accidentals), any accidental string in the shorthand, "
        "any degree digit, up or down -> right letter and exactly (major size + sharps - flats) semitones away (built on C02's "
        "ctor_spec and an induction over the accidental loop); down column proved complementary to the up column. Naming, "
        "determine->from_shorthand round trip and up-then-down identity are kernel evaluations of the whole stated domain "
        "(35x35 canonical names up to double accidentals; 49 names up to triple x 35 shorthands). invert_spec for all lists. "
        "Tables fifth_steps/shorthand_lookup regenerated from the source (Tie A); all name pairs <=2/3 accidentals (any order) "
        "differential (Tie B).",
   note=TRUST + "Known finding C03-unison-mixed-first-note (same root cause as C02's) listed with a matcher; one defect repaired "
        "by a fix: commit (60e20c6, '#1' for every augmented unison). up_down_limit pins that the identity stops at 4 accidentals, "
        "outside the property's domain.",
   design="§4 C03"),
 "C05": dict(
   text="Lean theorems: free-tonic classes (Diatonic with any semitone positions, 7 modes, WholeTone, Octatonic) realise their "
        "pattern for every valid tonic with any accidentals and every octave count (generic loop lemma grow_spec + C02's "
        "ctor_spec; steps_repeat lifts one octave to n by induction); key-derived classes over their whole tonic tables by "
        "kernel evaluation, lifted to every octave count; descending = reverse proved structurally, melodic minor / minor "
        "Neapolitan / Chromatic descending by whole-table evaluation; degree/len/eq follow the lists; determine_spec for "
        "arbitrary note lists: result = exactly the 105 family scales whose ascending or descending set contains the notes. "
        "Class order/types, mode tuples and derived-class bodies regenerated from scales.py (Tie A); differential run incl. "
        "all Diatonic position pairs and recognition on subsets (Tie B).",
   note=TRUST + "Result order of determine (Python __subclasses__() order) is tied by the correspondence; the oracle compares as a "
        "multiset. One defect repaired by a fix: commit (16b787e, degree(n,'d') TypeError).",
   design="§4 C05"),
 "C06": dict(
   text="Builders are translated from chords.py by symbolic evaluation into lists of note expressions (root / interval "
        "constructor / augment / diminish), regenerated every run and proved equal (as finite maps) to the model's tables. "
        "Lean: builders_match_formulas (whole table, kernel) + evalBuilder_good (induction over expressions on C02's ctor_spec) "
        "give shorthand_formula: for every known shorthand and every root with any accidentals the parsed chord starts on the "
        "root and each note is on the formula's letter and semitone distance. plain_parse, alias_interchangeable (all alias "
        "spellings of every key), unknown_shorthand and bad_root are unbounded in the root; constructible = meaningful and "
        "same meaning => same builder are whole-table facts; slash_parse and poly_parse (C06Poly.lean, unbounded: for EVERY "
        "known shorthand, every root and every bass note name with any accidentals 'root k / bass' is the bass followed by the "
        "chord; for EVERY pair of known shorthands and roots 'X|Y' is Y's notes followed by X's, a note equal to the one just "
        "before it not repeated - from the parser's definition: normalize_barrier, scanRest_lastSlash, not_exception, poly_step) "
        "and kernel evaluations over a finite domain for nested forms.",
   note=TRUST + "Nested slash/polychord forms (a polychord whose halves are slash chords or polychords) are finite-domain "
        "evaluations, tied beyond that by the correspondence only. One defect repaired by a fix: commit (a771e68).",
   design="§4 C06"),
 "C07": dict(
   text="recognise_all: kernel evaluation of the whole stated domain - every constructible shorthand x the 21 roots with at most "
        "one accidental x every rotation - of 'the shorthand-form answer contains a name that rebuilds exactly the root-position "
        "chord and the long-form answer at that position is root + meaning + inversion ordinal' (10 slice files, parallel); "
        "triads_sound: all 21^3 three-note inputs (7 slice files); forms_agree: for EVERY list of strings, if the shorthand "
        "form succeeds the long form succeeds with the same length (induction over the inversion exhauster + whole-table facts "
        "that every emitted name has a meaning, is constructible and does not start with an accidental; ordinals total on 1..7); "
        "trivial answers for 0/1/2 notes. Recogniser if/elif tables and int_desc are regenerated from chords.py and proved equal "
        "to the model's (Tie A); 14k differential cases incl. random 4-9 note inputs (Tie B).",
   note=TRUST + "Double-accidental roots are covered by the correspondence only (sampled), as the property states. Two defects repaired "
        "by fix: commits (198944d ordinals beyond the third inversion, e53f2c1 M11).",
   design="§4 C07"),
 "C08": dict(
   text="Whole-table kernel theorems: triads/sevenths are stacked thirds in all 30 keys; every function name and numeral alias "
        "indexes the row its name denotes (independent roman/function-name reading); determine is the inverse of to_chords on "
        "every diatonic triad and seventh of the 15 major keys in both forms; substitution cores per numeral (minor-for-major "
        "+3, major-for-minor +9, diminished cycle +3/+6/+9, harmonic substitutes share two notes in every major key, all rule "
        "outputs well-formed). Unbounded: parse_spec / toChords_spec / parse_format_id for any number of prefix accidentals, "
        "either case, any suffix the scanner stops at; shift_spec (each accidental = one semitone on every note, same letter); "
        "minor_for_major_spec / major_for_minor_spec for any prefix; *_only_documented (five theorems, EVERY string: with "
        "ignore_suffix off each rule answers [] outside the suffixes / unsuffixed degrees its docstring names). Function table and all progressions.py tables regenerated "
        "from the source (Tie A); 22k differential cases incl. caller's-list-unchanged checks (Tie B).",
   note=TRUST + "'Leaves the caller's progression unchanged' is a correspondence clause here (deep copy compared afterwards); the "
        "aliasing model is C15's. substitute_diminished_for_dominant is tied by correspondence only (the property promises "
        "well-formed numerals). Two defects repaired by fix: commits (f72d29c vii7, 5e2170b substitute aliasing).",
   design="§4 C08"),
 "C09": dict(
   text="value.determine is modelled over exact rationals with the float thresholds' exact dyadic values (regenerated from the "
        "source), which is exactly the float function. Lean: determine_dotted / determine_tuplets (whole 80-value vocabulary, "
        "kernel, on the doubles the constructors produce); near_base and near_dotted for EVERY rational within 1% of an undotted "
        "/ exactly-two-thirds value (Mathlib linarith/norm_num in the proof file only); add/subtract inverse and duration sum over "
        "Q; validBeat_iff: the total halving loop answers true exactly for 2^k (the structural recursion is the termination "
        "argument), nan/inf false; meter predicate formulas. Tie A: base values, threshold chain with the tuple each branch "
        "returns, multi-dot fingerprints, the doubles of dots(), tuplet ratios. Tie B: floats travel as exact fractions; "
        "vocabulary, perturbations, doubles adjacent to every threshold at every scale, random doubles; every meter call under a "
        "2 s alarm.",
   note=TRUST + "value.add / value.subtract are modelled in double arithmetic (Value.addF / subtractF: the code's 1/(1/a +- 1/b) "
        "with round-to-nearest-even after each of the three operations, ZeroDivisionError for a zero operand or a zero "
        "sum) and compared with CPython bit for bit; the double computation is related to the exact statement by theorems "
        "(C09Float.lean on Lemmas/FloatErr.lean: round_err - one rounding of ANY rational errs by at most 2^-53 relative; "
        "addF_close / addF_close_exact - for ALL positive a, b the double add succeeds within 4*2^-53 relative of the exact "
        "harmonic sum; subtractF_close - the same for subtract with the cancellation's condition number k in the bound "
        "(2k+4)*2^-53; addF_zero, subtractF_self, addF_ne_zero), the oracle's 1e-9 is far inside. Partial: the doubles of dots() are tied by table equality on "
        "the vocabulary, not proved from the rounding model. Three defects "
        "repaired by fix: commits (4362669, c717ce2, 0ba7c99 - integer beat units above 2^53, explored up to 2^200 since).",
   design="§4 C09"),
 "C10": dict(
   text="Lean theorems for every valid name (any accidentals) and every octave: int_spec (12*octave + natural + sharps - flats), "
        "fromInt_roundtrip (every integer), text_roundtrip ('Name-octave' with the model's own decimal printer, parse o show = "
        "id by induction), comparisons (all six operators = integer comparison), helmholtz_roundtrip (any accidental string, any "
        "octave >= 0, by induction over the scanner), velocity/channel bounds, malformed names, copy, change_octave floor. Hz "
        "clauses over the reals with Mathlib (octave_doubles, a4_is_standard, hz_roundtrip for |cents| <= 40 with a 0.1-semitone "
        "margin to the rounding boundary). Tie A: defaults, bounds, the source text of the Hz formulas; Tie B: names x octaves, "
        "100x100 comparison pairs, bounds sweep, 128 notes x 4 pitches x detunes through the real float code.",
   note=TRUST + "Partial: IEEE rounding and libm log/pow in to_hertz/from_hertz are not modelled; the float code is tied to the "
        "real-number theorem by the exhaustive harness run only. Copy *independence* is an aliasing fact tied by mutate-and-"
        "compare (C15 owns the heap model). One defect repaired by a fix: commit (b391377).",
   design="§4 C10"),
 "C12": dict(
   text="Lean: history_inv - after ANY sequence of add/remove operations (objects, bare names, names with octave, lists, other "
        "containers, removals by name / name+octave / note) the container is strictly increasing by pitch (induction over the "
        "operation list; append-then-sort proved equal to ordered insertion); addNoteObj_mem / remove_mem give the set-model "
        "semantics of each operation; voicing_partial (bare name lands in [top, top+12) when both unreduced offsets are in "
        "0..11) with a kernel-checked counterexample to the full clause = known finding C12-bare-name-voicing; chord_constructor "
        "(every shorthand x 21 roots, kernel); pairwise_spec (consonance predicates = all pairs), eq_spec; fromInterval_members + "
        "fromInterval_spec (C12Interval.lean: the container built from an interval shorthand holds exactly the start note and the "
        "note that many semitones above / below it, on the letter the interval number requires, ordered by pitch - every canonical "
        "name, every shorthand of size 0..11, EVERY octave incl. 0 and below, both directions). Tie A: the octave "
        "expressions / duplicate test of add_note; Tie B: all histories of depth <=3/4 over a 16-op alphabet + random depth 40, "
        "each step judged against a set model started from the implementation's previous state.",
   note=TRUST + "Known finding C12-bare-name-voicing listed with a matcher (failing sub-step adds a bare name, an involved name has an "
        "offset outside 0..11, only that note's placement differs); any other deviation is a violation.",
   design="§4 C12"),
 "C13": dict(
   text="Specification = the exact bar over Q. Lean: history_inv - after ANY sequence of place / rest / + / remove-last / "
        "set-item / place-at operations, in any meter, every entry starts at the sum of the lengths before it and the current "
        "beat equals the total (induction over the operation list); place_spec (accepted iff exact total + 1/v <= length or "
        "length = 0; accepted appends exactly one entry, refused changes nothing); content_ops_keep_timing and "
        "setItem_only_that_entry; isFull_spec; setMeter_spec. The implementation's float accounting is modelled IEEE-exactly "
        "(round-to-nearest-even over Q, validated against CPython on 83k operations) and compared with the exact bar in the "
        "exact bar: bar_history_exact / float_refines_exact (C13Dyadic.lean, unbounded: in ANY meter count/2^u with length <= 1024, "
        "under ANY history of placements of power-of-two values down to 2^40-th notes and removals, every double operation "
        "of the bar is exact, every accept/refuse decision is the exact bar's and the float bar's state equals the exact "
        "bar's - from round_exact: every m*2^k with |m| < 2^53 is a double, proved from the rounding function); in the "
        "kernel: float_agrees_on_dyadic_fills (6 meters x 8 power-of-two values, complete fills + first refusal) and "
        "float_counterexample (the 20th quintuplet sixteenth in 4/4 is refused) = known finding C13-float-exact-fill. Tie A: "
        "the source expressions of the accounting and the is_full tolerance; Tie B: float model == implementation bit for bit "
        "on all histories of depth <=3/4, every single/alternating fill-to-capacity, random histories up to 200 steps.",
   note=TRUST + "Partial: for values that are not powers of two (dotted values, tuplets) the float bar is tied to the exact bar "
        "only on the kernel-evaluated histories and by the oracle - and there it genuinely differs (the finding). Known finding C13-float-exact-fill (matcher: exact "
        "total + 1/v == length and the implementation refused); an accepted over-fill is still a violation.",
   design="§4 C13"),
 "C11": dict(
   text="Note level: transpose_shift (transposition commutes with moving a note by whole octaves: any octave, proved "
        "structurally) + transpose_table (kernel: 7 letters x -4..4 accidentals x 35 shorthands x both directions: pitch number "
        "moves by exactly the size, right letter, dynamics kept) give transpose_spec for every octave; updown_table (up then "
        "down restores name and octave for up to three accidentals) with updown_limit pinning where it stops. "
        "augment_diminish_id for every unmixed name of any length, with a counterexample for mixed names = known finding "
        "C11-augment-diminish-mixed-name. Container levels: nc_lifts / bar_lifts / track_lifts for containers of ANY size - the "
        "operation is applied to every note; rests, values, beats, meter and key are untouched. Tie A: source of the octave "
        "fix-up and of the per-note loops; Tie B: names x octaves 0..8 x 35 shorthands x 2, random containers/bars/tracks with "
        "histories of up to 6 transposition/augment/diminish steps.",
   note=TRUST + "Exactness is claimed for names with at most four accidentals (beyond that the constructors' > 6 re-spelling moves "
        "octaves: outside the property's stated domain). Known finding C11-augment-diminish-mixed-name listed with a matcher.",
   design="§4 C11"),
 "C14": dict(
   text="Lean (model of Track over the IEEE-exact bar): addNotes_items - an accepted item appends exactly one entry with its value "
        "and content, a refused one leaves the music unchanged; history_items - for item lists of ANY length, iterating the "
        "track yields exactly the accepted items in order (induction), history_lengths (entry lengths = accepted lengths); "
        "history_bars_full (C14Full.lean: after ANY history - accepted, refused or range-rejected items, any instrument - every bar "
        "except the last is full); fromChords_places / addChord_places (C14Chords.lean, the model's add_chord is a total "
        "recursive function: for a chord list of ANY nesting depth, whenever from_chords returns, the entries are the old ones "
        "followed, leaf by leaf in order, by that leaf's pieces - one entry of the leaf's value (doubled per nesting level) when "
        "it fits, else at most two pieces - each carrying that chord's notes or the rest); new_bar_inherits (a bar is opened only after a full bar "
        "and copies its key and meter); gate_rejects / gate_in_range / gate_accepts_rest with canPlay_spec; refusal clause: full "
        "statement + kernel counterexample = known finding C14-refused-add-opens-bar; composition: addTrack_selects, "
        "addNote_selection. Tie A: Track.add_notes statements, instrument ranges, guitar limit, Composition selection; Tie B: all "
        "add/+/add_bar histories of depth <=3/4 x instruments, out-of-range calls on empty / exactly-full tracks, random "
        "histories up to 60 steps, from_chords on nested lists with rests, composition scripts.",
   note=TRUST + "That the two pieces of a split from_chords item add up to the item's length is float arithmetic: tied by the "
        "correspondence and the oracle only. Exactness of the accept decision is "
        "C13's business. Known finding C14-refused-add-opens-bar listed with a matcher; two defects repaired by fix: commits "
        "(ae0783e rest with an instrument, 79bbf45 from_chords rests).",
   design="§4 C14"),
 "C15": dict(
   text="Explicit-heap models in Lean. memo_transparent: with results handed out as fresh cells (what the repaired code does - tied "
        "by the return expressions regenerated from the source), after ANY history of queries and caller mutations of returned "
        "lists every query returns its pure value (state invariant by induction); ref_counterexample refutes the unrepaired "
        "aliasing. created_are_owned / class_default_untouched / instances_independent for any history of instance operations, "
        "with all_classes_safe (static, regenerated: every class-level list/dict that a method mutates in place is rebound by "
        "__init__, for all container and MIDI classes) and no_mutable_defaults. lookup_stateless: for ANY strictly increasing "
        "positive 129-entry table and ANY lookup history the answer with position memory equals the stateless answer (binary "
        "search invariant + memory invariant) - the failed first proof attempt exposed a real IndexError, now fixed. Tie B: "
        "random histories vs the heap model and a cold-interpreter battery, introspection-driven argument/result aliasing over "
        "every public function, sibling-instance scripts, lookups vs a freshly imported module.",
   note=TRUST + "For functions that only read their arguments the Lean statement is trivial (pure functions); that clause is carried by "
        "the introspection-driven harness. Five defects repaired by fix: commits (63e0c48, a024b61, 3c0ca1c, 44ee165, 5712382 - "
        "Note() wrote into the caller's dynamics dictionary) plus 5e2170b (substitute) shared with C08.",
   design="§4 C15"),
 "C16": dict(
   text="Model of MidiTrack as the pending-delta state machine the code is (events appended with whatever delta is pending). Lean, "
        "all unbounded: toVarbyte_standard (int_to_varbyte = the standard VLQ for EVERY n), dec_toVarbyte (the standard decoder "
        "inverts it), enc_len_le4 / enc_shape; entry/bar/track/passes refinement (the machine writes exactly the events of a pure "
        "specification in which every event has its own delta - with or without a pending instrument change, wherever the rests "
        "are, for any repeat count) and writeNote/NC/Bar/Track/Composition_spec; composition_parses: an independent SMF reader "
        "(written in Lean from the format) reads every written file back as format 1, 72 ticks, declared tracks = chunks, exact "
        "chunk lengths closed by one end-of-track, and exactly the specification's events; track_file_denotes: the note-on/off "
        "events with absolute ticks are the music laid end to end from tick 0; entries/bars/passes_balanced (no note hangs or "
        "overlaps itself when an entry's notes are distinct); sigs_specBars + keyEv_table (30 keys, kernel) + tick_table (values "
        "1..128 in IEEE doubles, kernel); instrEvs_specEntries (one bank select + program change on the first sounding note's "
        "channel, immediately before it); entry_tempo_refines (C16Tempo.lean: an entry whose container carries a tempo b >= 4 "
        "writes first the tempo event 60000000 div b WITH THE ACCUMULATED REST AS ITS DELTA, then exactly what the same entry "
        "without a tempo writes after no rest - the statement the unrepaired code violated), rest_tempo_silent; "
        "entry_refinesT ... writeTrack_specT / writeBar_specT / writeComposition_specT (C16TempoTrack.lean: the refinement layer "
        "with tempo-carrying containers ANYWHERE - any bar, track, composition, repeat count and number of tempo changes: the "
        "machine writes exactly the events of the extended specification specEntryT; specEntriesT_plain recovers the plain "
        "one; kernel example with a rest carried into a tempo change, two passes). Tie A: every "
        "statement of MidiTrack, MidiFile and write_*, constants. Tie B: bytes "
        "of real files vs the model, decoded by an independent Python SMF reader.",
   note=TRUST + "Float log in int_to_varbyte / time_signature_event is modelled by the exact integer logarithm (tied by the "
        "correspondence over all boundaries); the track-level DENOTATION theorems (note timeline, balance, parse-back) are stated for music "
        "without mid-bar tempo changes; with them the events written are proved to be the extended specification's "
        "(C16TempoTrack) and the files are compared byte for byte and judged by the oracle; "
        "the 2^32 chunk-size and 2^16 track-count bounds are hypotheses of composition_parses. Five defects repaired by fix: "
        "commits (259d7c9 key signature, adb3a11 bank select, a56fb57 tripled leading rest, fc6c3a8 trailing rest lost on "
        "repeat, ed36e72 rest before a tempo-changing container dropped).",
   design="§4 C16"),
 "C17": dict(
   text="Hand model of midi_file_in.MidiFile in two layers, as in the code: the byte parsers reading one stream, and "
        "MIDI_to_Composition (every non-zero delta closes the open entry and opens a new one) over the IEEE-exact float Bar of "
        "C13. Lean, unbounded: varbyte_toVarbyte (the variable-length reader inverts the writer for EVERY n); parseFile_fileBytes "
        "(mingus's own parsers read every file the writer model produces back as exactly the events written); run_view (for "
        "ANY event list, whatever the float bar accounting decides about bar ends, the closed entries are one per non-zero "
        "delta with that delta's length and the notes that started since - as long as no placement on an empty bar is refused, "
        "FitsRun, decidable by fitsRunB_sound); events_read (the writer's specification events of ANY track read as: per bar "
        "a rest for carried-over time, per sounding entry its pending rest then the entry with its tick length and its notes, "
        "own channel and velocity); compress_read (joining adjacent rests and dropping trailing ones, that is the written "
        "sequence); roundtrip_track (write -> parse -> second stage, end to end, composed with C16's refinement); "
        "F64.round_ne_zero (the IEEE model never rounds a non-zero rational to zero); tempo_roundtrip (every bpm with "
        "b(b+1) <= 60000000) + tempo_counterexample (7999 -> 8000) + tempo_event_roundtrip; key_roundtrip (30 keys, "
        "kernel), name/instrument/meter_roundtrip; five reject_* theorems for any bytes. Tie A: every statement of the reader "
        "and of the writer; Tie B: real write_Composition -> real file -> MIDI_to_Composition vs the model, judged by an "
        "independent flatten-and-merge oracle.",
   note=TRUST + "Partial: FitsRun (no placement refused on an empty bar, i.e. no delta longer than a whole bar of the reader's "
        "current meter) is a hypothesis of run_view / roundtrip_track; it is decidable along the run (fitsRunB_sound), checked in "
        "the kernel on a demo track, and decided for every generated composition by the correspondence; the entry values are "
        "the doubles 1/(d/288) and are compared with tick counts by the oracle. 'Every bpm the format can hold' is read as: "
        "the tempo that comes back is 60000000 div (60000000 div bpm). Three defects repaired by fix: commits (7b30158 key "
        "signatures, c08e47e leading rest, c357aa9 file without tempo).",
   design="§4 C17"),
 "C18": dict(
   text="Sequencer modelled as a trace machine: hook events, observer registry, low- and high-level notifications; play_Bars "
        "modelled statement by statement (float cursor, re-triggering, the remove-while-iterating stop loop) and bit-compared "
        "with the implementation on ~15k scripts incl. every unequal-rhythm run. Lean, unbounded: emit_ext (a hook event reaches "
        "every attached observer exactly once and nobody else); playBar_spec / playTrack_spec (for ANY bar/track - chords, "
        "rests, tempo-changing containers - the trace is per entry the note-ons with pitch+12, own channel and velocity, one "
        "sleep at the tempo in force, the matching note-offs; observers receive exactly that; the last tempo is returned); "
        "entries_balanced (nothing left sounding, nothing stopped that was not started, no re-trigger), slept_entries (the "
        "sleeps, entry by entry); playBars_sync / playTracks_spec / playComposition_spec (whatever the parallel scheduler does, "
        "observers = hooks; one instrument announcement per track on its channel first, program = GM name index, else the "
        "instrument's number, else 1); attach_idem, detach_not_listening, cc_guard. playBars_equal_rhythm (C18Par.lean: for ANY "
        "number of voices whose bars share one rhythm - same places and values entry by entry - and fill their meter exactly "
        "in the scheduler's own double arithmetic, the trace of play_Bars is, step by step, every voice's entry started in "
        "voice order, ONE sleep of the common value, those entries stopped; via startDue_all, settle_all, bump_all, "
        "loop_equal_rhythm; kernel example with two voices in 3/4); playTracks_equal_rhythm / playComposition_equal_rhythm "
        "(C18Tracks.lean: ANY number of tracks and bars - when at every bar index the simultaneous bars are inside that domain, "
        "the whole trace is one instrument announcement per track, then group after group the column traces, observers "
        "included, the tempo returned; kernel example with two tracks of two bars through play_Composition); "
        "playBars_equal_rhythm_tempo / playTracks_equal_rhythm_tempo / playComposition_equal_rhythm_tempo (C18Tempo.lean: the "
        "same with tempo-changing containers anywhere: the scheduler takes over the tempo of every entry it starts, in voice "
        "order, so each step sleeps at the tempo of the LAST voice whose entry carries one, that tempo stays in force - "
        "bpmBefore - across steps and bar groups, and the tempo in force at the end is returned; any number of voices, "
        "entries, bars and tempo changes, no tempo 0; bpmBefore_plain recovers the case without tempos; kernel examples). "
        "parallel_counterexample: halves against "
        "quarters re-trigger (kernel) = known finding C18-parallel-scheduler. Tie A: every statement of Sequencer, "
        "SequencerObserver.notify, GM names.",
   note=TRUST + "Partial: parallel playback OUTSIDE the equal-rhythm/exact-fill domain is the known finding, not a theorem; "
        "sleeps are IEEE doubles 60/bpm*4/value, compared with 240/(bpm*value) by the oracle to 1e-9. Known "
        "finding C18-parallel-scheduler (matcher: a parallel call outside the equal-rhythm/exact-fill domain); one defect "
        "repaired by a fix: commit (306af39).",
   design="§4 C18"),
 "C19": dict(
   text="Models of both exporters: the five LilyPond functions as character strings (compared with the implementation "
        "character for character) and the MusicXML element tree (compared with the implementation's text after parsing it "
        "with expat). Lean, unbounded: lyNote_roundtrip / lyNote_no_octave (an independent pitch reader recovers letter, every "
        "accidental and the octave of ANY note token - any accidental string, any octave), lyNote_standalone; duration_exact (for "
        "ANY bar, with the divisions the exporter computes, every note element's duration / divisions is exactly the entry's "
        "length in quarter notes - lcm divisibility over Q) with dvd_lcmList; entry_notes_spec (one note element per note or "
        "rest; children in order: pitch|rest, chord flag exactly on chord notes after the first, duration, one dot per dot, "
        "type, time-modification); part_ids_match (part ids = part-list ids, in order, for any composition). "
        "readEntry_dotted / readEntry_tuplet (C19Entry.lean: an independent reader recovers from ANY entry text - rest, note, "
        "chord of any size - the pitches, the base value and the dots, for the whole vocabulary); readBody_lyEntries / "
        "lyBar_reads (C19Bar.lean: a bar of ANY number of such entries in any order - so any pattern of tuplet blocks opening, "
        "continuing and closing - reads back as exactly the list of (pitches, base value, dots, tuplet ratio in force); the "
        "tokenizer keeps <...> together; kernel example); lyBar_reads_full and lyTrack_reads (C19Track.lean: a bar written with "
        "ANY of the four key/time flag combinations, in any of the 30 keys with any non-negative meter numbers, reads back as "
        "(time iff shown, tonic and mode iff shown, the entries); a track of ANY number of such bars reads back bar by bar - a "
        "bar ends at its MATCHING brace, tuplet blocks nest (takeGroup_close, body_shape) - with key and time read exactly "
        "where they change, C major and 4/4 before the first bar; kernel example on a two-bar track); lyComposition_reads "
        "(C19Comp.lean: the header fields - any title, author, subtitle without a double quote - and ANY number of tracks "
        "read back as written; kernel example). Whole tables in "
        "the kernel: duration_table (10 base values longa..128th x 0-2 dots as the doubles dots() yields, and 8 x 3 tuplets: "
        "suffix text and ratio), key_table / key_mode_table (30 keys). Tie A: every statement of lilypond.py and musicxml.py, "
        "type names, longa/breve, clef text.",
   note=TRUST + "Partial: the Lean readers cover the vocabulary of values and the 30 keys (what the library's own constructors "
        "produce); other values and the text of whole files are tied by the character-exact correspondence and decoded per generated program by the "
        "independent Python reader. XML text-level well-formedness and escaping are minidom's, validated per document by expat "
        "(not provable here). Titles containing a double quote cannot be read back as LilyPond (the header is not escaped): for them the check asks only that the header carries the text as written. "
        "Two defects repaired by fix: commits (14be814, deaaf2d).",
   design="§4 C19"),
 "C20": dict(
   text="Models of StringTuning (frets, notes, the fingering recursion with span filter and sort, the chord-fingering lookup "
        "table with its follow recursion, fingers_needed), the registry searches over the 77 add_tuning calls, and the whole "
        "tablature module (begin_track, from_Note/NoteContainer/Bar/Track/Composition, headers, layout) as lists of lines - "
        "compared line by line with the implementation. Lean, unbounded: findFrets_spec / findFrets_range (fret = semitone "
        "distance when within 0..maxfret, else None, for ANY tuning incl. courses), getNote_spec / getNote_range; "
        "mem_findFingering (the fingerings returned are EXACTLY the assignments of distinct strings, each sounding its note, "
        "that pass the span filter - soundness and completeness for any tuning, notes, max distance), strings_distinct, "
        "findFingering_sorted (ordered by total fret number); getTuning_sound / getTunings_sound / countOk_spec (only "
        "tunings satisfying every constraint, for ANY registry); fromNote_equal_lengths (equal string lines for any fitting "
        "single-string tuning, note, width) with beginTrack_lengths and centred_length; registered_labels_fit (whole registry, "
        "kernel); fromBar_equal_lengths (equal string lines for ANY bar and width); fromNC_decode (from_NoteContainer: one cell per "
        "string, read back exactly as the first fingering find_fingering returns); fromTrack_decode (C20Track.lean: the page of a "
        "whole track is a sequence of systems; every bar appears in exactly one system, in order; a glued bar is cut inside the "
        "label columns - find2_le - so that on every string the lead-in is digit-free and its cells still read back as a fingering "
        "of each entry; side conditions on the labels hold for the whole registry: registered_labels_fit, "
        "registered_labels_nodigit); fromComposition_decode (C20Comp.lean: the page of a whole composition is the header "
        "followed by rows; in row j every track that still has bars shows exactly its bars j*n..(j+1)*n-1 as ONE system on ITS "
        "OWN tuning, decoding as above, every track but the first after two || lines, a track that has run out shows nothing, "
        "three empty lines end the row, and the slices over all rows are each track's bars once and in order - chunks_cover; any "
        "number of tracks, bars, entries; registered_tuningOK for the side condition; sys_step_sys is the step shared with "
        "from_Track); fromNote_decode + fromNotePinned_decode + pinned_position_sounds + fromNotePinned_fallback (C20Pinned.lean: "
        "whatever from_Note draws reads back as ONE fret on ONE string, that string sounds the note there and no string sounds it "
        "at a lower fret; a note carrying a valid (string, fret) position is drawn exactly there and the open string raised by the "
        "fret is the note, an invalid position falls back to the search; any tuning, note, width); centre_shape / centre_length + "
        "wrapWords_flatten / wrapWords_fit + addHeaders_head / addHeaders_tail (C20Header.lean: the page header pads with blanks "
        "only, never cuts, splits the padding evenly and gives max(width, len) characters; the description's wrapping loop loses "
        "no word, invents none, keeps their order, and every line of two or more words is shorter than width - 10 - any word "
        "list and width; the header opens with an empty line and the title and closes with two empty lines); chord_sound + chord_span (C20Chord.lean: "
        "every fingering find_chord_fingering returns has one entry per string, every fretted entry lies within 0..maxfret and "
        "sounds a pitch class of the chord, every chord name is covered, at most max_fingers fingers, non-open frets less than "
        "max_distance apart - via follow_spec, makeTable_good, findNoteNames_spec); fromBar_decode + decodes_spec "
        "(C20Decode.lean: the string lines of a rendered bar are label columns, then one cell per entry, then closing dashes; "
        "reading the digits of entry k's cells gives fret fr on string s EXACTLY when entry k's fingering assigns (s, fr); that "
        "fingering has one distinct string per note in order, each sounding its note; a rest reads as nothing; kernel "
        "examples). Tie A: the add_tuning calls = the model's table, every statement of tunings.py and tablature.py, the "
        "default tuning.",
   note=TRUST + "Decodability is proved for from_Bar, from_NoteContainer, from_Track and from_Composition (the header text of a "
        "composition is modelled and compared, not decoded); chord fingerings and tablature are only "
        "exercised on tunings without courses (find_note_names and begin_track cannot handle a course). Two defects repaired by "
        "fix: commits (2c9d6fc, 84be0a7).",
   design="§4 C20"),
 "C04": dict(
   text="Whole-table kernel evaluation (decide +kernel) of everything the statement says about each of the 30 keys, the 15 "
        "relative couples, the key objects and signature<->key inversion; unbounded theorems for rejections (any string, any "
        "integer) and for diatonic steps of notes with any accidentals (reduction to the 30x7x7 table). Key table, base scale, "
        "fifths and step numbers regenerated from the source (Tie A); exhaustive differential run (Tie B).",
   note=TRUST + "The memo table _key_cache is modelled as transparent here (C15 owns that).",
   design="§4 C04"),
}
PENDING_REASON = "check not built yet in this session (in progress; see DESIGN.md §10 build order)"

def main():
    props = [json.loads(l) for l in open(os.path.join(V, "properties.jsonl"))]
    checks, na = [], []
    for p in props:
        i = p["id"]
        if i in CLAIMED:
            c = CLAIMED[i]
            checks.append({
                "property_id": i,
                "quick_cmd": "./check %s quick" % i,
                "thorough_cmd": "./check %s thorough" % i,
                "evidence_file": "evidence/%s.json" % i,
                "replay_cmd_template": "./check %s --replay {path}" % i,
                "engine": "lean-model",
                "level_claimed": {"category": "proof", "text": c["text"], "design_ref": c["design"]},
                "level_note": c["note"],
                "technique": c.get("technique", "Lean 4 theorems about a hand-written executable model; model tied to the source by a table translator (regenerated every run) and a differential correspondence check"),
            })
        else:
            na.append({"property_id": i, "reason": PENDING_REASON})
    m = {
        "version": 1,
        "setup_cmd": "python3 tools/extract.py /repo lean; cd lean && lake build Mingus driver",
        "hooks": {"guard": "MINGUS_VERIF", "enable": "no hooks are needed: the harness imports /repo/mingus directly under /venv/bin/python",
                  "baseline_off_cmd": "cd /repo && /venv/bin/python -m pytest -ra -q -p no:cacheprovider --timeout=900 --continue-on-collection-errors",
                  "source_commits": [], "add_only": True},
        "engines": [{"name": "lean-model", "path": "lean", "serves_properties": sorted(CLAIMED),
                     "kind_free_text": "Lean 4 project: hand-written executable model (Mingus/Model), property theorems (Mingus/Props), "
                                       "generated tables (Mingus/Gen) with tie theorems (Mingus/Tie), compiled line-protocol driver"}],
        "checks": checks,
        "notes": "See DESIGN.md. Every check: regenerate Gen from /repo, lake build the property's theorems, audit axioms, run the "
                 "correspondence and the oracle, triage. known_findings.json lists recorded defects and fixed: entries.",
        "not_applicable": na,
    }
    json.dump(m, open(os.path.join(V, "MANIFEST.json"), "w"), indent=1)

if __name__ == "__main__":
    main()
