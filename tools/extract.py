#!/usr/bin/env python3
"""Tie A: translate tables and straight-line definitions of /repo/mingus into Lean
(`lean/Mingus/Gen/*.lean`).  Pure `ast` work: the translated code is never imported.

Usage: extract.py <repo_root> <lean_project_dir>
Exit 0 on success; exit 3 with `EXTRACT-FAIL <module>: <reason>` lines when a shape that
the translator relies on is no longer found (the failing module gets a stub that makes
the dependent Tie theorems fail to build, which the check then triages).
"""
import ast, os, sys

class Shape(Exception):
    pass

def lchar(c):
    if c in ("'", "\\"):
        return "'\\%s'" % c
    if 32 <= ord(c) < 127:
        return "'%s'" % c
    return "(Char.ofNat %d)" % ord(c)

def lstr(s):
    return "[" + ", ".join(lchar(c) for c in s) + "]"

def lint(i):
    return "(%d)" % i if i < 0 else "%d" % i

def llist(xs):
    return "[" + ", ".join(xs) + "]"

def parse(repo, rel):
    with open(os.path.join(repo, rel)) as f:
        return ast.parse(f.read(), rel)

def module_assign(tree, name):
    for node in tree.body:
        if isinstance(node, ast.Assign) and len(node.targets) == 1 and \
           isinstance(node.targets[0], ast.Name) and node.targets[0].id == name:
            return node.value
    raise Shape("module-level assignment to %s not found" % name)

def func(tree, name):
    for node in tree.body:
        if isinstance(node, ast.FunctionDef) and node.name == name:
            return node
    raise Shape("function %s not found" % name)

def local_assign(fn, name):
    for node in ast.walk(fn):
        if isinstance(node, ast.Assign) and len(node.targets) == 1 and \
           isinstance(node.targets[0], ast.Name) and node.targets[0].id == name:
            return node.value
    raise Shape("assignment to %s in %s not found" % (name, fn.name))

def lit(node):
    try:
        return ast.literal_eval(node)
    except Exception as e:
        raise Shape("not a literal: %s" % ast.dump(node)[:80])

# ---------------------------------------------------------------- notes
def gen_notes(repo):
    t = parse(repo, "mingus/core/notes.py")
    nd = lit(module_assign(t, "_note_dict"))
    fifths = lit(module_assign(t, "fifths"))
    f = func(t, "int_to_note")
    ns = lit(local_assign(f, "ns"))
    nf = lit(local_assign(f, "nf"))
    if not (isinstance(nd, dict) and all(isinstance(k, str) and len(k) == 1 and isinstance(v, int) for k, v in nd.items())):
        raise Shape("_note_dict is not a {char: int} literal")
    out = ["namespace Mingus.Gen.Notes"]
    out.append("def noteDict : List (Char × Int) := " + llist("(%s, %s)" % (lchar(k), lint(v)) for k, v in nd.items()))
    out.append("def fifths : List Char := " + llist(lchar(c) for c in fifths))
    out.append("def ns : List (List Char) := " + llist(lstr(s) for s in ns))
    out.append("def nf : List (List Char) := " + llist(lstr(s) for s in nf))
    out.append("end Mingus.Gen.Notes")
    return "\n".join(out) + "\n"

# ---------------------------------------------------------------- keys
def gen_keys(repo):
    t = parse(repo, "mingus/core/keys.py")
    keys = lit(module_assign(t, "keys"))
    base = lit(module_assign(t, "base_scale"))
    if not all(isinstance(c, tuple) and len(c) == 2 for c in keys):
        raise Shape("keys is not a list of couples")
    out = ["namespace Mingus.Gen.Keys"]
    out.append("def keys : List (List Char × List Char) := " + llist("(%s, %s)" % (lstr(a), lstr(b)) for a, b in keys))
    out.append("def baseScale : List Char := " + llist(lchar(c[0]) for c in base))
    out.append("end Mingus.Gen.Keys")
    return "\n".join(out) + "\n"

# ---------------------------------------------------------------- intervals
def is_call(node, fname=None):
    return isinstance(node, ast.Call) and (fname is None or (isinstance(node.func, ast.Name) and node.func.id == fname))

def body_wo_doc(fn):
    b = fn.body
    if b and isinstance(b[0], ast.Expr) and isinstance(getattr(b[0], "value", None), ast.Constant) and isinstance(b[0].value.value, str):
        return b[1:]
    return b

def gen_intervals(repo):
    t = parse(repo, "mingus/core/intervals.py")
    fns = {n.name: n for n in t.body if isinstance(n, ast.FunctionDef)}
    # diatonic functions: def second(note, key): return interval(key, note, 1)
    degree = {}
    for name in ["second", "third", "fourth", "fifth", "sixth", "seventh"]:
        b = body_wo_doc(fns[name])
        if len(b) != 1 or not isinstance(b[0], ast.Return) or not is_call(b[0].value, "interval"):
            raise Shape("%s is not `return interval(key, note, k)`" % name)
        a = b[0].value.args
        if [getattr(x, "id", None) for x in a[:2]] != ["key", "note"]:
            raise Shape("%s: unexpected interval() arguments" % name)
        degree[name] = lit(a[2])
    # constructors
    ctors, aliases = [], []
    LOOP = "augment_or_diminish_until_the_interval_is_right"
    for name, fn in fns.items():
        if not (name.startswith(("minor_", "major_", "perfect_", "augmented_")) and [a.arg for a in fn.args.args] == ["note"]):
            continue
        if name.endswith("_unison"):
            continue
        b = body_wo_doc(fn)
        if len(b) == 1 and isinstance(b[0], ast.Return) and is_call(b[0].value) and isinstance(b[0].value.func, ast.Name) \
           and b[0].value.func.id in fns and len(b[0].value.args) == 1 and getattr(b[0].value.args[0], "id", None) == "note":
            aliases.append((name, b[0].value.func.id))
            continue
        # x = second(note[0], "C"); return LOOP(note, x, N)
        if len(b) == 2 and isinstance(b[0], ast.Assign) and is_call(b[0].value) and isinstance(b[1], ast.Return) and is_call(b[1].value, LOOP):
            var = b[0].targets[0].id
            call = b[0].value
            dfn = call.func.id
            if dfn not in degree:
                raise Shape("%s: first call is not a diatonic function" % name)
            a0, a1 = call.args
            if not (isinstance(a0, ast.Subscript) and getattr(a0.value, "id", None) == "note" and lit(a0.slice) == 0 and lit(a1) == "C"):
                raise Shape("%s: diatonic call is not f(note[0], 'C')" % name)
            r = b[1].value.args
            if not (getattr(r[0], "id", None) == "note" and getattr(r[1], "id", None) == var):
                raise Shape("%s: loop call arguments" % name)
            ctors.append((name, degree[dfn], lit(r[2])))
            continue
        raise Shape("constructor %s has an unrecognised body" % name)
    # unisons
    def ret_expr(name):
        b = body_wo_doc(fns[name])
        if len(b) != 1 or not isinstance(b[0], ast.Return):
            raise Shape("%s body" % name)
        return ast.unparse(b[0].value)
    unis = [(n, ret_expr(n)) for n in ["minor_unison", "major_unison", "augmented_unison"]]
    fs = lit(local_assign(fns["determine"], "fifth_steps"))
    sl_node = local_assign(fns["from_shorthand"], "shorthand_lookup")
    sl = []
    for row in sl_node.elts:
        d, u, dn = row.elts
        sl.append((lit(d), u.id, dn.id))
    out = ["namespace Mingus.Gen.Intervals"]
    out.append("def degreeFns : List (List Char × Nat) := " + llist("(%s, %d)" % (lstr(k), v) for k, v in degree.items()))
    out.append("def ctorTable : List (List Char × Nat × Int) := " + llist("(%s, %d, %s)" % (lstr(n), d, lint(sm)) for n, d, sm in ctors))
    out.append("def aliasTable : List (List Char × List Char) := " + llist("(%s, %s)" % (lstr(a), lstr(b)) for a, b in aliases))
    out.append("def unisonBodies : List (List Char × List Char) := " + llist("(%s, %s)" % (lstr(a), lstr(b)) for a, b in unis))
    out.append("def fifthSteps : List (List Char × List Char × Int) := " + llist("(%s, %s, %s)" % (lstr(a), lstr(b), lint(c)) for a, b, c in fs))
    out.append("def shorthandLookup : List (Char × List Char × List Char) := " + llist("(%s, %s, %s)" % (lchar(d), lstr(u), lstr(dn)) for d, u, dn in sl))
    out.append("end Mingus.Gen.Intervals")
    return "\n".join(out) + "\n"

# ---------------------------------------------------------------- scales
def class_attr(cls, name):
    for n in cls.body:
        if isinstance(n, ast.Assign) and len(n.targets) == 1 and getattr(n.targets[0], "id", None) == name:
            return lit(n.value)
    return None

def method(cls, name):
    for n in cls.body:
        if isinstance(n, ast.FunctionDef) and n.name == name:
            return n
    return None

def gen_scales(repo):
    t = parse(repo, "mingus/core/scales.py")
    classes = [n for n in t.body if isinstance(n, ast.ClassDef) and n.bases and getattr(n.bases[0], "id", None) == "_Scale"]
    order, modes, derived = [], [], []
    for c in classes:
        typ = class_attr(c, "type")
        order.append((c.name, typ))
        asc = method(c, "ascending")
        if asc is None:
            raise Shape("%s has no ascending()" % c.name)
        for mname in ("ascending", "descending"):
            m = method(c, mname)
            if m is None:
                continue
            b = body_wo_doc(m)
            src = [ast.unparse(x) for x in b]
            # mode: notes = Diatonic(self.tonic, (a, b)).ascending()[:-1]
            if len(b) == 2 and src[0].startswith("notes = Diatonic(self.tonic, (") and src[1] == "return notes * self.octaves + [notes[0]]":
                tup = lit(b[0].value.value.func.value.args[1])
                modes.append((c.name, list(tup)))
                continue
            # derived: notes = <base> ; notes[i] = augment|diminish(notes[i]) ... ; return notes * self.octaves + [notes[0]]
            if src and src[-1] == "return notes * self.octaves + [notes[0]]" and src[0].startswith("notes = ") and \
               all(ast.unparse(x).startswith("notes[") for x in b[1:-1]) and not isinstance(b[0].value, ast.List):
                alts = []
                for x in b[1:-1]:
                    i = lit(x.targets[0].slice)
                    call = x.value
                    if not (is_call(call) and call.func.id in ("augment", "diminish") and ast.unparse(call.args[0]) == "notes[%d]" % i):
                        raise Shape("%s.%s: unrecognised alteration %s" % (c.name, mname, ast.unparse(x)))
                    alts.append((i, call.func.id))
                derived.append((c.name, mname, src[0][len("notes = "):], alts))
    out = ["namespace Mingus.Gen.Scales"]
    out.append("def classOrder : List (List Char × List Char) := " + llist("(%s, %s)" % (lstr(a), lstr(b)) for a, b in order))
    out.append("def modeTable : List (List Char × Int × Int) := " + llist("(%s, %s, %s)" % (lstr(n), lint(a[0]), lint(a[1])) for n, a in modes))
    out.append("def derived : List (List Char × List Char × List Char × List (Nat × List Char)) := " +
               llist("(%s, %s, %s, %s)" % (lstr(n), lstr(m), lstr(base), llist("(%d, %s)" % (i, lstr(op)) for i, op in alts)) for n, m, base, alts in derived))
    out.append("end Mingus.Gen.Scales")
    return "\n".join(out) + "\n"

# ---------------------------------------------------------------- chords
class Sym:
    """symbolic note expression relative to the root"""
    def __init__(self, kind, arg=None):
        self.kind, self.arg = kind, arg
    def lean(self):
        if self.kind == "root":
            return "NoteExpr.root"
        if self.kind == "ctor":
            return "(NoteExpr.ctor %s)" % lstr(self.arg)
        return "(NoteExpr.%s %s)" % (self.kind, self.arg.lean())

def chain_rows(node, var):
    """if var == 'a': B1 elif var == 'b': B2 ...  ->  [('a', B1), ('b', B2)]"""
    rows = []
    while True:
        t = node.test
        if not (isinstance(t, ast.Compare) and len(t.ops) == 1 and isinstance(t.ops[0], ast.Eq) and
                getattr(t.left, "id", None) == var and isinstance(t.comparators[0], ast.Constant)):
            raise Shape("chain test is not `%s == <const>`: %s" % (var, ast.unparse(t)))
        rows.append((t.comparators[0].value, node.body))
        if len(node.orelse) == 1 and isinstance(node.orelse[0], ast.If):
            node = node.orelse[0]
        elif not node.orelse:
            return rows
        else:
            raise Shape("chain has an else branch")

def add_result_arg(body):
    if len(body) == 1 and isinstance(body[0], ast.Expr) and is_call(body[0].value, "add_result") and \
       len(body[0].value.args) == 1 and isinstance(body[0].value.args[0], ast.Constant):
        return body[0].value.args[0].value
    raise Shape("branch is not a single add_result('<name>')")

def uniq(rows, what):
    keys = [r[:-1] for r in rows]
    if len(set(keys)) != len(keys):
        raise Shape("duplicate keys in %s" % what)
    return rows

def find_inner(fn, name):
    for n in ast.walk(fn):
        if isinstance(n, ast.FunctionDef) and n.name == name:
            return n
    raise Shape("%s has no %s" % (fn.name, name))

def gen_chords(repo):
    t = parse(repo, "mingus/core/chords.py")
    fns = {n.name: n for n in t.body if isinstance(n, ast.FunctionDef)}

    def ev(node, env, depth=0):
        if depth > 20:
            raise Shape("builder recursion too deep")
        if isinstance(node, ast.Name):
            if node.id in env:
                return env[node.id]
            raise Shape("unbound name %s" % node.id)
        if isinstance(node, ast.List):
            return [ev(e, env, depth) for e in node.elts]
        if isinstance(node, ast.BinOp) and isinstance(node.op, ast.Add):
            a, b = ev(node.left, env, depth), ev(node.right, env, depth)
            if not (isinstance(a, list) and isinstance(b, list)):
                raise Shape("+ on non-lists")
            return a + b
        if isinstance(node, ast.Subscript):
            l = ev(node.value, env, depth)
            return l[lit(node.slice)]
        if isinstance(node, ast.Call):
            f = node.func
            if isinstance(f, ast.Attribute) and getattr(f.value, "id", None) == "intervals":
                a = ev(node.args[0], env, depth)
                if not (isinstance(a, Sym) and a.kind == "root") or len(node.args) != 1:
                    raise Shape("interval constructor applied to something other than the root")
                return Sym("ctor", f.attr)
            if isinstance(f, ast.Attribute) and getattr(f.value, "id", None) == "notes" and f.attr in ("augment", "diminish"):
                a = ev(node.args[0], env, depth)
                if not isinstance(a, Sym):
                    raise Shape("augment/diminish of a non-note")
                return Sym("aug" if f.attr == "augment" else "dim", a)
            if isinstance(f, ast.Name) and f.id in fns and len(node.args) == 1:
                a = ev(node.args[0], env, depth)
                if not (isinstance(a, Sym) and a.kind == "root"):
                    raise Shape("builder called on something other than the root")
                return run(fns[f.id], depth + 1)
        raise Shape("unsupported expression %s" % ast.unparse(node))

    def run(fn, depth=0):
        params = [a.arg for a in fn.args.args]
        if len(params) != 1:
            raise Shape("%s is not a one-argument builder" % fn.name)
        env = {params[0]: Sym("root")}
        for st in body_wo_doc(fn):
            if isinstance(st, ast.Return):
                v = ev(st.value, env, depth)
                if not isinstance(v, list):
                    raise Shape("%s does not return a list" % fn.name)
                return v
            if isinstance(st, ast.Assign) and len(st.targets) == 1:
                tg = st.targets[0]
                if isinstance(tg, ast.Name):
                    v = ev(st.value, env, depth)
                    env[tg.id] = list(v) if isinstance(v, list) else v
                    continue
                if isinstance(tg, ast.Subscript) and isinstance(tg.value, ast.Name):
                    env[tg.value.id][lit(tg.slice)] = ev(st.value, env, depth)
                    continue
            raise Shape("%s: unsupported statement %s" % (fn.name, ast.unparse(st)))
        raise Shape("%s has no return" % fn.name)

    cs = module_assign(t, "chord_shorthand")
    table = []
    builder_names = set()
    for k, v in zip(cs.keys, cs.values):
        key = lit(k)
        if isinstance(v, ast.Name):
            table.append((key, run(fns[v.id])))
            builder_names.add(v.id)
        elif isinstance(v, ast.Lambda):
            env = {v.args.args[0].arg: Sym("root")}
            table.append((key, ev(v.body, env)))
        else:
            raise Shape("chord_shorthand[%r] is neither a function nor a lambda" % key)
    meaning = lit(module_assign(t, "chord_shorthand_meaning"))
    # every one-argument module function whose parameter is `note` and that evaluates to a list is a named builder
    named = []
    for name, fn in fns.items():
        if [a.arg for a in fn.args.args] == ["note"]:
            try:
                named.append((name, run(fn)))
            except Shape:
                if name in builder_names:
                    raise
    # function names and numeral aliases
    ftab = []
    def resolve(name, depth=0):
        fn = fns[name]
        b = body_wo_doc(fn)
        if len(b) != 1 or not isinstance(b[0], ast.Return):
            raise Shape("%s body" % name)
        v = b[0].value
        if isinstance(v, ast.Subscript) and is_call(v.value) and v.value.func.id in ("triads", "sevenths") and \
           getattr(v.value.args[0], "id", None) == "key":
            return (v.value.func.id == "sevenths", lit(v.slice))
        if is_call(v) and isinstance(v.func, ast.Name) and v.func.id in fns and getattr(v.args[0], "id", None) == "key" and depth < 5:
            return resolve(v.func.id, depth + 1)
        raise Shape("%s is not a triads/sevenths row or an alias of one" % name)
    for name, fn in fns.items():
        if [a.arg for a in fn.args.args] == ["key"] and name not in ("triads", "sevenths"):
            ftab.append((name,) + resolve(name))
    # recogniser tables
    tri = uniq([(k, add_result_arg(b)) for k, b in chain_rows(
        [x for x in find_inner(fns["determine_triad"], "inversion_exhauster").body if isinstance(x, ast.If) and "intval" in ast.unparse(x.test)][0], "intval")], "determine_triad")
    def nested(fname, loopvar, inner):
        ie = find_inner(fns[fname], "inversion_exhauster")
        loops = [x for x in ie.body if isinstance(x, ast.For)]
        if len(loops) != 1:
            raise Shape("%s: expected one for loop" % fname)
        chains = [x for x in loops[0].body if isinstance(x, ast.If)]
        if len(chains) != 1:
            raise Shape("%s: expected one if-chain in the loop" % fname)
        rows = []
        for k, body in chain_rows(chains[0], loopvar):
            for st in body:
                if not isinstance(st, ast.If):
                    raise Shape("%s: branch %r is not made of if statements" % (fname, k))
                for k2, b2 in chain_rows(st, inner):
                    rows.append((k, k2, add_result_arg(b2)))
        return uniq(rows, fname)
    sev = nested("determine_seventh", "triad", "intval3")
    e5 = nested("determine_extended_chord5", "seventh", "intval4")
    e6 = nested("determine_extended_chord6", "c", "intval5")
    e7 = nested("determine_extended_chord7", "c", "intval6")
    idesc = []
    for k, body in chain_rows([x for x in fns["int_desc"].body if isinstance(x, ast.If)][0], "tries"):
        if len(body) != 1 or not isinstance(body[0], ast.Return):
            raise Shape("int_desc branch")
        idesc.append((k, lit(body[0].value)))
    out = ["import Mingus.Model.Chords", "namespace Mingus.Gen.Chords", "open Mingus.Chords"]
    def exprs(l):
        return llist(x.lean() for x in l)
    out.append("def chordShorthand : List (List Char × List NoteExpr) := " + llist("(%s, %s)" % (lstr(k), exprs(v)) for k, v in table))
    out.append("def namedBuilders : List (List Char × List NoteExpr) := " + llist("(%s, %s)" % (lstr(k), exprs(v)) for k, v in named))
    out.append("def chordMeaning : List (List Char × List Char) := " + llist("(%s, %s)" % (lstr(k), lstr(v)) for k, v in meaning.items()))
    out.append("def functionTable : List (List Char × Bool × Nat) := " + llist("(%s, %s, %d)" % (lstr(n), "true" if s7 else "false", i) for n, s7, i in ftab))
    out.append("def triadTable : List (List Char × List Char) := " + llist("(%s, %s)" % (lstr(a), lstr(b)) for a, b in tri))
    for nm, rows in (("seventhTable", sev), ("ext5Table", e5), ("ext6Table", e6), ("ext7Table", e7)):
        out.append("def %s : List (List Char × List Char × List Char) := " % nm + llist("(%s, %s, %s)" % (lstr(a), lstr(b), lstr(c)) for a, b, c in rows))
    out.append("def intDesc : List (Nat × List Char) := " + llist("(%d, %s)" % (k, lstr(v)) for k, v in idesc))
    out.append("end Mingus.Gen.Chords")
    return "\n".join(out) + "\n"

# ---------------------------------------------------------------- progressions
def gen_progressions(repo):
    t = parse(repo, "mingus/core/progressions.py")
    fns = {n.name: n for n in t.body if isinstance(n, ast.FunctionDef)}
    numerals = lit(module_assign(t, "numerals"))
    nint = lit(module_assign(t, "numeral_intervals"))
    fd = lit(local_assign(fns["determine"], "func_dict"))
    ec = lit(local_assign(fns["determine"], "expected_chord"))
    ss_h = lit(local_assign(fns["substitute_harmonic"], "simple_substitutions"))
    ss = lit(local_assign(fns["substitute"], "simple_substitutions"))
    # interval name -> function numeral chain in determine
    chain = None
    for n in ast.walk(fns["determine"]):
        if isinstance(n, ast.If) and isinstance(n.test, ast.Compare) and getattr(n.test.left, "id", None) == "interval" \
           and isinstance(n.test.comparators[0], ast.Constant) and n.test.comparators[0].value == "unison":
            chain = n
    if chain is None:
        raise Shape("determine: interval -> func chain not found")
    ifn = []
    for k, body in chain_rows(chain, "interval"):
        if len(body) != 1 or not isinstance(body[0], ast.Assign) or getattr(body[0].targets[0], "id", None) != "func":
            raise Shape("determine: branch is not `func = <const>`")
        ifn.append((k, lit(body[0].value)))
    out = ["namespace Mingus.Gen.Progressions"]
    out.append("def numerals : List (List Char) := " + llist(lstr(x) for x in numerals))
    out.append("def numeralIntervals : List Int := " + llist(lint(x) for x in nint))
    out.append("def funcDict : List (List Char × List Char) := " + llist("(%s, %s)" % (lstr(a), lstr(b)) for a, b in fd.items()))
    out.append("def expectedChord : List (List Char × List Char × List Char) := " + llist("(%s, %s, %s)" % tuple(lstr(x) for x in r) for r in ec))
    out.append("def simpleSubs : List (List Char × List Char) := " + llist("(%s, %s)" % (lstr(a), lstr(b)) for a, b in ss_h))
    out.append("def substTable : List (List Char × List Char) := " + llist("(%s, %s)" % (lstr(a), lstr(b)) for a, b in ss))
    out.append("def intervalFunc : List (List Char × List Char) := " + llist("(%s, %s)" % (lstr(a), lstr(b)) for a, b in ifn))
    out.append("end Mingus.Gen.Progressions")
    return "\n".join(out) + "\n"

# ---------------------------------------------------------------- value
def lrat(x):
    """exact rational of a Python number (every finite double is a dyadic rational)"""
    import fractions
    f = fractions.Fraction(x)
    return "((%d : Rat) / %d)" % (f.numerator, f.denominator) if f.denominator != 1 else "(%d : Rat)" % f.numerator

def const_eval(node, env=None):
    """evaluate an arithmetic expression over numeric constants (and `env` names) with Python's own float semantics"""
    env = env or {}
    if isinstance(node, ast.Constant) and isinstance(node.value, (int, float)):
        return node.value
    if isinstance(node, ast.Name) and node.id in env:
        return env[node.id]
    if isinstance(node, ast.BinOp):
        a, b = const_eval(node.left, env), const_eval(node.right, env)
        if isinstance(node.op, ast.Add): return a + b
        if isinstance(node.op, ast.Sub): return a - b
        if isinstance(node.op, ast.Mult): return a * b
        if isinstance(node.op, ast.Div): return a / b
        if isinstance(node.op, ast.Pow): return a ** b
    if isinstance(node, ast.Call) and getattr(node.func, "id", None) == "float" and len(node.args) == 1:
        return float(const_eval(node.args[0], env))
    raise Shape("not a constant arithmetic expression: %s" % ast.unparse(node))

def gen_value(repo):
    t = parse(repo, "mingus/core/value.py")
    fns = {n.name: n for n in t.body if isinstance(n, ast.FunctionDef)}
    base = lit(module_assign(t, "base_values"))
    det = fns["determine"]
    chain = [n for n in det.body if isinstance(n, ast.If) and "scaled" in ast.unparse(n.test)]
    if len(chain) != 1:
        raise Shape("determine: threshold chain not found")
    rows = []
    node = chain[0]
    while True:
        tst = node.test
        if not (isinstance(tst, ast.Compare) and getattr(tst.left, "id", None) == "scaled" and isinstance(tst.ops[0], ast.GtE)):
            raise Shape("determine: test is not `scaled >= c`")
        thr = const_eval(tst.comparators[0])
        if len(node.body) != 1 or not isinstance(node.body[0], ast.Return) or not isinstance(node.body[0].value, ast.Tuple):
            raise Shape("determine: branch is not a tuple return")
        e = node.body[0].value.elts
        rows.append((thr, ast.unparse(e[0]), lit(e[1]), lit(e[2]), lit(e[3])))
        if len(node.orelse) == 1 and isinstance(node.orelse[0], ast.If):
            node = node.orelse[0]
        elif not node.orelse:
            break
        else:
            raise Shape("determine: chain has an else")
    tail = [ast.unparse(x) for x in det.body[det.body.index(chain[0]) + 1:]]
    want_tail = ["d = 3", "for x in range(2, 5):\n    d += 2 ** x\n    if scaled == 2.0 ** x / d:\n        return (v, x, 1, 1)",
                 "return (base_values[i + 1], 0, 1, 1)"]
    if tail != want_tail:
        raise Shape("determine: the multi-dot loop / final return changed shape")
    fps, d = [], 3
    for x in range(2, 5):
        d += 2 ** x
        fps.append((x, 2.0 ** x / d))
    head = [ast.unparse(x) for x in body_wo_doc(det)[:3]]
    want_head = ["i = -2", "for v in base_values:\n    if value == v:\n        return (value, 0, 1, 1)\n    if value < v:\n        break\n    i += 1",
                 "scaled = float(value) / 2 ** i"]
    if head != want_head:
        raise Shape("determine: the base-value scan changed shape")
    dots = body_wo_doc(fns["dots"])
    if len(dots) != 1 or not isinstance(dots[0], ast.Return):
        raise Shape("dots body")
    dot_consts = [const_eval(dots[0].value, {"value": 1.0, "nr": n}) for n in range(5)]
    tup = body_wo_doc(fns["tuplet"])
    if [ast.unparse(x) for x in tup] != ["return rat1 * value / float(rat2)"]:
        raise Shape("tuplet body")
    helpers = []
    for name in ("triplet", "quintuplet"):
        b = body_wo_doc(fns[name])
        c = b[0].value
        helpers.append((name, lit(c.args[1]), lit(c.args[2])))
    out = ["namespace Mingus.Gen.Value"]
    out.append("def baseValues : List Rat := " + llist(lrat(x) for x in base))
    out.append("def chain : List (Rat × List Char × Nat × Nat × Nat) := " + llist("(%s, %s, %d, %d, %d)" % (lrat(a), lstr(b), c, d_, e) for a, b, c, d_, e in rows))
    out.append("def fingerprints : List (Nat × Rat) := " + llist("(%d, %s)" % (x, lrat(v)) for x, v in fps))
    out.append("def dotConst : List Rat := " + llist(lrat(x) for x in dot_consts))
    out.append("def tupletHelpers : List (List Char × Nat × Nat) := " + llist("(%s, %d, %d)" % (lstr(a), b, c) for a, b, c in helpers))
    out.append("end Mingus.Gen.Value")
    return "\n".join(out) + "\n"

# ---------------------------------------------------------------- containers.note
def cls(tree, name):
    for n in tree.body:
        if isinstance(n, ast.ClassDef) and n.name == name:
            return n
    raise Shape("class %s not found" % name)

def gen_note(repo):
    t = parse(repo, "mingus/containers/note.py")
    defaults = [(k, lit(module_assign(t, k))) for k in ("_DEFAULT_NAME", "_DEFAULT_OCTAVE", "_DEFAULT_CHANNEL", "_DEFAULT_VELOCITY")]
    c = cls(t, "Note")
    def bound(mname):
        m = method(c, mname)
        for n in ast.walk(m):
            if isinstance(n, ast.Compare) and len(n.ops) == 2:
                return (lit(n.left), type(n.ops[0]).__name__, type(n.ops[1]).__name__, lit(n.comparators[1]))
        raise Shape("%s: no range test" % mname)
    def stmts(mname):
        return [ast.unparse(x) for x in body_wo_doc(method(c, mname))]
    hz = stmts("to_hertz") + stmts("from_hertz")
    out = ["namespace Mingus.Gen.Note"]
    out.append("def defaultName : List Char := " + lstr(defaults[0][1]))
    out.append("def defaults : List Int := " + llist(lint(v) for _, v in defaults[1:]))
    out.append("def channelBound : Int × List Char × List Char × Int := (%s, %s, %s, %s)" % ((lint(bound("set_channel")[0]),) + tuple(lstr(x) for x in bound("set_channel")[1:3]) + (lint(bound("set_channel")[3]),)))
    out.append("def velocityBound : Int × List Char × List Char × Int := (%s, %s, %s, %s)" % ((lint(bound("set_velocity")[0]),) + tuple(lstr(x) for x in bound("set_velocity")[1:3]) + (lint(bound("set_velocity")[3]),)))
    out.append("def hzSource : List (List Char) := " + llist(lstr(x) for x in hz))
    out.append("def transposeSource : List (List Char) := " + llist(lstr(x) for x in stmts("transpose")))
    out.append("def changeOctaveSource : List (List Char) := " + llist(lstr(x) for x in stmts("change_octave")))
    out.append("end Mingus.Gen.Note")
    return "\n".join(out) + "\n"

# ---------------------------------------------------------------- containers.note_container
def gen_notecontainer(repo):
    t = parse(repo, "mingus/containers/note_container.py")
    c = cls(t, "NoteContainer")
    add = method(c, "add_note")
    consts = []
    for n in ast.walk(add):
        if is_call(n, "Note") and len(n.args) >= 2:
            consts.append(ast.unparse(n.args[1]))
    rem = method(c, "remove_note")
    rem_default = lit(rem.args.defaults[0])
    dup = [ast.unparse(n.test) for n in ast.walk(add) if isinstance(n, ast.If) and "not in self.notes" in ast.unparse(n.test)]
    out = ["namespace Mingus.Gen.NoteContainer"]
    out.append("def addNoteOctaves : List (List Char) := " + llist(lstr(x) for x in consts))
    out.append("def removeDefaultOctave : Int := " + lint(rem_default))
    out.append("def duplicateTest : List (List Char) := " + llist(lstr(x) for x in dup))
    out.append("end Mingus.Gen.NoteContainer")
    return "\n".join(out) + "\n"

# ---------------------------------------------------------------- containers.bar / track
def gen_bar(repo):
    t = parse(repo, "mingus/containers/bar.py")
    c = cls(t, "Bar")
    def stmts(mname):
        return [ast.unparse(x) for x in body_wo_doc(method(c, mname))]
    place = method(c, "place_notes")
    conds = [ast.unparse(n.test) for n in ast.walk(place) if isinstance(n, ast.If) and "current_beat" in ast.unparse(n.test)]
    accept_body = [ast.unparse(x) for n in ast.walk(place) if isinstance(n, ast.If) and "current_beat" in ast.unparse(n.test) for x in n.body]
    milli = None
    for n in ast.walk(method(c, "is_full")):
        if isinstance(n, ast.Constant) and isinstance(n.value, float) and n.value != 0.0:
            milli = n.value
    if milli is None:
        raise Shape("is_full: tolerance constant not found")
    out = ["namespace Mingus.Gen.Bar"]
    out.append("def acceptCondition : List (List Char) := " + llist(lstr(x) for x in conds))
    out.append("def acceptBody : List (List Char) := " + llist(lstr(x) for x in accept_body))
    out.append("def isFullTolerance : Rat := " + lrat(milli))
    out.append("def isFullSource : List (List Char) := " + llist(lstr(x) for x in stmts("is_full")))
    out.append("def setMeterSource : List (List Char) := " + llist(lstr(x) for x in stmts("set_meter")[:1]))
    out.append("def removeLastSource : List (List Char) := " + llist(lstr(x) for x in stmts("remove_last_entry")))
    out.append("def spaceLeftSource : List (List Char) := " + llist(lstr(x) for x in stmts("space_left")))
    out.append("def liftSource : List (List Char) := " + llist(lstr(x) for m in ("augment", "diminish", "transpose") for x in stmts(m)))
    tt = parse(repo, "mingus/containers/track.py")
    tc = cls(tt, "Track")
    out.append("def trackLiftSource : List (List Char) := " + llist(lstr(ast.unparse(x)) for m in ("transpose", "augment", "diminish") for x in body_wo_doc(method(tc, m))))
    nt = parse(repo, "mingus/containers/note_container.py")
    ncc = cls(nt, "NoteContainer")
    out.append("def ncLiftSource : List (List Char) := " + llist(lstr(ast.unparse(x)) for m in ("augment", "diminish", "transpose") for x in body_wo_doc(method(ncc, m))))
    out.append("end Mingus.Gen.Bar")
    return "\n".join(out) + "\n"

# ---------------------------------------------------------------- containers.track / instrument
def gen_track(repo):
    t = parse(repo, "mingus/containers/track.py")
    c = cls(t, "Track")
    add = [ast.unparse(x) for x in body_wo_doc(method(c, "add_notes"))]
    it = parse(repo, "mingus/containers/instrument.py")
    ranges = []
    for name in ("Instrument", "Piano", "Guitar", "MidiInstrument"):
        k = cls(it, name)
        for n in k.body:
            if isinstance(n, ast.Assign) and getattr(n.targets[0], "id", None) == "range":
                lo, hi = n.value.elts
                ranges.append((name, lit(lo.args[0]), lit(lo.args[1]), lit(hi.args[0]), lit(hi.args[1])))
    g = cls(it, "Guitar")
    gmax = [ast.unparse(n.test) for n in ast.walk(method(g, "can_play_notes")) if isinstance(n, ast.If)]
    comp = parse(repo, "mingus/containers/composition.py")
    cc = cls(comp, "Composition")
    comp_src = [ast.unparse(x) for m in ("add_track", "add_note") for x in body_wo_doc(method(cc, m))]
    out = ["namespace Mingus.Gen.Track"]
    out.append("def addNotesSource : List (List Char) := " + llist(lstr(x) for x in add))
    out.append("def ranges : List (List Char × List Char × Int × List Char × Int) := " +
               llist("(%s, %s, %s, %s, %s)" % (lstr(a), lstr(b), lint(c_), lstr(d), lint(e)) for a, b, c_, d, e in ranges))
    out.append("def guitarLimit : List (List Char) := " + llist(lstr(x) for x in gmax))
    out.append("def compositionSource : List (List Char) := " + llist(lstr(x) for x in comp_src))
    out.append("end Mingus.Gen.Track")
    return "\n".join(out) + "\n"

# ---------------------------------------------------------------- class attributes (C15)
MUTATING = {"append", "extend", "insert", "pop", "remove", "sort", "reverse", "clear", "update", "setdefault", "add"}

def class_infos(repo):
    files = ["mingus/containers/note.py", "mingus/containers/note_container.py", "mingus/containers/bar.py",
             "mingus/containers/track.py", "mingus/containers/composition.py", "mingus/containers/suite.py",
             "mingus/containers/instrument.py", "mingus/midi/midi_file_out.py", "mingus/midi/midi_track.py",
             "mingus/midi/sequencer.py"]
    out = []
    for rel in files:
        t = parse(repo, rel)
        for c in t.body:
            if not isinstance(c, ast.ClassDef):
                continue
            fields = {}
            for n in c.body:
                if isinstance(n, ast.Assign) and len(n.targets) == 1 and isinstance(n.targets[0], ast.Name):
                    v = n.value
                    mutable = isinstance(v, (ast.List, ast.Dict, ast.Set)) or (is_call(v) and getattr(v.func, "id", None) in ("list", "dict", "set"))
                    fields[n.targets[0].id] = {"mutable": mutable, "rebound": False, "inplace": False}
            methods = {m.name: m for m in c.body if isinstance(m, ast.FunctionDef)}
            def assigned_in(m, depth=0):
                names = set()
                for n in ast.walk(m):
                    if isinstance(n, (ast.Assign, ast.AugAssign)):
                        tgts = n.targets if isinstance(n, ast.Assign) else [n.target]
                        for tg in tgts:
                            if isinstance(tg, ast.Attribute) and getattr(tg.value, "id", None) == "self" and isinstance(n, ast.Assign):
                                names.add(tg.attr)
                    if depth < 2 and is_call(n) and isinstance(n.func, ast.Attribute) and getattr(n.func.value, "id", None) == "self" \
                       and n.func.attr in methods and n.func.attr != m.name:
                        names |= assigned_in(methods[n.func.attr], depth + 1)
                return names
            if "__init__" in methods:
                for nm in assigned_in(methods["__init__"]):
                    if nm in fields:
                        fields[nm]["rebound"] = True
            for m in methods.values():
                for n in ast.walk(m):
                    if is_call(n) and isinstance(n.func, ast.Attribute) and n.func.attr in MUTATING:
                        tgt = n.func.value
                        if isinstance(tgt, ast.Attribute) and getattr(tgt.value, "id", None) == "self" and tgt.attr in fields:
                            fields[tgt.attr]["inplace"] = True
                    if isinstance(n, (ast.Assign, ast.AugAssign)):
                        tgts = n.targets if isinstance(n, ast.Assign) else [n.target]
                        for tg in tgts:
                            if isinstance(tg, ast.Subscript) and isinstance(tg.value, ast.Attribute) and \
                               getattr(tg.value.value, "id", None) == "self" and tg.value.attr in fields:
                                fields[tg.value.attr]["inplace"] = True
                            if isinstance(n, ast.AugAssign) and isinstance(tg, ast.Attribute) and getattr(tg.value, "id", None) == "self" \
                               and tg.attr in fields and fields[tg.attr]["mutable"]:
                                fields[tg.attr]["inplace"] = True
            out.append((c.name, [(k, v["mutable"], v["rebound"], v["inplace"]) for k, v in fields.items() if v["mutable"]]))
    return out

def gen_classes(repo):
    infos = class_infos(repo)
    b = lambda x: "true" if x else "false"
    out = ["import Mingus.Model.Alias", "namespace Mingus.Gen.Classes", "open Mingus.Alias"]
    out.append("def classes : List ClassInfo := " + llist(
        "⟨%s, %s⟩" % (lstr(n), llist("⟨%s, %s, %s, %s⟩" % (lstr(f), b(m), b(r), b(i)) for f, m, r, i in fs)) for n, fs in infos))
    # module-level memo tables and how their functions return (for the memo machine's `fresh` flag)
    def returns(rel, fname):
        t = parse(repo, rel)
        return [ast.unparse(n.value) for n in ast.walk(func(t, fname)) if isinstance(n, ast.Return) and n.value is not None]
    out.append("def memoReturns : List (List Char × List (List Char)) := " + llist(
        "(%s, %s)" % (lstr(nm), llist(lstr(x) for x in returns(rel, nm)))
        for rel, nm in (("mingus/core/keys.py", "get_notes"), ("mingus/core/chords.py", "triads"), ("mingus/core/chords.py", "sevenths"))))
    t = parse(repo, "mingus/extra/fft.py")
    f = func(t, "_find_log_index")
    shortcut = [ast.unparse(n.test) for n in ast.walk(f) if isinstance(n, ast.If) and "lastn" in ast.unparse(n.test)]
    out.append("def fftShortcutTests : List (List Char) := " + llist(lstr(x) for x in shortcut))
    # mutable default arguments anywhere in the library (a shared object across calls)
    md = []
    import glob
    for path in sorted(glob.glob(os.path.join(repo, "mingus", "*", "*.py"))):
        rel = os.path.relpath(path, repo)
        try:
            tr = parse(repo, rel)
        except SyntaxError:
            continue
        for n in ast.walk(tr):
            if isinstance(n, (ast.FunctionDef, ast.Lambda)):
                for d in list(n.args.defaults) + [x for x in n.args.kw_defaults if x is not None]:
                    if isinstance(d, (ast.List, ast.Dict, ast.Set)) or (is_call(d) and getattr(d.func, "id", None) in ("list", "dict", "set")):
                        md.append("%s:%s" % (rel, getattr(n, "name", "<lambda>")))
    out.append("def mutableDefaults : List (List Char) := " + llist(lstr(x) for x in md))
    out.append("end Mingus.Gen.Classes")
    return "\n".join(out) + "\n"

# ---------------------------------------------------------------- midi (C16, C17)
def lstrlit(s):
    """readable Lean literal for the Tie files: lit "…" (falls back to a char list)"""
    if all(32 <= ord(c) < 127 or c == "\n" for c in s):
        return 'lit "' + s.replace("\\", "\\\\").replace('"', '\\"').replace("\n", "\\n") + '"'
    return lstr(s)

def src_table(c, names, f=lstr):
    rows = []
    for m in names:
        rows.append("(%s, %s)" % (f(m), llist(f(ast.unparse(x)) for x in body_wo_doc(method(c, m)))))
    return llist(rows)

MIDI_TRACK_METHODS = ["__init__", "end_of_track", "play_Note", "play_NoteContainer", "play_Bar", "play_Track", "stop_Note",
                      "stop_NoteContainer", "set_instrument", "header", "get_midi_data", "midi_event", "note_off", "note_on",
                      "controller_event", "set_deltatime", "select_bank", "program_change_event", "set_tempo",
                      "set_tempo_event", "set_meter", "time_signature_event", "set_key", "key_signature_event",
                      "set_track_name", "track_name_event", "int_to_varbyte"]
MIDI_FILE_METHODS = ["__init__", "get_midi_data", "header", "reset"]
MIDI_READER_METHODS = ["MIDI_to_Composition", "parse_midi_file_header", "bytes_to_int", "parse_time_division", "parse_track",
                       "parse_midi_event", "parse_track_header", "parse_midi_file", "parse_varbyte_as_int"]
MIDI_WRITERS = ["write_Note", "write_NoteContainer", "write_Bar", "write_Track", "write_Composition"]

def class_defaults(c, f=lstr):
    rows = []
    for n in c.body:
        if isinstance(n, ast.Assign) and len(n.targets) == 1 and isinstance(n.targets[0], ast.Name):
            rows.append("(%s, %s)" % (f(n.targets[0].id), f(ast.unparse(n.value))))
    return llist(rows)

def gen_midi(repo, f=lstrlit):
    ev = parse(repo, "mingus/midi/midi_events.py")
    ints, byts = [], []
    for n in ev.body:
        if isinstance(n, ast.Assign) and len(n.targets) == 1 and isinstance(n.targets[0], ast.Name):
            v = lit(n.value)
            if isinstance(v, bool):
                continue
            if isinstance(v, int):
                ints.append((n.targets[0].id, v))
            elif isinstance(v, bytes):
                byts.append((n.targets[0].id, list(v)))
    tt = parse(repo, "mingus/midi/midi_track.py")
    tc = cls(tt, "MidiTrack")
    ft = parse(repo, "mingus/midi/midi_file_out.py")
    fc = cls(ft, "MidiFile")
    out = ["import Mingus.Model.Basic", "namespace Mingus.Gen.Midi", "open Mingus"]
    out.append("def intConsts : List (List Char × Nat) := " + llist("(%s, %d)" % (f(k), v) for k, v in ints))
    out.append("def byteConsts : List (List Char × List Nat) := " + llist("(%s, %s)" % (f(k), llist(str(b) for b in v)) for k, v in byts))
    out.append("def trackDefaults : List (List Char × List Char) := " + class_defaults(tc, f))
    out.append("def trackSources : List (List Char × List (List Char)) := " + src_table(tc, MIDI_TRACK_METHODS, f))
    out.append("def fileDefaults : List (List Char × List Char) := " + class_defaults(fc, f))
    out.append("def fileSources : List (List Char × List (List Char)) := " + src_table(fc, MIDI_FILE_METHODS, f))
    rows = []
    for w in MIDI_WRITERS:
        fn = func(ft, w)
        rows.append("(%s, %s)" % (f(w + "(" + ast.unparse(fn.args) + ")"), llist(f(ast.unparse(x)) for x in body_wo_doc(fn))))
    out.append("def writerSources : List (List Char × List (List Char)) := " + llist(rows))
    rt = parse(repo, "mingus/midi/midi_file_in.py")
    rc = cls(rt, "MidiFile")
    out.append("def readerDefaults : List (List Char × List Char) := " + class_defaults(rc, f))
    out.append("def readerSources : List (List Char × List (List Char)) := " + src_table(rc, MIDI_READER_METHODS, f))
    out.append("end Mingus.Gen.Midi")
    return "\n".join(out) + "\n"

# ---------------------------------------------------------------- sequencer (C18)
SEQ_METHODS = ["__init__", "attach", "detach", "notify_listeners", "set_instrument", "control_change", "play_Note", "stop_Note",
               "play_NoteContainer", "stop_NoteContainer", "play_Bar", "play_Bars", "play_Track", "play_Tracks",
               "play_Composition", "modulation", "main_volume"]

def gen_sequencer(repo, f=lstrlit):
    t = parse(repo, "mingus/midi/sequencer.py")
    c = cls(t, "Sequencer")
    ot = parse(repo, "mingus/midi/sequencer_observer.py")
    oc = cls(ot, "SequencerObserver")
    it = parse(repo, "mingus/containers/instrument.py")
    mi = cls(it, "MidiInstrument")
    names = None
    for n in mi.body:
        if isinstance(n, ast.Assign) and getattr(n.targets[0], "id", None) == "names":
            names = lit(n.value)
    if names is None:
        raise Shape("MidiInstrument.names not found")
    out = ["import Mingus.Model.Basic", "namespace Mingus.Gen.Sequencer", "open Mingus"]
    out.append("def msgConsts : List (List Char × List Char) := " + class_defaults(c, f))
    out.append("def sources : List (List Char × List (List Char)) := " + src_table(c, SEQ_METHODS, f))
    out.append("def observerNotify : List (List Char) := " + llist(f(ast.unparse(x)) for x in body_wo_doc(method(oc, "notify"))))
    out.append("def gmNames : List (List Char) := " + llist(f(x) for x in names))
    out.append("def midiInstrumentDefaults : List (List Char × List Char) := " + llist("(%s, %s)" % (f(n.targets[0].id), f(ast.unparse(n.value))) for n in mi.body if isinstance(n, ast.Assign) and getattr(n.targets[0], "id", None) in ("instrument_nr", "name")))
    out.append("end Mingus.Gen.Sequencer")
    return "\n".join(out) + "\n"

# ---------------------------------------------------------------- exporters (C19)
LY_FUNCS = ["from_Note", "from_NoteContainer", "from_Bar", "from_Track", "from_Composition"]
XML_FUNCS = ["_gcd", "_lcm", "_quarter_length", "_note2musicxml", "_bar2musicxml", "_track2musicxml", "_composition2musicxml",
             "from_Bar", "from_Track", "from_Composition"]

def func_table(tree, names, f):
    rows = []
    for w in names:
        fn = func(tree, w)
        rows.append("(%s, %s)" % (f(w + "(" + ast.unparse(fn.args) + ")"), llist(f(ast.unparse(x)) for x in body_wo_doc(fn))))
    return llist(rows)

def gen_export(repo, f=lstrlit):
    ly = parse(repo, "mingus/extra/lilypond.py")
    mx = parse(repo, "mingus/extra/musicxml.py")
    vt = parse(repo, "mingus/core/value.py")
    names = lit(module_assign(vt, "musicxml"))
    it = parse(repo, "mingus/containers/instrument.py")
    ic = cls(it, "Instrument")
    clef = None
    for n in ic.body:
        if isinstance(n, ast.Assign) and getattr(n.targets[0], "id", None) == "clef":
            clef = lit(n.value)
    if clef is None:
        raise Shape("Instrument.clef not found")
    out = ["import Mingus.Model.Basic", "namespace Mingus.Gen.Export", "open Mingus"]
    out.append("def lilypondSources : List (List Char × List (List Char)) := " + func_table(ly, LY_FUNCS, f))
    out.append("def musicxmlSources : List (List Char × List (List Char)) := " + func_table(mx, XML_FUNCS, f))
    out.append("def typeNames : List (Nat × List Char) := " + llist("(%d, %s)" % (k, f(v)) for k, v in sorted(names.items())))
    out.append("def longaBreve : List Rat := " + llist(lrat(lit(module_assign(vt, k))) for k in ("longa", "breve")))
    out.append("def instrumentClef : List Char := " + f(clef))
    out.append("end Mingus.Gen.Export")
    return "\n".join(out) + "\n"

# ---------------------------------------------------------------- tunings and tablature (C20)
TUN_METHODS = ["__init__", "count_strings", "count_courses", "find_frets", "find_fingering", "find_chord_fingering",
               "frets_to_NoteContainer", "find_note_names", "get_Note"]
TUN_FUNCS = ["fingers_needed", "add_tuning", "get_tuning", "get_tunings"]
TAB_FUNCS = ["begin_track", "add_headers", "from_Note", "from_NoteContainer", "from_Bar", "from_Track", "from_Composition",
             "_get_qsize", "_get_width"]

def lnote(x):
    nm, o = x.split("-")
    return "⟨%s, %s, 1, 64⟩" % (lstrlit(nm), o)

def gen_tunings(repo, f=lstrlit):
    t = parse(repo, "mingus/extra/tunings.py")
    c = cls(t, "StringTuning")
    tb = parse(repo, "mingus/extra/tablature.py")
    rows = []
    for n in t.body:
        if isinstance(n, ast.Expr) and isinstance(n.value, ast.Call) and getattr(n.value.func, "id", None) == "add_tuning":
            a = [lit(x) for x in n.value.args]
            if len(a) != 3:
                raise Shape("add_tuning call with %d arguments" % len(a))
            rows.append(a)
    def ts(x):
        if isinstance(x, list):
            return ".course [%s]" % ", ".join(lnote(y) for y in x)
        return ".one %s" % lnote(x)
    out = ["import Mingus.Model.Tunings", "namespace Mingus.Gen.Tunings", "open Mingus Mingus.Tun Mingus.Containers"]
    out.append("def registered : List Tun.Entry := " + llist("⟨%s, %s, [%s]⟩" % (f(r[0]), f(r[1]), ", ".join(ts(x) for x in r[2])) for r in rows))
    out.append("def classSources : List (List Char × List (List Char)) := " + src_table(c, TUN_METHODS, f))
    out.append("def funcSources : List (List Char × List (List Char)) := " + func_table(t, TUN_FUNCS, f))
    out.append("def tablatureSources : List (List Char × List (List Char)) := " + func_table(tb, TAB_FUNCS, f))
    out.append("def defaultTuningCall : List Char := " + f(ast.unparse(module_assign(tb, "default_tuning"))))
    out.append("end Mingus.Gen.Tunings")
    return "\n".join(out) + "\n"

GENERATORS = {
    "Notes": gen_notes,
    "Keys": gen_keys,
    "Intervals": gen_intervals,
    "Scales": gen_scales,
    "Chords": gen_chords,
    "Progressions": gen_progressions,
    "Value": gen_value,
    "Note": gen_note,
    "NoteContainer": gen_notecontainer,
    "Bar": gen_bar,
    "Track": gen_track,
    "Classes": gen_classes,
    "Midi": gen_midi,
    "Sequencer": gen_sequencer,
    "Export": gen_export,
    "Tunings": gen_tunings,
}

def main():
    repo, lean = sys.argv[1], sys.argv[2]
    gen_dir = os.path.join(lean, "Mingus", "Gen")
    os.makedirs(gen_dir, exist_ok=True)
    failed = []
    for name, g in GENERATORS.items():
        try:
            text = "-- GENERATED by tools/extract.py from the working tree; do not edit.\n" + g(repo)
        except (Shape, SyntaxError, OSError, KeyError, IndexError, AttributeError, TypeError, ValueError) as e:
            failed.append((name, "%s: %s" % (type(e).__name__, e)))
            text = "-- GENERATED stub: extraction failed (%s)\nnamespace Mingus.Gen.%s\nend Mingus.Gen.%s\n" % (str(e).replace("\n", " ")[:200], name, name)
        path = os.path.join(gen_dir, name + ".lean")
        old = open(path).read() if os.path.exists(path) else None
        if old != text:
            with open(path, "w") as f:
                f.write(text)
    for name, why in failed:
        print("EXTRACT-FAIL %s: %s" % (name, why))
    sys.exit(3 if failed else 0)

if __name__ == "__main__":
    main()
