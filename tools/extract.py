#!/usr/bin/env python3
"""Tie A: translate tables and straight-line definitions of /repo/mingus into Lean
(`lean/Mingus/Gen/*.lean`).  Pure `ast` work: the translated code is never imported.

Usage: extract.py <repo_root> <lean_project_dir>
Exit 0 on success; exit 3 with `EXTRACT-FAIL <module>: <reason>` lines when a shape that
the translator relies on is no longer found (the failing module gets a stub that makes
the dependent Tie theorems fail to build, which the check then triages).
"""
import ast, os, sys

class Shape(Exception):
    pass

def lchar(c):
    if c in ("'", "\\"):
        return "'\\%s'" % c
    if 32 <= ord(c) < 127:
        return "'%s'" % c
    return "(Char.ofNat %d)" % ord(c)

def lstr(s):
    return "[" + ", ".join(lchar(c) for c in s) + "]"

def lint(i):
    return "(%d)" % i if i < 0 else "%d" % i

def llist(xs):
    return "[" + ", ".join(xs) + "]"

def parse(repo, rel):
    with open(os.path.join(repo, rel)) as f:
        return ast.parse(f.read(), rel)

def module_assign(tree, name):
    for node in tree.body:
        if isinstance(node, ast.Assign) and len(node.targets) == 1 and \
           isinstance(node.targets[0], ast.Name) and node.targets[0].id == name:
            return node.value
    raise Shape("module-level assignment to %s not found" % name)

def func(tree, name):
    for node in tree.body:
        if isinstance(node, ast.FunctionDef) and node.name == name:
            return node
    raise Shape("function %s not found" % name)

def local_assign(fn, name):
    for node in ast.walk(fn):
        if isinstance(node, ast.Assign) and len(node.targets) == 1 and \
           isinstance(node.targets[0], ast.Name) and node.targets[0].id == name:
            return node.value
    raise Shape("assignment to %s in %s not found" % (name, fn.name))

def lit(node):
    try:
        return ast.literal_eval(node)
    except Exception as e:
        raise Shape("not a literal: %s" % ast.dump(node)[:80])

# ---------------------------------------------------------------- notes
def gen_notes(repo):
    t = parse(repo, "mingus/core/notes.py")
    nd = lit(module_assign(t, "_note_dict"))
    fifths = lit(module_assign(t, "fifths"))
    f = func(t, "int_to_note")
    ns = lit(local_assign(f, "ns"))
    nf = lit(local_assign(f, "nf"))
    if not (isinstance(nd, dict) and all(isinstance(k, str) and len(k) == 1 and isinstance(v, int) for k, v in nd.items())):
        raise Shape("_note_dict is not a {char: int} literal")
    out = ["namespace Mingus.Gen.Notes"]
    out.append("def noteDict : List (Char × Int) := " + llist("(%s, %s)" % (lchar(k), lint(v)) for k, v in nd.items()))
    out.append("def fifths : List Char := " + llist(lchar(c) for c in fifths))
    out.append("def ns : List (List Char) := " + llist(lstr(s) for s in ns))
    out.append("def nf : List (List Char) := " + llist(lstr(s) for s in nf))
    out.append("end Mingus.Gen.Notes")
    return "\n".join(out) + "\n"

# ---------------------------------------------------------------- keys
def gen_keys(repo):
    t = parse(repo, "mingus/core/keys.py")
    keys = lit(module_assign(t, "keys"))
    base = lit(module_assign(t, "base_scale"))
    if not all(isinstance(c, tuple) and len(c) == 2 for c in keys):
        raise Shape("keys is not a list of couples")
    out = ["namespace Mingus.Gen.Keys"]
    out.append("def keys : List (List Char × List Char) := " + llist("(%s, %s)" % (lstr(a), lstr(b)) for a, b in keys))
    out.append("def baseScale : List Char := " + llist(lchar(c[0]) for c in base))
    out.append("end Mingus.Gen.Keys")
    return "\n".join(out) + "\n"

# ---------------------------------------------------------------- intervals
def is_call(node, fname=None):
    return isinstance(node, ast.Call) and (fname is None or (isinstance(node.func, ast.Name) and node.func.id == fname))

def body_wo_doc(fn):
    b = fn.body
    if b and isinstance(b[0], ast.Expr) and isinstance(getattr(b[0], "value", None), ast.Constant) and isinstance(b[0].value.value, str):
        return b[1:]
    return b

def gen_intervals(repo):
    t = parse(repo, "mingus/core/intervals.py")
    fns = {n.name: n for n in t.body if isinstance(n, ast.FunctionDef)}
    # diatonic functions: def second(note, key): return interval(key, note, 1)
    degree = {}
    for name in ["second", "third", "fourth", "fifth", "sixth", "seventh"]:
        b = body_wo_doc(fns[name])
        if len(b) != 1 or not isinstance(b[0], ast.Return) or not is_call(b[0].value, "interval"):
            raise Shape("%s is not `return interval(key, note, k)`" % name)
        a = b[0].value.args
        if [getattr(x, "id", None) for x in a[:2]] != ["key", "note"]:
            raise Shape("%s: unexpected interval() arguments" % name)
        degree[name] = lit(a[2])
    # constructors
    ctors, aliases = [], []
    LOOP = "augment_or_diminish_until_the_interval_is_right"
    for name, fn in fns.items():
        if not (name.startswith(("minor_", "major_", "perfect_", "augmented_")) and [a.arg for a in fn.args.args] == ["note"]):
            continue
        if name.endswith("_unison"):
            continue
        b = body_wo_doc(fn)
        if len(b) == 1 and isinstance(b[0], ast.Return) and is_call(b[0].value) and isinstance(b[0].value.func, ast.Name) \
           and b[0].value.func.id in fns and len(b[0].value.args) == 1 and getattr(b[0].value.args[0], "id", None) == "note":
            aliases.append((name, b[0].value.func.id))
            continue
        # x = second(note[0], "C"); return LOOP(note, x, N)
        if len(b) == 2 and isinstance(b[0], ast.Assign) and is_call(b[0].value) and isinstance(b[1], ast.Return) and is_call(b[1].value, LOOP):
            var = b[0].targets[0].id
            call = b[0].value
            dfn = call.func.id
            if dfn not in degree:
                raise Shape("%s: first call is not a diatonic function" % name)
            a0, a1 = call.args
            if not (isinstance(a0, ast.Subscript) and getattr(a0.value, "id", None) == "note" and lit(a0.slice) == 0 and lit(a1) == "C"):
                raise Shape("%s: diatonic call is not f(note[0], 'C')" % name)
            r = b[1].value.args
            if not (getattr(r[0], "id", None) == "note" and getattr(r[1], "id", None) == var):
                raise Shape("%s: loop call arguments" % name)
            ctors.append((name, degree[dfn], lit(r[2])))
            continue
        raise Shape("constructor %s has an unrecognised body" % name)
    # unisons
    def ret_expr(name):
        b = body_wo_doc(fns[name])
        if len(b) != 1 or not isinstance(b[0], ast.Return):
            raise Shape("%s body" % name)
        return ast.unparse(b[0].value)
    unis = [(n, ret_expr(n)) for n in ["minor_unison", "major_unison", "augmented_unison"]]
    fs = lit(local_assign(fns["determine"], "fifth_steps"))
    sl_node = local_assign(fns["from_shorthand"], "shorthand_lookup")
    sl = []
    for row in sl_node.elts:
        d, u, dn = row.elts
        sl.append((lit(d), u.id, dn.id))
    out = ["namespace Mingus.Gen.Intervals"]
    out.append("def degreeFns : List (List Char × Nat) := " + llist("(%s, %d)" % (lstr(k), v) for k, v in degree.items()))
    out.append("def ctorTable : List (List Char × Nat × Int) := " + llist("(%s, %d, %s)" % (lstr(n), d, lint(sm)) for n, d, sm in ctors))
    out.append("def aliasTable : List (List Char × List Char) := " + llist("(%s, %s)" % (lstr(a), lstr(b)) for a, b in aliases))
    out.append("def unisonBodies : List (List Char × List Char) := " + llist("(%s, %s)" % (lstr(a), lstr(b)) for a, b in unis))
    out.append("def fifthSteps : List (List Char × List Char × Int) := " + llist("(%s, %s, %s)" % (lstr(a), lstr(b), lint(c)) for a, b, c in fs))
    out.append("def shorthandLookup : List (Char × List Char × List Char) := " + llist("(%s, %s, %s)" % (lchar(d), lstr(u), lstr(dn)) for d, u, dn in sl))
    out.append("end Mingus.Gen.Intervals")
    return "\n".join(out) + "\n"

# ---------------------------------------------------------------- scales
def class_attr(cls, name):
    for n in cls.body:
        if isinstance(n, ast.Assign) and len(n.targets) == 1 and getattr(n.targets[0], "id", None) == name:
            return lit(n.value)
    return None

def method(cls, name):
    for n in cls.body:
        if isinstance(n, ast.FunctionDef) and n.name == name:
            return n
    return None

def gen_scales(repo):
    t = parse(repo, "mingus/core/scales.py")
    classes = [n for n in t.body if isinstance(n, ast.ClassDef) and n.bases and getattr(n.bases[0], "id", None) == "_Scale"]
    order, modes, derived = [], [], []
    for c in classes:
        typ = class_attr(c, "type")
        order.append((c.name, typ))
        asc = method(c, "ascending")
        if asc is None:
            raise Shape("%s has no ascending()" % c.name)
        for mname in ("ascending", "descending"):
            m = method(c, mname)
            if m is None:
                continue
            b = body_wo_doc(m)
            src = [ast.unparse(x) for x in b]
            # mode: notes = Diatonic(self.tonic, (a, b)).ascending()[:-1]
            if len(b) == 2 and src[0].startswith("notes = Diatonic(self.tonic, (") and src[1] == "return notes * self.octaves + [notes[0]]":
                tup = lit(b[0].value.value.func.value.args[1])
                modes.append((c.name, list(tup)))
                continue
            # derived: notes = <base> ; notes[i] = augment|diminish(notes[i]) ... ; return notes * self.octaves + [notes[0]]
            if src and src[-1] == "return notes * self.octaves + [notes[0]]" and src[0].startswith("notes = ") and \
               all(ast.unparse(x).startswith("notes[") for x in b[1:-1]) and not isinstance(b[0].value, ast.List):
                alts = []
                for x in b[1:-1]:
                    i = lit(x.targets[0].slice)
                    call = x.value
                    if not (is_call(call) and call.func.id in ("augment", "diminish") and ast.unparse(call.args[0]) == "notes[%d]" % i):
                        raise Shape("%s.%s: unrecognised alteration %s" % (c.name, mname, ast.unparse(x)))
                    alts.append((i, call.func.id))
                derived.append((c.name, mname, src[0][len("notes = "):], alts))
    out = ["namespace Mingus.Gen.Scales"]
    out.append("def classOrder : List (List Char × List Char) := " + llist("(%s, %s)" % (lstr(a), lstr(b)) for a, b in order))
    out.append("def modeTable : List (List Char × Int × Int) := " + llist("(%s, %s, %s)" % (lstr(n), lint(a[0]), lint(a[1])) for n, a in modes))
    out.append("def derived : List (List Char × List Char × List Char × List (Nat × List Char)) := " +
               llist("(%s, %s, %s, %s)" % (lstr(n), lstr(m), lstr(base), llist("(%d, %s)" % (i, lstr(op)) for i, op in alts)) for n, m, base, alts in derived))
    out.append("end Mingus.Gen.Scales")
    return "\n".join(out) + "\n"

GENERATORS = {
    "Notes": gen_notes,
    "Keys": gen_keys,
    "Intervals": gen_intervals,
    "Scales": gen_scales,
}

def main():
    repo, lean = sys.argv[1], sys.argv[2]
    gen_dir = os.path.join(lean, "Mingus", "Gen")
    os.makedirs(gen_dir, exist_ok=True)
    failed = []
    for name, g in GENERATORS.items():
        try:
            text = "-- GENERATED by tools/extract.py from the working tree; do not edit.\n" + g(repo)
        except (Shape, SyntaxError, OSError, KeyError, IndexError, AttributeError, TypeError, ValueError) as e:
            failed.append((name, "%s: %s" % (type(e).__name__, e)))
            text = "-- GENERATED stub: extraction failed (%s)\nnamespace Mingus.Gen.%s\nend Mingus.Gen.%s\n" % (str(e).replace("\n", " ")[:200], name, name)
        path = os.path.join(gen_dir, name + ".lean")
        old = open(path).read() if os.path.exists(path) else None
        if old != text:
            with open(path, "w") as f:
                f.write(text)
    for name, why in failed:
        print("EXTRACT-FAIL %s: %s" % (name, why))
    sys.exit(3 if failed else 0)

if __name__ == "__main__":
    main()
