#!/usr/bin/env python3
"""Regenerate the machine-derived tables of DESIGN.md §0 (between the AS-BUILT markers) from the sources of truth:
tools/mkmanifest.py (claims), known_findings.json, seeded/*/meta.json, seeded/RESULTS.tsv, evidence/*.json."""
import json, os, re, sys
V = os.path.dirname(os.path.dirname(os.path.abspath(__file__)))
sys.path.insert(0, os.path.join(V, "tools"))
import mkmanifest

def main():
    out = []
    out.append("#### 0.4 Per property: what is proved, what is tied, what is partial (from `tools/mkmanifest.py`)\n")
    for i in ["C%02d" % k for k in range(1, 21)]:
        c = mkmanifest.CLAIMED[i]
        ev = {}
        p = os.path.join(V, "evidence", i + ".json")
        if os.path.exists(p):
            ev = json.load(open(p))
        n = ev.get("coverage", {}).get("obligations", "?")
        out.append("**%s** (%s theorems audited on the last run). %s\n\n*Limits.* %s\n" % (
            i, n, c["text"], c["note"].replace(mkmanifest.TRUST, "").strip()))
    kf = json.load(open(os.path.join(V, "known_findings.json")))
    out.append("#### 0.5 Known findings (recorded, not repaired)\n")
    out.append("| id | site | what fails | matcher | why not repaired |\n|---|---|---|---|---|")
    for f in kf["findings"]:
        out.append("| %s | %s | %s | %s | %s |" % (f["id"], f["site"], f["what"].replace("|", "/"), f["matcher"].replace("|", "/"),
                                            f.get("why_not_fixed", "").replace("|", "/")))
    out.append("\n#### 0.6 Genuine defects repaired in `/repo` (`fix:` commits, 190 tests green after each)\n")
    for f in kf["fixed"]:
        out.append("* " + f[len("fixed: "):])
    out.append("\n#### 0.7 Seeded changes and what the checks reported (`tools/run_all_seeds.sh`, quick tier)\n")
    out.append("Each seed is a change to `/repo` written by a sub-agent that saw only the property text, confirmed to keep the 190 "
               "tests green and to break its demo (`seeded/<id>/`). The patch is applied to a scratch clone of `/repo` (`MINGUS_REPO`), the property's quick "
               "check is run from a scratch copy of `/verif`; `/repo` itself is never patched.\n")
    out.append("| seed | what was changed | exit | report | first failing input found |\n|---|---|---|---|---|")
    res = {}
    rp = os.path.join(V, "seeded", "RESULTS.tsv")
    if os.path.exists(rp):
        for ln in open(rp).read().splitlines()[1:]:
            parts = ln.split("\t")
            if len(parts) >= 4:
                res[parts[0]] = parts
    for d in sorted(os.listdir(os.path.join(V, "seeded"))):
        mp = os.path.join(V, "seeded", d, "meta.json")
        if not os.path.exists(mp):
            continue
        m = json.load(open(mp))
        r = res.get(d, [d, "", "?", "not run", ""])
        first = r[4] if len(r) > 4 else ""
        first = re.sub(r"^property C\d\d fails on the implementation: ", "", first)
        out.append("| %s | %s | %s | %s | `%s` |" % (d, m.get("summary", "").replace("|", "/")[:260], r[2], r[3], first.replace("|", "/").replace("`", "'")[:150]))
    rows = [r for k, r in res.items() if os.path.exists(os.path.join(V, "seeded", k, "meta.json"))]
    n_all = len(rows)
    n_conc = len([r for r in rows if r[3] == "concrete input"])
    nfi = sorted(r[0] for r in rows if r[3] == "no-failing-input-found")
    missed = sorted(r[0] for r in rows if r[3] not in ("concrete input", "no-failing-input-found"))
    n_rounds = max(int(r[0].split("-")[1]) for r in rows) // 2 if rows else 0
    out.append("\nThe seeds were written in %d rounds (x-1/x-2 … x-%d/x-%d), each round's authors being told what the earlier "
               "rounds had changed. After every round the seeds a check missed, or reported without an input, were used to strengthen "
               "that check's generators and oracle (never its verdict rule), and the seeds concerned were swept again (all of them through "
               "round 5; from round 6 on the round's own seeds and those of every property whose harness, model or framework path "
               "changed; at the end every seed was run once more against the harness and the model in scratch clones, "
               "tools/mkcorpus.py). On the last sweep "
               "%d of %d seeded changes make their property's quick check exit 1; %d are reported with a concrete failing input on the "
               "real (changed) code%s. %s end in `no-failing-input-found`: the change breaks a Tie A theorem and the correspondence "
               "(the code is no longer what the model describes), but on every explored input the property's own oracle still holds "
               "on the changed code (C09-1 moves a threshold inside a gap where no value of the vocabulary lies; C14-1 changes bar "
               "arithmetic that C13's check reports with a concrete input, while the track-level statement of C14 is unaffected; "
               "C06-10 respells a note on the same letter and pitch, C09-13 computes value.add in another floating-point form that "
               "differs from the modelled three roundings in the last bit, C09-16 retypes a dots() constant one ulp off, C17-18 "
               "truncates instead of rounding tick counts that are not whole (outside C17's stated domain; C16 reports it), C18-15 "
               "changes the parallel scheduler only where the unchanged code is already wrong (known finding), C11-19 changes only "
               "the diminished unisons b1/bb1 (-1 and -2 semitones, outside the stated sizes 0-11), C08-21 changes the roots "
               "that the recursive substitute() combines, of which the statement promises nothing (the four documented rules are "
               "judged), C08-24 offers one harmonic substitute for VI instead of two (the statement speaks of what the returned ones "
               "share with the original), C09-23 changes the analysis of a septuplet perturbed upward (outside the 1 %% clause), "
               "C08-26 offers no substitute for an m7 chord on degrees other than II/III/VI (again: what is returned is still right), "
               "see 0.3b), so "
               "the report names the theorems that no longer check, as the brief prescribes." % (
                   n_rounds, 2 * n_rounds - 1, 2 * n_rounds, n_all - len(missed), n_all, n_conc, "" if not missed else "; not reported: " + ", ".join(missed) +
                   " (C15-15 makes chords.invert hand back the caller's own one-note list, which the statement of C15 does not forbid "
                   "and the unchanged chords.determine(['C#']) does too; C10-22 still rejects 'H-4', with an error class of the same "
                   "name from another module, and the statement asks for rejection; see 0.3b)",
                   ", ".join(nfi) if nfi else "None"))
    text = "\n".join(out) + "\n"
    p = os.path.join(V, "DESIGN.md")
    s = open(p).read()
    a, b = "<!-- AS-BUILT-TABLES:BEGIN -->", "<!-- AS-BUILT-TABLES:END -->"
    if a not in s:
        raise SystemExit("markers missing in DESIGN.md")
    s = s[:s.index(a) + len(a)] + "\n" + text + s[s.index(b):]
    open(p, "w").write(s)

if __name__ == "__main__":
    main()
