#!/bin/bash
# try_seed.sh <seed-name> : run one seeded change through the quick check of its property, in scratch copies of /repo and
# /verif (see run_all_seeds.sh; /repo is never patched), and print the verdict row without touching seeded/RESULTS.tsv
r=$(mktemp)
RESULTS_OUT=$r "$(dirname "$0")/run_all_seeds.sh" "$1" >/dev/null
tail -n +2 $r
rm -f $r
