#!/bin/bash
# try_seed.sh <seed-name> <ID> [tier] : apply seeded/<name>/patch.diff to /repo, run ./check, undo.
NAME=$1; ID=$2; TIER=${3:-quick}
cd /repo && git apply /verif/seeded/$NAME/patch.diff || exit 2
cd /verif && ./check $ID $TIER 2>&1 | tail -6; rc=${PIPESTATUS[0]}
git -C /repo checkout -- .
echo "seed $NAME on $ID $TIER -> rc=$rc"
