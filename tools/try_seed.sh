#!/bin/bash
# try_seed.sh <seed-name> <ID> [tier] : apply seeded/<name>/patch.diff to /repo, run ./check, undo, re-run on the clean tree
NAME=$1; ID=$2; TIER=${3:-quick}
cd /repo && git apply /verif/seeded/$NAME/patch.diff || exit 2
cd /verif && ./check $ID $TIER 2>&1 | grep -v "^KNOWN-FINDING" | tail -4; rc=${PIPESTATUS[0]}
git -C /repo checkout -- .
echo "seed $NAME on $ID $TIER -> rc=$rc"
./check $ID quick >/dev/null 2>&1 || echo "WARNING: clean re-run of $ID did not exit 0"
