#!/bin/bash
# soak.sh : run every check on the clean tree with several seeds (quick) and once thorough; anything but exit 0 is a false alarm
cd /verif
out=/verif/soak.log
: > $out
for seed in ${SOAK_SEEDS:-2 3 4 5 6 7}; do
  for i in 01 02 03 04 05 06 07 08 09 10 11 12 13 14 15 16 17 18 19 20; do
    VERIF_SEED=$seed ./check C$i quick > /tmp/soak_one.log 2>&1; rc=$?
    echo "quick seed=$seed C$i rc=$rc $(grep -v '^KNOWN-FINDING' /tmp/soak_one.log | tail -1 | cut -c1-160)" >> $out
  done
done
for i in 01 02 03 04 05 06 07 08 09 10 11 12 13 14 15 16 17 18 19 20; do
  VERIF_SEED=11 ./check C$i thorough > /tmp/soak_one.log 2>&1; rc=$?
  echo "thorough seed=11 C$i rc=$rc $(grep -v '^KNOWN-FINDING' /tmp/soak_one.log | tail -1 | cut -c1-160)" >> $out
done
# leave quick evidence with the default seed behind
for i in 01 02 03 04 05 06 07 08 09 10 11 12 13 14 15 16 17 18 19 20; do ./check C$i quick >/dev/null 2>&1; done
echo done >> $out
