"""Developer tool (not a registered check): correspondence + oracle only, no Lean build/audit.
Usage: /venv/bin/python -m tools.corr C02 [quick|thorough]"""
import sys, importlib, collections, os
from tools import framework as fw
def main():
    pid = sys.argv[1]; tier = sys.argv[2] if len(sys.argv) > 2 else "quick"
    h = importlib.import_module("harness.%s" % pid.lower())
    known = fw.load_known(pid)
    cases, impl_obs, model_obs, timing = fw.explore(h, tier, int(os.environ.get("VERIF_SEED", "1")))
    v, k, mm, bad = fw.judge(h, cases, impl_obs, model_obs, known)
    print("cases", len(cases), "timing", timing, "violations", len(v), "known", {a: len(b) for a, b in k.items()}, "mismatch", len(mm), "bad-op", len(bad))
    cl = collections.Counter(x[2] for x in v)
    for c, n in cl.most_common(10): print("  clause:", n, c)
    for c, o, cl in fw.shrink_pick(h, v)[:8]: print("  V", fw.human(c), "->", fw.human_obs(o), ":", cl)
    for c, o, m in fw.shrink_pick(h, mm)[:8]: print("  M", fw.human(c), "impl", fw.human_obs(o), "model", m if m=="bad-op" else fw.dec(m))
    for c in bad[:5]: print("  B", c.line())
    print(collections.Counter(fw.obs_kind(o) for o in impl_obs))
main()
