#!/bin/bash
# confirm_seed.sh <worktree> <n> <seed-name> : confirm patch<n>/demo<n> from <worktree>/_out and store under /verif/seeded/<seed-name>
set -u
WT=$1; N=$2; NAME=$3
OUT=$WT/_out
cd $WT || exit 2
git checkout -q -- mingus
/venv/bin/python $OUT/demo$N.py >/tmp/mut/demo_clean.log 2>&1; rc_clean=$?
git apply $OUT/patch$N.diff || { echo "patch does not apply"; exit 2; }
tests=$(/venv/bin/python -m pytest -q -p no:cacheprovider --timeout=900 --continue-on-collection-errors 2>&1 | tail -1)
/venv/bin/python $OUT/demo$N.py >/tmp/mut/demo_mut.log 2>&1; rc_mut=$?
git checkout -q -- mingus
echo "$NAME: demo clean rc=$rc_clean, demo mutated rc=$rc_mut, tests: $tests"
if [ $rc_clean -eq 0 ] && [ $rc_mut -ne 0 ] && echo "$tests" | grep -q "190 passed"; then
  mkdir -p /verif/seeded/$NAME
  cp $OUT/patch$N.diff /verif/seeded/$NAME/patch.diff
  cp $OUT/demo$N.py /verif/seeded/$NAME/demo.py
  /venv/bin/python - <<PY
import json
m=json.load(open("$OUT/meta$N.json"))
m["confirmed"]={"demo_on_clean_tree_rc":$rc_clean,"demo_on_mutated_tree_rc":$rc_mut,"test_suite_with_patch":"""$tests""","how":"tools/confirm_seed.sh in a scratch worktree outside /repo"}
json.dump(m,open("/verif/seeded/$NAME/meta.json","w"),indent=1)
PY
  echo CONFIRMED
else
  echo REJECTED
fi
