import sys, itertools, collections
sys.path.insert(0,'/repo')
from mingus.core import notes, intervals, keys, scales, chords, progressions
L='CDEFGAB'
def accs(n): return [''.join(p) for k in range(n+1) for p in itertools.product('#b',repeat=k)]
names=[l+a for l in L for a in accs(4)]
cons=[('minor_unison',0,-1),('major_unison',0,0),('augmented_unison',0,1),('minor_second',1,1),('major_second',1,2),('minor_third',2,3),('major_third',2,4),('minor_fourth',3,4),('major_fourth',3,5),('perfect_fourth',3,5),('minor_fifth',4,6),('major_fifth',4,7),('perfect_fifth',4,7),('minor_sixth',5,8),('major_sixth',5,9),('minor_seventh',6,10),('major_seventh',6,11)]
bad=collections.Counter()
for n in names:
    for (f,k,s) in cons:
        r=getattr(intervals,f)(n)
        if r[0]!=L[(L.index(n[0])+k)%7]: bad[(f,'letter')]+=1
        if (notes.note_to_int(r)-notes.note_to_int(n))%12!=s%12: bad[(f,'semi')]+=1
        if ('#' in r and 'b' in r) : bad[(f,'mixed')]+=1; 
        if len(r)-1>6: bad[(f,'>6')]+=1
print('C02',dict(bad))
# C04 diatonic steps
bad=collections.Counter()
allkeys=keys.major_keys+keys.minor_keys
for k in allkeys:
    kn=keys.get_notes(k)
    for n in [l+a for l in L for a in ['','#','b','##']]:
        for step,f in enumerate([intervals.second,intervals.third,intervals.fourth,intervals.fifth,intervals.sixth,intervals.seventh],1):
            r=f(n,k)
            exp=[x for x in kn if x[0]==L[(L.index(n[0])+step)%7]][0]
            if r!=exp: bad[(k,f.__name__)]+=1
print('C04 diatonic',dict(bad))
# C08 inverse in major keys
bad=[]
for k in keys.major_keys:
    for i,(tri,sev) in enumerate(zip(chords.triads(k),chords.sevenths(k))):
        num=['I','ii','iii','IV','V','vi','vii'][i]
        for ch,suffix in ((tri,''),(sev,'7')):
            try:
                r=progressions.determine(list(ch),k,True)
            except Exception as e:
                bad.append((k,num+suffix,repr(e))); continue
            if num+suffix not in r: bad.append((k,num+suffix,r))
            back=progressions.to_chords(num+suffix,k)
            if back!=[ch] : bad.append((k,num+suffix,'to_chords',back,ch))
print('C08',len(bad),bad[:8])
# minor keys too
bad=[]
for k in keys.minor_keys:
    for i,(tri,sev) in enumerate(zip(chords.triads(k),chords.sevenths(k))):
        try:
            r=progressions.determine(list(tri),k,True)
        except Exception as e: bad.append((k,i,repr(e)))
print('C08 minor raise',len(bad),bad[:4])
