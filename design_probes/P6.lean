namespace V
/-- continuation bytes (high bit set) for the digits above the last one, big endian -/
def encHi (m : Nat) : List Nat :=
  if h : m < 128 then [m + 128] else encHi (m / 128) ++ [m % 128 + 128]
termination_by m
decreasing_by omega

/-- int_to_varbyte as a list of byte values -/
def enc (n : Nat) : List Nat :=
  if n < 128 then [n] else encHi (n / 128) ++ [n % 128]

/-- parse_varbyte_as_int: accumulate while the high bit is set -/
def dec (acc : Nat) : List Nat → Option (Nat × List Nat)
  | [] => none
  | b :: bs => if b ≥ 128 then dec (acc * 128 + (b - 128)) bs else some (acc * 128 + b, bs)


/-- value accumulated after reading the continuation bytes of `m` on top of `acc` -/
def shift (acc m : Nat) : Nat :=
  if h : m < 128 then acc * 128 + m else shift acc (m / 128) * 128 + m % 128
termination_by m
decreasing_by omega

theorem dec_encHi (m : Nat) : ∀ (acc : Nat) (tail : List Nat),
    dec acc (encHi m ++ tail) = dec (shift acc m) tail := by
  induction m using Nat.strongRecOn with
  | _ m ih =>
    intro acc tail
    rw [encHi, shift]
    by_cases h : m < 128
    · simp [h, dec]
    · simp only [h, dite_false, List.append_assoc, List.cons_append, List.nil_append]
      rw [ih (m / 128) (by omega)]
      simp [dec]

theorem shift_zero (m : Nat) : shift 0 m = m := by
  induction m using Nat.strongRecOn with
  | _ m ih =>
    rw [shift]
    by_cases h : m < 128
    · simp [h]
    · simp only [h, dite_false]; rw [ih (m / 128) (by omega)]; omega

theorem dec_enc (n : Nat) (tail : List Nat) : dec 0 (enc n ++ tail) = some (n, tail) := by
  unfold enc
  by_cases h : n < 128
  · simp [h, dec]; omega
  · simp only [h, if_false, List.append_assoc, List.cons_append, List.nil_append]
    rw [dec_encHi, shift_zero]
    have hlt : n % 128 < 128 := Nat.mod_lt _ (by omega)
    simp only [dec, ge_iff_le, Nat.not_le.mpr hlt, if_false]
    congr 2; omega

/-- length of the encoding = number of base-128 digits; ≤ 4 bytes below 2^28 -/
theorem enc_len_le4 (n : Nat) (h : n < 2^28) : (enc n).length ≤ 4 := by
  unfold enc
  by_cases h1 : n < 128
  · simp [h1]
  · simp only [h1, if_false, List.length_append, List.length_cons, List.length_nil]
    rw [encHi]
    by_cases h2 : n / 128 < 128
    · simp [h2]
    · simp only [h2, dite_false, List.length_append, List.length_cons, List.length_nil]
      rw [encHi]
      by_cases h3 : n / 128 / 128 < 128
      · simp [h3]
      · simp only [h3, dite_false, List.length_append, List.length_cons, List.length_nil]
        rw [encHi]
        have h4 : n / 128 / 128 / 128 < 128 := by omega
        simp [h4]
#print axioms dec_enc
end V
