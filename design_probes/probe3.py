import sys, itertools, collections
sys.path.insert(0,'/repo')
from mingus.core import notes, intervals
from mingus.containers import Note, NoteContainer, Bar, Track, Composition, Suite
from mingus.containers.instrument import Instrument, Piano, Guitar, MidiInstrument
names=[l+a for l in 'CDEFGAB' for a in ['','#','b','##','bb']]
# C10 helmholtz
bad=[]
for n in names:
    for o in range(0,10):
        s=Note(n,o).to_shorthand()
        try:
            m=Note().from_shorthand(s)
            if (m.name,m.octave)!=(n,o): bad.append((n,o,s,m.name,m.octave))
        except Exception as e: bad.append((n,o,s,repr(e)))
print('helmholtz bad', len(bad), bad[:5])
# hertz
bad=[]
for i in range(128):
    for sp in (415,440,442,466.16):
        for cents in (-40,-20,0,20,40):
            hz=Note(i).to_hertz(sp)*2**(cents/1200.0)
            m=Note().from_hertz(hz,sp)
            if int(m)!=i: bad.append((i,sp,cents,int(m)))
print('hertz bad',len(bad),bad[:5])
# C11 transpose
shs=[a+str(d) for d in range(1,8) for a in ['','#','b','##','bb']]
bad=collections.Counter(); ex={}
major=[0,2,4,5,7,9,11]
for n in names:
  for o in range(1,8):
    for sh in shs:
      size=major[int(sh[-1])-1]+sh.count('#')-sh.count('b')
      if not 0<=size<=11: continue
      for up in (True,False):
        x=Note(n,o); x.transpose(sh,up)
        exp=int(Note(n,o))+(size if up else -size)
        if int(x)!=exp:
            bad[(sh,up,'pitch')]+=1; ex.setdefault((sh,up,'pitch'),(n,o,x,exp))
        li='CDEFGAB'.index(n[0]); d=int(sh[-1])-1
        if x.name[0]!='CDEFGAB'[(li+d)%7 if up else (li-d)%7]:
            bad[(sh,up,'letter')]+=1
        y=Note(x.name,x.octave); y.transpose(sh,not up)
        if (y.name,y.octave)!=(n,o):
            bad[(sh,up,'roundtrip')]+=1; ex.setdefault((sh,up,'roundtrip'),(n,o,x,y))
for k,v in sorted(bad.items(),key=str): print(k,v,ex.get(k))
# C12 voicing
bad=[]
for a in names:
  for b in names:
    nc=NoteContainer([a,b])
    if len(nc)==2:
        lo,hi=nc.notes
        # second added is b
        first=Note(a,4); 
        bn=[x for x in nc.notes if x.name==b and not (x.name==a and x.octave==4)]
    nb=None
    nc2=NoteContainer([a]); before=int(nc2.notes[-1]); nc2.add_note(b)
    # find pitch assigned to b
    cand=[o for o in range(0,9)]
    # determine via direct logic
    top=Note(a,4)
    o = 5 if Note(b,4)<top else 4
    v=int(Note(b,o))
    if not (before<=v<before+12): bad.append((a,b,before,v))
print('voicing bad',len(bad),bad[:10])
