namespace R
abbrev N := Nat × Int   -- letter index in CDEFGAB, accidentals
def nat7 : Nat → Int | 0 => 0 | 1 => 2 | 2 => 4 | 3 => 5 | 4 => 7 | 5 => 9 | _ => 11
def fifthIdx : Nat → Nat | 0 => 1 | 1 => 3 | 2 => 5 | 3 => 0 | 4 => 2 | 5 => 4 | _ => 6
def pc (n : N) : Int := (nat7 n.1 + n.2) % 12
-- (deg, maj) by number of fifth steps
def fifthSteps : Nat → Nat × Int
  | 0 => (1,0) | 1 => (5,7) | 2 => (2,2) | 3 => (6,9) | 4 => (3,4) | 5 => (7,11) | _ => (4,5)
/-- interval as (accidentals, degree) -/
def ivl (a b : N) : Int × Nat :=
  if a.1 = b.1 then
    if a.2 = b.2 then (0,1) else if a.2 < b.2 then (1,1) else if a.2 - b.2 = 1 then (-1,1) else (-2,1)
  else
    let s := (fifthIdx b.1 + 7 - fifthIdx a.1) % 7
    let (d, maj) := fifthSteps s
    let half := (pc b - pc a) % 12
    (half - maj, d)
-- triad codes
def triadCode (i1 i2 : Int × Nat) : Option String :=
  match i1, i2 with
  | (0,2),(0,5) => some "sus2" | (0,3),(-1,7) => some "dom7" | (0,3),(-1,5) => some "7b5"
  | (0,3),(0,5) => some "M" | (0,3),(1,5) => some "aug" | (0,3),(0,6) => some "M6"
  | (0,3),(0,7) => some "M7" | (-1,3),(-1,5) => some "dim" | (-1,3),(0,5) => some "m"
  | (-1,3),(0,6) => some "m6" | (-1,3),(-1,7) => some "m7" | (-1,3),(0,7) => some "m/M7"
  | (0,4),(0,5) => some "sus4" | (0,5),(-1,7) => some "m7" | (0,5),(0,7) => some "M7"
  | _, _ => none
def triadNoInv (c : List N) : List String :=
  match c with
  | [a,b,d] => (triadCode (ivl a b) (ivl a d)).toList
  | _ => []
def sevCode (t : String) (i3 : Int × Nat) : List String :=
  if t = "m" then (if i3 = (-1,7) then ["m7"] else if i3 = (0,7) then ["m/M7"] else if i3 = (0,6) then ["m6"] else [])
  else if t = "M" then (if i3 = (0,7) then ["M7"] else if i3 = (-1,7) then ["7"] else if i3 = (0,6) then ["M6"] else [])
  else if t = "dim" then (if i3 = (-1,7) then ["m7b5"] else if i3 = (-2,7) then ["dim7"] else [])
  else if t = "aug" then ((if i3 = (-1,7) then ["m7+"] else []) ++ (if i3 = (0,7) then ["M7+"] else []))
  else if t = "sus4" then (if i3 = (-1,7) then ["sus47"] else if i3 = (-1,2) then ["sus4b9"] else [])
  else if t = "m7" then (if i3 = (0,4) then ["11"] else [])
  else if t = "7b5" then (if i3 = (-1,7) then ["7b5"] else [])
  else []
def rotR (l : List α) : List α := match l.getLast? with | some x => x :: l.dropLast | none => l
def sevAll : Nat → List N → List (String × Nat × N)
  | 0, _ => []
  | f+1, c =>
    let here := match c with
      | [a,b,d,e] => ((triadNoInv [a,b,d]).flatMap (fun t => sevCode t (ivl a e))).map (fun s => (s, 5 - (f+1), a))
      | _ => []
    here ++ sevAll f (rotR c)
def mk (root : N) (deg : Nat) (semis : Int) : N :=
  let l := (root.1 + deg) % 7
  let raw := (nat7 root.1 + root.2 + semis - nat7 l)
  let r := raw % 12
  (l, if r > 6 then r - 12 else r) |> fun x => (x.1, x.2 + (root.2 - root.2))  -- keep simple
def roots : List N := (List.range 7).flatMap (fun l => [(l,0),(l,1),(l,-1),(l,2),(l,-2)])
def shapes : List (String × List (Nat × Int)) :=
 [("m7",[(2,3),(4,7),(6,10)]),("M7",[(2,4),(4,7),(6,11)]),("7",[(2,4),(4,7),(6,10)]),("m7b5",[(2,3),(4,6),(6,10)]),
  ("dim7",[(2,3),(4,6),(6,9)]),("m/M7",[(2,3),(4,7),(6,11)]),("m6",[(2,3),(4,7),(5,9)]),("M6",[(2,4),(4,7),(5,9)]),
  ("sus47",[(3,5),(4,7),(6,10)]),("m7+",[(2,4),(4,8),(6,10)]),("M7+",[(2,4),(4,8),(6,11)]),("7b5",[(2,4),(4,6),(6,10)])]
def rotL (l : List α) : List α := match l with | [] => [] | x :: t => t ++ [x]
def rots (c : List N) : List (List N) := [c, rotL c, rotL (rotL c), rotL (rotL (rotL c))]
def chk : Bool :=
  shapes.all fun sh => roots.all fun r =>
    let c := r :: sh.2.map (fun ds => mk r ds.1 ds.2)
    (rots c).all fun rc => (sevAll 4 rc).any (fun res => res.1 = sh.1 && res.2.2 = r)
#eval chk
#eval (sevAll 4 [(0,0),(2,0),(4,0),(6,0)])
theorem recognise_sevenths : chk = true := by decide +kernel
end R
