import sys, itertools, collections
sys.path.insert(0,'/repo')
from mingus.core import notes, intervals, keys, chords, progressions as P
L='CDEFGAB'
num=P.numerals
semi=dict(zip(num,P.numeral_intervals))
def val(s):
    r,a,suf=P.parse_string(s); return (semi[r]+a)%12 if r in semi else None
bad=collections.Counter(); ex={}
sufs=['','7','m','m7','M','M7','dim','dim7','dom7']
for r in num:
  for a in range(-3,4):
    for suf in sufs:
        s=P.tuple_to_string((r,a,suf))
        # parse/format
        if P.tuple_to_string(P.parse_string(s))!=s: bad['pf']+=1; ex.setdefault('pf',s)
        for name,f,delta in (('minmaj',P.substitute_minor_for_major,3),('majmin',P.substitute_major_for_minor,9)):
            for ig in (False,True):
                out=f([s],0,ig)
                for o in out:
                    rr=P.parse_string(o)[0]
                    if rr not in num: bad[(name,'illformed')]+=1; ex.setdefault((name,'illformed'),(s,o)); continue
                    if (val(o)-val(s))%12!=delta: bad[(name,'delta')]+=1; ex.setdefault((name,'delta'),(s,o,val(s),val(o)))
        out=P.substitute_diminished_for_diminished([s],0)
        prev=val(s)
        for o in out:
            if P.parse_string(o)[0] not in num: bad['dimdim ill']+=1; continue
            if (val(o)-prev)%12!=3: bad['dimdim delta']+=1; ex.setdefault('dimdim delta',(s,out))
            prev=val(o)
        out=P.substitute_harmonic([s],0)
        for o in out:
            if P.parse_string(o)[0] not in num: bad['harm ill']+=1
        for k in keys.major_keys:
            if suf in('',) :
                orig=P.to_chords(s,k)
                for o in out:
                    sub=P.to_chords(o,k)
                    if orig and sub and len(set(orig[0])&set(sub[0]))<2 and a==0: bad['harm share<2']+=1; ex.setdefault('harm share<2',(s,o,k,orig,sub))
        for d in (0,1,2):
            pr=[s,'IV']; cp=list(pr)
            out=P.substitute(pr,0,d)
            if pr!=cp: bad[('subst mutates',d)]+=1
            for o in out:
                if P.parse_string(o)[0] not in num: bad[('subst ill',d)]+=1; ex.setdefault(('subst ill',d),(s,o))
print(dict(bad)); print(ex)
# to_chords: lowercase, prefixes, suffixes
bad=collections.Counter(); ex={}
for k in keys.major_keys+keys.minor_keys:
    tri=chords.triads(k); sev=chords.sevenths(k)
    for i,r in enumerate(num):
        for form in (r,r.lower()):
            if P.to_chords(form,k)!=[tri[i]]: bad['triad']+=1; ex.setdefault('triad',(k,form,P.to_chords(form,k),tri[i]))
            if P.to_chords(form+'7',k)!=[sev[i]]: bad['sev']+=1; ex.setdefault('sev',(k,form,P.to_chords(form+'7',k),sev[i]))
            for a in range(1,4):
                up=P.to_chords('#'*a+form,k)[0]; dn=P.to_chords('b'*a+form,k)[0]
                e=tri[i]
                for _ in range(a): e=[notes.augment(x) for x in e]
                if up!=e: bad['prefix up']+=1
                e=tri[i]
                for _ in range(a): e=[notes.diminish(x) for x in e]
                if dn!=e: bad['prefix dn']+=1
            for suf in chords.chord_shorthand:
                if suf in ('','7'): continue
                try:
                    got=P.to_chords(form+suf,k)
                except Exception as ee:
                    bad[('suffix raise',suf)]+=1; ex.setdefault(('suffix raise',suf),(k,form,repr(ee))); continue
                if got!=[chords.chord_shorthand[suf](tri[i][0])]: bad[('suffix',suf)]+=1; ex.setdefault(('suffix',suf),(k,form+suf,got))
    if P.to_chords('IIII',k)!=[] or P.to_chords('foo',k)!=[]: bad['unrec']+=1
print(dict(bad)); print(ex)
