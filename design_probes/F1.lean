-- probe: Float in kernel, Rat in core
example : (0.1 + 0.2 : Float) == 0.30000000000000004 := by decide +kernel
example : ((1.0:Float) / 20.0) * 20.0 == 1.0 := by decide +kernel
#eval (0.1 + 0.2 : Float)
#eval (1.0 : Float) / 3.0
#check Rat
#eval (1/3 : Rat) + (1/6 : Rat)
example : (1/3 : Rat) + (1/6 : Rat) = 1/2 := by decide +kernel
#eval Float.round 2.5
#eval Float.toUInt64 2.5
#eval (2.0:Float).log
