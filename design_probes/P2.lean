namespace K
def keysTbl : List (String × String) :=
 [("Cb","ab"),("Gb","eb"),("Db","bb"),("Ab","f"),("Eb","c"),("Bb","g"),("F","d"),("C","a"),
  ("G","e"),("D","b"),("A","f#"),("E","c#"),("B","g#"),("F#","d#"),("C#","a#")]
def fifths : List Char := ['F','C','G','D','A','E','B']
def baseScale : List Char := ['C','D','E','F','G','A','B']
def natural : Char → Int
  | 'C' => 0 | 'D' => 2 | 'E' => 4 | 'F' => 5 | 'G' => 7 | 'A' => 9 | 'B' => 11 | _ => 0
def accVal (s : List Char) : Int := s.foldl (fun v c => v + (if c = '#' then 1 else if c = 'b' then -1 else 0)) 0
def pc (n : List Char) : Int := match n with | [] => 0 | l :: t => (natural l + accVal t) % 12

def sigOf (k : String) : Option Int :=
  (keysTbl.findIdx? (fun c => c.1 = k || c.2 = k)).map (fun i => (i : Int) - 7)

def sigAcc (k : String) : Option (List (List Char)) := do
  let a ← sigOf k
  if a < 0 then pure ((fifths.reverse.take a.natAbs).map (fun c => [c,'b']))
  else pure ((fifths.take a.natAbs).map (fun c => [c,'#']))

def rot (l : List α) (n : Nat) : List α := l.drop n ++ l.take n

def getNotes (k : String) : Option (List (List Char)) := do
  let a ← sigOf k
  let alt := (← sigAcc k).map (fun x => x.head!)
  let sym := if a < 0 then 'b' else '#'
  let t := (k.toList.head!).toUpper
  let i ← baseScale.findIdx? (· = t)
  pure ((rot baseScale i).map (fun n => if alt.contains n then [n, sym] else [n]))

def steps (l : List (List Char)) : List Int :=
  (l.zip (l.drop 1 ++ l.take 1)).map (fun (a,b) => (pc b - pc a) % 12)

def allKeys : List String := keysTbl.map (·.1) ++ keysTbl.map (·.2)
#eval allKeys.map (fun k => (k, (getNotes k).map steps))

def majorPat : List Int := [2,2,1,2,2,2,1]
def minorPat : List Int := [2,1,2,2,1,2,2]
theorem major_ok : ∀ k ∈ keysTbl.map (·.1), (getNotes k).map steps = some majorPat := by decide +kernel
theorem minor_ok : ∀ k ∈ keysTbl.map (·.2), (getNotes k).map steps = some minorPat := by decide +kernel
end K
