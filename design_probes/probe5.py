import sys, itertools, collections, binascii
sys.path.insert(0,'/repo')
from mingus.containers import Note, NoteContainer, Bar, Track, Composition
from mingus.containers.instrument import MidiInstrument
from mingus.midi.midi_track import MidiTrack
from mingus.midi import midi_file_out, midi_file_in
b=Bar('Eb',(3,4)); b.place_rest(4); b.place_notes(Note('C',4,channel=3,velocity=90),4); b.place_notes('E',4)
t=Track(MidiInstrument()); t.instrument.instrument_nr=13; t.name='x'
t.add_bar(b)
mt=MidiTrack(120); mt.play_Track(t)
print(binascii.hexlify(mt.track_data,' '))
mt=MidiTrack(120)
print([ (n, binascii.hexlify(mt.int_to_varbyte(n))) for n in (0,127,128,16383,16384,2097151,2097152,268435455)])
c=Composition(); c.add_track(t)
midi_file_out.write_Composition('/root/scratch/x.mid',c,120)
try:
    c2,bpm=midi_file_in.MIDI_to_Composition('/root/scratch/x.mid')
    print(bpm,[ (tr.name, tr.instrument, [(bb.key.key, bb.meter, bb.bar) for bb in tr.bars]) for tr in c2.tracks])
except Exception as e:
    import traceback; traceback.print_exc()
