import sys, math
sys.path.insert(0,'/repo')
print([ (k, int(math.log(2**k,2))) for k in range(0,20) if int(math.log(2**k,2))!=k])
from mingus.core import value, scales, keys
# tick rounding across vocabulary: which values have integral ticks
voc=[]
for b in value.base_values:
    for d in range(5):
        v=value.dots(b,d) if d else b
        voc.append((b,d,(1,1),v))
    for r in ((3,2),(5,4),(7,4)):
        voc.append((b,0,r,value.tuplet(b,*r)))
from fractions import Fraction
nonint=0; mism=[]
for (b,d,r,v) in voc:
    exact=Fraction(288)/Fraction(b)*(2-Fraction(1,2**d))*Fraction(r[1],r[0])
    t=int(round((1.0/v)*288))
    er=round(exact)  # python round half even on Fraction
    if exact.denominator!=1: nonint+=1
    if t!=er: mism.append((b,d,r,t,exact))
print('vocab',len(voc),'nonintegral',nonint,'float-vs-exact-round mismatches',mism)
# determine on vocabulary
bad=[(b,d,r,value.determine(v)) for (b,d,r,v) in voc if value.determine(v)!=(b,d,r[0],r[1])]
print('value.determine vocab mismatches',len(bad),bad[:12])
# scales determine subclasses order
print([c.__name__ for c in scales._Scale.__subclasses__()])
