import sys, random
sys.path.insert(0,'/repo')
from fractions import Fraction as Fr
from mingus.core import value
from mingus.containers import Note, NoteContainer, Bar, Track, Composition
from mingus.midi.sequencer import Sequencer
from mingus.midi.sequencer_observer import SequencerObserver
class Rec(Sequencer):
    def init(self): self.ev=[]
    def play_event(self,n,c,v): self.ev.append(('on',n,c,v))
    def stop_event(self,n,c): self.ev.append(('off',n,c))
    def sleep(self,s): self.ev.append(('sleep',s))
    def instr_event(self,c,i,b): self.ev.append(('instr',c,i,b))
    def cc_event(self,c,a,b): self.ev.append(('cc',c,a,b))
class Obs(SequencerObserver):
    def __init__(self): self.ev=[]
    def play_int_note_event(self,n,c,v): self.ev.append(('on',n,c,v))
    def stop_int_note_event(self,n,c): self.ev.append(('off',n,c))
    def sleep(self,s): self.ev.append(('sleep',s))
    def instr_event(self,c,i,b): self.ev.append(('instr',c,i,b))
    def cc_event(self,c,a,b): self.ev.append(('cc',c,a,b))
random.seed(5)
vals=[1,2,4,8,16,value.dots(4),value.triplet(8)]
bad=0
for it in range(300):
    t=Track(); exp=[]; bpm=120; total=Fr(0)
    for _ in range(random.randint(1,10)):
        v=random.choice(vals)
        if random.random()<.25:
            ok=t.add_notes(None,v); nc=None
        else:
            nc=NoteContainer([Note(random.randint(20,90)) for _ in range(random.randint(1,3))])
            for n in nc: n.channel=random.randint(0,15); n.velocity=random.randint(0,127)
            if random.random()<.2: nc.bpm=random.choice([60,90,200])
            ok=t.add_notes(nc,v)
    r=Rec(); o=Obs(); r.attach(o); r.attach(o)
    res=r.play_Track(t,3,120)
    # expected
    bpm=120
    for (beat,v,nc) in t.get_notes():
        ons=[('on',int(n)+12,n.channel,n.velocity) for n in (nc or [])]
        if hasattr(nc,'bpm'): bpm=nc.bpm
        exp+=ons+[('sleep',60.0/bpm*(4.0/v))]+[('off',int(n)+12,n.channel) for n in (nc or [])]
    def canon(ev): return [e if e[0]!='sleep' else ('sleep',round(e[1],9)) for e in ev]
    if canon(r.ev)!=canon(exp) or canon(o.ev)!=canon(r.ev) or res!={'bpm':bpm}:
        bad+=1
        if bad<3: print(canon(r.ev)[:6],canon(exp)[:6],res,bpm)
print('sequential bad',bad)
r=Rec(); print([r.control_change(1,c,v) for c,v in ((-1,0),(0,-1),(128,128),(129,0),(0,129),(5,5))], r.ev)
o=Obs(); r.attach(o); r.detach(o); r.play_Note(Note('C')); print(o.ev)
