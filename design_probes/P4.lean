def natural : Char → Int
  | 'C' => 0 | 'D' => 2 | 'E' => 4 | 'F' => 5 | 'G' => 7 | 'A' => 9 | 'B' => 11 | _ => 0
def accVal (s : List Char) : Int := s.foldl (fun v c => v + (if c = '#' then 1 else if c = 'b' then -1 else 0)) 0
def pc (n : List Char) : Int := match n with | [] => 0 | l :: t => (natural l + accVal t) % 12
def names : List (List Char) :=
  (['C','D','E','F','G','A','B'].map (fun l => [[l],[l,'#'],[l,'b']])).flatten
def msr (a b : List Char) : Int := (pc b - pc a) % 12
def triples : List (List Char × List Char × List Char) :=
  names.flatMap (fun a => names.flatMap (fun b => names.map (fun c => (a,b,c))))
theorem t : ∀ a ∈ names, ∀ b ∈ names, ∀ c ∈ names, (msr a b + msr b c) % 12 = msr a c := by
  decide +kernel
def chk : Bool := names.all fun a => names.all fun b => names.all fun c => (msr a b + msr b c) % 12 == msr a c
theorem t2 : chk = true := by decide +kernel
