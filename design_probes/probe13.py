import sys, random
sys.path.insert(0,'/root/scratch/trial')
from mingus.core import keys, value
from mingus.containers import Note, NoteContainer, Bar, Track, Composition
from mingus.containers.instrument import MidiInstrument
from mingus.midi import midi_file_out as mo, midi_file_in as mi
import mingus; print(mingus.__file__)
random.seed(3)
def flat(track, tpb=72):
    out=[]
    for bar in track.bars:
        for (beat,v,nc) in bar.bar:
            ticks=round(288/ v)
            ps=frozenset((int(n),n.channel,n.velocity) for n in (nc or []))
            if not ps and out and not out[-1][1]:
                out[-1]=(out[-1][0]+ticks,ps)
            else: out.append((ticks,ps))
    while out and not out[-1][1]: out.pop()
    return out
bad=0; N=300; exs=[]
vals=[1,2,4,8,16,value.dots(2),value.dots(4),value.dots(8),value.triplet(4),value.triplet(8)]
for it in range(N):
    c=Composition()
    for ti in range(random.randint(1,3)):
        t=Track(MidiInstrument() if random.random()<.5 else None)
        if t.instrument: t.instrument.instrument_nr=random.randint(0,127)
        t.name='trk%d'%ti
        key=random.choice(keys.major_keys+keys.minor_keys); meter=random.choice([(4,4),(3,4),(6,8),(2,2)])
        t.add_bar(Bar(key,meter))
        for _ in range(random.randint(1,12)):
            v=random.choice(vals)
            if random.random()<.3: t.add_notes(None,v)
            else:
                k=random.randint(1,3)
                nc=NoteContainer([Note(random.randint(12,100)) for _ in range(k)])
                for n in nc: n.channel=random.randint(0,15); n.velocity=random.randint(1,127)
                t.add_notes(nc,v)
        c.add_track(t)
    bpm=random.randint(4,1000)
    mo.write_Composition('/root/scratch/rt.mid',c,bpm)
    try:
        c2,bpm2=mi.MIDI_to_Composition('/root/scratch/rt.mid')
    except Exception as e:
        bad+=1; exs.append(('raise',repr(e))); continue
    ok = bpm2==bpm and len(c2.tracks)==len(c.tracks)
    why=[]
    if bpm2!=bpm: why.append(('bpm',bpm,bpm2))
    for a,b in zip(c.tracks,c2.tracks):
        if flat(a)!=flat(b): ok=False; why.append(('flat',flat(a)[:4],flat(b)[:4]))
        if a.name!=b.name: ok=False; why.append('name')
        if (a.instrument.instrument_nr if a.instrument else None)!=(b.instrument.instrument_nr if b.instrument else None): ok=False; why.append('instr')
        ka=[ (x.key.key,x.meter) for x in a.bars if len(x.bar)]; kb=[(x.key.key,x.meter) for x in b.bars if len(x.bar)]
        if set(ka)!=set(kb): ok=False; why.append(('keymeter',ka[:2],kb[:2]))
    if not ok: bad+=1; exs.append(why)
print('roundtrip bad',bad,'of',N)
for e in exs[:6]: print(e)
