namespace M
def natural : Char → Int
  | 'C' => 0 | 'D' => 2 | 'E' => 4 | 'F' => 5 | 'G' => 7 | 'A' => 9 | 'B' => 11 | _ => 0
def accOf (c : Char) : Int := if c = '#' then 1 else if c = 'b' then -1 else 0
def accVal (s : List Char) : Int := s.foldl (fun v c => v + accOf c) 0
def pc : List Char → Int
  | [] => 0
  | l :: t => (natural l + accVal t) % 12
def augment (n : List Char) : List Char := if n.getLast? ≠ some 'b' then n ++ ['#'] else n.dropLast
def diminish (n : List Char) : List Char := if n.getLast? ≠ some '#' then n ++ ['b'] else n.dropLast
def measure (a b : List Char) : Int := (pc b - pc a) % 12   -- python: res<0 → 12+res ; same as emod
/-- the while loop, with fuel -/
def fix : Nat → List Char → List Char → Int → List Char
  | 0, _, n2, _ => n2
  | f+1, n1, n2, iv =>
    let cur := measure n1 n2
    if cur = iv then n2
    else if cur > iv then fix f n1 (diminish n2) iv
    else fix f n1 (augment n2) iv

/-- canonical spelling: letter followed by |v| sharps or flats -/
def rep (l : Char) (v : Int) : List Char :=
  l :: (if v ≥ 0 then List.replicate v.toNat '#' else List.replicate (-v).toNat 'b')

theorem accVal_foldl (s : List Char) (a : Int) :
    s.foldl (fun v c => v + accOf c) a = a + accVal s := by
  induction s generalizing a with
  | nil => simp [accVal]
  | cons c t ih => simp only [List.foldl_cons, accVal]; rw [ih, ih (0 + accOf c)]; omega
theorem accVal_append (s t : List Char) : accVal (s ++ t) = accVal s + accVal t := by
  simp only [accVal, List.foldl_append]; rw [accVal_foldl]; rfl
theorem accVal_rep_sharp (k : Nat) : accVal (List.replicate k '#') = k := by
  induction k with
  | zero => simp [accVal]
  | succ k ih => rw [List.replicate_succ', accVal_append, ih]; simp [accVal, accOf]
theorem accVal_rep_flat (k : Nat) : accVal (List.replicate k 'b') = -(k:Int) := by
  induction k with
  | zero => simp [accVal]
  | succ k ih => rw [List.replicate_succ', accVal_append, ih]; simp [accVal, accOf]; omega

theorem pc_rep (l : Char) (v : Int) : pc (rep l v) = (natural l + v) % 12 := by
  unfold rep pc
  by_cases h : v ≥ 0
  · simp only [h, if_true, accVal_rep_sharp]; congr 1; omega
  · simp only [h, if_false, accVal_rep_flat]; congr 1; omega


theorem getLast_snoc (l : Char) (xs : List Char) (a : Char) : (l :: (xs ++ [a])).getLast? = some a := by
  rw [show l :: (xs ++ [a]) = (l :: xs) ++ [a] by simp, List.getLast?_append]; simp
theorem dropLast_snoc (l : Char) (xs : List Char) (a : Char) : (l :: (xs ++ [a])).dropLast = l :: xs := by
  rw [show l :: (xs ++ [a]) = (l :: xs) ++ [a] by simp, List.dropLast_concat]

theorem augment_rep (l : Char) (hl : l ≠ 'b') (v : Int) : augment (rep l v) = rep l (v+1) := by
  unfold augment rep
  by_cases h : v ≥ 0
  · have h1 : v + 1 ≥ 0 := by omega
    simp only [h, h1, if_true]
    have hne : (l :: List.replicate v.toNat '#').getLast? ≠ some 'b' := by
      cases hk : v.toNat with
      | zero => simp [hl]
      | succ k => rw [List.replicate_succ', getLast_snoc]; simp
    rw [if_pos hne]
    have : (v+1).toNat = v.toNat + 1 := by omega
    rw [this, List.replicate_succ']; simp
  · have hv : (-v).toNat = ((-(v+1)).toNat) + 1 := by omega
    simp only [h, if_false]
    rw [hv, List.replicate_succ', getLast_snoc, if_neg (by simp), dropLast_snoc]
    by_cases h1 : v + 1 ≥ 0
    · have : v = -1 := by omega
      subst this; simp
    · simp [h1]

theorem diminish_rep (l : Char) (hl : l ≠ '#') (v : Int) : diminish (rep l v) = rep l (v-1) := by
  unfold diminish rep
  by_cases h : v ≥ 1
  · have h0 : v ≥ 0 := by omega
    have h1 : v - 1 ≥ 0 := by omega
    have hv : v.toNat = (v-1).toNat + 1 := by omega
    simp only [h0, h1, if_true]
    rw [hv, List.replicate_succ', getLast_snoc, if_neg (by simp), dropLast_snoc]
  · by_cases h0 : v = 0
    · subst h0; simp [hl]
    · have hneg : ¬ v ≥ 0 := by omega
      have hneg1 : ¬ v - 1 ≥ 0 := by omega
      simp only [hneg, hneg1, if_false]
      have hne : (l :: List.replicate (-v).toNat 'b').getLast? ≠ some '#' := by
        cases hk : (-v).toNat with
        | zero => simp [hl]
        | succ k => rw [List.replicate_succ', getLast_snoc]; simp
      rw [if_pos hne]
      have : (-(v-1)).toNat = (-v).toNat + 1 := by omega
      rw [this, List.replicate_succ']; simp

/-- closed form of the correction loop started from a canonical spelling -/
theorem fix_rep (l : Char) (hb : l ≠ 'b') (hs : l ≠ '#') (n1 : List Char) (iv : Int) (hiv : 0 ≤ iv ∧ iv < 12) :
    ∀ (f : Nat) (v : Int), ((iv - measure n1 (rep l v)).natAbs ≤ f) →
      fix f n1 (rep l v) iv = rep l (v + (iv - measure n1 (rep l v))) := by
  intro f
  induction f with
  | zero =>
    intro v h
    have : iv - measure n1 (rep l v) = 0 := by omega
    simp [fix, this]
  | succ f ih =>
    intro v h
    unfold fix
    simp only
    have hm : 0 ≤ measure n1 (rep l v) ∧ measure n1 (rep l v) < 12 := by
      unfold measure; omega
    by_cases e : measure n1 (rep l v) = iv
    · simp [e]
    · rw [if_neg e]
      by_cases g : measure n1 (rep l v) > iv
      · rw [if_pos g, diminish_rep l hs]
        have hm' : measure n1 (rep l (v-1)) = measure n1 (rep l v) - 1 := by
          have hp := pc_rep l v; have hp' := pc_rep l (v-1)
          unfold measure at *; omega
        rw [ih (v-1) (by rw [hm']; omega), hm']; congr 1; omega
      · rw [if_neg g, augment_rep l hb]
        have hm' : measure n1 (rep l (v+1)) = measure n1 (rep l v) + 1 := by
          have hp := pc_rep l v; have hp' := pc_rep l (v+1)
          unfold measure at *; omega
        rw [ih (v+1) (by rw [hm']; omega), hm']; congr 1; omega
end M
