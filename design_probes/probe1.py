import sys, traceback
sys.path.insert(0,'/repo')
from mingus.core import notes, intervals, keys, scales, chords, progressions, value, meter
def t(label, f):
    try:
        print(label, '->', repr(f()))
    except Exception as e:
        print(label, 'RAISES', type(e).__name__, e)
t("det C C## short", lambda: intervals.determine('C','C##',True))
t("from_sh C ##1", lambda: intervals.from_shorthand('C','##1'))
t("det C Cbb short", lambda: intervals.determine('C','Cbb',True))
t("det C Cbbb short", lambda: intervals.determine('C','Cbbb',True))
t("degree d", lambda: scales.Major('C').degree(2,'d'))
t("meaning-not-constructible", lambda: sorted(set(chords.chord_shorthand_meaning)-set(chords.chord_shorthand)))
t("constructible-no-meaning", lambda: sorted(set(chords.chord_shorthand)-set(chords.chord_shorthand_meaning)))
t("vii7", lambda: chords.vii7('C'))
t("determine 5-chord 4th inv long", lambda: chords.determine(chords.invert(chords.invert(chords.invert(chords.invert(chords.from_shorthand('C9'))))), False))
t("determine M11-like", lambda: chords.determine(['C','E','G','B','D','F'], False))
t("determine M11-like sh", lambda: chords.determine(['C','E','G','B','D','F'], True))
t("value.determine 3.96", lambda: value.determine(3.96))
t("value.determine 4.04", lambda: value.determine(4.04))
import math
t("log(128,128)", lambda: [ (k, math.log(128**k,128), int(math.log(128**k,128))) for k in range(1,5)])
t("log(128^k-1,128)", lambda: [ (k, int(math.log(128**k-1,128))) for k in range(1,5)])
p=['I','IV','V']
t("substitute depth1", lambda: (progressions.substitute(p,0,1), p))
x=chords.tonic('C'); x.append('Z')
t("tonic after append", lambda: chords.tonic('C'))
