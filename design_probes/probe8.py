import sys
sys.path.insert(0,'/repo')
from mingus.containers import Note, NoteContainer, Bar, Track, Composition, Suite
from mingus.containers.instrument import Instrument
a=NoteContainer(['C','E']); b=NoteContainer(a); b.augment(); print('nc copy shares notes:', a, b)
n=Note('C'); m=Note(n); m.augment(); print(n,m)
s1=Suite(); s2=Suite(); s1.add_composition(Composition()); print('suite shared', len(s2), len(Suite.compositions))
r=['C-0','C-8']; Instrument().set_range(r); print('set_range arg', r)
t=Track(); print(t.add_notes('C',0.5), len(t))
t=Track(); t.add_notes('C',4/3.0); print(t.from_chords([None],2) and None, [ (x[0],x[1],x[2]) for x in t.get_notes()])
from mingus.midi.sequencer import Sequencer
from mingus.containers.instrument import MidiInstrument
class R(Sequencer):
    def instr_event(self,c,i,b): print('instr',c,i,b)
tr=Track(MidiInstrument()); tr.instrument.instrument_nr=13; tr.add_notes('C',4)
R().play_Tracks([tr],[1])
