import sys, itertools, collections
sys.path.insert(0,'/repo')
from fractions import Fraction
from mingus.core import value
from mingus.containers import Note, NoteContainer, Bar, Track, Composition, Suite
from mingus.containers.instrument import Instrument, Piano, Guitar, MidiInstrument
# C13: fills to capacity
vals=[]
for b in value.base_values:
    for d in range(0,3):
        vals.append(('dots',b,d,value.dots(b,d) if d else b))
    for (r1,r2) in ((3,2),(5,4),(7,4)):
        vals.append(('tup',b,(r1,r2),value.tuplet(b,r1,r2)))
def frac(kind,b,p):
    B=Fraction(b)
    if kind=='dots':
        # length = 1/b * (2 - 1/2^d)
        L=(1/B)*(2-Fraction(1,2**p))
    else:
        L=(1/B)*Fraction(p[1],p[0])
    return L
bad=[]
for meterr in [(4,4),(3,4),(6,8),(12,8),(2,2),(5,4),(7,8)]:
    cap=Fraction(meterr[0],meterr[1])
    for (kind,b,p,v) in vals:
        L=frac(kind,b,p)
        n=cap/L
        if n.denominator!=1 or n>400: continue
        bar=Bar('C',meterr)
        for i in range(int(n)):
            ok=bar.place_notes('C',v)
            if not ok:
                bad.append((meterr,kind,b,p,i+1,int(n))); break
        else:
            if not bar.is_full(): bad.append((meterr,kind,b,p,'notfull'))
            if bar.place_notes('C',v): bad.append((meterr,kind,b,p,'overfull accepted'))
print('C13 capacity bad',len(bad)); 
for x in bad[:30]: print(x)
# C14 rest with instrument
t=Track(Piano())
try: print(t.add_notes(None,4))
except Exception as e: print('rest+instr raises',type(e).__name__,e)
