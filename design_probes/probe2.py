import sys, itertools, collections
sys.path.insert(0,'/repo')
from mingus.core import notes, intervals, keys, scales, chords, progressions, value, meter
roots=[l+a for l in 'CDEFGAB' for a in ['','#','b','##','bb']]
fails=collections.Counter(); ex={}
for sh in chords.chord_shorthand:
    for r in roots:
        ch=chords.from_shorthand(r+sh)
        if len(ch)<3: continue
        rot=list(ch)
        for k in range(len(ch)):
            for short in (True,False):
                try:
                    res=chords.determine(list(rot),short)
                except Exception as e:
                    fails[(sh,'raise',short,k,type(e).__name__)]+=1; ex.setdefault((sh,'raise',short,k),(r,rot[:]))
                    continue
                if short:
                    ok=False
                    for name in res:
                        try:
                            if chords.from_shorthand(name)==ch: ok=True
                        except Exception as e:
                            fails[(sh,'badname',name[len(r):])]+=1
                    if not ok:
                        fails[(sh,'notfound',k)]+=1; ex.setdefault((sh,'notfound',k),(r,rot[:],res))
            rot=rot[1:]+rot[:1]
for k,v in sorted(fails.items(), key=str): print(k,v, ex.get(k[:4]) or ex.get(k[:3]))
