import sys, itertools, collections
sys.path.insert(0,'/repo')
from mingus.core import notes, intervals, keys, scales, chords
L='CDEFGAB'
def pcs(l): return [notes.note_to_int(x) for x in l]
def steps(l): p=pcs(l); return [ (b-a)%12 for a,b in zip(p,p[1:])]
names=[l+a for l in L for a in ['','#','b','##','bb']]
pat={'Ionian':[2,2,1,2,2,2,1],'Dorian':[2,1,2,2,2,1,2],'Phrygian':[1,2,2,2,1,2,2],'Lydian':[2,2,2,1,2,2,1],'Mixolydian':[2,2,1,2,2,1,2],'Aeolian':[2,1,2,2,1,2,2],'Locrian':[1,2,2,1,2,2,2],
'Major':[2,2,1,2,2,2,1],'HarmonicMajor':[2,2,1,2,1,3,1],'NaturalMinor':[2,1,2,2,1,2,2],'HarmonicMinor':[2,1,2,2,1,3,1],'MelodicMinor':[2,1,2,2,2,2,1],'Bachian':[2,1,2,2,2,2,1],'MinorNeapolitan':[1,2,2,2,1,3,1],
'WholeTone':[2]*6,'Octatonic':[2,1]*4,'Chromatic':[1]*12}
bad=collections.Counter(); ex={}
for cname,p in pat.items():
    cls=getattr(scales,cname)
    if cname in ('Major','HarmonicMajor'): tonics=keys.major_keys
    elif cname in ('NaturalMinor','HarmonicMinor','MelodicMinor','Bachian','MinorNeapolitan'): tonics=[keys.get_notes(k)[0] for k in keys.minor_keys]
    elif cname=='Chromatic': tonics=keys.major_keys+keys.minor_keys
    else: tonics=names
    for t in tonics:
        for n in (1,2,3):
            try:
                s=cls(t,n); a=s.ascending(); d=s.descending()
            except Exception as e:
                bad[(cname,'raise',type(e).__name__)]+=1; ex.setdefault((cname,'raise'),(t,n,str(e))); continue
            if steps(a)!=p*n: bad[(cname,'asc')]+=1; ex.setdefault((cname,'asc'),(t,n,a))
            if a[0]!=a[-1] or (cname!='Chromatic' and a[0]!=t): bad[(cname,'ends')]+=1
            if len(p)==7 and [x[0] for x in a[:7]]!=[L[(L.index(a[0][0])+i)%7] for i in range(7)]: bad[(cname,'letters')]+=1
            if cname not in('MelodicMinor','MinorNeapolitan','Chromatic') and d!=a[::-1]: bad[(cname,'desc')]+=1
            if cname=='Chromatic' and [ (x-y)%12 for x,y in zip(pcs(d),pcs(d)[1:])]!=[1]*12*n: bad[(cname,'descsteps')]+=1; ex.setdefault((cname,'descsteps'),(t,n,d))
print('C05',dict(bad)); print(ex)
# C20 find_fingering vs brute force
from mingus.extra import tunings
from mingus.containers import Note
import random
random.seed(1)
allt=tunings.get_tunings()
print('tunings',len(allt))
badf=0; cnt=0
for t in random.sample(allt,25):
    opens=[int(x[0]) if isinstance(x,list) else int(x) for x in t.tuning]
    for _ in range(30):
        k=random.randint(1,min(3,len(opens)))
        ns=[Note(random.randint(min(opens),max(opens)+12)) for _ in range(k)]
        res=t.find_fingering(ns)
        spec=[]
        for perm in itertools.permutations(range(len(opens)),k):
            f=[]
            ok=True
            for s,n in zip(perm,ns):
                d=int(n)-opens[s]
                if 0<=d<=24: f.append((s,d))
                else: ok=False;break
            if not ok: continue
            nz=[x for _,x in f if x!=0]
            mx=max([x for _,x in f]); 
            if not nz or 0<=max(x for _,x in f)-min(nz)<4: spec.append(f)
        cnt+=1
        if sorted(map(tuple,res))!=sorted(map(tuple,spec)) or [sum(x for _,x in r) for r in res]!=sorted(sum(x for _,x in r) for r in res):
            badf+=1
            if badf<4: print('FF',t.instrument,t.description,ns,res[:3],spec[:3])
print('find_fingering bad',badf,'of',cnt)
