import Mathlib.Analysis.SpecialFunctions.Log.Base
import Mathlib.Analysis.SpecialFunctions.Pow.Real
open Real
-- to_hertz n sp = 2^((n-57)/12) * sp ; from_hertz value = (logb 2 (hz*1024/sp) + 1/24)*12 + 9
noncomputable def toHz (n : ℤ) (sp : ℝ) : ℝ := (2:ℝ) ^ (((n:ℝ) - 57) / 12) * sp
noncomputable def fromVal (hz sp : ℝ) : ℝ := (logb 2 (hz * 1024 / sp) + 1/24) * 12 + 9
theorem fromVal_toHz (n : ℤ) (sp : ℝ) (h : 0 < sp) : fromVal (toHz n sp) sp = (n:ℝ) + 72 + 1/2 := by
  unfold fromVal toHz
  have h2 : (0:ℝ) < 2 := by norm_num
  have : (2:ℝ) ^ (((n:ℝ) - 57) / 12) * sp * 1024 / sp = (2:ℝ) ^ (((n:ℝ) - 57) / 12) * 1024 := by
    field_simp
  rw [this]
  have hp : (0:ℝ) < (2:ℝ) ^ (((n:ℝ) - 57) / 12) := rpow_pos_of_pos h2 _
  rw [logb_mul (ne_of_gt hp) (by norm_num)]
  rw [logb_rpow h2 (by norm_num)]
  have : logb 2 (1024:ℝ) = 10 := by
    rw [show (1024:ℝ) = (2:ℝ)^(10:ℝ) by norm_num]
    exact logb_rpow h2 (by norm_num)
  rw [this]; ring
