import sys
sys.path.insert(0,'/repo')
from mingus.core import value
from mingus.containers import Note, NoteContainer, Bar, Track, Composition
from mingus.extra import lilypond as ly, tablature as tab
b=Bar('f#',(6,8)); b.place_notes('C',value.triplet(8)); b.place_notes(['E','G'],value.triplet(8)); b.place_rest(value.triplet(8)); b.place_notes('Bbb',value.dots(8)); b.place_notes('A##',16); b.place_rest(0.5)
print(ly.from_Bar(b))
b2=Bar('C',(4,4)); b2.place_notes('C',0.25)
print(ly.from_Bar(b2)); 
t=Track(); t.add_bar(Bar('C',(4,4))); t.add_bar(b); t.add_bar(Bar('f#',(6,8))); t.add_bar(Bar('Gb',(3,4)))
print(ly.from_Track(t))
print(ly.from_Note(Note('Cb',0)), ly.from_Note(Note('C',3)), ly.from_Note(Note('C',9)))
c=Composition(); c.set_title('T "q"','sub'); c.set_author('A\\B'); c.add_track(t); print(ly.from_Composition(c)[:120])
bb=Bar(); bb.place_notes(['E-2','B-2','E-3'],4); bb.place_rest(8); bb.place_notes('A-4',8); bb.place_notes(Note('E',5),2)
print(tab.from_Bar(bb,40)); print(tab.from_Bar(bb,25));
print(tab.from_NoteContainer(NoteContainer(['E-2','B-2','E-3']),30))
print(tab.from_Note(Note('F',5),30))
