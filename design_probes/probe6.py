import sys
sys.path.insert(0,'/repo')
from mingus.containers import Note, NoteContainer, Bar, Track, Composition
from mingus.midi.sequencer import Sequencer
class Rec(Sequencer):
    def init(self): self.ev=[]
    def play_event(self,n,c,v): self.ev.append(('on',n,c,v))
    def stop_event(self,n,c): self.ev.append(('off',n,c))
    def sleep(self,s): self.ev.append(('sleep',round(s,6)))
    def instr_event(self,c,i,b): self.ev.append(('instr',c,i,b))
b1=Bar(); b1.place_notes('C',2); b1.place_notes('E',2)
b2=Bar(); [b2.place_notes(n,4) for n in ['G','A','B','D']]
r=Rec(); print(r.play_Bars([b1,b2],[1,2],120)); print(r.ev)
b3=Bar(); b3.place_notes('C',4); b3.place_rest(4); b3.place_notes('E',2)
r=Rec(); print(r.play_Bar(b3,1,120)); print(r.ev)
# C19
from mingus.extra import lilypond, musicxml, tablature
b=Bar('Eb',(3,4)); b.place_notes(['C','E','G'],4); b.place_notes('D',8/3.0); 
print(lilypond.from_Bar(b))
print(musicxml.from_Bar(b)[:1800])
try: print(musicxml.from_Bar(Bar()))
except Exception as e: print('empty bar raises',type(e).__name__,e)
t=Track(); t.add_notes('E',4); t.add_notes('A',4)
try: print(tablature.from_Track(t))
except Exception as e: print('tab track raises',type(e).__name__,e)
print(tablature.from_Bar(t[0],40))
