-- Root of the `Mingus` library: importing everything makes `lake build Mingus` (MANIFEST.setup_cmd) build every
-- model, lemma, property and tie module.
import Mingus.Model.Dispatch
import Mingus.Props.C01
import Mingus.Props.C02
import Mingus.Props.C03
import Mingus.Props.C04
import Mingus.Props.C05
import Mingus.Props.C06
import Mingus.Props.C07
import Mingus.Props.C07Forms
import Mingus.Props.C08
import Mingus.Props.C09
import Mingus.Props.C10
import Mingus.Props.C10Hz
import Mingus.Props.C12
import Mingus.Tie.C01
import Mingus.Tie.C02
import Mingus.Tie.C03
import Mingus.Tie.C04
import Mingus.Tie.C05
import Mingus.Tie.C06
import Mingus.Tie.C07
import Mingus.Tie.C08
import Mingus.Tie.C09
import Mingus.Tie.C10
import Mingus.Tie.C12
