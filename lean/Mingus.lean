import Mingus.Model.Basic
import Mingus.Model.Notes
