import Mingus.Model.Dispatch
open Mingus

partial def loop (h : IO.FS.Stream) (out : IO.FS.Stream) : IO Unit := do
  let line ← h.getLine
  if line.isEmpty then return ()
  out.putStrLn (runLine line)
  loop h out

def main : IO Unit := do
  let stdin ← IO.getStdin
  let stdout ← IO.getStdout
  loop stdin stdout
