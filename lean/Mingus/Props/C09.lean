import Mingus.Model.Value
import Mathlib.Tactic.Linarith
import Mathlib.Tactic.NormNum
import Mathlib.Tactic.Ring
import Mathlib.Tactic.FieldSimp
import Mathlib.Tactic.IntervalCases
import Mathlib.Algebra.Order.Field.Rat
/-
  C09 — note-value analysis inverts note-value construction; meter predicates are total.
  `determine` is modelled over exact rationals (which is exactly the float function, see Model/Value.lean).
-/
namespace Mingus.Props.C09
open Mingus Mingus.Value

/-! ### Analysis inverts construction on the whole vocabulary (kernel evaluation over exact rationals) -/
theorem determine_dotted : ∀ b ∈ baseValues, ∀ n ∈ List.range 5, determine (dotsF b n) = .ok (b, n, 1, 1) := by
  decide +kernel
theorem determine_tuplets : ∀ b ∈ baseValues,
    determine (tuplet b 3 2) = .ok (b, 0, 3, 2) ∧ determine (tuplet b 5 4) = .ok (b, 0, 5, 4) ∧
    determine (tuplet b 7 4) = .ok (b, 0, 7, 4) := by decide +kernel

/-- the doubles used for dotted values are the correctly rounded quotients: within 2^-53 relative of the exact value -/
theorem dotConst_close : ∀ n ∈ List.range 5,
    let exact : Rat := (1 : Rat) / 2 / (1 - 1 / (2 : Rat) ^ (n + 1))
    let c := dotConst.getD n 0
    (c - exact) * 9007199254740992 ≤ exact ∧ (exact - c) * 9007199254740992 ≤ exact := by decide +kernel

/-! ### Values within 1 % of an undotted or single-dotted value (unbounded: every rational in the interval) -/
theorem findIdx_of_bracket (q : Rat) (k : Nat) (hk : k < baseValues.length)
    (h1 : q < baseValues[k]) (h0 : ∀ j (hj : j < k), ¬ q < baseValues[j]'(by omega)) :
    baseValues.findIdx? (fun v => decide (q < v)) = some k := by
  rw [List.findIdx?_eq_some_iff_getElem]
  exact ⟨hk, by simpa using h1, fun j hj => by simpa using h0 j hj⟩

/-- generic facts about the if/elif chain -/
theorem classify_base (v : Rat) (i : Int) (sc : Rat) (h : (15 : Rat) / 16 ≤ sc) : classify v i sc = .ok (v, 0, 1, 1) := by
  simp [classify, thrBase, h]

theorem classify_dotted (v : Rat) (i : Int) (sc : Rat) (h1 : (65 : Rat) / 100 ≤ sc) (h2 : sc ≤ 7 / 10) :
    classify v i sc = .ok (v, 1, 1, 1) := by
  have a1 : ¬ sc ≥ thrBase := by unfold thrBase; intro h; linarith
  have a2 : ¬ sc ≥ thrSeptuplet := by unfold thrSeptuplet; intro h; linarith
  have a3 : ¬ sc ≥ thrTriplet := by unfold thrTriplet; intro h; norm_num at h; linarith
  have a4 : sc ≥ thrDotted := by unfold thrDotted; norm_num; linarith
  simp only [classify, a1, a2, a3, a4, if_false, if_true]

theorem classify_low (v : Rat) (i : Int) (sc : Rat) (h1 : (1 : Rat) / 2 < sc) (h2 : sc ≤ 51 / 100) :
    classify v i sc = (baseAt (i + 1)).map fun b => (b, 0, 1, 1) := by
  have a1 : ¬ sc ≥ thrBase := by unfold thrBase; intro h; linarith
  have a2 : ¬ sc ≥ thrSeptuplet := by unfold thrSeptuplet; intro h; linarith
  have a3 : ¬ sc ≥ thrTriplet := by unfold thrTriplet; intro h; norm_num at h; linarith
  have a4 : ¬ sc ≥ thrDotted := by unfold thrDotted; intro h; norm_num at h; linarith
  have a5 : ¬ sc ≥ thrQuintuplet := by unfold thrQuintuplet; intro h; norm_num at h; linarith
  have a6 : dotFingerprints.find? (fun r => sc == r.2) = none := by
    simp only [dotFingerprints, List.find?_cons, List.find?_nil]
    have e1 : (sc == (2573485501354569 : Rat) / 4503599627370496) = false := by
      simp only [beq_eq_false_iff_ne]; intro h; rw [h] at h2; norm_num at h2
    have e2 : (sc == (4803839602528529 : Rat) / 9007199254740992) = false := by
      simp only [beq_eq_false_iff_ne]; intro h; rw [h] at h2; norm_num at h2
    have e3 : (sc == (1162219258676257 : Rat) / 2251799813685248) = false := by
      simp only [beq_eq_false_iff_ne]; intro h; rw [h] at h2; norm_num at h2
    simp only [e1, e2, e3]
  simp only [classify, a1, a2, a3, a4, a5, a6, if_false]

theorem determine_bracket (q : Rat) (k : Nat) (hk : k < 10) (hne : ∀ b ∈ baseValues, q ≠ b)
    (h1 : q < baseValues.getD k 0) (h0 : ∀ j, j < k → baseValues.getD j 0 ≤ q) :
    determine q = classify (baseValues.getD k 0) ((k : Int) - 2) (q / pow2 ((k : Int) - 2)) := by
  have hlen : baseValues.length = 10 := rfl
  have hmem : baseValues.contains q = false := by
    rw [Bool.eq_false_iff]; intro h
    exact hne q (List.contains_iff_mem.1 h) rfl
  have hget : ∀ j (hj : j < baseValues.length), baseValues[j] = baseValues.getD j 0 := by
    intro j hj; simp [List.getD, List.getElem?_eq_getElem hj]
  have hf : baseValues.findIdx? (fun v => decide (q < v)) = some k := by
    apply findIdx_of_bracket q k (by omega)
    · rw [hget]; exact h1
    · intro j hj; rw [hget]; exact not_lt.2 (h0 j hj)
  have hg : baseValues[k]? = some (baseValues.getD k 0) := by
    rw [List.getElem?_eq_getElem (by omega), hget]
  unfold determine
  simp only [hmem, Bool.false_eq_true, if_false, hf, Option.getD_some, hg]

theorem determine_above (q : Rat) (h : 128 < q) : determine q = classify 128 8 (q / pow2 8) := by
  have hmem : baseValues.contains q = false := by
    rw [Bool.eq_false_iff]; intro hc
    have := List.contains_iff_mem.1 hc
    simp only [baseValues, List.mem_cons, List.mem_nil_iff, or_false] at this
    rcases this with e | e | e | e | e | e | e | e | e | e <;> (rw [e] at h; norm_num at h)
  have hf : baseValues.findIdx? (fun v => decide (q < v)) = none := by
    rw [List.findIdx?_eq_none_iff]
    intro v hv
    simp only [baseValues, List.mem_cons, List.mem_nil_iff, or_false] at hv
    rcases hv with e | e | e | e | e | e | e | e | e | e <;> (subst e; simp; linarith)
  unfold determine
  simp only [hmem, Bool.false_eq_true, if_false, hf, Option.getD_none]
  rfl

/-- a value within 1 % of an undotted base value is analysed as that value — every rational in the interval -/
theorem near_base (q b : Rat) (hb : b ∈ baseValues) (h : |q - b| ≤ b / 100) : determine q = .ok (b, 0, 1, 1) := by
  rw [abs_le] at h
  obtain ⟨hlo, hhi⟩ := h
  have key : ∀ m : Nat, m < 10 → b = baseValues.getD m 0 → determine q = .ok (b, 0, 1, 1) := by
    intro m hm hbm
    rcases lt_trichotomy q b with hlt | heq | hgt
    · -- just below: the loop breaks at b itself
      have hne : ∀ b' ∈ baseValues, q ≠ b' := by
        intro b' hb' e
        simp only [baseValues, List.mem_cons, List.mem_nil_iff, or_false] at hb'
        interval_cases m <;> simp [baseValues] at hbm <;> subst hbm <;>
          rcases hb' with e' | e' | e' | e' | e' | e' | e' | e' | e' | e' <;> (subst e'; subst e; exfalso; linarith)
      rw [determine_bracket q m hm hne (by rw [← hbm]; exact hlt)
        (by intro j hj; interval_cases m <;> simp [baseValues] at hbm <;> subst hbm <;>
              interval_cases j <;> (try simp [baseValues]) <;> (try linarith))]
      rw [← hbm]
      apply classify_base
      interval_cases m <;> simp [baseValues] at hbm <;> subst hbm <;> (try simp [pow2]) <;> (try norm_num) <;> (try linarith)
    · subst heq
      interval_cases m <;> simp [baseValues] at hbm <;> subst hbm <;> decide +kernel
    · -- just above: the loop breaks at the next base value (or not at all above 128)
      by_cases h9 : m = 9
      · subst h9
        simp [baseValues] at hbm; subst hbm
        rw [determine_above q hgt, classify_low 128 8 _ (by simp [pow2]; norm_num; linarith) (by simp [pow2]; norm_num; linarith)]
        decide +kernel
      · have hm1 : m + 1 < 10 := by omega
        have hne : ∀ b' ∈ baseValues, q ≠ b' := by
          intro b' hb' e
          simp only [baseValues, List.mem_cons, List.mem_nil_iff, or_false] at hb'
          interval_cases m <;> simp [baseValues] at hbm <;> subst hbm <;>
            rcases hb' with e' | e' | e' | e' | e' | e' | e' | e' | e' | e' <;> (subst e'; subst e; exfalso; linarith)
        rw [determine_bracket q (m + 1) hm1 hne
          (by interval_cases m <;> simp [baseValues] at hbm <;> subst hbm <;> (try simp [baseValues]) <;> (try linarith))
          (by intro j hj; interval_cases m <;> simp [baseValues] at hbm <;> subst hbm <;>
                interval_cases j <;> (try simp [baseValues]) <;> (try linarith))]
        rw [classify_low _ _ _
          (by interval_cases m <;> simp [baseValues] at hbm <;> subst hbm <;> (try simp [pow2]) <;> (try norm_num) <;> (try linarith))
          (by interval_cases m <;> simp [baseValues] at hbm <;> subst hbm <;> (try simp [pow2]) <;> (try norm_num) <;> (try linarith))]
        interval_cases m <;> simp [baseValues] at hbm <;> subst hbm <;> decide +kernel
  obtain ⟨m, hm, e⟩ : ∃ m, m < 10 ∧ b = baseValues.getD m 0 := by
    simp only [baseValues, List.mem_cons, List.mem_nil_iff, or_false] at hb
    rcases hb with e | e | e | e | e | e | e | e | e | e
    exacts [⟨0, by omega, e⟩, ⟨1, by omega, e⟩, ⟨2, by omega, e⟩, ⟨3, by omega, e⟩, ⟨4, by omega, e⟩, ⟨5, by omega, e⟩,
      ⟨6, by omega, e⟩, ⟨7, by omega, e⟩, ⟨8, by omega, e⟩, ⟨9, by omega, e⟩]
  exact key m hm e

/-- a value within 1 % of a single-dotted value (exactly two thirds of a base value) is analysed as that dotted value -/
theorem near_dotted (q b : Rat) (hb : b ∈ baseValues) (h : |q - b * 2 / 3| ≤ b * 2 / 3 / 100) :
    determine q = .ok (b, 1, 1, 1) := by
  rw [abs_le] at h
  obtain ⟨hlo, hhi⟩ := h
  have key : ∀ m : Nat, m < 10 → b = baseValues.getD m 0 → determine q = .ok (b, 1, 1, 1) := by
    intro m hm hbm
    have hne : ∀ b' ∈ baseValues, q ≠ b' := by
      intro b' hb' e
      simp only [baseValues, List.mem_cons, List.mem_nil_iff, or_false] at hb'
      interval_cases m <;> simp [baseValues] at hbm <;> subst hbm <;>
        rcases hb' with e' | e' | e' | e' | e' | e' | e' | e' | e' | e' <;> (subst e'; subst e; exfalso; linarith)
    rw [determine_bracket q m hm hne
      (by interval_cases m <;> simp [baseValues] at hbm <;> subst hbm <;> (try simp [baseValues]) <;> (try linarith))
      (by intro j hj; interval_cases m <;> simp [baseValues] at hbm <;> subst hbm <;>
            interval_cases j <;> (try simp [baseValues]) <;> (try linarith))]
    rw [← hbm]
    apply classify_dotted
    · interval_cases m <;> simp [baseValues] at hbm <;> subst hbm <;> (try simp [pow2]) <;> (try norm_num) <;> (try linarith)
    · interval_cases m <;> simp [baseValues] at hbm <;> subst hbm <;> (try simp [pow2]) <;> (try norm_num) <;> (try linarith)
  obtain ⟨m, hm, e⟩ : ∃ m, m < 10 ∧ b = baseValues.getD m 0 := by
    simp only [baseValues, List.mem_cons, List.mem_nil_iff, or_false] at hb
    rcases hb with e | e | e | e | e | e | e | e | e | e
    exacts [⟨0, by omega, e⟩, ⟨1, by omega, e⟩, ⟨2, by omega, e⟩, ⟨3, by omega, e⟩, ⟨4, by omega, e⟩, ⟨5, by omega, e⟩,
      ⟨6, by omega, e⟩, ⟨7, by omega, e⟩, ⟨8, by omega, e⟩, ⟨9, by omega, e⟩]
  exact key m hm e

/-! ### add / subtract are inverse and are addition / subtraction of the durations (reciprocals) -/
theorem add_is_duration_sum (a b : Rat) (ha : a ≠ 0) (hb : b ≠ 0) (hs : 1 / a + 1 / b ≠ 0) :
    1 / add a b = 1 / a + 1 / b := by
  unfold add; field_simp
theorem subtract_is_duration_difference (a b : Rat) (ha : a ≠ 0) (hb : b ≠ 0) (hs : 1 / a - 1 / b ≠ 0) :
    1 / subtract a b = 1 / a - 1 / b := by
  unfold subtract; field_simp
theorem add_sub_inverse (a b : Rat) (ha : a ≠ 0) (hb : b ≠ 0) (hs : 1 / a + 1 / b ≠ 0) :
    subtract (add a b) b = a := by
  unfold subtract
  rw [add_is_duration_sum a b ha hb hs]
  have : 1 / a + 1 / b - 1 / b = 1 / a := by ring
  rw [this]; field_simp
/-- the tuplet helpers are the general ratio formula -/
theorem tuplet_formula (v : Rat) (r1 r2 : Nat) : tuplet v r1 r2 = r1 * v / r2 := rfl

/-! ### meter predicates: total, and valid exactly for the powers of two -/
theorem halve_iff (f n : Nat) (hf : n ≤ f) : halve f n = true ↔ ∃ k : Nat, n = 2 ^ k := by
  induction f generalizing n with
  | zero =>
    have : n = 0 := by omega
    subst this
    simp only [halve]
    constructor
    · intro h; simp at h
    · rintro ⟨k, hk⟩; exact absurd hk.symm (by positivity)
  | succ f ih =>
    simp only [halve]
    by_cases h1 : n > 1
    · simp only [h1, if_true]
      by_cases h2 : n % 2 = 0
      · have : (n % 2 != 0) = false := by simp [h2]
        simp only [this, Bool.false_eq_true, if_false]
        rw [ih (n / 2) (by omega)]
        constructor
        · rintro ⟨k, hk⟩; exact ⟨k + 1, by rw [pow_succ]; omega⟩
        · rintro ⟨k, hk⟩
          cases k with
          | zero => omega
          | succ k => exact ⟨k, by rw [pow_succ] at hk; omega⟩
      · have : (n % 2 != 0) = true := by simp; omega
        simp only [this, if_true]
        constructor
        · intro h; cases h
        · rintro ⟨k, hk⟩
          cases k with
          | zero => omega
          | succ k => rw [pow_succ] at hk; omega
    · simp only [h1, if_false]
      constructor
      · intro h; exact ⟨0, by simpa using h⟩
      · rintro ⟨k, hk⟩
        cases k with
        | zero => simpa using hk
        | succ k => have : 2 ^ (k + 1) ≥ 2 := by rw [pow_succ]; have := Nat.one_le_two_pow (n := k); omega
                    omega

/-- every numeric input gets an answer (the definition is total: structural recursion with fuel, no partiality),
    and the answer is `true` exactly for 1, 2, 4, 8, … -/
theorem validBeat_iff (q : Rat) : validBeat (.rat q) = true ↔ ∃ k : Nat, q = (2 : Rat) ^ k := by
  unfold validBeat
  by_cases h0 : q = 0
  · simp only [h0, if_true]
    constructor
    · intro h; cases h
    · rintro ⟨k, hk⟩; exact absurd hk.symm (by positivity)
  · by_cases h1 : q = 1
    · simp only [h1, if_true]
      constructor
      · intro _; exact ⟨0, by simp⟩
      · intro _; simp
    · simp only [h0, h1, if_false]
      by_cases hgt : q > 1
      · simp only [hgt, if_true]
        by_cases hd : q.den = 1
        · simp only [hd, if_true]
          have hq : q = (q.num : Rat) := by
            have := Rat.num_div_den q; rw [hd] at this; simpa using this.symm
          have hpos : 0 < q.num := by
            have : (0 : Rat) < q := by linarith
            exact Rat.num_pos.2 this
          rw [halve_iff _ _ (le_refl _)]
          constructor
          · rintro ⟨k, hk⟩
            refine ⟨k, ?_⟩
            rw [hq]
            have : (q.num : Int) = ((2 ^ k : Nat) : Int) := by rw [← hk]; omega
            rw [this]; push_cast; rfl
          · rintro ⟨k, hk⟩
            refine ⟨k, ?_⟩
            have : (q.num : Rat) = ((2 ^ k : Nat) : Rat) := by rw [← hq, hk]; push_cast; rfl
            have h2 : q.num = ((2 ^ k : Nat) : Int) := by exact_mod_cast this
            omega
        · simp only [hd, if_false]
          constructor
          · intro h; cases h
          · rintro ⟨k, hk⟩
            exfalso; apply hd
            rw [hk]
            have : ((2 : Rat) ^ k) = ((2 ^ k : Nat) : Rat) := by push_cast; rfl
            rw [this]; exact Rat.den_natCast _
      · simp only [hgt, if_false]
        constructor
        · intro h; cases h
        · rintro ⟨k, hk⟩
          exfalso
          cases k with
          | zero => exact h1 (by simpa using hk)
          | succ k =>
            apply hgt; rw [hk]
            have : (1 : Rat) ≤ 2 ^ k := one_le_pow₀ (by norm_num)
            rw [pow_succ]; linarith

theorem validBeat_special : validBeat .nan = false ∧ validBeat .posInf = false ∧ validBeat .negInf = false :=
  ⟨rfl, rfl, rfl⟩

/-- valid: positive count and a power-of-two beat unit; compound: valid, divisible by 3, at least 6; asymmetrical: valid, odd -/
theorem meter_predicates (c : Int) (b : Num) :
    (isValid c b = true ↔ (c > 0 ∧ validBeat b = true)) ∧
    (isCompound c b = true ↔ (c > 0 ∧ validBeat b = true ∧ c % 3 = 0 ∧ 6 ≤ c)) ∧
    (isAsymmetrical c b = true ↔ (c > 0 ∧ validBeat b = true ∧ c % 2 = 1)) := by
  simp only [isValid, isCompound, isAsymmetrical, Bool.and_eq_true, decide_eq_true_eq, beq_iff_eq]
  refine ⟨?_, ?_, ?_⟩ <;> constructor <;> intro h <;> simp_all

/-- non-vacuity -/
example : determine (396 / 100) = .ok (4, 0, 1, 1) := by decide +kernel
example : determine (dotsF 8 3) = .ok (8, 3, 1, 1) := by decide +kernel
example : validBeat (.rat (1 / 2)) = false ∧ validBeat (.rat 1024) = true ∧ validBeat (.rat 6) = false := by decide +kernel

end Mingus.Props.C09
