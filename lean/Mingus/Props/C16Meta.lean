import Mingus.Props.C16
import Mathlib.Data.List.Nodup
/-
  C16 — the remaining clauses: per-bar time and key signatures, all 30 keys, tempo, track name, bank select and program
  change on the first note's channel, tick lengths, lone notes and containers, and "no note hangs or overlaps itself".
-/
namespace Mingus.Props.C16
open Mingus Mingus.Midi Mingus.Containers

/-! ### what kinds of events an entry writes -/

theorem specEntry_kinds (s : S) (e : MEntry) : ∀ x ∈ (specEntry s e).1,
    (∃ n, x.ev = onEv n) ∨ (∃ n, x.ev = offEv n) ∨ (∃ n, x.ev = bankEv n) ∨ (∃ n, x.ev = progEv n s.instr) := by
  unfold specEntry
  cases e.notes with
  | nil => simp
  | cons n rest =>
    intro x hx
    simp only [List.mem_append, List.mem_cons, List.mem_map] at hx
    rcases hx with (hx | hx | ⟨m, _, rfl⟩) | hx | ⟨m, _, rfl⟩
    · cases hci : s.ci with
      | false => simp [hci] at hx
      | true =>
        simp only [hci, if_true, List.mem_cons, List.mem_nil_iff, or_false] at hx
        rcases hx with rfl | rfl
        · exact Or.inr (Or.inr (Or.inl ⟨n, rfl⟩))
        · exact Or.inr (Or.inr (Or.inr ⟨n, rfl⟩))
    · subst hx; exact Or.inl ⟨n, rfl⟩
    · exact Or.inl ⟨m, rfl⟩
    · subst hx; exact Or.inr (Or.inl ⟨n, rfl⟩)
    · exact Or.inr (Or.inl ⟨m, rfl⟩)

def isSig : Ev → Bool
  | .metaE t _ => t = 88 || t = 89
  | _ => false

def sigs (l : List TEv) : List Ev := (l.map (·.ev)).filter isSig

theorem sigs_append (a b : List TEv) : sigs (a ++ b) = sigs a ++ sigs b := by simp [sigs]

theorem sigs_specEntry (s : S) (e : MEntry) : sigs (specEntry s e).1 = [] := by
  unfold sigs
  rw [List.filter_eq_nil_iff]
  intro x hx
  obtain ⟨y, hy, rfl⟩ := List.mem_map.1 hx
  rcases specEntry_kinds s e y hy with ⟨n, h⟩ | ⟨n, h⟩ | ⟨n, h⟩ | ⟨n, h⟩ <;> simp [h, isSig, onEv, offEv, bankEv, progEv]

theorem sigs_specEntries (es : List MEntry) : ∀ s, sigs (specEntries s es).1 = [] := by
  induction es with
  | nil => intro s; rfl
  | cons e es ih => intro s; simp [specEntries, sigs_append, sigs_specEntry, ih]

/-- **per bar**: exactly one time signature and one key signature per written bar, in order, with the bar's values -/
theorem sigs_specBars (bs : List MBar) (hk : ∀ b ∈ bs, (keyEv? b.key).isSome = true) : ∀ s,
    sigs (specBars s bs).1 = bs.flatMap fun b => [meterEv b, keyEv b.key] := by
  induction bs with
  | nil => intro s; rfl
  | cons b bs ih =>
    intro s
    have hkey : isSig (keyEv b.key) = true := by
      have := hk b (by simp)
      unfold keyEv keyEv? at *
      cases hidx : MT.idxOf? (if MT.isLower b.key then Keys.minorKeys else Keys.majorKeys) b.key with
      | none => simp [hidx] at this
      | some i => simp [isSig]
    simp only [specBars, sigs_append, List.flatMap_cons, ih (fun x hx => hk x (by simp [hx]))]
    congr 1
    have hm : isSig (meterEv b) = true := by simp [meterEv, isSig]
    simp only [specBar, sigs_append, sigs_specEntries, List.append_nil]
    simp only [sigs, List.map_cons, List.map_nil, List.filter_cons, List.filter_nil, hm, hkey, if_true]

/-- the key signature for each of the 30 keys: the signed count of sharps (+) or flats (−) of `get_key_signature`
    as a byte, and 1 for the minor keys (whole table) -/
theorem keyEv_table : ∀ k ∈ Keys.allKeys,
    keyEv? k = (match Keys.getKeySignature k with
      | .ok a => some (.metaE 89 [(if a < 0 then 256 + a else a).toNat, if k ∈ Keys.minorKeys then 1 else 0])
      | .error _ => none) := by
  decide +kernel

theorem meterEv_data (b : MBar) : meterEv b = .metaE 88 [b.count.toNat, Nat.log2 b.unit.toNat, 24, 8] := rfl

theorem log2_pow (k : Nat) : Nat.log2 (2 ^ k) = k := by
  exact Nat.log2_two_pow

/-! ### tempo, track name -/

theorem tempo_first (bpm : Int) (l : List TEv) :
    (tempoEv bpm :: l).head? = some ⟨0, .metaE 81 (be 3 ((60000000 : Int) / bpm).toNat)⟩ := rfl

theorem beVal_tempo (bpm : Int) (h : okBpm bpm) : beVal (be 3 ((60000000 : Int) / bpm).toNat) = ((60000000 : Int) / bpm).toNat := by
  unfold okBpm at h
  have h2 : (60000000 : Int) / bpm < 16777216 := by
    apply Int.ediv_lt_of_lt_mul (by omega); omega
  have h1 : 0 ≤ (60000000 : Int) / bpm := Int.ediv_nonneg (by omega) (by omega)
  have hm : ((60000000 : Int) / bpm).toNat < 16777216 := by omega
  generalize ((60000000 : Int) / bpm).toNat = m at *
  simp [be, beVal, List.range_succ_eq_map]; omega

theorem name_first (s : S) (tr : MTrack) :
    (specTrack s tr).1.head? = some ⟨0, .metaE 3 (tr.name.map Char.toNat)⟩ := rfl

/-! ### instrument selection -/

def isInstr : Ev → Bool
  | .chan2 k _ _ _ => k = 11
  | .chan1 k _ _ => k = 12
  | _ => false

def instrEvs (l : List TEv) : List Ev := (l.map (·.ev)).filter isInstr

def firstNote : List MEntry → Option Note
  | [] => none
  | e :: es => match e.notes with
    | n :: _ => some n
    | [] => firstNote es

theorem instrEvs_append (a b : List TEv) : instrEvs (a ++ b) = instrEvs a ++ instrEvs b := by simp [instrEvs]

theorem instrEvs_map_on (ns : List Note) (d : Nat) : instrEvs (ns.map fun m => ⟨d, onEv m⟩) = [] := by
  unfold instrEvs; rw [List.filter_eq_nil_iff]; intro x hx; simp at hx; obtain ⟨m, _, rfl⟩ := hx; simp [isInstr, onEv]
theorem instrEvs_map_off (ns : List Note) (d : Nat) : instrEvs (ns.map fun m => ⟨d, offEv m⟩) = [] := by
  unfold instrEvs; rw [List.filter_eq_nil_iff]; intro x hx; simp at hx; obtain ⟨m, _, rfl⟩ := hx; simp [isInstr, offEv]

theorem instrEvs_specEntry (s : S) (e : MEntry) :
    instrEvs (specEntry s e).1 = (match e.notes with
      | n :: _ => if s.ci then [bankEv n, progEv n s.instr] else []
      | [] => []) := by
  unfold specEntry
  cases e.notes with
  | nil => rfl
  | cons n rest =>
    simp only [instrEvs_append, List.cons_append]
    cases s.ci <;>
      simp [instrEvs, isInstr, onEv, offEv, bankEv, progEv, List.filter_eq_nil_iff]

/-- with no change pending nothing is selected; with a change pending, exactly one bank select and one program change,
    on the channel of the first note that sounds, carrying the instrument number -/
theorem instrEvs_specEntries (es : List MEntry) : ∀ s,
    instrEvs (specEntries s es).1 = (match firstNote es with
      | some n => if s.ci then [bankEv n, progEv n s.instr] else []
      | none => []) := by
  induction es with
  | nil => intro s; rfl
  | cons e es ih =>
    intro s
    simp only [specEntries, instrEvs_append, instrEvs_specEntry, ih, firstNote]
    cases hn : e.notes with
    | nil => simp [specEntry, hn]
    | cons n rest =>
      simp only [specEntry, hn]
      cases firstNote es <;> simp

/-- … and they come immediately before that first note-on, at the time the entry starts (the definition of `specEntry`
    read off): -/
theorem instr_before_first_on (s : S) (e : MEntry) (n : Note) (rest : List Note) (h : e.notes = n :: rest) (hci : s.ci = true) :
    ∃ tail, (specEntry s e).1 = ⟨s.delay, bankEv n⟩ :: ⟨0, progEv n s.instr⟩ :: ⟨0, onEv n⟩ :: tail := by
  unfold specEntry; simp [h, hci]

/-! ### tick lengths -/

/-- `int(round((1.0 / v) * 288))` in double arithmetic is the nearest integer to 288 / v (ties to even) for every
    integer value 1 … 128 (whole table, double arithmetic evaluated exactly in the kernel) -/
theorem tick_table : ∀ v ∈ List.range 129, v ≠ 0 → tickOf (v : Rat) = (pyRound ((288 : Rat) / v)).toNat := by
  decide +kernel

/-! ### lone notes and containers -/

theorem lone_denotes (ns : List Note) (T : Nat) :
    notesAt T (specLone ns) = ns.map (fun m => (T, onEv m)) ++ ns.map (fun m => (T + 72, offEv m)) ∧
    (ns ≠ [] → total (specLone ns) = 72) := by
  cases ns with
  | nil => simp [specLone, notesAt_nil]
  | cons n rest =>
    refine ⟨?_, fun _ => ?_⟩
    · simp only [specLone, List.cons_append]
      rw [notesAt_cons_note _ _ _ (isNote_on n), notesAt_append, notesAt_zero onEv isNote_on,
        notesAt_cons_note _ _ _ (isNote_off n), notesAt_zero offEv isNote_off, total_zero]
      simp
    · simp only [specLone, List.cons_append]
      rw [total_cons, total_append, total_zero, total_cons, total_zero]
      simp

/-- a note or container written on its own `k` times: copy `i` starts at tick 72·i and lasts 72 ticks -/
theorem lone_passes_denote (ns : List Note) (hne : ns ≠ []) : ∀ (k : Nat) (T : Nat),
    notesAt T (List.replicate k (specLone ns)).flatten =
      (List.range k).flatMap fun i => ns.map (fun m => (T + 72 * i, onEv m)) ++ ns.map (fun m => (T + 72 * i + 72, offEv m)) := by
  intro k
  induction k with
  | zero => intro T; rfl
  | succ k ih =>
    intro T
    rw [List.replicate_succ, List.flatten_cons, notesAt_append, (lone_denotes ns T).1, (lone_denotes ns T).2 hne, ih (T + 72),
      List.range_succ_eq_map, List.flatMap_cons, List.flatMap_map]
    simp only [Nat.mul_zero, Nat.add_zero]
    congr 1
    simp only [List.flatMap_def]
    congr 1
    apply List.map_congr_left
    intro i _
    have : T + 72 + 72 * i = T + 72 * (i + 1) := by omega
    simp [this]

/-! ### no note hangs or overlaps itself -/

def keyOf : Ev → Nat × Nat
  | .chan2 _ c p _ => (c, p)
  | _ => (0, 0)

/-- play the note events against the set of sounding (channel, pitch) keys; `none` = an overlap or a stray note-off -/
def sound : List (Nat × Nat) → List (Nat × Ev) → Option (List (Nat × Nat))
  | on, [] => some on
  | on, (_, .chan2 9 c p _) :: rest => if (c, p) ∈ on then none else sound ((c, p) :: on) rest
  | on, (_, .chan2 8 c p _) :: rest => if (c, p) ∈ on then sound (on.erase (c, p)) rest else none
  | on, _ :: rest => sound on rest

theorem sound_ons (ns : List Note) (t : Nat) : ∀ (on : List (Nat × Nat)) (rest : List (Nat × Ev)),
    (ns.map fun m => keyOf (onEv m)).Nodup → (∀ m ∈ ns, keyOf (onEv m) ∉ on) →
    sound on (ns.map (fun m => (t, onEv m)) ++ rest) = sound ((ns.map fun m => keyOf (onEv m)).reverse ++ on) rest := by
  induction ns with
  | nil => intro on rest _ _; rfl
  | cons n ns ih =>
    intro on rest hnd hfresh
    simp only [List.map_cons, List.nodup_cons] at hnd
    have h1 : keyOf (onEv n) ∉ on := hfresh n (by simp)
    simp only [List.map_cons, List.cons_append]
    have step : sound on ((t, onEv n) :: (ns.map (fun m => (t, onEv m)) ++ rest)) =
        sound (keyOf (onEv n) :: on) (ns.map (fun m => (t, onEv m)) ++ rest) := by
      simp only [onEv, sound, keyOf] at h1 ⊢
      rw [if_neg h1]
    rw [step, ih (keyOf (onEv n) :: on) rest hnd.2]
    · simp
    · intro m hm
      simp only [List.mem_cons, not_or]
      refine ⟨?_, hfresh m (by simp [hm])⟩
      intro heq
      exact hnd.1 (heq ▸ List.mem_map.2 ⟨m, hm, rfl⟩)

theorem keyOf_off (n : Note) : keyOf (offEv n) = keyOf (onEv n) := rfl

theorem sound_offs (ns : List Note) (t : Nat) : ∀ (on : List (Nat × Nat)) (rest : List (Nat × Ev)),
    (ns.map fun m => keyOf (onEv m)).Nodup → on.Nodup → (∀ m ∈ ns, keyOf (onEv m) ∈ on) →
    ∃ on', sound on (ns.map (fun m => (t, offEv m)) ++ rest) = sound on' rest ∧ on'.Nodup ∧
      (∀ k, k ∈ on' ↔ k ∈ on ∧ k ∉ ns.map fun m => keyOf (onEv m)) := by
  induction ns with
  | nil => intro on rest _ hon _; exact ⟨on, rfl, hon, by simp⟩
  | cons n ns ih =>
    intro on rest hnd hon hmem
    simp only [List.map_cons, List.nodup_cons] at hnd
    have h1 : keyOf (onEv n) ∈ on := hmem n (by simp)
    have step : sound on ((t, offEv n) :: (ns.map (fun m => (t, offEv m)) ++ rest)) =
        sound (on.erase (keyOf (onEv n))) (ns.map (fun m => (t, offEv m)) ++ rest) := by
      simp only [offEv, onEv, sound, keyOf] at h1 ⊢
      rw [if_pos h1]
    have hmem' : ∀ m ∈ ns, keyOf (onEv m) ∈ on.erase (keyOf (onEv n)) := by
      intro m hm
      rw [List.Nodup.mem_erase_iff hon]
      refine ⟨?_, hmem m (by simp [hm])⟩
      intro heq
      exact hnd.1 (heq ▸ List.mem_map.2 ⟨m, hm, rfl⟩)
    obtain ⟨on', h2, h3, h4⟩ := ih (on.erase (keyOf (onEv n))) rest hnd.2 (hon.erase _) hmem'
    refine ⟨on', ?_, h3, ?_⟩
    · simp only [List.map_cons, List.cons_append]; rw [step, h2]
    · intro k
      rw [h4 k, List.Nodup.mem_erase_iff hon]
      simp only [List.map_cons, List.mem_cons, not_or]
      constructor
      · rintro ⟨⟨a, b⟩, c⟩; exact ⟨b, a, c⟩
      · rintro ⟨a, b, c⟩; exact ⟨⟨b, a⟩, c⟩

/-- every entry's notes are distinct as (channel, pitch) keys -/
def distinctKeys (es : List MEntry) : Prop := ∀ e ∈ es, (e.notes.map fun m => keyOf (onEv m)).Nodup

/-- **no note hangs or overlaps itself**: played from silence, the laid-out music never starts a sounding key again,
    never stops a silent one, and ends in silence -/
theorem entries_balanced (es : List MEntry) (hd : distinctKeys es) : ∀ (now : Nat) (rest : List (Nat × Ev)),
    sound [] ((layEntries now es).1 ++ rest) = sound [] rest := by
  induction es with
  | nil => intro now rest; rfl
  | cons e es ih =>
    intro now rest
    have hnd := hd e (by simp)
    simp only [layEntries, List.append_assoc]
    rw [sound_ons e.notes now [] _ hnd (by simp)]
    obtain ⟨on', h1, _, h3⟩ := sound_offs e.notes (now + tickOf e.value)
      ((e.notes.map fun m => keyOf (onEv m)).reverse ++ []) ((layEntries (now + tickOf e.value) es).1 ++ rest) hnd
      (by simpa [List.nodup_reverse] using hnd) (by intro m hm; simp; exact ⟨m, hm, rfl⟩)
    rw [h1]
    have : on' = [] := by
      apply List.eq_nil_iff_forall_not_mem.2
      intro k hk
      have := (h3 k).1 hk
      simp at this
      exact this.2 this.1.choose this.1.choose_spec.1 this.1.choose_spec.2
    rw [this]
    exact ih (fun x hx => hd x (by simp [hx])) _ rest

theorem bars_balanced (bs : List MBar) (hd : ∀ b ∈ bs, distinctKeys b.entries) : ∀ (now : Nat) (rest : List (Nat × Ev)),
    sound [] ((layBars now bs).1 ++ rest) = sound [] rest := by
  induction bs with
  | nil => intro now rest; rfl
  | cons b bs ih =>
    intro now rest
    simp only [layBars, List.append_assoc]
    rw [entries_balanced b.entries (hd b (by simp))]
    exact ih (fun x hx => hd x (by simp [hx])) _ rest

theorem passes_balanced (bs : List MBar) (hd : ∀ b ∈ bs, distinctKeys b.entries) : ∀ (k now : Nat),
    sound [] (layPasses bs k now).1 = some [] := by
  intro k
  induction k with
  | zero => intro now; rfl
  | succ k ih =>
    intro now
    simp only [layPasses]
    rw [bars_balanced bs hd]
    exact ih _

/-! ### non-vacuity: a concrete composition meets every hypothesis, and the theorems compute on it -/

def demoNote (nm : String) (o ch vel : Int) : Note := ⟨nm.toList, o, ch, vel⟩
def demoTrack : MTrack :=
  ⟨"lead".toList, some 42,
   [⟨"Eb".toList, 3, 4, [⟨4, [], none⟩, ⟨4, [demoNote "Eb" 4 9 100, demoNote "G" 4 2 64], none⟩, ⟨8, [], none⟩, ⟨8, [demoNote "Bb" 3 9 1], none⟩]⟩,
    ⟨"f#".toList, 6, 8, [⟨8 / 3 * 2, [demoNote "C#" 5 0 127], none⟩]⟩]⟩

example : writeTrack demoTrack 120 1 =
    .ok (fileBytes [⟨tempoEv 120 :: (specPasses (fun s => specTrack s demoTrack) 2 s0).1, 54, 0, false, 42⟩]) := by
  decide +kernel
example : (parseSmf ((writeTrack demoTrack 120 1).toOption.getD [])).map (fun f => (f.format, f.ntracks, f.division, f.tracks.map List.length)) =
    some (1, 1, 72, [31]) := by decide +kernel
example : (layPasses demoTrack.bars 1 0).1.map (·.1) = [72, 72, 144, 144, 180, 216, 216, 270] := by decide +kernel

end Mingus.Props.C16
