import Mathlib.Analysis.SpecialFunctions.Log.Base
import Mathlib.Analysis.SpecialFunctions.Pow.Real
import Mathlib.Tactic.Linarith
import Mathlib.Tactic.FieldSimp
/-
  C10, frequency clauses — real-number idealisation of `Note.to_hertz` / `Note.from_hertz`
  (`2 ** (x / 12.0)` and `log(x, 2)` read as the real functions; IEEE rounding is NOT modelled: the float code is tied
  to this idealisation only by the exhaustive run over notes 0..127 × standard pitches × detunes in the harness).
-/
namespace Mingus.Props.C10Hz
open Real

/-- `to_hertz`: `2 ** ((int(note) - 57) / 12.0) * standard_pitch` -/
noncomputable def toHz (n : ℤ) (sp : ℝ) : ℝ := (2 : ℝ) ^ (((n : ℝ) - 57) / 12) * sp
/-- the `value` computed by `from_hertz` -/
noncomputable def fromVal (hz sp : ℝ) : ℝ := (logb 2 (hz * 1024 / sp) + 1 / 24) * 12 + 9
/-- the pitch number `from_hertz` stores: name `int(value) % 12`, octave `int(value / 12) - 6` -/
noncomputable def fromHz (hz sp : ℝ) : ℤ := ⌊fromVal hz sp⌋ - 72

theorem two_pos : (0 : ℝ) < 2 := by norm_num

/-- frequency doubles per octave -/
theorem octave_doubles (n : ℤ) (sp : ℝ) : toHz (n + 12) sp = 2 * toHz n sp := by
  unfold toHz
  have : (((n + 12 : ℤ) : ℝ) - 57) / 12 = ((n : ℝ) - 57) / 12 + 1 := by push_cast; ring
  rw [this, rpow_add two_pos, rpow_one]; ring

/-- A-4 (pitch number 57) sits at the chosen standard pitch -/
theorem a4_is_standard (sp : ℝ) : toHz 57 sp = sp := by
  unfold toHz; simp

theorem toHz_pos (n : ℤ) (sp : ℝ) (h : 0 < sp) : 0 < toHz n sp := by
  unfold toHz; exact mul_pos (rpow_pos_of_pos two_pos _) h

/-- the analysed value of a tone `c` cents away from note `n`, under any positive standard pitch -/
theorem fromVal_detuned (n : ℤ) (sp c : ℝ) (h : 0 < sp) :
    fromVal (toHz n sp * (2 : ℝ) ^ (c / 1200)) sp = (n : ℝ) + 72 + 1 / 2 + c / 100 := by
  unfold fromVal toHz
  have hp1 : (0 : ℝ) < (2 : ℝ) ^ (((n : ℝ) - 57) / 12) := rpow_pos_of_pos two_pos _
  have hp2 : (0 : ℝ) < (2 : ℝ) ^ (c / 1200) := rpow_pos_of_pos two_pos _
  have e : (2 : ℝ) ^ (((n : ℝ) - 57) / 12) * sp * (2 : ℝ) ^ (c / 1200) * 1024 / sp =
      (2 : ℝ) ^ (((n : ℝ) - 57) / 12) * (2 : ℝ) ^ (c / 1200) * 1024 := by field_simp
  rw [e, logb_mul (ne_of_gt (mul_pos hp1 hp2)) (by norm_num), logb_mul (ne_of_gt hp1) (ne_of_gt hp2),
    logb_rpow two_pos (by norm_num), logb_rpow two_pos (by norm_num)]
  have : logb 2 (1024 : ℝ) = 10 := by
    rw [show (1024 : ℝ) = (2 : ℝ) ^ (10 : ℝ) by norm_num]
    exact logb_rpow two_pos (by norm_num)
  rw [this]; ring

/-- Hz round trip: a tone up to 40 cents off note `n` is read back as `n`, with a margin of a tenth of a semitone to the
    nearest rounding boundary (`n + 72.1 ≤ value ≤ n + 72.9`) -/
theorem hz_roundtrip (n : ℤ) (sp c : ℝ) (h : 0 < sp) (hc : -40 ≤ c ∧ c ≤ 40) :
    fromHz (toHz n sp * (2 : ℝ) ^ (c / 1200)) sp = n ∧
    (n : ℝ) + 72 + 1 / 10 ≤ fromVal (toHz n sp * (2 : ℝ) ^ (c / 1200)) sp ∧
    fromVal (toHz n sp * (2 : ℝ) ^ (c / 1200)) sp ≤ (n : ℝ) + 72 + 9 / 10 := by
  have hv := fromVal_detuned n sp c h
  refine ⟨?_, by rw [hv]; linarith [hc.1], by rw [hv]; linarith [hc.2]⟩
  unfold fromHz
  rw [hv]
  have : ⌊(n : ℝ) + 72 + 1 / 2 + c / 100⌋ = n + 72 := by
    rw [Int.floor_eq_iff]
    push_cast
    constructor <;> linarith [hc.1, hc.2]
  rw [this]; ring

end Mingus.Props.C10Hz
