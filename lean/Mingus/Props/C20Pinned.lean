import Mingus.Props.C20Decode
/-
  C20 — a single note: `from_Note` decodes to the note.

  `fromNote_decode`: whatever `from_Note` draws reads back, string by string, as ONE fret number on ONE string, that fret on
  that string sounds the note (`fretOn`), and it is the lowest fret on which any string sounds it.  `fromNotePinned_decode`:
  a note that carries a valid position (the tuning sounds exactly this note at (string, fret)) is drawn at THAT position and
  the open string raised by that fret is the note; an invalid position falls back to the search.  Any tuning, note, width.
-/
namespace Mingus.Props.C20
open Mingus Mingus.Tun Mingus.Tab Mingus.Containers

/-- the cells `drawNote` adds -/
def noteCells (s : Nat) (f : Int) (w : Int) : Nat → Line := fun i =>
  if i ≠ s then rep '-' w ++ lit "|" else centred (Note.showInt f) w

theorem drawNote_eq (result : List Line) (s : Nat) (f : Int) (w : Int) :
    (drawNote result s f w).reverse = appendSegs result (noteCells s f w) := by
  unfold drawNote appendSegs
  rw [List.reverse_reverse, ← zip_range_map]
  apply List.map_congr_left
  intro p _
  simp only [noteCells]
  by_cases h : p.1 ≠ s <;> simp [h, List.append_assoc]

/-- reading the cells of a drawn note: the fret on the chosen string, nothing anywhere else -/
theorem noteCells_read (s : Nat) (f : Int) (w : Int) (hf : 0 ≤ f) (s' : Nat) (fr : Int) :
    readCell (noteCells s f w s') = some fr ↔ (s' = s ∧ fr = f) := by
  unfold noteCells readCell
  by_cases h : s' ≠ s
  · have : ((rep '-' w ++ lit "|").filter Char.isDigit) = [] := by
      rw [List.filter_append, filter_digit_rep_dash]; decide
    simp [h, this]
  · have hs : s' = s := by simpa using h
    subst hs
    obtain ⟨h1, h2, h3⟩ := showInt_digits f hf
    simp only [ne_eq, not_true_eq_false, if_false, filter_digit_centred, h1, h2, h3, Option.some.injEq, true_and]
    exact eq_comm

/-- the search of `from_Note`: the fold keeps the first string with the lowest fret -/
def bestFold (l : List (Nat × Option Int)) (acc : Int × Option (Nat × Int)) : Int × Option (Nat × Int) :=
  l.foldl (fun (acc : Int × Option (Nat × Int)) (sf : Nat × Option Int) =>
    match sf.2 with
    | some f => if f < acc.1 then (f, some (sf.1, f)) else acc
    | none => acc) acc

theorem bestFold_spec (l : List (Nat × Option Int)) : ∀ (acc : Int × Option (Nat × Int)),
    (∀ s f, acc.2 = some (s, f) → acc.1 = f) →
    (∀ s f, (bestFold l acc).2 = some (s, f) → (bestFold l acc).1 = f ∧ (acc.2 = some (s, f) ∨ (s, some f) ∈ l)) ∧
    (bestFold l acc).1 ≤ acc.1 ∧ (∀ x ∈ l, ∀ d, x.2 = some d → (bestFold l acc).1 ≤ d) ∧
    ((bestFold l acc).2 = none → acc.2 = none ∧ ∀ x ∈ l, ∀ d, x.2 = some d → acc.1 ≤ d) := by
  induction l with
  | nil =>
    intro acc ha
    refine ⟨fun s f h => ⟨ha s f h, Or.inl h⟩, le_refl _, by simp, fun h => ⟨h, by simp⟩⟩
  | cons x xs ih =>
    intro acc ha
    have hstep : bestFold (x :: xs) acc = bestFold xs (match x.2 with
        | some f => if f < acc.1 then (f, some (x.1, f)) else acc
        | none => acc) := by simp [bestFold]
    rw [hstep]
    cases hx : x.2 with
    | none =>
      simp only []
      obtain ⟨h1, h2, h3, h4⟩ := ih acc ha
      refine ⟨?_, h2, ?_, ?_⟩
      · intro s f h
        obtain ⟨a, b⟩ := h1 s f h
        exact ⟨a, b.imp id (fun m => List.mem_cons_of_mem _ m)⟩
      · intro y hy d hd
        rcases List.mem_cons.1 hy with rfl | hy
        · rw [hx] at hd; cases hd
        · exact h3 y hy d hd
      · intro h
        obtain ⟨a, b⟩ := h4 h
        refine ⟨a, ?_⟩
        intro y hy d hd
        rcases List.mem_cons.1 hy with rfl | hy
        · rw [hx] at hd; cases hd
        · exact b y hy d hd
    | some d0 =>
      simp only []
      by_cases hlt : d0 < acc.1
      · simp only [hlt, if_true]
        obtain ⟨h1, h2, h3, h4⟩ := ih (d0, some (x.1, d0)) (by intro s f h; simp at h; simp [h.2])
        refine ⟨?_, ?_, ?_, ?_⟩
        · intro s f h
          obtain ⟨a, b⟩ := h1 s f h
          refine ⟨a, Or.inr ?_⟩
          rcases b with b | b
          · simp only [Option.some.injEq, Prod.mk.injEq] at b
            obtain ⟨rfl, rfl⟩ := b
            have : x = (x.1, some d0) := by rw [← hx]
            rw [this]; simp
          · exact List.mem_cons_of_mem _ b
        · simp only at h2; omega
        · intro y hy d hd
          rcases List.mem_cons.1 hy with rfl | hy
          · rw [hx] at hd; simp only [Option.some.injEq] at hd; subst hd; exact h2
          · exact h3 y hy d hd
        · intro h
          have := (h4 h).1
          simp at this
      · simp only [hlt, if_false]
        obtain ⟨h1, h2, h3, h4⟩ := ih acc ha
        refine ⟨?_, h2, ?_, ?_⟩
        · intro s f h
          obtain ⟨a, b⟩ := h1 s f h
          exact ⟨a, b.imp id (fun m => List.mem_cons_of_mem _ m)⟩
        · intro y hy d hd
          rcases List.mem_cons.1 hy with rfl | hy
          · rw [hx] at hd; simp only [Option.some.injEq] at hd; subst hd; omega
          · exact h3 y hy d hd
        · intro h
          obtain ⟨a, b⟩ := h4 h
          refine ⟨a, ?_⟩
          intro y hy d hd
          rcases List.mem_cons.1 hy with rfl | hy
          · rw [hx] at hd; simp only [Option.some.injEq] at hd; subst hd; omega
          · exact b y hy d hd

/-- **from_Note decodes**: the drawing is the label columns followed by one cell per string; exactly one cell holds a
    number; that string sounds the note at that fret; and no string sounds it at a lower fret -/
theorem fromNote_decode (t : Tuning) (note : Note) (width : Int) (ls : List Line) (h : fromNote t note width = .ok ls) :
    ∃ (start : List Line) (cells : Nat → Line) (s : Nat) (f : Int),
      ls.reverse = appendSegs start cells ∧ fretOn t note s = some f ∧
      (∀ s' f', fretOn t note s' = some f' → f ≤ f') ∧
      ∀ s' fr, readCell (cells s') = some fr ↔ (s' = s ∧ fr = f) := by
  unfold fromNote at h
  cases hb : beginTrack t 2 with
  | error e => simp [hb, bind, Except.bind] at h
  | ok result =>
    cases hf : findFrets t note 24 with
    | error e => simp [hb, hf, bind, Except.bind] at h
    | ok frets =>
      simp only [hb, hf, bind, Except.bind] at h
      change (match (bestFold (List.zip (List.range frets.length) frets) (1000, none)).2 with
        | none => Except.error Err.range
        | some (s, f) => pure (drawNote result s f (max 4 ((width - ((result.headD []).length : Int)) - 1)))) = .ok ls at h
      obtain ⟨h1, _, h3, _⟩ := bestFold_spec (List.zip (List.range frets.length) frets) (1000, none) (by intro s f hh; simp at hh)
      cases hbest : (bestFold (List.zip (List.range frets.length) frets) (1000, none)).2 with
      | none => simp [hbest] at h
      | some sf =>
        obtain ⟨s, f⟩ := sf
        simp only [hbest, pure, Except.pure, Except.ok.injEq] at h
        subst h
        obtain ⟨hv, hm⟩ := h1 s f hbest
        have hmem : (s, some f) ∈ List.zip (List.range frets.length) frets := by
          rcases hm with hm | hm
          · simp at hm
          · exact hm
        have hget : frets[s]? = some (some f) := (mem_zip_range frets s (some f)).1 hmem
        have hfr : fretOn t note s = some f := by simp [fretOn, hf, hget]
        have hnn : 0 ≤ f := (findFrets_range t note 24 frets hf f (List.mem_of_getElem? hget)).1
        refine ⟨result, noteCells s f _, s, f, drawNote_eq _ _ _ _, hfr, ?_, noteCells_read s f _ hnn⟩
        intro s' f' hs'
        simp only [fretOn, hf] at hs'
        cases hg : frets[s']? with
        | none => simp [hg] at hs'
        | some o =>
          simp only [hg, Option.getD_some] at hs'
          subst hs'
          have := h3 (s', some f') ((mem_zip_range frets s' (some f')).2 hg) f' rfl
          omega

/-- **a pinned note is drawn where it is pinned**: when the tuning sounds exactly this note at (string, fret), the drawing
    holds that fret on that string and nothing else, and the open string raised by the fret IS the note -/
theorem fromNotePinned_decode (t : Tuning) (note : Note) (ps pf : Int) (width : Int) (n : Note) (p : Int)
    (hn : getNote t ps pf 24 = .ok n) (hni : n.toInt = .ok p) (hmi : note.toInt = .ok p)
    (ls : List Line) (h : fromNotePinned t note ps pf width = .ok ls) :
    ∃ (start : List Line) (cells : Nat → Line),
      ls.reverse = appendSegs start cells ∧ 0 ≤ ps ∧ ps < t.length ∧ 0 ≤ pf ∧ pf ≤ 24 ∧
      ∀ s' fr, readCell (cells s') = some fr ↔ (s' = ps.toNat ∧ fr = pf) := by
  have hrange : (0 ≤ ps ∧ ps < t.length) ∧ (0 ≤ pf ∧ pf ≤ 24) := by
    unfold getNote at hn
    by_cases h1 : 0 ≤ ps ∧ ps < t.length
    · by_cases h2 : 0 ≤ pf ∧ pf ≤ 24
      · exact ⟨h1, h2⟩
      · simp [h1, h2] at hn
    · simp [h1] at hn
  unfold fromNotePinned at h
  cases hb : beginTrack t 2 with
  | error e => simp [hb, bind, Except.bind] at h
  | ok result =>
    simp only [hb, hn, hni, hmi, bind, Except.bind, if_true, pure, Except.pure, Except.ok.injEq] at h
    subst h
    exact ⟨result, noteCells ps.toNat pf _, drawNote_eq _ _ _ _, hrange.1.1, hrange.1.2, hrange.2.1, hrange.2.2,
      noteCells_read ps.toNat pf _ hrange.2.1⟩

/-- … and the pinned position sounds the note: the open string's pitch plus the fret is the note's pitch -/
theorem pinned_position_sounds (t : Tuning) (ps pf : Int) (n : Note) (s : TString) (p0 : Int)
    (hn : getNote t ps pf 24 = .ok n) (hget : t[ps.toNat]? = some s) (hp : basePitch s = some p0) :
    n.toInt = .ok (p0 + pf) := by
  have hrange : (0 ≤ ps ∧ ps < t.length) ∧ (0 ≤ pf ∧ pf ≤ 24) := by
    unfold getNote at hn
    by_cases h1 : 0 ≤ ps ∧ ps < t.length
    · by_cases h2 : 0 ≤ pf ∧ pf ≤ 24
      · exact ⟨h1, h2⟩
      · simp [h1, h2] at hn
    · simp [h1] at hn
  obtain ⟨n', h1, h2⟩ := getNote_spec t ps pf 24 s p0 hrange.1 hrange.2 hget hp
  rw [hn] at h1
  cases h1
  exact h2

/-- a position that does NOT sound the note is ignored: the search decides, as for a note without attributes -/
theorem fromNotePinned_fallback (t : Tuning) (note : Note) (ps pf : Int) (width : Int) (n : Note) (p q : Int)
    (hn : getNote t ps pf 24 = .ok n) (hni : n.toInt = .ok p) (hmi : note.toInt = .ok q) (hne : p ≠ q)
    (hb : ∃ r, beginTrack t 2 = .ok r) :
    fromNotePinned t note ps pf width = fromNote t note width := by
  obtain ⟨r, hr⟩ := hb
  unfold fromNotePinned
  simp [hr, hn, hni, hmi, hne, bind, Except.bind]

/-- kernel examples: the standard guitar, third fret of the low E string (pinned), and the search for C-3 -/
example : fromNotePinned defaultTuning ⟨lit "G", 2, 1, 64⟩ 0 3 20 = .ok
    ([" e' ||-------------|", " b  ||-------------|", " g  ||-------------|", " d  ||-------------|", " A  ||-------------|",
      " E  ||-------3-----|"].map String.toList) := by decide +kernel
example : fromNote defaultTuning ⟨lit "C", 3, 1, 64⟩ 20 = .ok
    ([" e' ||-------------|", " b  ||-------------|", " g  ||-------------|", " d  ||-------------|", " A  ||-------3-----|",
      " E  ||-------------|"].map String.toList) := by decide +kernel
/-- a pinned position that sounds another note is ignored (C-3 pinned to the open low E string) -/
example : fromNotePinned defaultTuning ⟨lit "C", 3, 1, 64⟩ 0 0 20 = fromNote defaultTuning ⟨lit "C", 3, 1, 64⟩ 20 := by
  decide +kernel

end Mingus.Props.C20
