import Mingus.Props.C07
/- C07, unbounded part: long-form and shorthand-form answers have the same length and order of origin, and the
   long form never fails where the shorthand form succeeds — for every list of strings, of any length. -/
namespace Mingus.Props.C07
open Mingus Mingus.Chords Mingus.Keys

def HitOK (h : Hit) : Prop := h.short ∈ emitted ∧ 1 ≤ h.tries ∧ h.tries ≤ 7

theorem mapM_ok {α β} (f : α → Except Err β) (l : List α) (h : ∀ x ∈ l, ∃ y, f x = .ok y) :
    ∃ ys, l.mapM f = .ok ys ∧ ys.length = l.length := by
  induction l with
  | nil => exact ⟨[], rfl, rfl⟩
  | cons a t ih =>
    obtain ⟨y, hy⟩ := h a (by simp)
    obtain ⟨ys, h1, h2⟩ := ih (fun x hx => h x (by simp [hx]))
    exact ⟨y :: ys, by simp [List.mapM_cons, hy, h1, bind, Except.bind, pure, Except.pure], by simp [h2]⟩

theorem fmt_short (hits : List Hit) : ∃ S, fmt true hits = .ok S ∧ S.length = hits.length :=
  mapM_ok _ _ (fun h _ => ⟨h.root ++ h.short, by simp [fmtOne]⟩)

theorem fmt_long (hits : List Hit) (hok : ∀ h ∈ hits, HitOK h) :
    ∃ L, fmt false hits = .ok L ∧ L.length = hits.length := by
  apply mapM_ok
  intro h hh
  obtain ⟨he, h1, h7⟩ := hok h hh
  have hm := (emitted_names_ok h.short he).1
  have hd : (intDesc.lookup h.tries).isSome = true := by
    have := ordinals_total (h.tries - 1) (List.mem_range.2 (by omega))
    rwa [show h.tries - 1 + 1 = h.tries by omega] at this
  cases hml : chordMeaning.lookup h.short with
  | none => simp [hml] at hm
  | some m =>
    cases hdl : intDesc.lookup h.tries with
    | none => simp [hdl] at hd
    | some d => exact ⟨h.root ++ m ++ d, by simp [fmtOne, hml, hdl]⟩

/-- hits collected by the inversion exhauster carry the `tries` of the round that produced them -/
theorem exhaust_hits (step : List Str → Nat → Except Err (List Hit)) (last : Nat) (noInv : Bool)
    (hstep : ∀ c t hs, step c t = .ok hs → ∀ h ∈ hs, h.short ∈ emitted ∧ h.tries = t) :
    ∀ (fuel : Nat) (c : List Str) (t : Nat) (res : List Hit), exhaust step last noInv fuel c t = .ok res →
      ∀ h ∈ res, h.short ∈ emitted ∧ t ≤ h.tries ∧ h.tries < t + fuel := by
  intro fuel
  induction fuel with
  | zero => intro c t res h; simp [exhaust] at h; subst h; simp
  | succ f ih =>
    intro c t res hres
    simp only [exhaust, bind, Except.bind] at hres
    cases hs : step c t with
    | error e => simp [hs] at hres
    | ok hs0 =>
      simp only [hs] at hres
      cases hc : (t != last && !noInv) with
      | true =>
        simp only [hc, if_true] at hres
        cases hr : exhaust step last noInv f (rotR c) (t + 1) with
        | error e => simp [hr] at hres
        | ok r =>
          simp only [hr, pure, Except.pure, Except.ok.injEq] at hres
          subst hres
          intro h hh
          simp only [List.mem_append] at hh
          rcases hh with hh | hh
          · have := hstep c t hs0 hs h hh; exact ⟨this.1, by omega, by omega⟩
          · have := ih (rotR c) (t + 1) r hr h hh; exact ⟨this.1, by omega, by omega⟩
      | false =>
        simp only [hc, pure, Except.pure, Except.ok.injEq, Bool.false_eq_true, if_false] at hres
        subst hres
        intro h hh
        have := hstep c t hs0 hs h hh; exact ⟨this.1, by omega, by omega⟩

theorem lookup_mem {α β} [BEq α] [LawfulBEq α] (l : List (α × β)) (a : α) (b : β) (h : l.lookup a = some b) :
    b ∈ l.map (·.2) := by
  induction l with
  | nil => simp at h
  | cons x t ih =>
    obtain ⟨k, v⟩ := x
    simp only [List.lookup] at h
    split at h
    · simp at h; simp [h]
    · simp [ih h]

theorem lookup2_mem (tb : List (Str × Str × Str)) (a b r : Str) (h : lookup2 tb a b = some r) :
    r ∈ tb.map (·.2.2) := by
  unfold lookup2 at h
  cases hf : tb.find? (fun r => r.1 == a && r.2.1 == b) with
  | none => simp [hf] at h
  | some x =>
    simp [hf] at h
    exact List.mem_map.2 ⟨x, List.mem_of_find?_eq_some hf, h⟩

theorem triadStep_hits : ∀ c t hs, triadStep c t = .ok hs → ∀ h ∈ hs, h.short ∈ emitted ∧ h.tries = t := by
  intro c t hs hst h hh
  unfold triadStep at hst
  split at hst
  · rename_i a b d
    cases h1 : Intervals.determine a b true with
    | error e => simp [h1, bind, Except.bind] at hst
    | ok i1 =>
      cases h2 : Intervals.determine a d true with
      | error e => simp [h1, h2, bind, Except.bind] at hst
      | ok i2 =>
        simp only [h1, h2, bind, Except.bind, pure, Except.pure, Except.ok.injEq] at hst
        cases hl : triadTable.lookup (i1 ++ i2) with
        | none => simp [hl] at hst; subst hst; simp at hh
        | some n =>
          simp only [hl] at hst; subst hst
          simp only [List.mem_singleton] at hh; subst hh
          exact ⟨by simp only [emitted, List.mem_append]; exact Or.inl (Or.inl (Or.inl (Or.inl (lookup_mem _ _ _ hl)))), rfl⟩
  · cases hst

theorem extStep_hits (lower : List Str → Except Err (List Hit)) (tb : List (Str × Str × Str)) (k : Nat)
    (htb : ∀ x ∈ tb.map (·.2.2), x ∈ emitted) :
    ∀ c t hs, extStep lower tb k c t = .ok hs → ∀ h ∈ hs, h.short ∈ emitted ∧ h.tries = t := by
  intro c t hs hst h hh
  unfold extStep at hst
  split at hst
  · rename_i r x _ _
    cases h1 : lower (c.take k) with
    | error e => simp [h1, bind, Except.bind] at hst
    | ok lows =>
      cases h2 : fmt true lows with
      | error e => simp [h1, h2, bind, Except.bind] at hst
      | ok names =>
        cases h3 : Intervals.determine r x false with
        | error e => simp [h1, h2, h3, bind, Except.bind] at hst
        | ok iv =>
          simp only [h1, h2, h3, bind, Except.bind, pure, Except.pure, Except.ok.injEq] at hst
          subst hst
          simp only [List.mem_filterMap] at hh
          obtain ⟨nm, _, hnm⟩ := hh
          cases hl : lookup2 tb nm iv with
          | none => simp [hl] at hnm
          | some res =>
            simp only [hl, Option.map_some, Option.some.injEq] at hnm
            subst hnm
            exact ⟨htb _ (lookup2_mem tb nm iv res hl), rfl⟩
  · cases hst

theorem tables_emitted :
    (∀ x ∈ seventhTable.map (·.2.2), x ∈ emitted) ∧ (∀ x ∈ ext5Table.map (·.2.2), x ∈ emitted) ∧
    (∀ x ∈ ext6Table.map (·.2.2), x ∈ emitted) ∧ (∀ x ∈ ext7Table.map (·.2.2), x ∈ emitted) := by decide +kernel

theorem hits_ok (noInv : Bool) (c : List Str) :
    (∀ res, triadHits noInv c = .ok res → ∀ h ∈ res, HitOK h) ∧
    (∀ res, seventhHits noInv c = .ok res → ∀ h ∈ res, HitOK h) ∧
    (∀ res, ext5Hits noInv c = .ok res → ∀ h ∈ res, HitOK h) ∧
    (∀ res, ext6Hits noInv c = .ok res → ∀ h ∈ res, HitOK h) ∧
    (∀ res, ext7Hits c = .ok res → ∀ h ∈ res, HitOK h) := by
  obtain ⟨t4, t5, t6, t7⟩ := tables_emitted
  refine ⟨?_, ?_, ?_, ?_, ?_⟩
  · intro res hr h hh
    have := exhaust_hits triadStep 3 noInv triadStep_hits 3 c 1 res hr h hh
    exact ⟨this.1, by omega, by omega⟩
  · intro res hr h hh
    have := exhaust_hits _ 4 noInv (extStep_hits (triadHits true) seventhTable 3 t4) 4 c 1 res hr h hh
    exact ⟨this.1, by omega, by omega⟩
  · intro res hr h hh
    have hstep : ∀ c t hs, (do let _ ← triadHits true (List.take 3 c); extStep (seventhHits true) ext5Table 4 c t) = .ok hs →
        ∀ h ∈ hs, h.short ∈ emitted ∧ h.tries = t := by
      intro c t hs hst
      simp only [bind, Except.bind] at hst
      split at hst
      · cases hst
      · exact extStep_hits (seventhHits true) ext5Table 4 t5 c t hs hst
    have := exhaust_hits _ 5 noInv hstep 5 c 1 res hr h hh
    exact ⟨this.1, by omega, by omega⟩
  · intro res hr h hh
    have := exhaust_hits _ 6 noInv (extStep_hits (ext5Hits true) ext6Table 5 t6) 6 c 1 res hr h hh
    exact ⟨this.1, by omega, by omega⟩
  · intro res hr h hh
    have := exhaust_hits _ 6 false (extStep_hits (ext6Hits true) ext7Table 6 t7) 6 c 1 res hr h hh
    exact ⟨this.1, by omega, by omega⟩

theorem hitsFor_ok (noInv : Bool) (c : List Str) (res : List Hit) (h : hitsFor noInv c = .ok res) :
    ∀ x ∈ res, HitOK x := by
  obtain ⟨k3, k4, k5, k6, k7⟩ := hits_ok noInv c
  unfold hitsFor at h
  split at h
  · exact k3 res h
  · split at h
    · exact k4 res h
    · split at h
      · exact k5 res h
      · split at h
        · exact k6 res h
        · exact k7 res h

/-- for every input list: whenever the shorthand form succeeds, the long form succeeds with an answer of the
    same length (and the shorthand form never fails where the long form succeeds: its formatting cannot fail) -/
theorem forms_agree (c : List Str) (noInv noPoly : Bool) (S : List Str)
    (hS : determine c true noInv noPoly = .ok S) :
    ∃ L, determine c false noInv noPoly = .ok L ∧ L.length = S.length := by
  match c, hS with
  | [], hS => exact ⟨S, hS, rfl⟩
  | [a], hS => exact ⟨S, hS, rfl⟩
  | [a, b], hS => exact ⟨S, hS, rfl⟩
  | a :: b :: d :: rest, hS =>
    simp only [determine] at hS ⊢
    split at hS
    · rename_i h8
      rw [if_pos h8]; exact ⟨S, hS, rfl⟩
    · rename_i h8
      rw [if_neg h8]
      simp only [bind, Except.bind] at hS ⊢
      cases hh : hitsFor noInv (a :: b :: d :: rest) with
      | error e => simp [hh] at hS
      | ok hits =>
        obtain ⟨S', hS', hl'⟩ := fmt_short hits
        obtain ⟨L, hL, hlL⟩ := fmt_long hits (hitsFor_ok noInv _ hits hh)
        simp only [hh, hS', hL] at hS ⊢
        cases noPoly with
        | true =>
          simp only [if_true, pure, Except.pure, Except.ok.injEq] at hS ⊢
          subst hS
          exact ⟨L ++ [], rfl, by simp; omega⟩
        | false =>
          simp only [Bool.false_eq_true, if_false] at hS ⊢
          cases hp : polychords (a :: b :: d :: rest) with
          | error e => simp [hp] at hS
          | ok p =>
            simp only [hp, pure, Except.pure, Except.ok.injEq] at hS ⊢
            subst hS
            exact ⟨L ++ p, rfl, by simp; omega⟩

end Mingus.Props.C07
