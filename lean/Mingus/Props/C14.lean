import Mingus.Model.Containers
/-
  C14 — tracks and compositions accumulate music faithfully.
  Theorems about `Track.addNotes` histories of any length (induction over the item list), the instrument gate and the
  composition's track selection.  `from_chords` is tied by the correspondence only (see MANIFEST level_note).
-/
namespace Mingus.Props.C14
open Mingus Mingus.Containers

/-- what iteration over a track yields: (value, content) of every entry, bar after bar -/
def items (t : Track) : List (Rat × Option NC) := (t.getNotes).map fun e => (e.value, e.content)

theorem getNotes_append (bs : List Bar) (b : Bar) :
    (Track.getNotes { bars := bs ++ [b], instrument := i }) = Track.getNotes { bars := bs, instrument := i } ++ b.entries := by
  simp [Track.getNotes, List.flatMap_append]

theorem place_entries (b : Bar) (c : Option NC) (v : Rat) :
    ((b.place c v).1 = true → (b.place c v).2.entries = b.entries ++ [⟨b.current, v, c⟩] ∧
        (b.place c v).2.key = b.key ∧ (b.place c v).2.meter = b.meter) ∧
    ((b.place c v).1 = false → (b.place c v).2 = b) := by
  unfold Bar.place
  simp only
  split <;> simp

theorem prepared_ne (t : Track) : Track.prepared t ≠ [] := by
  unfold Track.prepared
  simp only
  split <;> (split <;> simp_all)

theorem empty_bar_not_full : ({} : Bar).isFull = false := by decide +kernel

theorem prepared_items (t : Track) : Track.getNotes { t with bars := Track.prepared t } = Track.getNotes t := by
  unfold Track.prepared Track.getNotes
  simp only
  by_cases he : t.bars.isEmpty = true
  · have : t.bars = [] := by simpa using he
    simp [this, empty_bar_not_full]
  · simp only [he, Bool.false_eq_true, if_false]
    split <;> simp [List.flatMap_append]

theorem addNotes_unfold (t : Track) (c : Option NC) (v : Rat) (hgate : ∀ i nc, t.instrument = some i → c = some nc → i.canPlay nc = true) :
    t.addNotes c v = .ok (
      let r := ((Track.prepared t).getLast?.getD {}).place c v
      if r.1 then (true, { t with bars := (Track.prepared t).dropLast ++ [r.2] }) else (false, { t with bars := Track.prepared t })) := by
  unfold Track.addNotes
  cases hi : t.instrument with
  | none => simp [bind, Except.bind, pure, Except.pure]
  | some i =>
    cases hc : c with
    | none => simp [bind, Except.bind, pure, Except.pure]
    | some nc =>
      have := hgate i nc hi hc
      simp [this, bind, Except.bind, pure, Except.pure]

/-- an accepted item appends exactly one entry with its value and content; a refused one leaves the music unchanged -/
theorem addNotes_items (t : Track) (c : Option NC) (v : Rat) (hgate : ∀ i nc, t.instrument = some i → c = some nc → i.canPlay nc = true) :
    ∃ ok t', t.addNotes c v = .ok (ok, t') ∧ t'.instrument = t.instrument ∧
      items t' = (if ok then items t ++ [(v, c)] else items t) := by
  rw [addNotes_unfold t c v hgate]
  have hne := prepared_ne t
  have hsplit : Track.prepared t = (Track.prepared t).dropLast ++ [(Track.prepared t).getLast?.getD {}] := by
    rw [List.getLast?_eq_some_getLast hne]; simp [List.dropLast_concat_getLast hne]
  have hp := prepared_items t
  simp only
  cases hr : ((Track.prepared t).getLast?.getD {}).place c v with
  | mk ok b' =>
    have hpe := place_entries ((Track.prepared t).getLast?.getD {}) c v
    rw [hr] at hpe
    cases ok with
    | true =>
      refine ⟨true, _, rfl, rfl, ?_⟩
      simp only [if_true, items]
      have h1 := (hpe.1 rfl).1
      simp only at h1
      rw [getNotes_append, h1, ← List.append_assoc, ← getNotes_append, ← hsplit]
      simp only [List.map_append, List.map_cons, List.map_nil]
      have : Track.getNotes { bars := Track.prepared t, instrument := t.instrument } = Track.getNotes t := hp
      rw [this]
    | false =>
      refine ⟨false, _, rfl, rfl, ?_⟩
      simp only [Bool.false_eq_true, if_false, items]
      have : Track.getNotes { bars := Track.prepared t, instrument := t.instrument } = Track.getNotes t := hp
      rw [this]

/-! ### histories of any length -/
/-- run a list of (content, value) items through `add_notes`; returns the per-item answers and the final track -/
def run (t : Track) : List (Option NC × Rat) → List Bool × Track
  | [] => ([], t)
  | (c, v) :: rest =>
    match t.addNotes c v with
    | .ok (ok, t') => let r := run t' rest; (ok :: r.1, r.2)
    | .error _ => let r := run t rest; (false :: r.1, r.2)

/-- iterating the track yields exactly the accepted items, in order, with their values and contents (no instrument) -/
theorem history_items (its : List (Option NC × Rat)) (t : Track) (hi : t.instrument = none) :
    items (run t its).2 = items t ++ ((its.zip (run t its).1).filter (·.2)).map (fun p => (p.1.2, p.1.1)) ∧
    (run t its).1.length = its.length := by
  induction its generalizing t with
  | nil => simp [run]
  | cons it rest ih =>
    obtain ⟨c, v⟩ := it
    obtain ⟨ok, t', h1, h2, h3⟩ := addNotes_items t c v (by intro i nc h; rw [hi] at h; cases h)
    simp only [run, h1]
    obtain ⟨ih1, ih2⟩ := ih t' (by rw [h2, hi])
    refine ⟨?_, by simp [ih2]⟩
    rw [ih1, h3]
    cases ok <;> simp [List.zip_cons_cons]

/-- a bar opened by `add_notes` is opened only after a full bar and inherits that bar's key and meter - and with the meter its
    length: the new bar is full after exactly as much music as its predecessor -/
theorem new_bar_inherits (t : Track) (h : t.bars ≠ []) :
    (Track.prepared t).length = t.bars.length ∨
    (∃ last fresh, t.bars.getLast? = some last ∧ last.isFull = true ∧ Track.prepared t = t.bars ++ [fresh] ∧
      fresh.key = last.key ∧ fresh.meter = last.meter ∧ fresh.length = last.length ∧ fresh.entries = []) := by
  unfold Track.prepared
  have he : t.bars.isEmpty = false := by cases hb : t.bars with | nil => exact absurd hb h | cons a b => rfl
  simp only [he, Bool.false_eq_true, if_false]
  split
  · rename_i hf
    right
    refine ⟨t.bars.getLast?.getD {}, _, ?_, hf, rfl, rfl, rfl, rfl, rfl⟩
    rw [List.getLast?_eq_some_getLast h]; simp
  · left; rfl

/-! ### instrument gate -/
theorem gate_rejects (t : Track) (i : Instrument) (nc : NC) (v : Rat) (hi : t.instrument = some i) (h : i.canPlay nc = false) :
    t.addNotes (some nc) v = .error .instrumentRange := by
  simp [Track.addNotes, hi, h, bind, Except.bind, throw, throwThe, MonadExceptOf.throw]

theorem gate_accepts_rest (t : Track) (v : Rat) : ∃ r, t.addNotes none v = .ok r := by
  obtain ⟨ok, t', h, _⟩ := addNotes_items t none v (by intro i nc _ h; cases h)
  exact ⟨_, h⟩

theorem gate_in_range (t : Track) (i : Instrument) (nc : NC) (v : Rat) (hi : t.instrument = some i) (h : i.canPlay nc = true) :
    ∃ r, t.addNotes (some nc) v = .ok r := by
  obtain ⟨ok, t', h', _⟩ := addNotes_items t (some nc) v (by
    intro i' nc' h1 h2; rw [hi] at h1; cases h1; cases h2; exact h)
  exact ⟨_, h'⟩

/-- the range test itself: every note between the instrument's lowest and highest pitch (and at most six notes on a guitar) -/
theorem canPlay_spec (i : Instrument) (nc : NC) :
    i.canPlay nc = true ↔ (∀ m, i.maxNotes = some m → nc.length ≤ m) ∧ ∀ n ∈ nc, i.lo.pitch ≤ n.pitch ∧ n.pitch ≤ i.hi.pitch := by
  unfold Instrument.canPlay
  cases hm : i.maxNotes <;> simp [hm]

/-! ### refusal: full statement, proved part, counterexample (known finding C14-refused-add-opens-bar) -/
def C14_refusal_full : Prop := ∀ (t t' : Track) (c : Option NC) (v : Rat), t.addNotes c v = .ok (false, t') → t' = t
theorem refusal_counterexample : ¬ C14_refusal_full := by
  intro h
  have := h {} { bars := [{}] } (some [⟨lit "C", 4, 1, 64⟩]) (1 / 2) (by decide +kernel)
  simp at this

/-! ### composition -/
theorem addNote_selection (c : Composition) (content : Option NC) (c' : Composition) (h : c.addNote content = .ok c') :
    c'.tracks.length = c.tracks.length ∧ c'.selected = c.selected := by
  simp only [Composition.addNote, bind, Except.bind] at h
  split at h
  · cases h
  · rename_i ts hts
    simp only [pure, Except.pure, Except.ok.injEq] at h; subst h
    refine ⟨?_, rfl⟩
    have : ∀ (l : List (Nat × Track)) (f : Nat × Track → Except Err Track) (r : List Track), l.mapM f = .ok r → r.length = l.length := by
      intro l f
      induction l with
      | nil => intro r hr; simp [pure, Except.pure] at hr; subst hr; rfl
      | cons a t ih =>
        intro r hr
        simp only [List.mapM_cons, bind, Except.bind] at hr
        split at hr
        · cases hr
        · split at hr
          · cases hr
          · rename_i bs hbs
            simp only [pure, Except.pure, Except.ok.injEq] at hr; subst hr; simp [ih bs hbs]
    rw [this _ _ _ hts]; simp

theorem addTrack_selects (c : Composition) (t : Track) :
    (c.addTrack t).tracks = c.tracks ++ [t] ∧ (c.addTrack t).selected = [c.tracks.length] := ⟨rfl, rfl⟩

/-- non-vacuity: five quarters into an E-flat 3/4 track open a second bar that inherits key and meter -/
example : (run { bars := [{ key := lit "Eb", meter := (3, 4), length := 3 / 4 }] }
    [(none, 4), (none, 4), (none, 4), (none, 4), (none, 4)]).2.bars.map (fun b => (b.key, b.meter, b.entries.length)) =
    [(lit "Eb", (3, 4), 3), (lit "Eb", (3, 4), 2)] := by decide +kernel

end Mingus.Props.C14
