import Mingus.Props.C20
/-
  C20 — the tablature of a bar decodes to the fingerings of its entries (`from_Bar`).

  `readCell` is the reader: the digits of a cell (the columns one entry adds to one string line), as a number, or nothing when
  the cell has no digit.  `foldl_barStep_decode` / `fromBar_decode`: the string lines of a rendered bar are the label
  columns followed, entry by entry, by one cell per string, and reading the cells of entry k gives back EXACTLY a fingering
  of entry k's notes (one distinct string per note in order, the fret on that string sounding the note - `Assigns` - within
  the span limit); a rest reads as no fret on any string.  For any tuning, any bar, any width.
-/
namespace Mingus.Props.C20
open Mingus Mingus.Tun Mingus.Tab Mingus.Containers

/-- the reader of one cell -/
def readCell (seg : Line) : Option Int :=
  let d := seg.filter Char.isDigit
  if d = [] then none else some (C10.parseFold d)

/-- what a fingering says about string `i` (a dict: the last assignment wins) -/
def lookup (f : Fingering) (i : Nat) : Option Int := (f.reverse.find? (·.1 == i)).map (·.2)

theorem filter_digit_rep_dash (n : Int) : (rep '-' n).filter Char.isDigit = [] := by
  simp only [rep, List.filter_eq_nil_iff, List.mem_replicate]
  rintro c ⟨_, rfl⟩; decide

theorem filter_digit_rjust (x : Str) (n : Nat) : (rjust x n).filter Char.isDigit = x.filter Char.isDigit := by
  simp only [rjust, List.filter_append]
  have : (List.replicate (n - x.length) ' ').filter Char.isDigit = [] := by
    simp only [List.filter_eq_nil_iff, List.mem_replicate]
    rintro c ⟨_, rfl⟩; decide
  rw [this]; rfl

theorem showInt_digits (fr : Int) (h : 0 ≤ fr) :
    (Note.showInt fr).filter Char.isDigit = Note.showInt fr ∧ Note.showInt fr ≠ [] ∧ C10.parseFold (Note.showInt fr) = fr := by
  have hn : ¬ fr < 0 := by omega
  simp only [Note.showInt, hn, if_false, Note.showNat]
  obtain ⟨h1, h2, h3, _⟩ := C10.digitsF_spec (fr.toNat + 1) fr.toNat (by omega)
  refine ⟨?_, h2, ?_⟩
  · rw [List.filter_eq_self]; intro c hc; exact List.all_eq_true.1 h1 c hc
  · rw [h3]; omega

/-- the cell one entry adds to string line `i` -/
def entrySeg (f : Fingering) (maxlen : Nat) (dur : Int) (i : Nat) : Line :=
  match (f.reverse.find? (·.1 == i)) with
  | none => rep '-' maxlen ++ rep '-' dur
  | some p => rjust (Note.showInt p.2) maxlen ++ rep '-' dur

theorem entryCols_eq (f : Fingering) (maxlen : Nat) (dur : Int) (i : Nat) (ln : Line) :
    entryCols f maxlen dur i ln = ln ++ entrySeg f maxlen dur i := by
  unfold entryCols entrySeg
  cases f.reverse.find? (·.1 == i) <;> simp [List.append_assoc]

/-- **one cell reads back as the fingering's fret on that string** -/
theorem entrySeg_decode (f : Fingering) (maxlen : Nat) (dur : Int) (i : Nat) (hf : ∀ p ∈ f, 0 ≤ p.2) :
    readCell (entrySeg f maxlen dur i) = lookup f i := by
  unfold entrySeg lookup readCell
  cases hfind : f.reverse.find? (·.1 == i) with
  | none => simp [List.filter_append, filter_digit_rep_dash]
  | some p =>
    have hmem : p ∈ f := by simpa using List.mem_of_find?_eq_some hfind
    obtain ⟨h1, h2, h3⟩ := showInt_digits p.2 (hf p hmem)
    simp only [List.filter_append, filter_digit_rep_dash, filter_digit_rjust, h1, List.append_nil, h2, if_false, h3,
      Option.map_some]

/-! ### lines grow cell by cell -/

def appendSegs (res : List Line) (g : Nat → Line) : List Line := res.mapIdx fun i ln => ln ++ g i

theorem zip_range_map {α β} (l : List α) (F : Nat → α → β) :
    (List.zip (List.range l.length) l).map (fun p => F p.1 p.2) = l.mapIdx F := by
  apply List.ext_getElem
  · simp
  · intro k h1 h2
    simp

theorem appendSegs_length (res : List Line) (g : Nat → Line) : (appendSegs res g).length = res.length := by
  simp [appendSegs]

theorem appendSegs_nil (res : List Line) : appendSegs res (fun _ => []) = res := by
  apply List.ext_getElem
  · simp [appendSegs]
  · intro k h1 h2; simp [appendSegs]

theorem appendSegs_appendSegs (res : List Line) (g1 g2 : Nat → Line) :
    appendSegs (appendSegs res g1) g2 = appendSegs res (fun i => g1 i ++ g2 i) := by
  apply List.ext_getElem
  · simp [appendSegs]
  · intro k h1 h2; simp [appendSegs, List.append_assoc]

/-- the fingering an entry is rendered with: none for a rest; for notes, an assignment within the span limit -/
def EntryFing (t : Tuning) (e : TEntry) (f : Fingering) : Prop :=
  match e.content with
  | none => f = []
  | some notes => Assigns t notes [] f ∧ spanOk f 4 = true

/-- the cells `g` (one per string index) of an entry read back as a fingering of that entry -/
def Decodes (t : Tuning) (e : TEntry) (g : Nat → Line) : Prop :=
  ∃ f, EntryFing t e f ∧ ∀ i, readCell (g i) = lookup f i

theorem assigns_nonneg (t : Tuning) (notes : List Note) : ∀ (used : List Nat) (f : Fingering), Assigns t notes used f →
    ∀ p ∈ f, 0 ≤ p.2 := by
  have key : ∀ (n : Note) (s : Nat) (fr : Int), fretOn t n s = some fr → 0 ≤ fr := by
    intro n s fr h
    unfold fretOn at h
    split at h
    · rename_i l hl
      have hmem : some fr ∈ l := by
        cases hs : l[s]? with
        | none => simp [hs] at h
        | some o =>
          simp only [hs, Option.getD_some] at h
          subst h
          exact List.mem_of_getElem? hs
      exact (findFrets_range t n 24 l hl fr hmem).1
    · cases h
  induction notes with
  | nil => intro used f h; simp [Assigns] at h
  | cons n rest ih =>
    intro used f h
    cases rest with
    | nil =>
      obtain ⟨s, fr, rfl, _, hfr⟩ := h
      intro p hp
      simp only [List.mem_singleton] at hp
      subst hp
      exact key n s fr hfr
    | cons m rest' =>
      obtain ⟨s, fr, f', rfl, _, hfr, hr⟩ := h
      intro p hp
      rcases List.mem_cons.1 hp with rfl | hp
      · exact key n s fr hfr
      · exact ih _ f' hr p hp

theorem entryFingering_spec (t : Tuning) (e : TEntry) (fm : Fingering × Nat) (h : entryFingering t e = .ok fm) :
    EntryFing t e fm.1 := by
  unfold entryFingering at h
  unfold EntryFing
  split at h
  · rename_i hc
    simp only [pure, Except.pure, Except.ok.injEq] at h
    subst h; simp [hc]
  · rename_i notes hc
    simp only [bind, Except.bind] at h
    split at h
    · cases h
    · rename_i fs hfs
      split at h
      · cases h
      · rename_i f rest
        simp only [pure, Except.pure, Except.ok.injEq] at h
        subst h
        simp only [hc]
        exact (mem_findFingering t notes 4 (f :: rest) hfs f).1 (by simp)

theorem entryFing_nonneg (t : Tuning) (e : TEntry) (f : Fingering) (h : EntryFing t e f) : ∀ p ∈ f, 0 ≤ p.2 := by
  unfold EntryFing at h
  split at h
  · subst h; simp
  · exact assigns_nonneg t _ [] f h.1

/-- one entry of `from_Bar`: every string line grows by one cell, and the cells decode to a fingering of the entry -/
theorem barStep_decode (t : Tuning) (qsize : Int) (res0 res : List Line) (e : TEntry)
    (h : barStep t qsize res0 e = .ok res) : ∃ g, res = appendSegs res0 g ∧ Decodes t e g := by
  unfold barStep at h
  split at h
  · cases h
  · simp only [bind, Except.bind] at h
    split at h
    · cases h
    · rename_i fm hfm
      simp only [pure, Except.pure, Except.ok.injEq] at h
      subst h
      have hef := entryFingering_spec t e fm hfm
      refine ⟨entrySeg fm.1 (maxLen fm.1 fm.2) (columns e.value qsize - (maxLen fm.1 fm.2 : Int)), ?_, fm.1, hef, ?_⟩
      · unfold appendSegs
        rw [← zip_range_map]
        apply List.map_congr_left
        intro p _
        exact entryCols_eq _ _ _ _ _
      · intro i
        exact entrySeg_decode _ _ _ _ (entryFing_nonneg t e fm.1 hef)

/-- the cells of all entries so far on string `i`, concatenated -/
def cellsOn (gs : List (Nat → Line)) (i : Nat) : Line := (gs.map (· i)).flatten

theorem foldl_barStep_decode (t : Tuning) (qsize : Int) (es : List TEntry) : ∀ (res0 res : List Line),
    es.foldlM (barStep t qsize) res0 = .ok res →
    ∃ gs : List (Nat → Line), res = appendSegs res0 (cellsOn gs) ∧ List.Forall₂ (Decodes t) es gs := by
  induction es with
  | nil =>
    intro res0 res hr
    simp only [List.foldlM_nil, pure, Except.pure, Except.ok.injEq] at hr
    subst hr
    refine ⟨[], ?_, List.Forall₂.nil⟩
    have : cellsOn [] = fun _ => [] := by funext i; simp [cellsOn]
    rw [this, appendSegs_nil]
  | cons e es ih =>
    intro res0 res hr
    rw [List.foldlM_cons] at hr
    cases h1 : barStep t qsize res0 e with
    | error err => simp [h1, bind, Except.bind] at hr
    | ok r1 =>
      simp only [h1, bind, Except.bind] at hr
      obtain ⟨g, rfl, hg⟩ := barStep_decode t qsize res0 r1 e h1
      obtain ⟨gs, rfl, hgs⟩ := ih _ res hr
      refine ⟨g :: gs, ?_, List.Forall₂.cons hg hgs⟩
      rw [appendSegs_appendSegs]
      congr 1

/-- **from_Bar decodes**: the string lines of a rendered bar (highest string first, below the quarter-mark line) are, for
    string `i` (counted from the lowest), the label columns `start[i]`, then one cell per entry in order, then the closing
    dashes and bar line - and the cells of entry `k` read back exactly as a fingering of entry `k` (`Decodes`) -/
theorem fromBar_decode (t : Tuning) (b : TBar) (width : Int) (ls : List Line) (h : fromBar t b width = .ok ls) :
    ∃ (start : List Line) (gs : List (Nat → Line)) (close : Line),
      ls.tail.reverse = appendSegs start (fun i => cellsOn gs i ++ close) ∧
      List.Forall₂ (Decodes t) b.entries gs ∧ close.filter Char.isDigit = [] := by
  unfold fromBar at h
  simp only [bind, Except.bind] at h
  split at h
  · cases h
  · rename_i qsize hq
    split at h
    · cases h
    · rename_i start hstart
      split at h
      · cases h
      · rename_i result hres
        obtain ⟨gs, rfl, hgs⟩ := foldl_barStep_decode t qsize b.entries start result hres
        split at h
        · cases h
        · simp only [pure, Except.pure, Except.ok.injEq] at h
          subst h
          refine ⟨start, gs, rep '-' (width - (((appendSegs start (cellsOn gs)).headD []).length + 1 : Int)) ++ lit "|", ?_, hgs, ?_⟩
          · simp only [List.tail_cons, List.reverse_reverse]
            apply List.ext_getElem
            · simp [appendSegs]
            · intro k h1 h2
              simp [appendSegs, List.append_assoc]
          · rw [List.filter_append, filter_digit_rep_dash]
            decide

/-! ### a fingering read back names each note's string and fret -/

theorem fst_unique (f : Fingering) (hn : (f.map (·.1)).Nodup) (s : Nat) (a b : Int) (ha : (s, a) ∈ f) (hb : (s, b) ∈ f) :
    a = b := by
  induction f with
  | nil => cases ha
  | cons q qs ih =>
    simp only [List.map_cons, List.nodup_cons] at hn
    have hin : ∀ c, (s, c) ∈ qs → s ∈ qs.map (·.1) := fun c hc => List.mem_map.2 ⟨(s, c), hc, rfl⟩
    rcases List.mem_cons.1 ha with ha' | ha'
    · rcases List.mem_cons.1 hb with hb' | hb'
      · have := ha'.trans hb'.symm
        exact (Prod.mk.inj this).2
      · subst ha'
        exact absurd (hin b hb') hn.1
    · rcases List.mem_cons.1 hb with hb' | hb'
      · subst hb'
        exact absurd (hin a ha') hn.1
      · exact ih hn.2 ha' hb'

/-- with distinct strings, the dict lookup returns exactly the pairs of the fingering -/
theorem lookup_iff (f : Fingering) (hn : (f.map (·.1)).Nodup) (s : Nat) (fr : Int) : lookup f s = some fr ↔ (s, fr) ∈ f := by
  unfold lookup
  constructor
  · intro h
    cases hfind : f.reverse.find? (·.1 == s) with
    | none => simp [hfind] at h
    | some p =>
      simp only [hfind, Option.map_some, Option.some.injEq] at h
      have hmem : p ∈ f := by simpa using List.mem_of_find?_eq_some hfind
      have hp : p.1 = s := by simpa using List.find?_some hfind
      rw [← hp, ← h]; exact hmem
  · intro h
    cases hfind : f.reverse.find? (·.1 == s) with
    | none =>
      have := List.find?_eq_none.1 hfind (s, fr) (by simpa using h)
      simp at this
    | some p =>
      have hmem : p ∈ f := by simpa using List.mem_of_find?_eq_some hfind
      have hp : p.1 = s := by simpa using List.find?_some hfind
      have : (s, p.2) ∈ f := by rw [← hp]; exact hmem
      simp only [Option.map_some, Option.some.injEq]
      exact fst_unique f hn s p.2 fr this h

/-- **what is read off an entry's cells**: string `s` shows fret `fr` exactly when the entry's fingering assigns `(s, fr)`;
    the fingering has one pair per note, in order, each sounding its note (`Assigns`); a rest shows nothing -/
theorem decodes_spec (t : Tuning) (e : TEntry) (g : Nat → Line) (h : Decodes t e g) :
    match e.content with
    | none => ∀ i, readCell (g i) = none
    | some notes => ∃ f, Assigns t notes [] f ∧ spanOk f 4 = true ∧ f.length = notes.length ∧
        ∀ s fr, readCell (g s) = some fr ↔ (s, fr) ∈ f := by
  obtain ⟨f, hf, hread⟩ := h
  unfold EntryFing at hf
  split
  · rename_i hc
    simp only [hc] at hf
    subst hf
    intro i; rw [hread i]; simp [lookup]
  · rename_i notes hc
    simp only [hc] at hf
    obtain ⟨hd, _, hlen⟩ := strings_distinct t notes [] f hf.1
    refine ⟨f, hf.1, hf.2, hlen, ?_⟩
    intro s fr
    rw [hread s]
    exact lookup_iff f hd s fr

/-! ### the statement is about something: a kernel-evaluated entry on the standard guitar -/

private def nt (s : String) (o : Int) : Note := ⟨s.toList, o, 1, 64⟩

example : (barStep defaultTuning 5 (List.replicate 6 []) ⟨4, some [nt "C" 3, nt "E" 3]⟩).map (·.map readCell) =
    .ok [none, some 3, some 2, none, none, none] := by decide +kernel

example : (barStep defaultTuning 5 (List.replicate 6 []) ⟨4, none⟩).map (·.map readCell) =
    .ok [none, none, none, none, none, none] := by decide +kernel

/-! ### from_NoteContainer: one column, the fret numbers centred -/

theorem filter_digit_centred (fret : Str) (w : Int) : (centred fret w).filter Char.isDigit = fret.filter Char.isDigit := by
  unfold centred
  simp only [List.filter_append, filter_digit_rep_dash, List.nil_append, List.append_nil]
  have : (lit "|").filter Char.isDigit = [] := by decide
  rw [this, List.append_nil]

/-- **from_NoteContainer decodes**: the lines of the rendering (highest string first) are, for string `i` counted from the
    lowest, the label columns followed by ONE cell, and reading the cell gives fret `fr` exactly when the fingering used -
    the first one `find_fingering` returns, an assignment of distinct strings each sounding its note, within span 4 - assigns
    `(i, fr)`; no fingering at all raises the fingering error -/
theorem fromNC_decode (t : Tuning) (notes : NC) (width : Int) (ls : List Line) (h : fromNC t notes width = .ok ls) :
    ∃ (start : List Line) (f : Fingering) (cells : Nat → Line),
      ls.reverse = appendSegs start cells ∧ Assigns t notes [] f ∧ spanOk f 4 = true ∧
      ∀ s fr, readCell (cells s) = some fr ↔ (s, fr) ∈ f := by
  unfold fromNC at h
  simp only [bind, Except.bind] at h
  split at h
  · cases h
  · rename_i start hstart
    split at h
    · cases h
    · rename_i fs hfs
      split at h
      · cases h
      · rename_i f rest
        simp only [pure, Except.pure, Except.ok.injEq] at h
        subst h
        have hmem := (mem_findFingering t notes 4 (f :: rest) hfs f).1 (by simp)
        have hnn := assigns_nonneg t notes [] f hmem.1
        obtain ⟨hd, _, _⟩ := strings_distinct t notes [] f hmem.1
        let w : Int := max 4 ((width - ((start.headD []).length : Int)) - 1)
        let cells : Nat → Line := fun i =>
          match (f.reverse.find? (·.1 == i)) with
          | none => rep '-' w ++ lit "|"
          | some p => centred (Note.showInt p.2) w
        refine ⟨start, f, cells, ?_, hmem.1, hmem.2, ?_⟩
        · simp only [List.reverse_reverse]
          unfold appendSegs
          rw [← zip_range_map]
          apply List.map_congr_left
          intro p _
          simp only [cells]
          cases f.reverse.find? (·.1 == p.1) <;> simp [w, List.append_assoc]
        · intro s fr
          rw [← lookup_iff f hd s fr]
          simp only [cells, lookup, readCell]
          cases hfind : f.reverse.find? (·.1 == s) with
          | none =>
            have : ((rep '-' w ++ lit "|").filter Char.isDigit) = [] := by
              rw [List.filter_append, filter_digit_rep_dash]; decide
            simp [this]
          | some p =>
            have hp : p ∈ f := by simpa using List.mem_of_find?_eq_some hfind
            obtain ⟨h1, h2, h3⟩ := showInt_digits p.2 (hnn p hp)
            simp only [filter_digit_centred, h1, h2, if_false, h3, Option.map_some]

end Mingus.Props.C20
