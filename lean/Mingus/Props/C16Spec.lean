import Mingus.Props.C16Smf
/-
  C16 — the pending-delta machine refines a pure specification: the events a track writes, with their delta times,
  as a function of the music alone.  The machine's `pending` field never appears in the specification: whatever it holds
  between operations, every event is emitted with the delta the specification says.
-/
namespace Mingus.Props.C16
open Mingus Mingus.Midi Mingus.Containers

/-- a note within MIDI range -/
def okNote (n : Note) : Prop :=
  0 ≤ n.channel ∧ n.channel < 16 ∧ 0 ≤ n.velocity ∧ n.velocity ≤ 127 ∧
  n.toInt = .ok n.pitch ∧ 0 ≤ n.pitch + 12 ∧ n.pitch + 12 ≤ 127

def onEv (n : Note) : Ev := .chan2 9 n.channel.toNat (n.pitch + 12).toNat n.velocity.toNat
def offEv (n : Note) : Ev := .chan2 8 n.channel.toNat (n.pitch + 12).toNat n.velocity.toNat
def bankEv (n : Note) : Ev := .chan2 11 n.channel.toNat 0 1
def progEv (n : Note) (instr : Int) : Ev := .chan1 12 n.channel.toNat instr.toNat

/-- what the specification remembers between entries: accumulated rest ticks, and a pending instrument change -/
structure S where
  delay : Nat
  ci : Bool
  instr : Int
  deriving DecidableEq, Repr

def Rel (t : MT) (evs : List TEv) (s : S) : Prop :=
  t.evs = evs ∧ t.delay = s.delay ∧ t.changeInstr = s.ci ∧ t.instr = s.instr

def specEntry (s : S) (e : MEntry) : List TEv × S :=
  match e.notes with
  | [] => ([], { s with delay := s.delay + tickOf e.value })
  | n :: rest =>
    ((if s.ci then [⟨s.delay, bankEv n⟩, ⟨0, progEv n s.instr⟩] else []) ++
      ⟨if s.ci then 0 else s.delay, onEv n⟩ :: rest.map (fun m => ⟨0, onEv m⟩) ++
      ⟨tickOf e.value, offEv n⟩ :: rest.map (fun m => ⟨0, offEv m⟩),
     ⟨0, false, s.instr⟩)

def okInstr (s : S) : Prop := s.ci = true → 0 ≤ s.instr ∧ s.instr ≤ 127
/-- an entry the specification speaks about: non-zero value, notes in MIDI range, no tempo change (those: `entry_tempo_refines`) -/
def okEntry (e : MEntry) : Prop := e.value ≠ 0 ∧ (∀ n ∈ e.notes, okNote n) ∧ e.bpm = none

/-! ### single events -/

theorem chan2_ok (t : MT) (k : Nat) (ch p1 p2 : Int) (h : 0 ≤ ch ∧ ch < 16 ∧ 0 ≤ p1 ∧ p1 ≤ 127 ∧ 0 ≤ p2 ∧ p2 ≤ 127) :
    t.chan2 k ch p1 p2 = .ok (t.emit (.chan2 k ch.toNat p1.toNat p2.toNat)) := by
  obtain ⟨a, b, c, d, e, f⟩ := h
  simp [MT.chan2, MT.in7, a, b, c, d, e, f]

theorem chan1_ok (t : MT) (k : Nat) (ch p1 : Int) (h : 0 ≤ ch ∧ ch < 16 ∧ 0 ≤ p1 ∧ p1 ≤ 127) :
    t.chan1 k ch p1 = .ok (t.emit (.chan1 k ch.toNat p1.toNat)) := by
  obtain ⟨a, b, c, d⟩ := h
  simp [MT.chan1, MT.in7, a, b, c, d]

theorem stopNote_ok (t : MT) (n : Note) (h : okNote n) : t.stopNote n = .ok (t.emit (offEv n)) := by
  obtain ⟨a, b, c, d, e, f, g⟩ := h
  simp only [MT.stopNote, e, bind, Except.bind]
  rw [chan2_ok t 8 _ _ _ ⟨a, b, f, g, c, d⟩]; rfl

theorem playNote_plain (t : MT) (n : Note) (hc : t.changeInstr = false) (h : okNote n) :
    t.playNote n = .ok (t.emit (onEv n)) := by
  obtain ⟨a, b, c, d, e, f, g⟩ := h
  have hv : ¬ ¬ (0 ≤ n.velocity ∧ n.velocity ≤ 127) := by simp [c, d]
  simp only [MT.playNote, hc, Bool.false_eq_true, if_false, bind, Except.bind, pure, Except.pure, e]
  rw [if_neg hv, chan2_ok t 9 _ _ _ ⟨a, b, f, g, c, d⟩]; rfl

theorem playNote_instr (t : MT) (n : Note) (hc : t.changeInstr = true) (h : okNote n)
    (hi : 0 ≤ t.instr ∧ t.instr ≤ 127) :
    t.playNote n = .ok { t with evs := t.evs ++ [⟨t.pending, bankEv n⟩, ⟨0, progEv n t.instr⟩, ⟨0, onEv n⟩],
                                pending := 0, changeInstr := false } := by
  obtain ⟨a, b, c, d, e, f, g⟩ := h
  have hv : ¬ ¬ (0 ≤ n.velocity ∧ n.velocity ≤ 127) := by simp [c, d]
  simp only [MT.playNote, hc, if_true, bind, Except.bind, pure, Except.pure, MT.setInstrument]
  rw [chan2_ok t 11 n.channel 0 1 ⟨a, b, by omega, by omega, by omega, by omega⟩]
  simp only [MT.setDelta, MT.emit]
  rw [chan1_ok _ 12 n.channel _ ⟨a, b, hi.1, hi.2⟩]
  simp only [MT.emit, e]
  rw [if_neg hv, chan2_ok _ 9 _ _ _ ⟨a, b, f, g, c, d⟩]
  simp [MT.emit, bankEv, progEv, onEv]

theorem foldl_play (ns : List Note) : ∀ (t : MT), t.changeInstr = false → (∀ n ∈ ns, okNote n) →
    ns.foldlM MT.playNote t = .ok { t with evs := t.evs ++ ns.map (fun m => ⟨t.pending, onEv m⟩) } := by
  induction ns with
  | nil => intro t _ _; simp [pure, Except.pure]
  | cons n ns ih =>
    intro t hc h
    rw [List.foldlM_cons, playNote_plain t n hc (h n (by simp))]
    simp only [bind, Except.bind]
    rw [ih (t.emit (onEv n)) (by simpa [MT.emit] using hc) (fun m hm => h m (by simp [hm]))]
    simp [MT.emit]

theorem foldl_stop (ns : List Note) : ∀ (t : MT), (∀ n ∈ ns, okNote n) →
    ns.foldlM MT.stopNote t = .ok { t with evs := t.evs ++ ns.map (fun m => ⟨t.pending, offEv m⟩) } := by
  induction ns with
  | nil => intro t _; simp [pure, Except.pure]
  | cons n ns ih =>
    intro t h
    rw [List.foldlM_cons, stopNote_ok t n (h n (by simp))]
    simp only [bind, Except.bind]
    rw [ih (t.emit (offEv n)) (fun m hm => h m (by simp [hm]))]
    simp [MT.emit]

/-- `t'` is `t` with `added` appended; delay and instrument number untouched -/
def Ext (t t' : MT) (added : List TEv) : Prop :=
  t'.evs = t.evs ++ added ∧ t'.delay = t.delay ∧ t'.instr = t.instr

/-- first note with the pending delta, the others with zero -/
theorem stopNC_ok (t : MT) (n : Note) (rest : List Note) (h : ∀ m ∈ n :: rest, okNote m) :
    ∃ t', t.stopNC (n :: rest) = .ok t' ∧
      Ext t t' (⟨t.pending, offEv n⟩ :: rest.map (fun m => ⟨0, offEv m⟩)) ∧ t'.changeInstr = t.changeInstr := by
  cases rest with
  | nil =>
    refine ⟨t.emit (offEv n), ?_, ?_⟩
    · simp only [MT.stopNC]; exact stopNote_ok t n (h n (by simp))
    · simp [Ext, MT.emit]
  | cons r rs =>
    refine ⟨?w, ?h1, ?h2⟩
    case h1 =>
      simp only [MT.stopNC]
      rw [stopNote_ok t n (h n (by simp))]
      simp only [bind, Except.bind]
      rw [foldl_stop (r :: rs) _ (fun m hm => h m (by simp at hm ⊢; right; exact hm))]
    case h2 =>
      simp [Ext, MT.emit, MT.setDelta]

theorem playNC_plain (t : MT) (n : Note) (rest : List Note) (hc : t.changeInstr = false)
    (h : ∀ m ∈ n :: rest, okNote m) :
    ∃ t', t.playNC (n :: rest) = .ok t' ∧
      Ext t t' (⟨t.pending, onEv n⟩ :: rest.map (fun m => ⟨0, onEv m⟩)) ∧ t'.changeInstr = false := by
  cases rest with
  | nil =>
    refine ⟨t.emit (onEv n), ?_, ?_⟩
    · simp only [MT.playNC]; exact playNote_plain t n hc (h n (by simp))
    · simp [Ext, MT.emit, hc]
  | cons r rs =>
    refine ⟨?w, ?h1, ?h2⟩
    case h1 =>
      simp only [MT.playNC]
      rw [playNote_plain t n hc (h n (by simp))]
      simp only [bind, Except.bind]
      rw [foldl_play (r :: rs) _ (by simpa [MT.emit, MT.setDelta] using hc)
        (fun m hm => h m (by simp at hm ⊢; right; exact hm))]
    case h2 =>
      simp [Ext, MT.emit, MT.setDelta, hc]

theorem playNC_instr (t : MT) (n : Note) (rest : List Note) (hc : t.changeInstr = true)
    (hi : 0 ≤ t.instr ∧ t.instr ≤ 127) (h : ∀ m ∈ n :: rest, okNote m) :
    ∃ t', t.playNC (n :: rest) = .ok t' ∧
      Ext t t' ([⟨t.pending, bankEv n⟩, ⟨0, progEv n t.instr⟩, ⟨0, onEv n⟩] ++ rest.map (fun m => ⟨0, onEv m⟩)) ∧
      t'.changeInstr = false := by
  cases rest with
  | nil =>
    have key := playNote_instr t n hc (h n (by simp)) hi
    exact ⟨_, by simp only [MT.playNC]; exact key, by simp [Ext]⟩
  | cons r rs =>
    have key : t.playNC (n :: r :: rs) = .ok (MT.mk
        (t.evs ++ [⟨t.pending, bankEv n⟩, ⟨0, progEv n t.instr⟩, ⟨0, onEv n⟩] ++ (r :: rs).map (fun m => ⟨0, onEv m⟩))
        0 t.delay false t.instr) := by
      simp only [MT.playNC]
      rw [playNote_instr t n hc (h n (by simp)) hi]
      simp only [bind, Except.bind]
      rw [foldl_play (r :: rs) _ (by simp [MT.setDelta])
        (fun m hm => h m (by simp at hm ⊢; right; exact hm))]
      simp [MT.setDelta]
    exact ⟨_, key, by simp [Ext]⟩

/-- **Entry refinement.** -/
theorem entry_refines (t : MT) (evs : List TEv) (s : S) (e : MEntry) (hr : Rel t evs s) (hi : okInstr s)
    (he : okEntry e) :
    ∃ t', t.playEntry e = .ok t' ∧ Rel t' (evs ++ (specEntry s e).1) (specEntry s e).2 := by
  obtain ⟨r1, r2, r3, r4⟩ := hr
  obtain ⟨hv, hn, hb⟩ := he
  unfold MT.playEntry specEntry
  rw [if_neg hv, hb]
  cases hnotes : e.notes with
  | nil =>
    refine ⟨_, by simp; rfl, ?_⟩
    simp [Rel, r1, r2, r3, r4]
  | cons n rest =>
    have hn' : ∀ m ∈ n :: rest, okNote m := by rw [← hnotes]; exact hn
    simp only [reduceCtorEq, if_false, bind, Except.bind, pure, Except.pure]
    generalize ht0 : ({ t with pending := t.delay, delay := 0 } : MT) = t0
    have e0 : t0.evs = t.evs ∧ t0.pending = t.delay ∧ t0.delay = 0 ∧ t0.changeInstr = t.changeInstr ∧ t0.instr = t.instr := by
      subst ht0; simp
    obtain ⟨a1, a2, a3, a4, a5⟩ := e0
    cases hci : s.ci with
    | false =>
      obtain ⟨t1, hp, ⟨x1, x2, x3⟩, x4⟩ := playNC_plain t0 n rest (by rw [a4, r3]; exact hci) hn'
      rw [hp]
      obtain ⟨t2, hq, ⟨y1, y2, y3⟩, y4⟩ := stopNC_ok (t1.setDelta (tickOf e.value)) n rest hn'
      refine ⟨t2, hq, ?_⟩
      simp only [MT.setDelta] at y1 y2 y3 y4
      simp [Rel, y1, y2, y3, y4, x1, x2, x3, x4, a1, a2, a3, a5, r1, r2, r4]
    | true =>
      have hir := hi hci
      obtain ⟨t1, hp, ⟨x1, x2, x3⟩, x4⟩ := playNC_instr t0 n rest (by rw [a4, r3]; exact hci)
        (by rw [a5, r4]; exact hir) hn'
      rw [hp]
      obtain ⟨t2, hq, ⟨y1, y2, y3⟩, y4⟩ := stopNC_ok (t1.setDelta (tickOf e.value)) n rest hn'
      refine ⟨t2, hq, ?_⟩
      simp only [MT.setDelta] at y1 y2 y3 y4
      simp [Rel, y1, y2, y3, y4, x1, x2, x3, x4, a1, a2, a3, a5, r1, r2, r4]

end Mingus.Props.C16
