import Mingus.Model.Export
import Mathlib.Data.Rat.Defs
import Mathlib.Tactic.FieldSimp
import Mathlib.Tactic.Ring
import Mathlib.Tactic.Linarith
/-
  C19 — LilyPond and MusicXML export preserve the written music.

  LilyPond: an independent reader of a pitch token (`readPitch`) recovers letter, accidentals and octave of every note
  the exporter writes — any accidental string, any octave (`lyNote_roundtrip`); the duration suffix of every value of the
  vocabulary (longa … 128th, 0–2 dots, triplets/quintuplets/septuplets) and its tuplet ratio (`duration_table`); key text
  for all 30 keys (`key_table`).  MusicXML: for ANY bar, every note element's duration divided by the measure's
  divisions is exactly the entry's length in quarter notes (`duration_exact`); one note element per note or rest, the chord
  flag on every chord note after the first, one dot element per dot (`entry_notes_spec`); part ids match the part list
  (`part_ids_match`).  Bar/track/composition text structure is tied by the character-exact correspondence and decoded by
  the independent Python reader.
-/
namespace Mingus.Props.C19
open Mingus Mingus.Export Mingus.Containers

/-! ### LilyPond pitch tokens -/

/-- consume `is` / `es` pairs -/
def readAcc : Str → Str × Str
  | 'i' :: 's' :: t => let r := readAcc t; ('#' :: r.1, r.2)
  | 'e' :: 's' :: t => let r := readAcc t; ('b' :: r.1, r.2)
  | t => ([], t)

/-- the octave from the marks: all `'` (up from 3), all `,` (down from 3), or none -/
def readOctave (t : Str) : Option Int :=
  if t = [] then some 3
  else if t.all (· = '\'') then some (3 + t.length)
  else if t.all (· = ',') then some (3 - t.length)
  else none

/-- an independent reader of one LilyPond pitch: (letter, accidentals, octave) -/
def readPitch : Str → Option (Char × Str × Int)
  | [] => none
  | l :: t =>
    if 'a'.toNat ≤ l.toNat ∧ l.toNat ≤ 'g'.toNat then
      let r := readAcc t
      (readOctave r.2).map fun o => (l, r.1, o)
    else none

def accOnly (t : Str) : Prop := ∀ c ∈ t, c = '#' ∨ c = 'b'

theorem readAcc_lyAcc (t : Str) (h : accOnly t) (rest : Str) (hr : ∀ c ∈ rest.head?, c ≠ 'i' ∧ c ≠ 'e') :
    readAcc (lyAcc t ++ rest) = (t, rest) := by
  induction t with
  | nil =>
    simp only [lyAcc, List.nil_append]
    cases rest with
    | nil => rfl
    | cons c cs =>
      have := hr c (by simp)
      unfold readAcc
      split
      · rename_i heq; simp at heq; exact absurd heq.1 this.1
      · rename_i heq; simp at heq; exact absurd heq.1 this.2
      · rfl
  | cons a as ih =>
    have ha := h a (by simp)
    have ih' := ih (fun c hc => h c (by simp [hc]))
    rcases ha with rfl | rfl
    · simp only [lyAcc, if_true, List.append_assoc, lit, String.toList]
      show readAcc ('i' :: 's' :: (lyAcc as ++ rest)) = _
      simp only [readAcc, ih']
    · simp only [lyAcc, show ¬ ('b' = '#') by decide, if_false, if_true, List.append_assoc]
      show readAcc ('e' :: 's' :: (lyAcc as ++ rest)) = _
      simp only [readAcc, ih']

theorem readOctave_lyOctave (o : Int) : readOctave (lyOctave o) = some o := by
  unfold lyOctave readOctave
  by_cases h4 : o ≥ 4
  · have hne : List.replicate (o - 3).toNat '\'' ≠ [] := by
      intro h; have := congrArg List.length h; simp at this; omega
    simp only [h4, if_true, hne, if_false]
    have : (List.replicate (o - 3).toNat '\'').all (· = '\'') = true := by simp
    simp only [this, if_true, List.length_replicate]
    congr 1; omega
  · by_cases h3 : o < 3
    · have hne : List.replicate (3 - o).toNat ',' ≠ [] := by
        intro h; have := congrArg List.length h; simp at this; omega
      have hq : (List.replicate (3 - o).toNat ',').all (· = '\'') = false := by
        rw [List.all_eq_false]
        exact ⟨',', by simp; omega, by decide⟩
      have hc : (List.replicate (3 - o).toNat ',').all (· = ',') = true := by simp
      simp only [h4, if_false, h3, if_true, hne, hq, Bool.false_eq_true, hc, List.length_replicate]
      congr 1; omega
    · have : o = 3 := by omega
      simp [h4, h3, this]

theorem lyOctave_head (o : Int) : ∀ c ∈ (lyOctave o).head?, c ≠ 'i' ∧ c ≠ 'e' := by
  intro c hc
  unfold lyOctave at hc
  split at hc
  · cases hk : (o - 3).toNat with
    | zero => simp [hk] at hc
    | succ k => simp [hk, List.replicate_succ] at hc; subst hc; decide
  · split at hc
    · cases hk : (3 - o).toNat with
      | zero => simp [hk] at hc
      | succ k => simp [hk, List.replicate_succ] at hc; subst hc; decide
    · simp at hc

def isUpperLetter (l : Char) : Prop := l = 'A' ∨ l = 'B' ∨ l = 'C' ∨ l = 'D' ∨ l = 'E' ∨ l = 'F' ∨ l = 'G'

/-- **every note** — any letter, any string of accidentals, any octave — is recovered from its LilyPond token -/
theorem lyNote_roundtrip (l : Char) (t : Str) (o ch vel : Int) (hl : isUpperLetter l) (ht : accOnly t) :
    (lyNote ⟨l :: t, o, ch, vel⟩ true false).toOption.bind readPitch = some (lowerChar l, t, o) := by
  have hlow : 'a'.toNat ≤ (lowerChar l).toNat ∧ (lowerChar l).toNat ≤ 'g'.toNat := by
    rcases hl with rfl | rfl | rfl | rfl | rfl | rfl | rfl <;> decide
  simp only [lyNote, pure, Except.pure, Except.toOption, Option.bind, Bool.false_eq_true, if_false, if_true,
    List.cons_append, List.nil_append, List.singleton_append]
  simp only [readPitch, hlow, and_self, if_true]
  rw [readAcc_lyAcc t ht _ (lyOctave_head o)]
  simp [readOctave_lyOctave]

/-- without octave processing (the key of a bar) the token is the letter and the accidentals alone -/
theorem lyNote_no_octave (l : Char) (t : Str) (o ch vel : Int) (hl : isUpperLetter l) (ht : accOnly t) :
    (lyNote ⟨l :: t, o, ch, vel⟩ false false).toOption.bind readPitch = some (lowerChar l, t, 3) := by
  have hlow : 'a'.toNat ≤ (lowerChar l).toNat ∧ (lowerChar l).toNat ≤ 'g'.toNat := by
    rcases hl with rfl | rfl | rfl | rfl | rfl | rfl | rfl <;> decide
  simp only [lyNote, pure, Except.pure, Except.toOption, Option.bind, Bool.false_eq_true, if_false,
    List.cons_append, List.nil_append, List.singleton_append, List.append_nil]
  simp only [readPitch, hlow, and_self, if_true]
  have := readAcc_lyAcc t ht [] (by simp)
  simp only [List.append_nil] at this
  rw [this]
  simp [readOctave]

/-- standalone = the same token in braces -/
theorem lyNote_standalone (n : Note) (po : Bool) (x : Str) (h : lyNote n po false = .ok x) :
    lyNote n po true = .ok (lit "{ " ++ x ++ lit " }") := by
  unfold lyNote at *
  cases hn : n.name with
  | nil => simp [hn] at h
  | cons l t => simp only [hn, pure, Except.pure, Bool.false_eq_true, if_false, Except.ok.injEq, if_true] at h ⊢; rw [← h]; rfl

/-! ### durations: the whole vocabulary -/

def bases : List Rat := [1/4, 1/2, 1, 2, 4, 8, 16, 32, 64, 128]

def baseText (b : Rat) : Str := if b = 1/4 then lit "\\longa" else if b = 1/2 then lit "\\breve" else Note.showInt b.floor

/-- every base value with 0, 1 or 2 dots (as the doubles `dots()` produces), and every triplet, quintuplet and
    septuplet of the values 1 … 128: the suffix written is the base value's text followed by one `.` per dot, and the
    analysis used for the `\times` block is the tuplet's ratio (whole table, in the kernel) -/
theorem duration_table :
    (∀ b ∈ bases, ∀ d ∈ [0, 1, 2],
      lyDuration (Value.dotsF b d) = .ok (baseText b ++ List.replicate d '.') ∧
      (Value.determine (Value.dotsF b d)).toOption.map (fun p => (p.2.2.1, p.2.2.2)) = some (1, 1)) ∧
    (∀ b ∈ bases.drop 2, ∀ r ∈ [(3, 2), (5, 4), (7, 4)],
      lyDuration (Value.tuplet b r.1 r.2) = .ok (baseText b) ∧
      (Value.determine (Value.tuplet b r.1 r.2)).toOption.map (fun p => (p.1, p.2.1, p.2.2.1, p.2.2.2)) = some (b, 0, r.1, r.2)) := by
  decide +kernel

set_option synthInstance.maxSize 2000 in
/-- the key text for each of the 30 keys reads back as the tonic (letter and accidentals) and the mode -/
theorem key_table : ∀ k ∈ Keys.allKeys,
    (lyBar ⟨k, 4, 4, []⟩ true false).toOption.map (fun s => (s.take 7, readPitch ((s.drop 7).takeWhile (· ≠ ' ')))) =
      some (lit "{ \\key ", some (lowerChar (k.headD 'C'), k.drop 1, 3)) := by
  decide +kernel

theorem key_mode_table : ∀ k ∈ Keys.allKeys,
    (lyBar ⟨k, 4, 4, []⟩ true false).toOption.map (fun s => ((s.drop 7).dropWhile (· ≠ ' ')).drop 2) =
      some (modeOf k ++ lit " }") := by
  decide +kernel

/-- a track shows the key exactly when it differs from the previous bar's, the time exactly when the meter differs -/
theorem track_shows_changes (b : LBar) (bs : List LBar) (lastkey : Str) (lasttime : Int × Int) :
    lyTrackBars (b :: bs) lastkey lasttime = (do
      let s ← lyBar b (lastkey != b.key) (lasttime != (b.count, b.unit))
      let rest ← lyTrackBars bs b.key (b.count, b.unit)
      pure (s ++ lit " " ++ rest)) := rfl

/-! ### MusicXML -/

theorem dvd_lcmList (l : List Nat) : ∀ x ∈ l, x ∣ lcmList l := by
  cases l with
  | nil => intro x hx; simp at hx
  | cons a as =>
    have key : ∀ (as : List Nat) (a : Nat), a ∣ as.foldl (fun a b => a * b / Nat.gcd a b) a ∧
        ∀ x ∈ as, x ∣ as.foldl (fun a b => a * b / Nat.gcd a b) a := by
      intro as
      induction as with
      | nil => intro a; simp
      | cons b bs ih =>
        intro a
        simp only [List.foldl_cons]
        have hl : a * b / Nat.gcd a b = Nat.lcm a b := rfl
        rw [hl]
        obtain ⟨h1, h2⟩ := ih (Nat.lcm a b)
        refine ⟨Nat.dvd_trans (Nat.dvd_lcm_left a b) h1, ?_⟩
        intro x hx
        simp only [List.mem_cons] at hx
        rcases hx with rfl | hx
        · exact Nat.dvd_trans (Nat.dvd_lcm_right a x) h1
        · exact h2 x hx
    intro x hx
    simp only [List.mem_cons] at hx
    unfold lcmList
    rcases hx with rfl | hx
    · exact (key as x).1
    · exact (key as a).2 x hx

/-- **durations are exact**: whatever the entries of a bar (any base value, dots, tuplet ratio), with the divisions the
    exporter computes every note element's duration / divisions equals the entry's length in quarter notes -/
theorem duration_exact (parsed : List (Rat × Nat × Nat × Nat)) (p : Rat × Nat × Nat × Nat) (hp : p ∈ parsed) :
    let divisions := lcmList (parsed.map fun q => (quarterLength q).den)
    ((((divisions : Rat) * quarterLength p).floor : Int) : Rat) / (divisions : Rat) = quarterLength p ∧ 0 < divisions := by
  intro divisions
  have hd : (quarterLength p).den ∣ divisions := dvd_lcmList _ _ (List.mem_map.2 ⟨p, hp, rfl⟩)
  obtain ⟨k, hk⟩ := hd
  have hden : 0 < (quarterLength p).den := (quarterLength p).den_pos
  have hpos : 0 < divisions := by
    rcases Nat.eq_zero_or_pos divisions with h0 | h0
    · exfalso
      have : ∀ (l : List Nat), (∀ x ∈ l, 0 < x) → 0 < lcmList l := by
        intro l
        cases l with
        | nil => intro _; simp [lcmList]
        | cons a as =>
          intro h
          have key : ∀ (as : List Nat) (a : Nat), 0 < a → (∀ x ∈ as, 0 < x) →
              0 < as.foldl (fun a b => a * b / Nat.gcd a b) a := by
            intro as
            induction as with
            | nil => intro a ha _; simpa using ha
            | cons b bs ih =>
              intro a ha hb
              simp only [List.foldl_cons]
              exact ih _ (Nat.lcm_pos ha (hb b (by simp))) (fun x hx => hb x (by simp [hx]))
          exact key as a (h a (by simp)) (fun x hx => h x (by simp [hx]))
      have := this (parsed.map fun q => (quarterLength q).den) (by
        intro x hx; obtain ⟨q, _, rfl⟩ := List.mem_map.1 hx; exact (quarterLength q).den_pos)
      omega
    · exact h0
  refine ⟨?_, hpos⟩
  have hq : quarterLength p = ((quarterLength p).num : Rat) / ((quarterLength p).den : Rat) := (Rat.num_div_den _).symm
  have hmul : (divisions : Rat) * quarterLength p = ((k * (quarterLength p).num : Int) : Rat) := by
    rw [hk, hq]
    have : ((quarterLength p).den : Rat) ≠ 0 := by exact_mod_cast hden.ne'
    push_cast
    field_simp
    rw [Rat.num_div_den]
    ring
  rw [hmul, Rat.floor_intCast]
  have hdiv : (divisions : Rat) ≠ 0 := by exact_mod_cast hpos.ne'
  rw [eq_comm, ← hmul]
  field_simp

def childTags : Xml → List Str
  | .elem _ _ _ c => c.map fun x => match x with | .elem t _ _ _ => t

theorem childTags_addChildren (x : Xml) (more : List Xml) :
    childTags (addChildren x more) = childTags x ++ more.map (fun y => match y with | .elem t _ _ _ => t) := by
  cases x; simp [addChildren, childTags]

def headTag : Option Note → Str
  | none => lit "rest"
  | some _ => lit "pitch"

/-- **note elements of an entry**: one per note of the container (one rest otherwise); the children of the i-th are, in
    order: the pitch (or rest), the chord flag exactly when the entry is a chord and i > 0, one duration, one `dot` per
    dot, the type when the base value has a name, the time modification for tuplets -/
theorem entry_notes_spec (divisions : Nat) (e : LEntry) (p : Rat × Nat × Nat × Nat) :
    (xmlEntryNotes divisions e p).length = (entryHeads e).length ∧
    ∀ i (hi : i < (xmlEntryNotes divisions e p).length) (hh : i < (entryHeads e).length),
      childTags ((xmlEntryNotes divisions e p)[i]) =
        [headTag ((entryHeads e)[i])] ++ (if (entryHeads e).length > 1 ∧ i > 0 then [lit "chord"] else []) ++ [lit "duration"] ++
        List.replicate p.2.1 (lit "dot") ++ (typeName p.1).toList.map (fun _ => lit "type") ++
        (if p.2.2.1 ≠ 1 ∧ p.2.2.2 ≠ 1 then [lit "time-modification"] else []) := by
  refine ⟨by simp [xmlEntryNotes], ?_⟩
  intro i hi hh
  have hhead : ∀ h : Option Note, childTags (xmlNoteHead h) = [headTag h] := by
    intro h; cases h <;> rfl
  simp only [xmlEntryNotes, List.getElem_map, List.getElem_zip, List.getElem_range, childTags_addChildren, hhead,
    List.map_append]
  by_cases hc : (entryHeads e).length > 1 ∧ i > 0 <;> by_cases ht : p.2.2.1 ≠ 1 ∧ p.2.2.2 ≠ 1 <;>
    simp [hc, ht, node, leaf, lit, List.map_replicate, Function.comp_def, List.map_const']

/-- the heads: a container with notes gives one head per note, anything else (None, the empty container) one rest -/
theorem entryHeads_spec (e : LEntry) :
    entryHeads e = (match e.content with | some (n :: ns) => (n :: ns).map some | _ => [none]) := rfl

/-! ### part ids -/

def attrOf (x : Xml) (k : String) : Option Str := match x with | .elem _ a _ _ => (a.find? (fun p => p.1 == k.toList)).map (·.2)
def tagOf : Xml → Str | .elem t _ _ _ => t
def kids : Xml → List Xml | .elem _ _ _ c => c

theorem tag_node (s : String) (c : List Xml) : tagOf (node s c) = s.toList := rfl
theorem tag_leaf (s : String) (x : Str) : tagOf (leaf s x) = s.toList := rfl

theorem attrOf_id (t v x : Str) (c : List Xml) (more : List (Str × Str)) :
    attrOf (.elem t ((lit "id", v) :: more) x c) "id" = some v := by
  simp [attrOf, lit]

theorem attrOf_id2 (t v x : Str) (c : List Xml) :
    attrOf (.elem t [(lit "id", v)] x c) "id" = some v := attrOf_id t v x c []

/-- the ids of the `part` elements are, in order, the ids of the `score-part` elements of the part list -/
theorem part_ids_match (title author : Str) (tracks : List XTrack) (x : Xml) (h : xmlComposition title author tracks = .ok x) :
    ((kids x).filter (fun c => tagOf c == lit "part")).map (attrOf · "id") =
    (((kids x).filter (fun c => tagOf c == lit "part-list")).flatMap kids).map (attrOf · "id") := by
  unfold xmlComposition at h
  simp only [bind, Except.bind, pure, Except.pure] at h
  split at h
  · cases h
  · rename_i parts hparts
    simp only [Except.ok.injEq] at h
    subst h
    have hp : ∀ (l : List (Nat × XTrack)) (ps : List Xml), l.mapM (fun (x : Nat × XTrack) => xmlTrack x.2 x.1) = .ok ps →
        ps.map tagOf = l.map (fun _ => lit "part") ∧ ps.map (attrOf · "id") = l.map (fun x => some (lit "P" ++ Note.showNat x.1)) := by
      intro l
      induction l with
      | nil => intro ps h; simp only [List.mapM_nil, pure, Except.pure, Except.ok.injEq] at h; subst h; simp
      | cons a as ih =>
        intro ps h
        rw [List.mapM_cons] at h
        simp only [bind, Except.bind, pure, Except.pure] at h
        split at h
        · cases h
        · rename_i t ht
          split at h
          · cases h
          · rename_i ts hts
            simp only [Except.ok.injEq] at h; subst h
            obtain ⟨i1, i2⟩ := ih ts hts
            unfold xmlTrack at ht
            simp only [bind, Except.bind, pure, Except.pure] at ht
            split at ht
            · cases ht
            · simp only [Except.ok.injEq] at ht; subst ht
              refine ⟨?_, ?_⟩
              · simp only [List.map_cons, i1, tagOf]
              · simp only [List.map_cons, i2, attrOf_id2]
    obtain ⟨t1, t2⟩ := hp _ parts hparts
    have hfilter : ∀ (ps : List Xml) (n : Nat), ps.map tagOf = List.replicate n (lit "part") →
        ps.filter (fun c => tagOf c == lit "part") = ps ∧ ps.filter (fun c => tagOf c == lit "part-list") = [] := by
      intro ps n hh
      refine ⟨?_, ?_⟩
      · rw [List.filter_eq_self]
        intro c hc
        have : tagOf c ∈ ps.map tagOf := List.mem_map.2 ⟨c, hc, rfl⟩
        rw [hh] at this
        simp [List.eq_of_mem_replicate this]
      · rw [List.filter_eq_nil_iff]
        intro c hc
        have : tagOf c ∈ ps.map tagOf := List.mem_map.2 ⟨c, hc, rfl⟩
        rw [hh] at this
        rw [List.eq_of_mem_replicate this]
        decide
    have hrep : parts.map tagOf = List.replicate (List.zip (List.range tracks.length) tracks).length (lit "part") := by
      rw [t1]; simp [List.map_const']
    obtain ⟨f1, f2⟩ := hfilter parts _ hrep
    have e1 : ∀ (pre : List Xml) (pl : Xml), (∀ c ∈ pre, (tagOf c == lit "part") = false) → (tagOf pl == lit "part") = false →
        (pre ++ [pl] ++ parts).filter (fun c => tagOf c == lit "part") = parts := by
      intro pre pl hpre hpl
      rw [List.filter_append, List.filter_append, f1]
      have : pre.filter (fun c => tagOf c == lit "part") = [] := by
        rw [List.filter_eq_nil_iff]; intro c hc; simp [hpre c hc]
      simp [this, hpl]
    have e2 : ∀ (pre : List Xml) (pl : Xml), (∀ c ∈ pre, (tagOf c == lit "part-list") = false) → (tagOf pl == lit "part-list") = true →
        (pre ++ [pl] ++ parts).filter (fun c => tagOf c == lit "part-list") = [pl] := by
      intro pre pl hpre hpl
      rw [List.filter_append, List.filter_append, f2]
      have : pre.filter (fun c => tagOf c == lit "part-list") = [] := by
        rw [List.filter_eq_nil_iff]; intro c hc; simp [hpre c hc]
      simp [this, hpl]
    simp only [kids]
    have hshape : ∀ (pre : List Xml) (sp : List Xml),
        pre ++ [node "part-list" sp] ++ parts = pre ++ [node "part-list" sp] ++ parts := fun _ _ => rfl
    generalize hpre : ((if title ≠ [] then [leaf "movement-title" (strip title)] else []) ++
      [node "identification" ((if author ≠ [] then [Xml.elem (lit "creator") [(lit "type", lit "composer")] (strip author) []] else []) ++
        [node "encoding" [leaf "software" (lit "mingus"), leaf "encoding-date" []]])]) = pre
    have hpre1 : ∀ c ∈ pre, (tagOf c == lit "part") = false ∧ (tagOf c == lit "part-list") = false := by
      intro c hc
      rw [← hpre] at hc
      by_cases ht : title = []
      · simp [ht] at hc; subst hc; exact ⟨by rw [tag_node]; decide, by rw [tag_node]; decide⟩
      · simp [ht] at hc
        rcases hc with rfl | rfl
        · exact ⟨by rw [tag_leaf]; decide, by rw [tag_leaf]; decide⟩
        · exact ⟨by rw [tag_node]; decide, by rw [tag_node]; decide⟩
    rw [show ∀ (a b c : List Xml), a ++ b ++ c = a ++ b ++ c from fun _ _ _ => rfl]
    rw [e1 pre _ (fun c hc => (hpre1 c hc).1) (by rw [tag_node]; decide), e2 pre _ (fun c hc => (hpre1 c hc).2) (by rw [tag_node]; decide)]
    simp only [List.flatMap_cons, List.flatMap_nil, List.append_nil, node, kids, t2, List.map_map]
    have hidx : ∀ (ts : List XTrack) (acc : List Nat × Nat),
        (ts.foldl (fun (acc : List Nat × Nat) t =>
          match t.instr with | some _ => (acc.1 ++ [acc.2], acc.2 + 1) | none => (acc.1 ++ [0], acc.2)) acc).1.length =
        acc.1.length + ts.length := by
      intro ts
      induction ts with
      | nil => intro acc; simp
      | cons t ts ih =>
        intro acc
        simp only [List.foldl_cons, List.length_cons]
        rw [ih]
        cases t.instr <;> simp <;> omega
    have hL : (List.zip (List.range tracks.length) tracks).map (fun x => some (lit "P" ++ Note.showNat x.1)) =
        (List.range tracks.length).map (fun i => some (lit "P" ++ Note.showNat i)) := by
      have : (List.zip (List.range tracks.length) tracks).map Prod.fst = List.range tracks.length :=
        List.map_fst_zip (by simp)
      have e : (List.zip (List.range tracks.length) tracks).map (fun x => some (lit "P" ++ Note.showNat x.1)) =
          ((List.zip (List.range tracks.length) tracks).map Prod.fst).map (fun i => some (lit "P" ++ Note.showNat i)) := by
        rw [List.map_map]; rfl
      rw [e, this]
    rw [hL]
    have hR : ∀ (rs : List (XTrack × Nat)), rs.length = tracks.length →
        (List.zip (List.range tracks.length) rs).map Prod.fst = List.range tracks.length :=
      fun rs hrs => List.map_fst_zip (by simp [hrs])
    have hzl : (List.zip tracks (tracks.foldl (fun (acc : List Nat × Nat) t =>
          match t.instr with | some _ => (acc.1 ++ [acc.2], acc.2 + 1) | none => (acc.1 ++ [0], acc.2)) ([], 0)).1).length = tracks.length := by
      rw [List.length_zip, hidx]; simp
    conv => lhs; rw [← hR _ hzl]
    rw [List.map_map]
    apply List.map_congr_left
    intro a _
    simp only [Function.comp, attrOf_id2]

end Mingus.Props.C19
