import Mingus.Props.C07Defs
/- GENERATED once by the snippet recorded in DESIGN.md (slice 2 of the recognise-all theorem): kernel evaluation of
   every rotation of every listed shorthand on all 21 roots. -/
namespace Mingus.Props.C07
open Mingus
def sliceKeys2 : List Str := [lit "m13", lit "11", lit "m/M7", lit "aug"]
theorem slice2 : ∀ k ∈ sliceKeys2, keyOK k = true := by decide +kernel
end Mingus.Props.C07
