import Mingus.Props.C11
import Mingus.Props.C12
/-
  C12 — the container built from an interval shorthand (`from_interval_shorthand`, `from_interval`).

  `fromInterval_members`: whatever `Note.transpose` gives, the container holds exactly the start note and that note (one
  note when both have the same pitch), ordered by pitch.  `fromInterval_spec`: for every canonical name (up to four
  accidentals), every shorthand of size 0..11, EVERY octave (also 0 and below) and both directions, the container holds the
  start note and a note exactly that many semitones above / below it, spelled on the letter the interval number requires.
-/
namespace Mingus.Props.C12
open Mingus Mingus.Notes Mingus.Containers Mingus.Containers.NC Mingus.Intervals

theorem inv_nil : Inv [] := List.Pairwise.nil

theorem fromInterval_members (start n : Note) (sh : Str) (up : Bool) (ht : start.transpose sh up = .ok n) :
    ∃ r, fromIntervalShorthand start sh up = .ok r ∧ Inv r ∧
      ∀ x, x ∈ r ↔ x = start ∨ (x = n ∧ n.pitch ≠ start.pitch) := by
  refine ⟨addNoteObj (addNoteObj [] start) n, ?_, ?_, ?_⟩
  · unfold fromIntervalShorthand
    simp [ht, bind, Except.bind, addNotes, addNote, pure, Except.pure]
  · exact addNoteObj_inv _ _ (addNoteObj_inv _ _ inv_nil)
  · intro x
    have h1 : ∀ y, y ∈ addNoteObj [] start ↔ y = start := by
      intro y
      rw [addNoteObj_mem [] start inv_nil y]
      simp
    rw [addNoteObj_mem _ n (addNoteObj_inv _ _ inv_nil) x, h1]
    constructor
    · rintro (e | ⟨e, hne⟩)
      · exact Or.inl e
      · refine Or.inr ⟨e, ?_⟩
        intro hp
        exact hne ⟨start, (h1 start).2 rfl, hp.symm⟩
    · rintro (e | ⟨e, hne⟩)
      · exact Or.inl e
      · refine Or.inr ⟨e, ?_⟩
        rintro ⟨y, hy, hp⟩
        rw [(h1 y).1 hy] at hp
        exact hne hp.symm

/-- **the interval container**: start note plus the note `size` semitones away, in the asked direction, in any octave -/
theorem fromInterval_spec (l : Char) (hl : l ∈ Keys.baseScale) (v : Int) (hv : v ∈ C11.accRange) (sh : Str)
    (hsh : sh ∈ C03.shorthands) (hsize : 0 ≤ C11.sizeOf sh ∧ C11.sizeOf sh ≤ 11) (o : Int) (up : Bool) :
    ∃ r n, fromIntervalShorthand (Note.mk (rep l v) o 1 64) sh up = .ok r ∧ Inv r ∧
      n.pitch = (Note.mk (rep l v) o 1 64).pitch + (if up then C11.sizeOf sh else - C11.sizeOf sh) ∧
      n.name.head? = some (if up then letterUp l (C11.degOf sh) else C11.letterDown l (C11.degOf sh)) ∧
      ∀ x, x ∈ r ↔ x = Note.mk (rep l v) o 1 64 ∨ (x = n ∧ C11.sizeOf sh ≠ 0) := by
  obtain ⟨⟨ru, hu1, hu2, hu3⟩, ⟨rd, hd1, hd2, hd3⟩⟩ := C11.transpose_spec l hl v hv sh hsh hsize o 1 64
  cases up with
  | true =>
    obtain ⟨r, h1, h2, h3⟩ := fromInterval_members _ ru sh true hu1
    refine ⟨r, ru, h1, h2, by simpa using hu2, by simpa using hu3, ?_⟩
    intro x
    rw [h3 x]
    have : ru.pitch ≠ (Note.mk (rep l v) o 1 64).pitch ↔ C11.sizeOf sh ≠ 0 := by rw [hu2]; omega
    rw [this]
  | false =>
    obtain ⟨r, h1, h2, h3⟩ := fromInterval_members _ rd sh false hd1
    refine ⟨r, rd, h1, h2, by simp only [Bool.false_eq_true, if_false]; omega, by simpa using hd3, ?_⟩
    intro x
    rw [h3 x]
    have : rd.pitch ≠ (Note.mk (rep l v) o 1 64).pitch ↔ C11.sizeOf sh ≠ 0 := by rw [hd2]; omega
    rw [this]

/-- kernel examples: a third below C in octave 0 is Ab in octave -1; a fifth above B-4 is F#-5 -/
example : fromIntervalShorthand ⟨lit "C", 0, 1, 64⟩ (lit "3") false = .ok [⟨lit "Ab", -1, 1, 64⟩, ⟨lit "C", 0, 1, 64⟩] := by
  decide +kernel
example : fromIntervalShorthand ⟨lit "B", 4, 1, 64⟩ (lit "5") true = .ok [⟨lit "B", 4, 1, 64⟩, ⟨lit "F#", 5, 1, 64⟩] := by
  decide +kernel

end Mingus.Props.C12
