import Mingus.Props.C07Defs
/- GENERATED once by the snippet recorded in DESIGN.md (slice 8 of the recognise-all theorem): kernel evaluation of
   every rotation of every listed shorthand on all 21 roots. -/
namespace Mingus.Props.C07
open Mingus
def sliceKeys8 : List Str := [lit "69", lit "M9", lit "7b12", lit "7", lit "m", lit "sus2"]
theorem slice8 : ∀ k ∈ sliceKeys8, keyOK k = true := by decide +kernel
end Mingus.Props.C07
