import Mingus.Props.C20
/-
  C20 — find_chord_fingering: every fingering returned has one entry per string (`chord_length`), respects the finger
  limit and the span limit and covers every note name of the chord (`chord_filter`).
-/
namespace Mingus.Props.C20
open Mingus Mingus.Tun Mingus.Containers

/-! ### `follow` builds one entry per remaining string -/

theorem keepSub_spec (next : Nat) (name : Option Str) (prev md : Int) (sub r : List (Nat × Option Str))
    (h : keepSub next name prev md sub = some r) : r = (next, name) :: sub := by
  unfold keepSub at h
  split at h
  · simp only [Option.some.injEq] at h; exact h.symm
  · split at h
    · split at h
      · simp only [Option.some.injEq] at h; exact h.symm
      · cases h
    · cases h

theorem viaCell_spec (cell : Cell) (next : Nat) (name : Option Str) (prev md : Int) (rec : Nat → Str → List (List (Nat × Option Str)))
    (r : List (Nat × Option Str)) (h : r ∈ viaCell cell next name prev md rec) :
    ∃ a b sub, sub ∈ rec a b ∧ r = (next, name) :: sub ∧ ∃ nm dests, cell = some (nm, dests) ∧ (a, b) ∈ dests := by
  unfold viaCell at h
  cases cell with
  | none => simp at h
  | some c =>
    obtain ⟨nm, dests⟩ := c
    simp only [List.mem_flatMap, List.mem_filterMap] at h
    obtain ⟨y, hy, sub, hsub, hk⟩ := h
    exact ⟨y.1, y.2, sub, hsub, keepSub_spec _ _ _ _ _ _ hk, nm, dests, rfl, hy⟩

theorem follow_spec (res : List (List Cell)) (nstrings maxfret : Nat) (md : Int) :
    ∀ (fuel string next : Nat) (name : Option Str) (prev : Int), string + 1 ≤ nstrings → nstrings - 1 - string ≤ fuel →
      follow res nstrings maxfret md fuel string next name prev ≠ [] ∧
      ∀ sub ∈ follow res nstrings maxfret md fuel string next name prev, sub.length = nstrings - string ∧ sub.head? = some (next, name) := by
  intro fuel
  induction fuel with
  | zero =>
    intro string next name prev hs hf
    simp only [follow]
    refine ⟨by simp, ?_⟩
    intro sub hsub
    simp only [List.mem_singleton] at hsub
    subst hsub
    exact ⟨by simp; omega, rfl⟩
  | succ f ih =>
    intro string next name prev hs hf
    simp only [follow]
    by_cases hlast : string ≥ nstrings - 1
    · simp only [hlast, if_true]
      refine ⟨by simp, ?_⟩
      intro sub hsub
      simp only [List.mem_singleton] at hsub
      subst hsub
      exact ⟨by simp; omega, rfl⟩
    · simp only [hlast, if_false]
      have hs' : string + 1 + 1 ≤ nstrings := by omega
      have hf' : nstrings - 1 - (string + 1) ≤ f := by omega
      have hskip := ih (string + 1) (maxfret + 1) none next hs' hf'
      have hne : viaCell ((res.getD string []).getD next none) next name prev md
          (fun a b => follow res nstrings maxfret md f (string + 1) a (some b) (-1)) ++
          (follow res nstrings maxfret md f (string + 1) (maxfret + 1) none next).map (fun s => (next, name) :: s) ≠ [] := by
        intro hh
        have := (List.append_eq_nil_iff.1 hh).2
        exact hskip.1 (by simpa using this)
      rw [if_neg hne]
      refine ⟨hne, ?_⟩
      intro sub hsub
      rcases List.mem_append.1 hsub with hsub | hsub
      · obtain ⟨a, b, s, hs2, rfl, _⟩ := viaCell_spec _ _ _ _ _ _ _ hsub
        have hlen := (ih (string + 1) a (some b) (-1) hs' hf').2 s hs2
        exact ⟨by simp [hlen.1]; omega, rfl⟩
      · obtain ⟨s, hs2, rfl⟩ := List.mem_map.1 hsub
        have hlen := hskip.2 s hs2
        exact ⟨by simp [hlen.1]; omega, rfl⟩

/-! ### the lookup table only ever points at real (fret, name) positions -/

/-- every filled cell of a row: its destinations are positions of the next string; a named cell is a position of this one -/
def GoodRow (cur next : List (Nat × Str)) (row : List Cell) : Prop :=
  ∀ j nm dests, row[j]? = some (some (nm, dests)) →
    (∀ d ∈ dests, d ∈ next) ∧ (∀ name, nm = some name → (j, name) ∈ cur)

theorem addCell_good (cur next : List (Nat × Str)) (row : List Cell) (fret : Nat) (name : Option Str) (d : Nat × Str)
    (h : GoodRow cur next row) (hd : d ∈ next) (hn : ∀ nm, name = some nm → (fret, nm) ∈ cur) :
    GoodRow cur next (addCell row fret name d) := by
  intro j nm dests hj
  unfold addCell at hj
  rw [List.getElem?_mapIdx] at hj
  cases hrow : row[j]? with
  | none => simp [hrow] at hj
  | some c =>
    simp only [hrow, Option.map_some, Option.some.injEq] at hj
    by_cases hjf : j = fret
    · simp only [hjf, if_true] at hj
      cases c with
      | none =>
        simp only [Option.some.injEq, Prod.mk.injEq] at hj
        obtain ⟨rfl, rfl⟩ := hj
        exact ⟨by intro x hx; simp at hx; subst hx; exact hd, by intro nm' h'; rw [hjf]; exact hn nm' h'⟩
      | some cell =>
        obtain ⟨nm0, l0⟩ := cell
        simp only [Option.some.injEq, Prod.mk.injEq] at hj
        obtain ⟨rfl, rfl⟩ := hj
        have := h j nm0 l0 (by rw [hrow])
        refine ⟨?_, this.2⟩
        intro x hx
        simp only [List.mem_append, List.mem_singleton] at hx
        rcases hx with hx | rfl
        · exact this.1 x hx
        · exact hd
    · simp only [hjf, if_false] at hj
      subst hj
      exact h j nm dests (by rw [hrow])

theorem tableRow_good (cur next : List (Nat × Str)) (maxfret : Nat) (md : Int) :
    GoodRow cur next (tableRow cur next maxfret md) := by
  unfold tableRow
  have h0 : GoodRow cur next (List.replicate (maxfret + 2) none) := by
    intro j nm dests hj
    rw [List.getElem?_replicate] at hj
    split at hj <;> simp at hj
  have hcell : ∀ (k fret : Nat) (name : Str) (ds : List (Nat × Str)) (row : List Cell), (fret, name) ∈ cur → (∀ d ∈ ds, d ∈ next) →
      GoodRow cur next row → GoodRow cur next (ds.foldl (cellStep maxfret md k fret name) row) := by
    intro k fret name ds
    induction ds with
    | nil => intro row _ _ h; exact h
    | cons d ds ih =>
      intro row hc hds h
      simp only [List.foldl_cons]
      apply ih _ hc (fun x hx => hds x (by simp [hx]))
      have hd := hds d (by simp)
      have h1 : GoodRow cur next (if d.2 ≠ name ∧ (d.1 = 0 ∨ ((fret : Int) - d.1).natAbs < md) then addCell row fret (some name) d else row) := by
        split
        · exact addCell_good cur next row fret (some name) d h hd (by intro nm hnm; cases hnm; exact hc)
        · exact h
      have hcs : cellStep maxfret md k fret name row d =
          (if k = 0 then addCell (if d.2 ≠ name ∧ (d.1 = 0 ∨ ((fret : Int) - d.1).natAbs < md) then addCell row fret (some name) d else row) (maxfret + 1) none d
           else (if d.2 ≠ name ∧ (d.1 = 0 ∨ ((fret : Int) - d.1).natAbs < md) then addCell row fret (some name) d else row)) := rfl
      rw [hcs]
      by_cases hk : k = 0
      · rw [if_pos hk]
        exact addCell_good cur next _ (maxfret + 1) none d h1 hd (by intro nm hnm; cases hnm)
      · rw [if_neg hk]; exact h1
  have hrows : ∀ (l : List (Nat × Nat × Str)) (row : List Cell), (∀ x ∈ l, (x.2.1, x.2.2) ∈ cur) → GoodRow cur next row →
      GoodRow cur next (l.foldl (rowStep maxfret md next) row) := by
    intro l
    induction l with
    | nil => intro row _ h; exact h
    | cons x xs ih =>
      intro row hx h
      simp only [List.foldl_cons]
      apply ih _ (fun y hy => hx y (by simp [hy]))
      unfold rowStep
      exact hcell x.1 x.2.1 x.2.2 next row (hx x (by simp)) (fun d hd => hd) h
  apply hrows _ _ _ h0
  intro x hx
  have := (List.of_mem_zip hx).2
  exact this

theorem makeTable_good (fretdict : List (List (Nat × Str))) (maxfret : Nat) (md : Int) (x : Nat) (row : List Cell)
    (h : (makeTable fretdict maxfret md)[x]? = some row) :
    GoodRow (fretdict.getD x []) (fretdict.getD (x + 1) []) row := by
  unfold makeTable at h
  rw [List.getElem?_map] at h
  by_cases hlt : x < fretdict.length - 1
  · have hr : (List.range (fretdict.length - 1))[x]? = some x := by
      rw [List.getElem?_eq_getElem (by simpa using hlt)]; simp
    simp only [hr, Option.map_some, Option.some.injEq] at h
    subst h
    exact tableRow_good _ _ _ _
  · have hr : (List.range (fretdict.length - 1))[x]? = none := List.getElem?_eq_none (by simpa using hlt)
    simp [hr] at h

/-! ### every named position a continuation visits is a real position of its string -/

/-- `sub` starts at string `string`: its `idx`-th element, if named, is a (fret, name) that `find_note_names` reported for
    string `string + idx` -/
def OnDict (fretdict : List (List (Nat × Str))) (string : Nat) (sub : List (Nat × Option Str)) : Prop :=
  ∀ idx p, sub[idx]? = some p → ∀ nm, p.2 = some nm → (p.1, nm) ∈ fretdict.getD (string + idx) []

theorem OnDict_cons (fretdict : List (List (Nat × Str))) (string : Nat) (p : Nat × Option Str) (sub : List (Nat × Option Str))
    (hp : ∀ nm, p.2 = some nm → (p.1, nm) ∈ fretdict.getD string [])
    (hs : OnDict fretdict (string + 1) sub) : OnDict fretdict string (p :: sub) := by
  intro idx q hq nm hnm
  cases idx with
  | zero => simp at hq; subst hq; simpa using hp nm hnm
  | succ k =>
    simp only [List.getElem?_cons_succ] at hq
    have := hs k q hq nm hnm
    have e : string + 1 + k = string + (k + 1) := by omega
    rwa [e] at this

theorem follow_onDict (fretdict : List (List (Nat × Str))) (nstrings maxfret : Nat) (md : Int) :
    ∀ (fuel string next : Nat) (name : Option Str) (prev : Int),
      (∀ nm, name = some nm → (next, nm) ∈ fretdict.getD string []) →
      ∀ sub ∈ follow (makeTable fretdict maxfret md) nstrings maxfret md fuel string next name prev, OnDict fretdict string sub := by
  intro fuel
  induction fuel with
  | zero =>
    intro string next name prev hname sub hsub
    simp only [follow, List.mem_singleton] at hsub
    subst hsub
    exact OnDict_cons _ _ _ _ hname (by intro idx q hq; simp at hq)
  | succ f ih =>
    intro string next name prev hname sub hsub
    simp only [follow] at hsub
    split at hsub
    · simp only [List.mem_singleton] at hsub
      subst hsub
      exact OnDict_cons _ _ _ _ hname (by intro idx q hq; simp at hq)
    · have hmem : sub = [(next, name)] ∨
          sub ∈ viaCell (((makeTable fretdict maxfret md).getD string []).getD next none) next name prev md
            (fun a b => follow (makeTable fretdict maxfret md) nstrings maxfret md f (string + 1) a (some b) (-1)) ++
          (follow (makeTable fretdict maxfret md) nstrings maxfret md f (string + 1) (maxfret + 1) none next).map (fun s => (next, name) :: s) := by
        split at hsub
        · left; simpa using hsub
        · right; exact hsub
      rcases hmem with rfl | hmem
      · exact OnDict_cons _ _ _ _ hname (by intro idx q hq; simp at hq)
      · rcases List.mem_append.1 hmem with hv | hsk
        · obtain ⟨a, b, s, hs2, rfl, nm0, dests, hcell, hab⟩ := viaCell_spec _ _ _ _ _ _ _ hv
          -- the cell is a cell of row `string` of the table
          have hrow : ∃ row, (makeTable fretdict maxfret md)[string]? = some row ∧ row[next]? = some (some (nm0, dests)) := by
            cases hr : (makeTable fretdict maxfret md)[string]? with
            | none => simp [List.getD_eq_getElem?_getD, hr] at hcell
            | some row =>
              refine ⟨row, rfl, ?_⟩
              simp only [List.getD_eq_getElem?_getD, hr, Option.getD_some] at hcell
              cases hc : row[next]? with
              | none => simp [hc] at hcell
              | some c => simp only [hc, Option.getD_some] at hcell; rw [hcell]
          obtain ⟨row, hr1, hr2⟩ := hrow
          have hgood := makeTable_good fretdict maxfret md string row hr1 next nm0 dests hr2
          have hab' := hgood.1 (a, b) hab
          exact OnDict_cons _ _ _ _ hname (ih (string + 1) a (some b) (-1) (by intro nm hnm; cases hnm; exact hab') s hs2)
        · obtain ⟨s, hs2, rfl⟩ := List.mem_map.1 hsk
          exact OnDict_cons _ _ _ _ hname (ih (string + 1) (maxfret + 1) none next (by intro nm hnm; cases hnm) s hs2)

/-! ### what `find_note_names` reports -/

theorem mapM_index {α β} (f : α → Except Err β) : ∀ (l : List α) (r : List β), l.mapM f = .ok r →
    ∀ (i : Nat) (y : β), r[i]? = some y → ∃ a, l[i]? = some a ∧ f a = .ok y := by
  intro l
  induction l with
  | nil => intro r h i y hy; simp only [List.mapM_nil, pure, Except.pure, Except.ok.injEq] at h; subst h; simp at hy
  | cons a as ih =>
    intro r h i y hy
    rw [List.mapM_cons] at h
    cases h1 : f a with
    | error e => simp [h1, bind, Except.bind] at h
    | ok b =>
      cases h2 : as.mapM f with
      | error e => simp [h1, h2, bind, Except.bind] at h
      | ok bs =>
        simp only [h1, h2, bind, Except.bind, pure, Except.pure, Except.ok.injEq] at h
        subst h
        cases i with
        | zero => simp at hy; subst hy; exact ⟨a, by simp, h1⟩
        | succ k =>
          simp only [List.getElem?_cons_succ] at hy ⊢
          exact ih bs h2 k y hy

/-- a position reported for a string: within the fret range, carrying a chord name whose pitch class is the open string's
    plus the fret -/
theorem findNoteNames_spec (t : Tuning) (names : List Str) (string maxfret : Nat) (l : List (Nat × Str))
    (h : findNoteNames t names string maxfret = .ok l) (x : Nat) (nm : Str) (hx : (x, nm) ∈ l) :
    x ≤ maxfret ∧ nm ∈ names ∧ ∃ (n : Note) (si : Int), t[string]? = some (TString.one n) ∧ n.toInt = .ok si ∧
      Notes.noteToInt nm = .ok ((si % 12 + (x : Int)) % 12) := by
  unfold findNoteNames at h
  simp only [bind, Except.bind] at h
  split at h
  · cases h
  · rename_i ints hints
    split at h
    · cases h
    · cases h
    · rename_i n hn
      split at h
      · cases h
      · rename_i si hsi
        simp only [pure, Except.pure, Except.ok.injEq] at h
        subst h
        simp only [List.mem_filterMap, List.mem_range] at hx
        obtain ⟨y, hy, hsome⟩ := hx
        cases hf : ints.findIdx? (· == (si % 12 + (y : Int)) % 12) with
        | none => rw [hf] at hsome; cases hsome
        | some i =>
          rw [hf] at hsome
          simp only [Option.some.injEq, Prod.mk.injEq] at hsome
          obtain ⟨rfl, rfl⟩ := hsome
          have hspec := List.findIdx?_eq_some_iff_getElem.1 hf
          obtain ⟨hi, hieq, _⟩ := hspec
          have hint : ints[i]? = some ((si % 12 + (y : Int)) % 12) := by
            rw [List.getElem?_eq_getElem hi]
            simp only [beq_iff_eq] at hieq
            rw [hieq]
          obtain ⟨a, ha, hfa⟩ := mapM_index _ names ints hints i _ hint
          have hget : names.getD i [] = a := by simp [List.getD_eq_getElem?_getD, ha]
          refine ⟨by omega, ?_, n, si, hn, hsi, ?_⟩
          · rw [hget]; exact List.mem_of_getElem? ha
          · rw [hget]; exact hfa

/-! ### the final filter -/

theorem mem_filterE {α} (p : α → Except Err Bool) : ∀ (l r : List α), filterE p l = .ok r → ∀ a ∈ r, a ∈ l ∧ p a = .ok true := by
  intro l
  induction l with
  | nil => intro r h a ha; simp only [filterE, pure, Except.pure, Except.ok.injEq] at h; subst h; simp at ha
  | cons x xs ih =>
    intro r h a ha
    simp only [filterE, bind, Except.bind] at h
    split at h
    · cases h
    · rename_i b hb
      split at h
      · cases h
      · rename_i rs hrs
        simp only [pure, Except.pure, Except.ok.injEq] at h
        subst h
        cases b with
        | true =>
          simp only [if_true] at ha
          rcases List.mem_cons.1 ha with rfl | ha
          · exact ⟨by simp, hb⟩
          · obtain ⟨h1, h2⟩ := ih rs hrs a ha
            exact ⟨by simp [h1], h2⟩
        | false =>
          simp only [Bool.false_eq_true, if_false] at ha
          obtain ⟨h1, h2⟩ := ih rs hrs a ha
          exact ⟨by simp [h1], h2⟩

theorem fretsOf_getElem (sub : List (Nat × Option Str)) (idx : Nat) (fr : Int) (h : (fretsOf sub)[idx]? = some (some fr)) :
    ∃ nm, sub[idx]? = some (fr.toNat, some nm) ∧ ((fr.toNat : Nat) : Int) = fr := by
  unfold fretsOf at h
  rw [List.getElem?_map] at h
  cases hs : sub[idx]? with
  | none => simp [hs] at h
  | some p =>
    obtain ⟨f, o⟩ := p
    cases o with
    | none => simp [hs] at h
    | some nm =>
      simp only [hs, Option.map_some, Option.isSome_some, if_true, Option.some.injEq] at h
      subst h
      exact ⟨nm, by simp, by simp⟩

/-- **find_chord_fingering, soundness.**  Every fingering returned has one entry per string; every fretted entry lies
    within 0..maxfret and sounds the pitch class of a note of the chord; every note name of the chord is sounded by some
    entry; and the finger limit is respected. -/
theorem chord_sound (t : Tuning) (names : List Str) (md : Int) (maxfret maxFingers : Nat) (r : List (List (Option Int)))
    (h : findChordFingering t names md maxfret maxFingers = .ok r) (a : List (Option Int)) (ha : a ∈ r) :
    ∃ notenames, chordNames names = .ok notenames ∧
      a.length = t.length ∧
      (∀ (idx : Nat) (fr : Int), a[idx]? = some (some fr) → 0 ≤ fr ∧ fr ≤ maxfret ∧ ∃ nm ∈ notenames, ∃ (n : Note) (si : Int),
        t[idx]? = some (TString.one n) ∧ n.toInt = .ok si ∧ Notes.noteToInt nm = .ok ((si % 12 + fr) % 12)) ∧
      (∀ nm ∈ notenames, ∃ (idx : Nat) (fr : Int), a[idx]? = some (some fr) ∧ ∃ (n : Note) (si : Int),
        t[idx]? = some (TString.one n) ∧ n.toInt = .ok si ∧ Notes.noteToInt nm = .ok ((si % 12 + fr) % 12)) ∧
      (∃ k, fingersNeeded a = .ok k ∧ k ≤ maxFingers) := by
  unfold findChordFingering at h
  simp only [bind, Except.bind] at h
  split at h
  · cases h
  · rename_i notenames hnn
    refine ⟨notenames, hnn, ?_⟩
    split at h
    · simp only [pure, Except.pure, Except.ok.injEq] at h; subst h; simp at ha
    · rename_i hlen
      split at h
      · cases h
      · rename_i fretdict hfd
        split at h
        · cases h
        · rename_i row0 rows hres
          obtain ⟨hmem, hfing⟩ := mem_filterE _ _ r h a ha
          rw [mem_sortBy] at hmem
          obtain ⟨sub, hsub, hacc⟩ := List.mem_filterMap.1 hmem
          -- the candidate: first-string cell, destination, continuation
          unfold candidates at hsub
          simp only [List.mem_flatMap] at hsub
          obtain ⟨⟨i, y⟩, hiy, hsub⟩ := hsub
          cases y with
          | none => simp at hsub
          | some cell =>
            obtain ⟨yname, next⟩ := cell
            simp only [List.mem_flatMap, List.mem_map] at hsub
            obtain ⟨d, hd, s, hs, rfl⟩ := hsub
            have hrow0 : (makeTable fretdict maxfret md)[0]? = some row0 := by rw [hres]; rfl
            have hcell : row0[i]? = some (some (yname, next)) := (mem_zip_range row0 i _).1 hiy
            have hgood := makeTable_good fretdict maxfret md 0 row0 hrow0 i yname next hcell
            have h2 : 1 + 1 ≤ t.length := by
              -- the table has a first row, so there are at least two strings
              have hl : (makeTable fretdict maxfret md).length = fretdict.length - 1 := by simp [makeTable]
              have hfl : fretdict.length = t.length := by rw [mapM_length _ _ _ hfd]; simp
              rw [hres] at hl
              simp at hl; omega
            have hfs := (follow_spec (makeTable fretdict maxfret md) t.length maxfret md t.length 1 d.1 (some d.2) (-1) h2 (by omega)).2
            have hslen := (hfs s hs).1
            have hon : OnDict fretdict 0 ((i, yname) :: s) :=
              OnDict_cons _ _ _ _ (by intro nm hnm; exact hgood.2 nm hnm)
                (follow_onDict fretdict t.length maxfret md t.length 1 d.1 (some d.2) (-1)
                  (by intro nm hnm; cases hnm; simpa using hgood.1 d hd) s hs)
            -- acceptance
            unfold acceptSub at hacc
            simp only at hacc
            split at hacc
            · rename_i hcond
              simp only [Option.some.injEq] at hacc
              subst hacc
              simp only [Bool.and_eq_true, decide_eq_true_eq, List.all_eq_true, Bool.not_eq_true', List.isEmpty_eq_false_iff] at hcond
              obtain ⟨⟨_, hcover⟩, _⟩ := hcond
              have hdict : ∀ (idx fr : Nat) (nm : Str), ((i, yname) :: s)[idx]? = some (fr, some nm) →
                  fr ≤ maxfret ∧ nm ∈ notenames ∧ ∃ (n : Note) (si : Int), t[idx]? = some (TString.one n) ∧ n.toInt = .ok si ∧
                    Notes.noteToInt nm = .ok ((si % 12 + (fr : Int)) % 12) := by
                intro idx fr nm hidx
                have hin := hon idx (fr, some nm) hidx nm rfl
                simp only [Nat.zero_add] at hin
                cases hfdi : fretdict[idx]? with
                | none => simp [List.getD_eq_getElem?_getD, hfdi] at hin
                | some l =>
                  simp only [List.getD_eq_getElem?_getD, hfdi, Option.getD_some] at hin
                  obtain ⟨x, hx, hfx⟩ := mapM_index _ _ _ hfd idx l hfdi
                  have hxi : x = idx := by
                    have : idx < t.length := by
                      by_contra hh
                      rw [List.getElem?_eq_none (by simpa using hh)] at hx; cases hx
                    rw [List.getElem?_eq_getElem (by simpa using this)] at hx; simpa using hx.symm
                  subst hxi
                  exact findNoteNames_spec t notenames x maxfret l hfx fr nm hin
              refine ⟨by simp [fretsOf, hslen]; omega, ?_, ?_, ?_⟩
              · intro idx fr hidx
                obtain ⟨nm, hsubidx, hcast⟩ := fretsOf_getElem _ idx fr hidx
                obtain ⟨h1, h2', n, si, h3, h4, h5⟩ := hdict idx fr.toNat nm hsubidx
                refine ⟨by omega, by omega, nm, h2', n, si, h3, h4, ?_⟩
                rw [← hcast]; exact h5
              · intro nm hnm
                have hc := hcover nm hnm
                simp only [List.contains_iff_mem, List.mem_filterMap, List.mem_filter] at hc
                obtain ⟨p, ⟨hp, _⟩, hp2⟩ := hc
                obtain ⟨idx, hidx, hget⟩ := List.mem_iff_getElem.1 hp
                obtain ⟨fr, o⟩ := p
                simp only at hp2
                subst hp2
                have hidx' : ((i, yname) :: s)[idx]? = some (fr, some nm) := by rw [List.getElem?_eq_getElem hidx, hget]
                obtain ⟨_, _, n, si, h3, h4, h5⟩ := hdict idx fr nm hidx'
                refine ⟨idx, (fr : Int), ?_, n, si, h3, h4, h5⟩
                show (fretsOf ((i, yname) :: s))[idx]? = some (some (fr : Int))
                unfold fretsOf
                rw [List.getElem?_map, hidx']
                simp
              · unfold withinFingers at hfing
                simp only [bind, Except.bind] at hfing
                split at hfing
                · cases hfing
                · rename_i k hk
                  simp only [pure, Except.pure, Except.ok.injEq, decide_eq_true_eq] at hfing
                  exact ⟨k, hk, hfing⟩
            · cases hacc

/-! ### the span limit -/

theorem minFret_le (named : List (Nat × Option Str)) : ∀ (m0 : Int),
    named.foldl (fun m p => if p.1 ≠ 0 ∧ (p.1 : Int) ≤ m then (p.1 : Int) else m) m0 ≤ m0 ∧
    ∀ p ∈ named, p.1 ≠ 0 → named.foldl (fun m p => if p.1 ≠ 0 ∧ (p.1 : Int) ≤ m then (p.1 : Int) else m) m0 ≤ p.1 := by
  induction named with
  | nil => intro m0; simp
  | cons q qs ih =>
    intro m0
    simp only [List.foldl_cons]
    by_cases hq : q.1 ≠ 0 ∧ (q.1 : Int) ≤ m0
    · rw [if_pos hq]
      obtain ⟨h1, h2⟩ := ih (q.1 : Int)
      refine ⟨by omega, ?_⟩
      intro p hp hp0
      rcases List.mem_cons.1 hp with rfl | hp
      · exact h1
      · exact h2 p hp hp0
    · rw [if_neg hq]
      obtain ⟨h1, h2⟩ := ih m0
      refine ⟨h1, ?_⟩
      intro p hp hp0
      rcases List.mem_cons.1 hp with rfl | hp
      · have : ¬ ((p.1 : Int) ≤ m0) := fun h => hq ⟨hp0, h⟩
        omega
      · exact h2 p hp hp0

theorem maxFret_ge (named : List (Nat × Option Str)) : ∀ (m0 : Int),
    m0 ≤ named.foldl (fun m p => if p.1 ≠ 0 ∧ (p.1 : Int) ≥ m then (p.1 : Int) else m) m0 ∧
    ∀ p ∈ named, p.1 ≠ 0 → (p.1 : Int) ≤ named.foldl (fun m p => if p.1 ≠ 0 ∧ (p.1 : Int) ≥ m then (p.1 : Int) else m) m0 := by
  induction named with
  | nil => intro m0; simp
  | cons q qs ih =>
    intro m0
    simp only [List.foldl_cons]
    by_cases hq : q.1 ≠ 0 ∧ (q.1 : Int) ≥ m0
    · rw [if_pos hq]
      obtain ⟨h1, h2⟩ := ih (q.1 : Int)
      refine ⟨by omega, ?_⟩
      intro p hp hp0
      rcases List.mem_cons.1 hp with rfl | hp
      · exact h1
      · exact h2 p hp hp0
    · rw [if_neg hq]
      obtain ⟨h1, h2⟩ := ih m0
      refine ⟨h1, ?_⟩
      intro p hp hp0
      rcases List.mem_cons.1 hp with rfl | hp
      · have : ¬ ((p.1 : Int) ≥ m0) := fun h => hq ⟨hp0, h⟩
        omega
      · exact h2 p hp hp0

/-- a candidate that passes the final test: any two fretted (non-open) named positions are less than `max_distance` apart -/
theorem acceptSub_span (notenames : List Str) (md : Int) (sub : List (Nat × Option Str)) (a : List (Option Int))
    (h : acceptSub notenames md sub = some a) :
    a = fretsOf sub ∧ ∀ p ∈ sub, ∀ q ∈ sub, p.2.isSome = true → q.2.isSome = true → p.1 ≠ 0 → q.1 ≠ 0 → (p.1 : Int) - q.1 < md := by
  unfold acceptSub at h
  simp only at h
  split at h
  · rename_i hc
    simp only [Option.some.injEq] at h
    refine ⟨h.symm, ?_⟩
    simp only [Bool.and_eq_true, decide_eq_true_eq] at hc
    obtain ⟨⟨hspan, _⟩, _⟩ := hc
    intro p hp q hq hps hqs hp0 hq0
    have hpn : p ∈ sub.filter (fun p => p.2.isSome) := List.mem_filter.2 ⟨hp, hps⟩
    have hqn : q ∈ sub.filter (fun p => p.2.isSome) := List.mem_filter.2 ⟨hq, hqs⟩
    have h1 := (maxFret_ge (sub.filter fun p => p.2.isSome) (-1000)).2 p hpn hp0
    have h2 := (minFret_le (sub.filter fun p => p.2.isSome) 1000).2 q hqn hq0
    unfold maxFretOf minFret at hspan
    omega
  · cases h

/-- **the span limit of the fingerings returned**: fretted positions (neither open nor unplayed) are less than `max_distance`
    apart -/
theorem chord_span (t : Tuning) (names : List Str) (md : Int) (maxfret maxFingers : Nat) (r : List (List (Option Int)))
    (h : findChordFingering t names md maxfret maxFingers = .ok r) (a : List (Option Int)) (ha : a ∈ r) :
    ∀ f ∈ a, ∀ g ∈ a, ∀ x y : Int, f = some x → g = some y → x ≠ 0 → y ≠ 0 → x - y < md := by
  unfold findChordFingering at h
  simp only [bind, Except.bind] at h
  split at h
  · cases h
  · split at h
    · simp only [pure, Except.pure, Except.ok.injEq] at h; subst h; simp at ha
    · split at h
      · cases h
      · split at h
        · cases h
        · obtain ⟨hmem, _⟩ := mem_filterE _ _ r h a ha
          rw [mem_sortBy] at hmem
          obtain ⟨sub, _, hacc⟩ := List.mem_filterMap.1 hmem
          obtain ⟨rfl, hspan⟩ := acceptSub_span _ _ _ _ hacc
          intro f hf g hg x y hfx hgy hx0 hy0
          unfold fretsOf at hf hg
          obtain ⟨p, hp, rfl⟩ := List.mem_map.1 hf
          obtain ⟨q, hq, rfl⟩ := List.mem_map.1 hg
          by_cases hps : p.2.isSome = true
          · by_cases hqs : q.2.isSome = true
            · simp only [hps, if_true, Option.some.injEq] at hfx
              simp only [hqs, if_true, Option.some.injEq] at hgy
              subst hfx; subst hgy
              exact hspan p hp q hq hps hqs (by intro e; apply hx0; simp [e]) (by intro e; apply hy0; simp [e])
            · simp [hqs] at hgy
          · simp [hps] at hfx

end Mingus.Props.C20
