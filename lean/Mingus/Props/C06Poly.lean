import Mingus.Props.C06
/-
  C06 — slash chords and polychords, unbounded in the roots.

  `slash_parse`: for EVERY known shorthand `k`, every root (a letter with any accidentals) and every bass note name (a letter
  with any accidentals), `root k / bass` is the bass note followed by the chord `root k`.
  `poly_parse`: for EVERY pair of known shorthands and every pair of roots, `X|Y` is Y's notes followed by X's notes, a note
  equal to the one just before it not repeated (`polyAppend`).
  (C06.lean has these as kernel evaluations over a finite domain; here they follow from the parser's definition for all roots.
  Nesting - a polychord whose halves are themselves slash chords or polychords - stays with the finite evaluation and the
  correspondence.)
-/
namespace Mingus.Props.C06
open Mingus Mingus.Notes Mingus.Keys Mingus.Intervals Mingus.Scales Mingus.Chords

/-! ### `str.replace` and a separator that is not in the pattern -/

theorem isPrefixOf_barrier (pat a b : Str) (c : Char) (hc : c ∉ pat) :
    pat.isPrefixOf (a ++ c :: b) = pat.isPrefixOf a := by
  induction pat generalizing a with
  | nil => simp
  | cons p ps ih =>
    have hp : p ≠ c := fun e => hc (by simp [e])
    have hps : c ∉ ps := fun e => hc (by simp [e])
    cases a with
    | nil => simp [List.isPrefixOf, hp]
    | cons x xs => simp only [List.cons_append, List.isPrefixOf, ih xs hps]

theorem isPrefixOf_length (pat a : Str) (h : pat.isPrefixOf a = true) : pat.length ≤ a.length := by
  induction pat generalizing a with
  | nil => simp
  | cons p ps ih =>
    cases a with
    | nil => simp [List.isPrefixOf] at h
    | cons x xs =>
      simp only [List.isPrefixOf, Bool.and_eq_true] at h
      have := ih xs h.2
      simp; omega

theorem replaceGo_barrier (pat rep : Str) (c : Char) (hc : c ∉ pat) (b : Str) : ∀ (a : Str) (skip : Nat), skip ≤ a.length →
    replaceGo pat rep skip (a ++ c :: b) = replaceGo pat rep skip a ++ c :: replaceGo pat rep 0 b := by
  intro a
  induction a with
  | nil =>
    intro skip hs
    have : skip = 0 := by simpa using hs
    subst this
    have hnp : ¬ (pat ≠ [] ∧ pat.isPrefixOf (c :: b) = true) := by
      rintro ⟨hne, hp⟩
      cases pat with
      | nil => exact hne rfl
      | cons p ps =>
        simp only [List.isPrefixOf, Bool.and_eq_true, beq_iff_eq] at hp
        exact hc (by simp [hp.1])
    simp only [List.nil_append, replaceGo, hnp, if_false]
  | cons x xs ih =>
    intro skip hs
    cases skip with
    | succ k =>
      simp only [List.cons_append, replaceGo]
      exact ih k (by simpa using hs)
    | zero =>
      simp only [List.cons_append, replaceGo]
      have hb := isPrefixOf_barrier pat (x :: xs) b c hc
      simp only [List.cons_append] at hb
      rw [hb]
      by_cases hm : pat ≠ [] ∧ pat.isPrefixOf (x :: xs) = true
      · rw [if_pos hm, if_pos hm]
        have hl := isPrefixOf_length pat (x :: xs) hm.2
        rw [ih (pat.length - 1) (by simp at hl; omega)]
        simp [List.append_assoc]
      · rw [if_neg hm, if_neg hm]
        rw [ih 0 (by omega)]
        rfl

theorem replaceAll_barrier (pat rep : Str) (c : Char) (hc : c ∉ pat) (a b : Str) :
    replaceAll pat rep (a ++ c :: b) = replaceAll pat rep a ++ c :: replaceAll pat rep b :=
  replaceGo_barrier pat rep c hc b a 0 (by omega)

/-- the alias rewriting works on each side of a `|` or `/` separately -/
theorem normalize_barrier (c : Char) (hc : c = '|' ∨ c = '/') (a b : Str) :
    normalize (a ++ c :: b) = normalize a ++ c :: normalize b := by
  have h1 : c ∉ lit "min" := by rcases hc with rfl | rfl <;> decide
  have h2 : c ∉ lit "mi" := by rcases hc with rfl | rfl <;> decide
  have h3 : c ∉ lit "-" := by rcases hc with rfl | rfl <;> decide
  have h4 : c ∉ lit "maj" := by rcases hc with rfl | rfl <;> decide
  have h5 : c ∉ lit "ma" := by rcases hc with rfl | rfl <;> decide
  unfold normalize
  rw [replaceAll_barrier _ _ c h1, replaceAll_barrier _ _ c h2, replaceAll_barrier _ _ c h3, replaceAll_barrier _ _ c h4,
    replaceAll_barrier _ _ c h5]

/-! ### scanning for the separators -/

theorem scanRest_noBar (k rest : Str) (hk : '|' ∉ k) : ∀ (i : Nat) (sl : Option Nat),
    ∃ sl', scanRest (k ++ '|' :: rest) i sl = (some (i + k.length), sl') := by
  induction k with
  | nil => intro i sl; exact ⟨sl, by simp [scanRest]⟩
  | cons ch t ih =>
    intro i sl
    have hch : ch ≠ '|' := fun e => hk (by simp [e])
    have ht : '|' ∉ t := fun e => hk (by simp [e])
    simp only [List.cons_append, scanRest, hch, if_false]
    split
    · obtain ⟨sl', h⟩ := ih ht (i + 1) (some i)
      exact ⟨sl', by rw [h]; simp; omega⟩
    · obtain ⟨sl', h⟩ := ih ht (i + 1) sl
      exact ⟨sl', by rw [h]; simp; omega⟩

/-- in `k / bass`, when neither `k`'s tail … the LAST slash is the one before the bass (the bass has no separator) -/
theorem scanRest_lastSlash (bass : Str) (hb : ∀ ch ∈ bass, ch ≠ '/' ∧ ch ≠ '|') : ∀ (k : Str), '|' ∉ k → ∀ (i : Nat) (sl : Option Nat),
    scanRest (k ++ '/' :: bass) i sl = (none, some (i + k.length)) := by
  have hbass : ∀ (bs : Str), (∀ ch ∈ bs, ch ≠ '/' ∧ ch ≠ '|') → ∀ (i : Nat) (sl : Option Nat), scanRest bs i sl = (none, sl) := by
    intro bs
    induction bs with
    | nil => intro _ i sl; rfl
    | cons ch t ih =>
      intro h i sl
      have := h ch (by simp)
      simp only [scanRest, this.1, this.2, if_false]
      exact ih (fun c hc => h c (by simp [hc])) (i + 1) sl
  intro k
  induction k with
  | nil =>
    intro _ i sl
    simp only [List.nil_append, scanRest, if_true, hbass bass hb, List.length_nil, Nat.add_zero]
  | cons ch t ih =>
    intro hk i sl
    have hch : ch ≠ '|' := fun e => hk (by simp [e])
    have ht : '|' ∉ t := fun e => hk (by simp [e])
    simp only [List.cons_append, scanRest, hch, if_false]
    split
    · rw [ih ht (i + 1) (some i)]; simp; omega
    · rw [ih ht (i + 1) sl]; simp; omega

/-- a known shorthand contains no `|` -/
theorem key_noBar : ∀ r ∈ chordShorthand, '|' ∉ r.1 := by decide +kernel

/-- `k/bass` is never one of the three slash spellings that are chord names themselves, when `bass` starts with a note letter -/
theorem not_exception (k : Str) (l : Char) (t : Str) (hl : isLetter l = true) :
    slashExceptions.contains (k ++ '/' :: (l :: t)) = false := by
  have key : ∀ e ∈ slashExceptions, e ≠ k ++ '/' :: (l :: t) := by
    intro e he heq
    -- each exception has exactly one slash, followed by 'M', '9' or '7'
    have hall : ∀ e ∈ slashExceptions, e = lit "m/M7" ∨ e = lit "6/9" ∨ e = lit "6/7" := by decide
    have hcases := hall e he
    have hlM : l ≠ 'M' := by intro e; subst e; revert hl; decide
    have hl9 : l ≠ '9' := by intro e; subst e; revert hl; decide
    have hl7 : l ≠ '7' := by intro e; subst e; revert hl; decide
    -- compare the text after the first slash: split k at its first '/'
    have hsplit : ∀ (k : Str) (x : Str), '/' ∉ x → ∀ y, x ++ '/' :: y = k ++ '/' :: (l :: t) →
        (∃ k', k = x ++ '/' :: k' ∧ y = k' ++ '/' :: (l :: t)) ∨ (k = x ∧ y = l :: t) := by
      intro k x hx
      induction x generalizing k with
      | nil =>
        intro y h
        cases k with
        | nil => right; simp at h; exact ⟨rfl, h⟩
        | cons c cs =>
          simp only [List.nil_append, List.cons_append, List.cons.injEq] at h
          left; exact ⟨cs, by rw [← h.1]; rfl, h.2⟩
      | cons a as ih =>
        intro y h
        have ha : a ≠ '/' := fun e => hx (by simp [e])
        have has : '/' ∉ as := fun e => hx (by simp [e])
        cases k with
        | nil => simp only [List.cons_append, List.nil_append, List.cons.injEq] at h; exact absurd h.1 ha
        | cons c cs =>
          simp only [List.cons_append, List.cons.injEq] at h
          rcases ih cs has y h.2 with ⟨k', h1, h2⟩ | ⟨h1, h2⟩
          · left; exact ⟨k', by rw [h.1, h1]; rfl, h2⟩
          · right; exact ⟨by rw [h.1, h1], h2⟩
    rcases hcases with rfl | rfl | rfl
    · rcases hsplit k (lit "m") (by decide) (lit "M7") (by simpa [lit] using heq) with ⟨k', _, h2⟩ | ⟨_, h2⟩
      · have := congrArg (fun z => z.contains '/') h2; revert this; simp [lit]
      · simp [lit] at h2; exact hlM h2.1.symm
    · rcases hsplit k (lit "6") (by decide) (lit "9") (by simpa [lit] using heq) with ⟨k', _, h2⟩ | ⟨_, h2⟩
      · have := congrArg (fun z => z.contains '/') h2; revert this; simp [lit]
      · simp [lit] at h2; exact hl9 h2.1.symm
    · rcases hsplit k (lit "6") (by decide) (lit "7") (by simpa [lit] using heq) with ⟨k', _, h2⟩ | ⟨_, h2⟩
      · have := congrArg (fun z => z.contains '/') h2; revert this; simp [lit]
      · simp [lit] at h2; exact hl7 h2.1.symm
  cases hc : slashExceptions.contains (k ++ '/' :: (l :: t)) with
  | false => rfl
  | true =>
    have := List.contains_iff_mem.1 hc
    exact absurd rfl (key _ this)

/-! ### the two theorems -/

/-- **slash chords**: the bass note followed by the chord, for every known shorthand, every root and every bass note name -/
theorem slash_parse (k : Str) (es : List NoteExpr) (hk : (k, es) ∈ chordShorthand)
    (l : Char) (t : Str) (hv : valid (l :: t) = true) (bl : Char) (bt : Str) (hbv : valid (bl :: bt) = true) :
    Chords.fromShorthand ((l :: t) ++ k ++ '/' :: (bl :: bt)) =
      (evalBuilder es (l :: t)).bind fun res => .ok ((bl :: bt) :: res) := by
  have hf := all_keyFacts (k, es) hk
  simp only [keyFacts, Bool.and_eq_true, beq_iff_eq] at hf
  obtain ⟨⟨⟨h1, h2⟩, h3⟩, h4⟩ := hf
  have hh : ∀ ch, k.head? = some ch → ch ≠ '#' ∧ ch ≠ 'b' := by
    intro ch hch; rw [hch] at h2; simpa using h2
  have hs : scanRest k 0 none = (none, none) ∨ (∃ i, scanRest k 0 none = (none, some i)) ∧ slashExceptions.contains k = true := by
    rcases hsc : scanRest k 0 none with ⟨a, b⟩
    rw [hsc] at h3
    cases a <;> cases b <;> simp_all
  have hl : isLetter l = true := by simp only [valid, Bool.and_eq_true] at hv; exact hv.1
  have ht : t.all isAcc = true := by simp only [valid, Bool.and_eq_true] at hv; exact hv.2
  have hbl : isLetter bl = true := by simp only [valid, Bool.and_eq_true] at hbv; exact hbv.1
  have hbchars := root_chars bl bt hbv
  -- the whole string is already normal
  have hnb : normalize (bl :: bt) = bl :: bt := by
    have := normalize_prefix (bl :: bt) [] (fun ch hc => ⟨(hbchars ch hc).1, (hbchars ch hc).2.1⟩)
    simpa [normalize, replaceAll, replaceGo] using this
  have hnj : normalize (k ++ '/' :: (bl :: bt)) = k ++ '/' :: (bl :: bt) := by
    rw [normalize_barrier '/' (Or.inr rfl), h1, hnb]
  have hnorm : normalize ((l :: t) ++ (k ++ '/' :: (bl :: bt))) = (l :: t) ++ (k ++ '/' :: (bl :: bt)) := by
    rw [normalize_prefix _ _ (fun ch hc => ⟨(root_chars l t hv ch hc).1, (root_chars l t hv ch hc).2.1⟩), hnj]
  have hhj : ∀ ch, (k ++ '/' :: (bl :: bt)).head? = some ch → ch ≠ '#' ∧ ch ≠ 'b' := by
    intro ch hch
    cases k with
    | nil => simp at hch; subst hch; decide
    | cons c cs => simp at hch; rw [← hch]; exact hh c rfl
  have hscan := scanRest_lastSlash (bl :: bt) (fun ch hc => ⟨(hbchars ch hc).2.2.1, (hbchars ch hc).2.2.2⟩) k (key_noBar _ hk) 0 none
  have hsep : 0 < sepCount ((l :: t) ++ k ++ '/' :: (bl :: bt)) := by
    have : '/' ∈ (l :: t) ++ k ++ '/' :: (bl :: bt) := by simp
    exact Nat.lt_of_lt_of_le (List.count_pos_iff.2 this) (Nat.le_add_right _ _)
  obtain ⟨f, hfuel⟩ : ∃ f, sepCount ((l :: t) ++ k ++ '/' :: (bl :: bt)) + 1 = f + 2 := ⟨sepCount ((l :: t) ++ k ++ '/' :: (bl :: bt)) - 1, by omega⟩
  unfold Chords.fromShorthand
  rw [hfuel]
  have e0 : (l :: t) ++ k ++ '/' :: (bl :: bt) = (l :: t) ++ (k ++ '/' :: (bl :: bt)) := by simp
  rw [e0]
  have hnorm' : normalize (l :: (t ++ (k ++ '/' :: (bl :: bt)))) = l :: (t ++ (k ++ '/' :: (bl :: bt))) := by simpa using hnorm
  rw [fromShorthandAux]
  rw [if_neg (not_nc l t _ hl)]
  simp only [List.cons_append, hnorm', hl, Bool.not_true, Bool.false_eq_true, if_false]
  rw [takeWhile_acc t _ ht hhj]
  simp only [List.drop_left, Nat.zero_add] at hscan ⊢
  simp only [hscan, not_exception k bl bt hbl, Bool.not_false, if_true, List.take_left', List.drop_left']
  have e1 : (List.drop (k.length + 1) (k ++ '/' :: bl :: bt)) = bl :: bt := by
    have : k ++ '/' :: bl :: bt = (k ++ ['/']) ++ (bl :: bt) := by simp
    rw [this, List.drop_left' (by simp)]
  rw [e1]
  have e2 : l :: (t ++ k) = (l :: t) ++ k := rfl
  rw [e2, parse_core l t hv k f (.note (bl :: bt)) h1 hh hs]
  simp only [fromShorthandAux.finish, h4, hbv, if_true]
  cases evalBuilder es (l :: t) <;> rfl

/-- the parser on `root k | Y` for ANY right-hand text `Y` in normal form: the right side is parsed first, then the left
    chord is appended to it -/
theorem poly_step (k1 : Str) (es1 : List NoteExpr) (hk1 : (k1, es1) ∈ chordShorthand)
    (l1 : Char) (t1 : Str) (hv1 : valid (l1 :: t1) = true) (Y : Str) (hY : normalize Y = Y) (f : Nat) :
    fromShorthandAux (f + 2) ((l1 :: t1) ++ (k1 ++ '|' :: Y)) .none =
      (fromShorthandAux (f + 1) Y .none).bind fun right => fromShorthandAux.finish (l1 :: t1) k1 (.chord right) := by
  have hf1 := all_keyFacts (k1, es1) hk1
  simp only [keyFacts, Bool.and_eq_true, beq_iff_eq] at hf1
  obtain ⟨⟨⟨a1, a2⟩, a3⟩, a4⟩ := hf1
  have hh1 : ∀ ch, k1.head? = some ch → ch ≠ '#' ∧ ch ≠ 'b' := by
    intro ch hch; rw [hch] at a2; simpa using a2
  have hs1 : scanRest k1 0 none = (none, none) ∨ (∃ i, scanRest k1 0 none = (none, some i)) ∧ slashExceptions.contains k1 = true := by
    rcases hsc : scanRest k1 0 none with ⟨a, b⟩
    rw [hsc] at a3
    cases a <;> cases b <;> simp_all
  have hl1 : isLetter l1 = true := by simp only [valid, Bool.and_eq_true] at hv1; exact hv1.1
  have ht1 : t1.all isAcc = true := by simp only [valid, Bool.and_eq_true] at hv1; exact hv1.2
  have hnj : normalize (k1 ++ '|' :: Y) = k1 ++ '|' :: Y := by
    rw [normalize_barrier '|' (Or.inl rfl), a1, hY]
  have hnorm : normalize ((l1 :: t1) ++ (k1 ++ '|' :: Y)) = (l1 :: t1) ++ (k1 ++ '|' :: Y) := by
    rw [normalize_prefix _ _ (fun ch hc => ⟨(root_chars l1 t1 hv1 ch hc).1, (root_chars l1 t1 hv1 ch hc).2.1⟩), hnj]
  have hhj : ∀ ch, (k1 ++ '|' :: Y).head? = some ch → ch ≠ '#' ∧ ch ≠ 'b' := by
    intro ch hch
    cases k1 with
    | nil => simp at hch; subst hch; decide
    | cons c cs => simp at hch; rw [← hch]; exact hh1 c rfl
  obtain ⟨sl', hscan⟩ := scanRest_noBar k1 Y (key_noBar _ hk1) 0 none
  have hnorm' : normalize (l1 :: (t1 ++ (k1 ++ '|' :: Y))) = l1 :: (t1 ++ (k1 ++ '|' :: Y)) := by simpa using hnorm
  rw [fromShorthandAux]
  rw [if_neg (not_nc l1 t1 _ hl1)]
  simp only [List.cons_append, hnorm', hl1, Bool.not_true, Bool.false_eq_true, if_false]
  rw [takeWhile_acc t1 _ ht1 hhj]
  simp only [List.drop_left, Nat.zero_add] at hscan ⊢
  simp only [hscan, List.take_left']
  have e1 : (List.drop (k1.length + 1) (k1 ++ '|' :: Y)) = Y := by
    have : k1 ++ '|' :: Y = (k1 ++ ['|']) ++ Y := by simp
    rw [this, List.drop_left' (by simp)]
  rw [e1]
  have e3 : l1 :: (t1 ++ k1) = (l1 :: t1) ++ k1 := rfl
  cases hr : fromShorthandAux (f + 1) Y .none with
  | error e => simp [bind, Except.bind]
  | ok right =>
    simp only [bind, Except.bind]
    rw [e3, parse_core l1 t1 hv1 k1 f (.chord right) a1 hh1 hs1]

/-- **polychords**: `X|Y` is Y's notes followed by X's notes (a note equal to the one just before it not repeated), for
    every pair of known shorthands and every pair of roots -/
theorem poly_parse (k1 : Str) (es1 : List NoteExpr) (hk1 : (k1, es1) ∈ chordShorthand)
    (k2 : Str) (es2 : List NoteExpr) (hk2 : (k2, es2) ∈ chordShorthand)
    (l1 : Char) (t1 : Str) (hv1 : valid (l1 :: t1) = true) (l2 : Char) (t2 : Str) (hv2 : valid (l2 :: t2) = true) :
    Chords.fromShorthand ((l1 :: t1) ++ k1 ++ '|' :: ((l2 :: t2) ++ k2)) =
      (evalBuilder es2 (l2 :: t2)).bind fun right => (evalBuilder es1 (l1 :: t1)).bind fun res => polyAppend right res := by
  have hf1 := all_keyFacts (k1, es1) hk1
  simp only [keyFacts, Bool.and_eq_true, beq_iff_eq] at hf1
  obtain ⟨_, a4⟩ := hf1
  have hf2 := all_keyFacts (k2, es2) hk2
  simp only [keyFacts, Bool.and_eq_true, beq_iff_eq] at hf2
  obtain ⟨⟨⟨b1, b2⟩, b3⟩, b4⟩ := hf2
  have hh2 : ∀ ch, k2.head? = some ch → ch ≠ '#' ∧ ch ≠ 'b' := by
    intro ch hch; rw [hch] at b2; simpa using b2
  have hs2 : scanRest k2 0 none = (none, none) ∨ (∃ i, scanRest k2 0 none = (none, some i)) ∧ slashExceptions.contains k2 = true := by
    rcases hsc : scanRest k2 0 none with ⟨a, b⟩
    rw [hsc] at b3
    cases a <;> cases b <;> simp_all
  have hn2 : normalize ((l2 :: t2) ++ k2) = (l2 :: t2) ++ k2 := by
    rw [normalize_prefix _ _ (fun ch hc => ⟨(root_chars l2 t2 hv2 ch hc).1, (root_chars l2 t2 hv2 ch hc).2.1⟩), b1]
  have hsep : 0 < sepCount ((l1 :: t1) ++ k1 ++ '|' :: ((l2 :: t2) ++ k2)) := by
    have : '|' ∈ (l1 :: t1) ++ k1 ++ '|' :: ((l2 :: t2) ++ k2) := by simp
    exact Nat.lt_of_lt_of_le (List.count_pos_iff.2 this) (Nat.le_add_left _ _)
  obtain ⟨f, hfuel⟩ : ∃ f, sepCount ((l1 :: t1) ++ k1 ++ '|' :: ((l2 :: t2) ++ k2)) + 1 = f + 2 :=
    ⟨sepCount ((l1 :: t1) ++ k1 ++ '|' :: ((l2 :: t2) ++ k2)) - 1, by omega⟩
  unfold Chords.fromShorthand
  rw [hfuel]
  have e0 : (l1 :: t1) ++ k1 ++ '|' :: ((l2 :: t2) ++ k2) = (l1 :: t1) ++ (k1 ++ '|' :: ((l2 :: t2) ++ k2)) := by simp
  rw [e0, poly_step k1 es1 hk1 l1 t1 hv1 _ hn2 f, parse_core l2 t2 hv2 k2 f .none b1 hh2 hs2]
  simp only [fromShorthandAux.finish, b4, a4]
  cases evalBuilder es2 (l2 :: t2) with
  | error e => rfl
  | ok right =>
    simp only [bind, Except.bind, pure, Except.pure]
    first | done | (cases evalBuilder es1 (l1 :: t1) <;> rfl)

/-- the statements are about something (kernel): a slash chord on a double-sharp root with a flat bass, a polychord -/
example : Chords.fromShorthand (lit "F##m7/Bb") = .ok [lit "Bb", lit "F##", lit "A#", lit "C##", lit "E#"] := by decide +kernel
example : Chords.fromShorthand (lit "Dm|G7") = .ok [lit "G", lit "B", lit "D", lit "F", lit "D", lit "F", lit "A"] := by decide +kernel
example : Chords.fromShorthand (lit "G|C") = .ok [lit "C", lit "E", lit "G", lit "B", lit "D"] := by decide +kernel

end Mingus.Props.C06
