import Mingus.Lemmas.Intervals
import Mingus.Props.C01
/-
  C02 — named interval constructors land on the exact letter and semitone distance.
  Unbounded in the input's accidentals (any number, any order).
-/
namespace Mingus.Props.C02
open Mingus Mingus.Notes Mingus.Keys Mingus.Intervals

/-- Spec: what "does not mix sharps with flats and carries at most six accidentals" means. -/
def Unmixed6 (r : Str) : Prop :=
  (r.tail.all (· == '#') = true ∨ r.tail.all (· == 'b') = true) ∧ r.tail.length ≤ 6

/-- every row of the constructor table: steps 1..6, semitone numbers 1..11 -/
theorem ctorTable_ranges : ∀ r ∈ ctorTable, 1 ≤ r.2.1 ∧ r.2.1 < 7 ∧ 0 ≤ r.2.2 ∧ r.2.2 < 12 := by decide

/-- the table is the defining (interval number, semitone) table of the named intervals:
    second = next letter … seventh = six letters up -/
theorem ctorTable_is_definition :
    ctorTable.map (fun r => (r.2.1, r.2.2)) =
      [(1, 1), (1, 2), (2, 3), (2, 4), (3, 4), (3, 5), (4, 6), (4, 7), (5, 8), (5, 9), (6, 10), (6, 11)] := by
  decide

/-- Main theorem: for every loop constructor (step, semitones) and every valid name with any accidentals:
    the result is valid, spelled `step` letters up, exactly `semis` semitones above (mod 12),
    unmixed, with at most six accidentals. -/
theorem ctor_spec (step : Nat) (hstep : step < 7) (semis : Int) (hs : 0 ≤ semis ∧ semis < 12)
    (l : Char) (t : Str) (hv : valid (l :: t) = true) :
    ∃ r, ctor step semis (l :: t) = .ok r ∧ valid r = true ∧ r.head? = some (letterUp l step) ∧
      pc r = (pc (l :: t) + semis) % 12 ∧ Unmixed6 r := by
  have hl : isLetter l = true := by
    simp only [valid, Bool.and_eq_true] at hv; exact hv.1
  have hl' := letterUp_isLetter hl step
  refine ⟨_, ctor_closed step hstep semis hs l t hv, valid_rep hl' _, (rep_shape _ _).1, ?_, ?_⟩
  · have hm := measureP_range (l :: t) [letterUp l step]
    have hme := measureP_eq (l :: t) [letterUp l step]
    have hn := normAcc_spec (semis - measureP (l :: t) [letterUp l step]) (by omega)
    have hp := pc_range (l :: t)
    rw [pc_rep]
    have hpc1 : pc [letterUp l step] = ((natural? (letterUp l step)).getD 0) % 12 := by
      simp [pc]
    have hr : 0 ≤ (natural? (letterUp l step)).getD 0 ∧ (natural? (letterUp l step)).getD 0 < 12 := by
      cases hn' : natural? (letterUp l step) with
      | none => simp [isLetter, hn'] at hl'
      | some v => simpa using natural_range hn'
    omega
  · have hm := measureP_range (l :: t) [letterUp l step]
    have hn := normAcc_spec (semis - measureP (l :: t) [letterUp l step]) (by omega)
    have hsh := rep_shape (letterUp l step) (normAcc (semis - measureP (l :: t) [letterUp l step]))
    exact ⟨hsh.2.2, by rw [hsh.2.1]; omega⟩

/-- the statement for the named constructors, row by row -/
theorem named_ctor_spec : ∀ r ∈ ctorTable, ∀ (l : Char) (t : Str), valid (l :: t) = true →
    ∃ res, ctor r.2.1 r.2.2 (l :: t) = .ok res ∧ valid res = true ∧ res.head? = some (letterUp l r.2.1) ∧
      pc res = (pc (l :: t) + r.2.2) % 12 ∧ Unmixed6 res := by
  intro r hr l t hv
  have h := ctorTable_ranges r hr
  exact ctor_spec r.2.1 h.2.1 r.2.2 h.2.2 l t hv

/-- unisons: letter and semitone clauses for every valid input -/
theorem unison_spec (l : Char) (t : Str) (hv : valid (l :: t) = true) :
    majorUnison (l :: t) = .ok (l :: t) ∧
    (∃ r, minorUnison (l :: t) = .ok r ∧ valid r = true ∧ r.head? = some l ∧ pc r = (pc (l :: t) - 1) % 12) ∧
    (∃ r, augmentedUnison (l :: t) = .ok r ∧ valid r = true ∧ r.head? = some l ∧ pc r = (pc (l :: t) + 1) % 12) := by
  exact ⟨rfl, ⟨diminish (l :: t), by simp [minorUnison, diminishE], C01.diminish_spec l t hv⟩,
    ⟨augment (l :: t), by simp [augmentedUnison, augmentE], C01.augment_spec l t hv⟩⟩

/-- full-strength clause for the unisons (kept visible; false of the code, see the counterexample) -/
def C02_unison_full : Prop :=
  ∀ (l : Char) (t : Str), valid (l :: t) = true →
    ∀ r, (majorUnison (l :: t) = .ok r ∨ minorUnison (l :: t) = .ok r ∨ augmentedUnison (l :: t) = .ok r) → Unmixed6 r

/-- proved part: canonical input with at most five accidentals -/
theorem unison_unmixed_partial (l : Char) (hl : isLetter l = true) (v : Int) (hv : -5 ≤ v ∧ v ≤ 5) :
    ∀ r, (majorUnison (rep l v) = .ok r ∨ minorUnison (rep l v) = .ok r ∨ augmentedUnison (rep l v) = .ok r) →
      Unmixed6 r := by
  have hne : rep l v ≠ [] := by simp [rep]
  intro r h
  have shape : ∀ w : Int, -6 ≤ w ∧ w ≤ 6 → Unmixed6 (rep l w) := by
    intro w hw
    have := rep_shape l w
    exact ⟨this.2.2, by rw [this.2.1]; omega⟩
  rcases h with h | h | h
  · simp only [majorUnison, Except.ok.injEq] at h; rw [← h]; exact shape v (by omega)
  · simp only [minorUnison, diminishE, hne, if_false, Except.ok.injEq] at h
    rw [← h, diminish_rep l (letter_ne_sharp hl)]; exact shape _ (by omega)
  · simp only [augmentedUnison, augmentE, hne, if_false, Except.ok.injEq] at h
    rw [← h, augment_rep l (letter_ne_b hl)]; exact shape _ (by omega)

/-- the known finding, pinned: the identity interval hands a mixed name straight back -/
theorem unison_counterexample : ¬ C02_unison_full := by
  intro h
  have := h 'C' ['#', 'b'] (by decide) ['C', '#', 'b'] (Or.inl rfl)
  revert this; unfold Unmixed6; decide

/-- semitone measure = difference of pitch classes mod 12, in 0..11 -/
theorem measure_spec (a b : Str) (ha : valid a = true) (hb : valid b = true) :
    measure a b = .ok ((pc b - pc a) % 12) ∧ 0 ≤ (pc b - pc a) % 12 ∧ (pc b - pc a) % 12 < 12 := by
  rw [measure_valid a b ha hb, measureP_eq]; exact ⟨rfl, by omega⟩

/-- the consonance predicates are exactly the stated functions of the measure -/
theorem consonance_spec (a b : Str) (f : Bool) (ha : valid a = true) (hb : valid b = true) :
    let m := (pc b - pc a) % 12
    isPerfectConsonant a b f = .ok (m == 0 || m == 7 || (f && m == 5)) ∧
    isImperfectConsonant a b = .ok (m == 3 || m == 4 || m == 8 || m == 9) ∧
    isConsonant a b f = .ok ((m == 0 || m == 7 || (f && m == 5)) || (m == 3 || m == 4 || m == 8 || m == 9)) ∧
    isDissonant a b f = .ok (!((m == 0 || m == 7 || (!f && m == 5)) || (m == 3 || m == 4 || m == 8 || m == 9))) := by
  have hm := (measure_spec a b ha hb).1
  intro m
  have hp : ∀ g, isPerfectConsonant a b g = .ok (m == 0 || m == 7 || (g && m == 5)) := by
    intro g; simp only [isPerfectConsonant, hm, bind, Except.bind, pure, Except.pure]; rfl
  have hi : isImperfectConsonant a b = .ok (m == 3 || m == 4 || m == 8 || m == 9) := by
    simp only [isImperfectConsonant, hm, bind, Except.bind, pure, Except.pure]; rfl
  have hc : ∀ g, isConsonant a b g =
      .ok ((m == 0 || m == 7 || (g && m == 5)) || (m == 3 || m == 4 || m == 8 || m == 9)) := by
    intro g
    simp only [isConsonant, hp g, hi, bind, Except.bind, pure, Except.pure]
    cases (m == 0 || m == 7 || (g && m == 5)) <;> rfl
  refine ⟨hp f, hi, hc f, ?_⟩
  simp only [isDissonant, hc, bind, Except.bind, pure, Except.pure]

/-- non-vacuity: inputs with many mixed accidentals, and the >6 normalisation actually firing -/
example : minorSeventh "Cb".toList = .ok "Bbb".toList := by decide +kernel
example : majorSeventh "Cbbbbb".toList = .ok "Bbbbbb".toList := by decide +kernel
example : majorThird "C#b#b##".toList = .ok "E##".toList := by decide +kernel
example : measure "D".toList "C".toList = .ok 10 := by decide +kernel

end Mingus.Props.C02
