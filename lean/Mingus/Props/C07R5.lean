import Mingus.Props.C07Defs
/- GENERATED once by the snippet recorded in DESIGN.md (slice 5 of the recognise-all theorem): kernel evaluation of
   every rotation of every listed shorthand on all 21 roots. -/
namespace Mingus.Props.C07
open Mingus
def sliceKeys5 : List Str := [lit "6/7", lit "add9", lit "7#11", lit "susb9", lit "M6"]
theorem slice5 : ∀ k ∈ sliceKeys5, keyOK k = true := by decide +kernel
end Mingus.Props.C07
