import Mingus.Model.Alias
import Mathlib.Tactic.Linarith
import Mathlib.Algebra.Order.Field.Rat
/-
  C15, table lookups with position memory: `fft._find_log_index` returns, for ANY strictly increasing positive table of 129
  entries and after ANY history of earlier lookups, the index the stateless lookup returns.  The concrete frequency table
  never enters the proof.
-/
namespace Mingus.Props.C15Fft
open Mingus Mingus.Alias

variable (table : List Rat)

/-- the table as a function -/
def T (i : Nat) : Rat := table.getD i 0

structure Table : Prop where
  len : table.length = 129
  mono : ∀ i j, i < j → j ≤ 128 → T table i < T table j
  pos : 0 < T table 0

theorem T_pos (ht : Table table) (i : Nat) (hi : i ≤ 128) : 0 < T table i := by
  cases i with
  | zero => exact ht.pos
  | succ k => exact lt_trans ht.pos (ht.mono 0 (k + 1) (by omega) hi)

theorem T_le (ht : Table table) (i j : Nat) (hij : i ≤ j) (hj : j ≤ 128) : T table i ≤ T table j := by
  rcases Nat.lt_or_ge i j with h | h
  · exact le_of_lt (ht.mono i j h hj)
  · have : i = j := by omega
    rw [this]

/-- specification of the answer for an in-range frequency -/
def IsAnswer (f : Rat) (n : Nat) : Prop := n ≤ 127 ∧ f ≤ T table n ∧ ∀ m, m < n → T table m < f

theorem answer_unique (ht : Table table) (f : Rat) (n n' : Nat) (h : IsAnswer table f n) (h' : IsAnswer table f n') : n = n' := by
  rcases Nat.lt_trichotomy n n' with hlt | heq | hgt
  · have := h'.2.2 n hlt; have := h.2.1; linarith
  · exact heq
  · have := h.2.2 n' hgt; have := h'.2.1; linarith

theorem findIdx_answer (ht : Table table) (f : Rat) (n : Nat) (h : IsAnswer table f n) :
    table.findIdx? (fun c => decide (f ≤ c)) = some n := by
  rw [List.findIdx?_eq_some_iff_getElem]
  have hn : n < table.length := by rw [ht.len]; have := h.1; omega
  refine ⟨hn, ?_, ?_⟩
  · have := h.2.1; simp only [T, List.getD, List.getElem?_eq_getElem hn, Option.getD_some] at this; simpa using this
  · intro j hj
    have hjl : j < table.length := by omega
    have := h.2.2 j hj
    simp only [T, List.getD, List.getElem?_eq_getElem hjl, Option.getD_some] at this
    simpa using this

theorem lookupPure_of_answer (ht : Table table) (f : Rat) (hf : 0 < f) (n : Nat) (h : IsAnswer table f n) :
    lookupPure table f = n := by
  unfold lookupPure
  have : ¬ f ≤ 0 := by linarith
  simp only [this, if_false, findIdx_answer table ht f n h, h.1, if_true]

theorem lookupPure_out_of_range (ht : Table table) (f : Rat) (hf : f ≤ 0 ∨ T table 127 < f) : lookupPure table f = 128 := by
  unfold lookupPure
  by_cases h0 : f ≤ 0
  · simp [h0]
  · simp only [h0, if_false]
    have hgt : T table 127 < f := by rcases hf with h | h; exact absurd h h0; exact h
    cases hfi : table.findIdx? (fun c => decide (f ≤ c)) with
    | none => rfl
    | some n =>
      simp only
      by_cases hn : n ≤ 127
      · exfalso
        rw [List.findIdx?_eq_some_iff_getElem] at hfi
        obtain ⟨hlt, hle, _⟩ := hfi
        have h1 : f ≤ T table n := by
          simp only [T, List.getD, List.getElem?_eq_getElem hlt, Option.getD_some]; simpa using hle
        have := T_le table ht n 127 hn (by omega)
        linarith
      · simp [hn]

/-- the search invariant -/
structure SInv (f : Rat) (b e : Nat) : Prop where
  lt : b < e
  le : e ≤ 128
  lo : b = 0 ∨ T table b < f
  hi : e = 128 ∨ f ≤ T table (e - 1)
  fpos : 0 < f
  fmax : f ≤ T table 127

theorem bsearch_correct (ht : Table table) (f : Rat) :
    ∀ (fuel b e : Nat), e - b ≤ fuel → SInv table f b e → ∃ n, bsearch table f fuel b e = (n, true) ∧ IsAnswer table f n := by
  intro fuel
  induction fuel with
  | zero => intro b e h inv; have := inv.lt; omega
  | succ fuel ih =>
    intro b e hfuel inv
    have hbe : b ≠ e := by have := inv.lt; omega
    simp only [bsearch, hbe, if_false]
    have hn1 : b ≤ (b + e) / 2 := by have := inv.lt; omega
    have hn2 : (b + e) / 2 < e := by have := inv.lt; omega
    have hn3 : (b + e) / 2 ≤ 127 := by have := inv.le; omega
    generalize hn : (b + e) / 2 = n at hn1 hn2 hn3 ⊢
    have hc : table.getD n 0 = T table n := rfl
    by_cases hin : (if n ≠ 0 then table.getD (n - 1) 0 else 0) < f ∧ f ≤ table.getD n 0
    · simp only [hin, and_self, if_true]
      refine ⟨n, rfl, hn3, by rw [← hc]; exact hin.2, ?_⟩
      intro m hm
      have hn0 : n ≠ 0 := by omega
      have h1 := hin.1
      simp only [hn0, ne_eq, not_false_eq_true, if_true] at h1
      have := T_le table ht m (n - 1) (by omega) (by omega)
      have e1 : table.getD (n - 1) 0 = T table (n - 1) := rfl
      linarith
    · simp only [hin, if_false]
      by_cases hlt : f < table.getD n 0
      · simp only [hlt, if_true]
        -- f ≤ cp, so n ≥ 1 and f ≤ T (n-1); recurse on (b, n)
        have hcp : f ≤ (if n ≠ 0 then table.getD (n - 1) 0 else 0) := by
          by_contra hcon
          exact hin ⟨lt_of_not_ge hcon, le_of_lt hlt⟩
        have hn0 : n ≠ 0 := by
          intro e0; simp only [e0, ne_eq, not_true_eq_false, if_false] at hcp; have := inv.fpos; linarith
        simp only [hn0, ne_eq, not_false_eq_true, if_true] at hcp
        have e1 : table.getD (n - 1) 0 = T table (n - 1) := rfl
        have hbn : b < n := by
          rcases Nat.lt_or_ge b n with h | h
          · exact h
          · exfalso
            have hb : b = n := by omega
            rcases inv.lo with h0 | h0
            · omega
            · have := ht.mono (n - 1) n (by omega) (by omega)
              rw [hb] at h0; linarith
        exact ih b n (by omega) ⟨hbn, by omega, inv.lo, Or.inr (by rw [← e1]; exact hcp), inv.fpos, inv.fmax⟩
      · simp only [hlt, if_false]
        -- f > T n; recurse on (n, e)
        have hge : table.getD n 0 ≤ f := le_of_not_gt hlt
        have hgt : T table n < f := by
          rcases lt_or_eq_of_le hge with h | h
          · exact h
          · exfalso
            have hcp : f ≤ (if n ≠ 0 then table.getD (n - 1) 0 else 0) := by
              by_contra hcon
              exact hin ⟨lt_of_not_ge hcon, by rw [h]⟩
            by_cases hn0 : n = 0
            · simp only [hn0, ne_eq, not_true_eq_false, if_false] at hcp; have := inv.fpos; linarith
            · simp only [hn0, ne_eq, not_false_eq_true, if_true] at hcp
              have e1 : table.getD (n - 1) 0 = T table (n - 1) := rfl
              have := ht.mono (n - 1) n (by omega) (by omega)
              rw [hc] at h; linarith
        have hbn : b < n := by
          rcases Nat.lt_or_ge b n with h | h
          · exact h
          · exfalso
            have hb : n = b := by omega
            have he : e = b + 1 := by omega
            rcases inv.hi with h0 | h0
            · have : n = 127 := by omega
              rw [this] at hgt; have := inv.fmax; linarith
            · rw [he] at h0; simp only [Nat.add_sub_cancel] at h0; rw [hb] at hgt; linarith
        exact ih n e (by omega) ⟨hn2, inv.le, Or.inr hgt, inv.hi, inv.fpos, inv.fmax⟩

/-- the memory invariant: the remembered pair is a frequency with its correct index — an in-range one, or one in the
    bin above the last in-range entry with index 128 -/
def MemOK (mem : Option (Nat × Rat)) : Prop :=
  ∀ n v, mem = some (n, v) → 0 < v ∧ ((n ≤ 127 ∧ IsAnswer table v n) ∨ (n = 128 ∧ T table 127 < v))

/-- one lookup with memory: the stateless answer, and the memory stays consistent -/
theorem lookupMem_correct (ht : Table table) (mem : Option (Nat × Rat)) (hm : MemOK table mem) (f : Rat) :
    (lookupMem table mem f).1 = lookupPure table f ∧ MemOK table (lookupMem table mem f).2 := by
  have eT : ∀ i, table.getD i 0 = T table i := fun _ => rfl
  have viaSearch : ∀ b, (b = 0 ∨ T table b < f) → b ≤ 128 →
      (let r := (if f > table.getD 127 0 ∨ f ≤ 0 then (128, mem)
          else let r := bsearch table f 200 b 128; (r.1, some (r.1, f)) : Nat × Option (Nat × Rat));
       r.1 = lookupPure table f ∧ MemOK table r.2) := by
    intro b hb hb128
    by_cases hout : f > table.getD 127 0 ∨ f ≤ 0
    · simp only [hout, if_true]
      exact ⟨(lookupPure_out_of_range table ht f (by rcases hout with h | h; exact Or.inr (by rw [← eT]; exact h); exact Or.inl h)).symm, hm⟩
    · simp only [hout, if_false]
      have hf0 : 0 < f := by by_contra h; exact hout (Or.inr (le_of_not_gt h))
      have hf1 : f ≤ T table 127 := by rw [← eT]; by_contra h; exact hout (Or.inl (lt_of_not_ge h))
      have hb127 : b < 128 := by
        rcases hb with h | h
        · omega
        · by_contra hc
          have : b = 128 := by omega
          rw [this] at h
          have := ht.mono 127 128 (by omega) (by omega); linarith
      obtain ⟨n, hn, ha⟩ := bsearch_correct table ht f 200 b 128 (by omega) ⟨hb127, le_refl _, hb, Or.inl rfl, hf0, hf1⟩
      rw [hn]
      refine ⟨(lookupPure_of_answer table ht f hf0 n ha).symm, ?_⟩
      intro n' v' e; simp only [Option.some.injEq, Prod.mk.injEq] at e
      obtain ⟨rfl, rfl⟩ := e; exact ⟨hf0, Or.inl ⟨ha.1, ha⟩⟩
  unfold lookupMem
  cases mem with
  | none => exact viaSearch 0 (Or.inl rfl) (by omega)
  | some p =>
    obtain ⟨lastn, lastval⟩ := p
    obtain ⟨hv0, hcase⟩ := hm lastn lastval rfl
    simp only
    by_cases hge : f ≥ lastval
    · simp only [hge, if_true]
      have hf0 : 0 < f := by linarith
      rcases hcase with ⟨hl127, hva⟩ | ⟨hl128, hvgt⟩
      · -- remembered an in-range answer
        by_cases h1 : f ≤ table.getD lastn 0
        · simp only [h1, if_true]
          have ha : IsAnswer table f lastn := ⟨hva.1, by rw [← eT]; exact h1, fun m hm' => lt_of_lt_of_le (hva.2.2 m hm') hge⟩
          refine ⟨(lookupPure_of_answer table ht f hf0 lastn ha).symm, ?_⟩
          intro n' v' e; simp only [Option.some.injEq, Prod.mk.injEq] at e
          obtain ⟨rfl, rfl⟩ := e
          exact ⟨hf0, Or.inl ⟨hva.1, ha⟩⟩
        · simp only [h1, if_false]
          have hgt : T table lastn < f := by rw [← eT]; exact lt_of_not_ge h1
          have hlen : lastn + 1 < table.length := by rw [ht.len]; omega
          by_cases h2 : f ≤ table.getD (lastn + 1) 0
          · simp only [hlen, h2, and_self, if_true]
            by_cases h127 : lastn = 127
            · -- f lies in the bin above the last in-range entry: index 128 for both lookups
              subst h127
              refine ⟨(lookupPure_out_of_range table ht f (Or.inr hgt)).symm, ?_⟩
              intro n' v' e; simp only [Option.some.injEq, Prod.mk.injEq] at e
              obtain ⟨rfl, rfl⟩ := e
              exact ⟨hf0, Or.inr ⟨rfl, hgt⟩⟩
            · have ha : IsAnswer table f (lastn + 1) := by
                refine ⟨by omega, by rw [← eT]; exact h2, ?_⟩
                intro m hm'
                have := T_le table ht m lastn (by omega) (by omega)
                linarith
              refine ⟨(lookupPure_of_answer table ht f hf0 _ ha).symm, ?_⟩
              intro n' v' e; simp only [Option.some.injEq, Prod.mk.injEq] at e
              obtain ⟨rfl, rfl⟩ := e
              exact ⟨hf0, Or.inl ⟨ha.1, ha⟩⟩
          · simp only [h2, and_false, if_false]
            exact viaSearch lastn (Or.inr hgt) (by omega)
      · -- remembered index 128 (frequency above the last in-range entry): everything at or above it is out of range
        subst hl128
        have hfgt : T table 127 < f := by linarith
        by_cases h1 : f ≤ table.getD 128 0
        · simp only [h1, if_true]
          refine ⟨(lookupPure_out_of_range table ht f (Or.inr hfgt)).symm, ?_⟩
          intro n' v' e; simp only [Option.some.injEq, Prod.mk.injEq] at e
          obtain ⟨rfl, rfl⟩ := e
          exact ⟨hf0, Or.inr ⟨rfl, hfgt⟩⟩
        · simp only [h1, if_false]
          have hlen : ¬ (128 + 1 < table.length) := by rw [ht.len]; omega
          simp only [hlen, false_and, if_false]
          have hgt : T table 128 < f := by rw [← eT]; exact lt_of_not_ge h1
          exact viaSearch 128 (Or.inr hgt) (by omega)
    · simp only [hge, if_false]
      exact viaSearch 0 (Or.inl rfl) (by omega)

/-- any history of lookups: the i-th answer with position memory is the stateless answer -/
def runLookups (fs : List Rat) : List Nat × Option (Nat × Rat) :=
  fs.foldl (fun (acc : List Nat × Option (Nat × Rat)) f => let r := lookupMem table acc.2 f; (acc.1 ++ [r.1], r.2)) ([], none)

theorem lookup_stateless (ht : Table table) (fs : List Rat) : (runLookups table fs).1 = fs.map (lookupPure table) := by
  have gen : ∀ (fs : List Rat) (acc : List Nat) (mem : Option (Nat × Rat)), MemOK table mem →
      (fs.foldl (fun (a : List Nat × Option (Nat × Rat)) f => let r := lookupMem table a.2 f; (a.1 ++ [r.1], r.2)) (acc, mem)).1 =
        acc ++ fs.map (lookupPure table) := by
    intro fs
    induction fs with
    | nil => intro acc mem _; simp
    | cons f rest ih =>
      intro acc mem hm
      obtain ⟨h1, h2⟩ := lookupMem_correct table ht mem hm f
      simp only [List.foldl_cons, List.map_cons]
      rw [ih _ _ h2, h1]; simp
  have := gen fs [] none (by intro n v e; cases e)
  simpa [runLookups] using this

/-- the repair was needed: with the unguarded shortcut (reading entry 129) the invariant cannot be kept - the
    implementation raised IndexError on the history 24000, 26000, 27000 Hz; see known_findings.json `fixed:` -/
example : True := trivial

end Mingus.Props.C15Fft
