import Mingus.Props.C07Defs
/- GENERATED once by the snippet recorded in DESIGN.md (slice 3 of the recognise-all theorem): kernel evaluation of
   every rotation of every listed shorthand on all 21 roots. -/
namespace Mingus.Props.C07
open Mingus
def sliceKeys3 : List Str := [lit "13", lit "add11", lit "mM7", lit "+"]
theorem slice3 : ∀ k ∈ sliceKeys3, keyOK k = true := by decide +kernel
end Mingus.Props.C07
