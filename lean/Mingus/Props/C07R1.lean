import Mingus.Props.C07Defs
/- GENERATED once by the snippet recorded in DESIGN.md (slice 1 of the recognise-all theorem): kernel evaluation of
   every rotation of every listed shorthand on all 21 roots. -/
namespace Mingus.Props.C07
open Mingus
def sliceKeys1 : List Str := [lit "M13", lit "7sus4", lit "dim7", lit "dim"]
theorem slice1 : ∀ k ∈ sliceKeys1, keyOK k = true := by decide +kernel
end Mingus.Props.C07
