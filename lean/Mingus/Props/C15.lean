import Mingus.Model.Alias
/-
  C15 — no hidden shared state.  Explicit-heap models: results of memoised queries are *fresh* cells (the repaired code),
  so whatever the caller does to the lists it was handed, every later query returns the pure value.  The `ref` variant
  (cached cell handed out, the code before the repair) is refuted by a concrete history.
-/
namespace Mingus.Props.C15
open Mingus Mingus.Alias

/-! ### heap lemmas -/
theorem read_write (h : Heap) (c c' : Nat) (v : Rows) :
    (h.write c v).read c' = if c' = c then v else h.read c' := by
  unfold Heap.read Heap.write
  by_cases e : c' = c
  · subst e; simp [List.lookup]
  · simp only [e, if_false, List.lookup]
    have hne : (c' == c) = false := by simpa using e
    simp only [hne]
    congr 1
    induction h.store with
    | nil => rfl
    | cons x xs ih =>
      simp only [List.filter_cons]
      by_cases hx : x.1 = c
      · have : (x.1 != c) = false := by simp [hx]
        simp only [this, Bool.false_eq_true, if_false, List.lookup]
        have : (c' == x.1) = false := by rw [hx]; exact hne
        simp only [this]; exact ih
      · have : (x.1 != c) = true := by simp [hx]
        simp only [this, if_true, List.lookup]
        split
        · rfl
        · exact ih

theorem read_hand (h : Heap) (v : Rows) (c' : Nat) : (h.hand v).read c' = if c' = h.next then v else h.read c' := by
  unfold Heap.read Heap.hand
  by_cases e : c' = h.next
  · simp [e, List.lookup]
  · have : (c' == h.next) = false := by simpa using e
    simp [e, List.lookup, this]

theorem read_memo (h : Heap) (t : Nat) (k : Str) (v : Rows) (c' : Nat) :
    (h.memo t k v).read c' = if c' = h.next then v else h.read c' := by
  unfold Heap.read Heap.memo
  by_cases e : c' = h.next
  · simp [e, List.lookup]
  · have : (c' == h.next) = false := by simpa using e
    simp [e, List.lookup, this]

/-- the state invariant of the memo machine with fresh results -/
structure Inv (h : Heap) : Prop where
  cached : ∀ t k cell, ((t, k), cell) ∈ h.cache → tableValue t k = .ok (h.read cell) ∧ cell ∉ h.handed ∧ cell < h.next
  handedLt : ∀ c ∈ h.handed, c < h.next

theorem project_pure (q : Query) (t : Nat) (k : Str) (hk : memoKey q = some (t, k)) (hq : ∀ n k', q ≠ .toChords n k')
    (table : Rows) (ht : tableValue t k = .ok table) : project q table = pureAnswer q := by
  cases q with
  | getNotes k0 =>
    simp only [memoKey, Option.some.injEq, Prod.mk.injEq] at hk
    obtain ⟨rfl, rfl⟩ := hk
    simp only [tableValue, if_true] at ht
    simp [project, pureAnswer, ht]
  | triads k0 =>
    simp only [memoKey, Option.some.injEq, Prod.mk.injEq] at hk
    obtain ⟨rfl, rfl⟩ := hk
    simp only [tableValue] at ht
    simp at ht
    simp [project, pureAnswer, ht]
  | sevenths k0 =>
    simp only [memoKey, Option.some.injEq, Prod.mk.injEq] at hk
    obtain ⟨rfl, rfl⟩ := hk
    simp only [tableValue] at ht
    simp at ht
    simp [project, pureAnswer, ht]
  | func name k0 =>
    simp only [memoKey] at hk
    cases hl : Chords.functionTable.lookup name with
    | none => simp [hl] at hk
    | some r =>
      obtain ⟨sev, i⟩ := r
      simp only [hl, Option.map_some, Option.some.injEq, Prod.mk.injEq] at hk
      obtain ⟨ht', rfl⟩ := hk
      simp only [project, pureAnswer, Chords.chordFunction, hl]
      cases sev
      · simp only [Bool.false_eq_true, if_false] at ht'
        subst ht'
        simp only [tableValue] at ht
        simp at ht
        simp only [Bool.false_eq_true, if_false, ht, bind, Except.bind]
        cases table[i]? <;> rfl
      · simp only [if_true] at ht'
        subst ht'
        simp only [tableValue] at ht
        simp at ht
        simp only [if_true, ht, bind, Except.bind]
        cases table[i]? <;> rfl
  | toChords n k0 => exact absurd rfl (hq n k0)

theorem pure_of_table_error (q : Query) (t : Nat) (k : Str) (hk : memoKey q = some (t, k)) (hq : ∀ n k', q ≠ .toChords n k')
    (e : Err) (ht : tableValue t k = .error e) : pureAnswer q = .error e := by
  cases q with
  | getNotes k0 =>
    simp only [memoKey, Option.some.injEq, Prod.mk.injEq] at hk; obtain ⟨rfl, rfl⟩ := hk
    simp only [tableValue, if_true] at ht
    cases hg : Keys.getNotes k0 <;> simp_all [pureAnswer, Except.map]
  | triads k0 =>
    simp only [memoKey, Option.some.injEq, Prod.mk.injEq] at hk; obtain ⟨rfl, rfl⟩ := hk
    simp only [tableValue] at ht; simp at ht; simp [pureAnswer, ht]
  | sevenths k0 =>
    simp only [memoKey, Option.some.injEq, Prod.mk.injEq] at hk; obtain ⟨rfl, rfl⟩ := hk
    simp only [tableValue] at ht; simp at ht; simp [pureAnswer, ht]
  | func name k0 =>
    simp only [memoKey] at hk
    cases hl : Chords.functionTable.lookup name with
    | none => simp [hl] at hk
    | some r =>
      obtain ⟨sev, i⟩ := r
      simp only [hl, Option.map_some, Option.some.injEq, Prod.mk.injEq] at hk
      obtain ⟨ht', rfl⟩ := hk
      simp only [pureAnswer, Chords.chordFunction, hl]
      cases sev
      · simp only [Bool.false_eq_true, if_false] at ht'; subst ht'
        simp only [tableValue] at ht; simp at ht
        simp [ht, bind, Except.bind, Except.map]
      · simp only [if_true] at ht'; subst ht'
        simp only [tableValue] at ht; simp at ht
        simp [ht, bind, Except.bind, Except.map]
  | toChords n k0 => exact absurd rfl (hq n k0)

theorem lookup_mem {α β} [BEq α] [LawfulBEq α] (l : List (α × β)) (a : α) (b : β) (h : l.lookup a = some b) : (a, b) ∈ l := by
  induction l with
  | nil => simp at h
  | cons x t ih =>
    obtain ⟨k, v⟩ := x
    simp only [List.lookup] at h
    split at h
    · rename_i he; simp at h; simp [h, (by simpa using he : a = k)]
    · simp [ih h]

theorem inv_hand (h : Heap) (hi : Inv h) (v : Rows) : Inv (h.hand v) := by
  constructor
  · intro t k cell hc
    have hc' : ((t, k), cell) ∈ h.cache := hc
    obtain ⟨h1, h2, h3⟩ := hi.cached t k cell hc'
    have hne : cell ≠ h.next := by omega
    refine ⟨by rw [read_hand]; simp only [hne, if_false]; exact h1, ?_, ?_⟩
    · simp only [Heap.hand, List.mem_append, List.mem_singleton, not_or]; exact ⟨h2, hne⟩
    · simp only [Heap.hand]; omega
  · intro c hc
    simp only [Heap.hand, List.mem_append, List.mem_singleton] at hc ⊢
    rcases hc with e | e
    · have := hi.handedLt c e; omega
    · omega

theorem inv_memo (h : Heap) (hi : Inv h) (t : Nat) (k : Str) (table : Rows) (ht : tableValue t k = .ok table) :
    Inv (h.memo t k table) := by
  constructor
  · intro t' k' cell hc
    simp only [Heap.memo, List.mem_cons, Prod.mk.injEq] at hc
    rcases hc with ⟨⟨rfl, rfl⟩, rfl⟩ | hc
    · refine ⟨by rw [read_memo]; simp [ht], ?_, by simp [Heap.memo]⟩
      intro hm; have := hi.handedLt _ hm; omega
    · obtain ⟨h1, h2, h3⟩ := hi.cached t' k' cell hc
      have hne : cell ≠ h.next := by omega
      exact ⟨by rw [read_memo]; simp only [hne, if_false]; exact h1, h2, by simp only [Heap.memo]; omega⟩
  · intro c hc
    have := hi.handedLt c hc
    simp only [Heap.memo]; omega

theorem inv_write (h : Heap) (hi : Inv h) (c : Nat) (hc : c ∈ h.handed) (v : Rows) : Inv (h.write c v) := by
  constructor
  · intro t k cell hcell
    obtain ⟨h1, h2, h3⟩ := hi.cached t k cell hcell
    have hne : cell ≠ c := fun e => h2 (e ▸ hc)
    exact ⟨by rw [read_write]; simp only [hne, if_false]; exact h1, h2, h3⟩
  · exact hi.handedLt

theorem step_mut (h : Heap) (hi : Inv h) (c : Call) (hc : ∀ q, c ≠ .query q) : Inv (step true h c).1 := by
  cases c with
  | query q => exact absurd rfl (hc q)
  | callerAppend i r x =>
    simp only [step]
    cases hh : h.handed[callIndex (.callerAppend i r x)]? with
    | none => exact hi
    | some cell => exact inv_write h hi cell (List.mem_of_getElem? hh) _
  | callerSet i r j x =>
    simp only [step]
    cases hh : h.handed[callIndex (.callerSet i r j x)]? with
    | none => exact hi
    | some cell => exact inv_write h hi cell (List.mem_of_getElem? hh) _
  | callerDropRow i =>
    simp only [step]
    cases hh : h.handed[callIndex (.callerDropRow i)]? with
    | none => exact hi
    | some cell => exact inv_write h hi cell (List.mem_of_getElem? hh) _

/-- a memoised query on a heap satisfying the invariant: the pure answer, and the invariant is kept -/
theorem step_memo (h : Heap) (hi : Inv h) (q : Query) (hq : ∀ n k', q ≠ .toChords n k') :
    Inv (memoStep true h q).1 ∧ (memoStep true h q).2 = pureAnswer q := by
  unfold memoStep
  cases hk : memoKey q with
  | none =>
    refine ⟨hi, ?_⟩
    cases q with
    | func name k0 =>
      simp only [memoKey] at hk
      cases hl : Chords.functionTable.lookup name with
      | none => simp [pureAnswer, Chords.chordFunction, hl, Except.map]
      | some r => simp [hl] at hk
    | toChords n k0 => exact absurd rfl (hq n k0)
    | _ => simp [memoKey] at hk
  | some tk =>
    obtain ⟨t, k⟩ := tk
    simp only
    cases hl : h.cache.lookup (t, k) with
    | some cell =>
      have hmem := lookup_mem _ _ _ hl
      obtain ⟨h1, _, _⟩ := hi.cached t k cell hmem
      have hp := project_pure q t k hk hq (h.read cell) h1
      simp only
      cases hpr : project q (h.read cell) with
      | error e => exact ⟨hi, by rw [← hp, hpr]⟩
      | ok ans => exact ⟨inv_hand h hi ans, by rw [← hp, hpr]⟩
    | none =>
      simp only
      cases ht : tableValue t k with
      | error e => exact ⟨hi, (pure_of_table_error q t k hk hq e ht).symm⟩
      | ok table =>
        have hp := project_pure q t k hk hq table ht
        simp only
        cases hpr : project q table with
        | error e => exact ⟨inv_memo h hi t k table ht, by rw [← hp, hpr]⟩
        | ok ans => exact ⟨inv_hand _ (inv_memo h hi t k table ht) ans, by rw [← hp, hpr]⟩

/-- one step of the machine with fresh results: the invariant is kept and a query is answered with its pure value -/
theorem step_fresh (h : Heap) (hi : Inv h) (c : Call) :
    Inv (step true h c).1 ∧ (∀ q, c = .query q → (step true h c).2 = pureAnswer q) := by
  cases c with
  | query q =>
    cases q with
    | toChords n k =>
      simp only [step]
      cases hp : pureAnswer (.toChords n k) with
      | error e => exact ⟨hi, by intro q' e'; cases e'; rw [hp]⟩
      | ok v => exact ⟨inv_hand h hi v, by intro q' e'; cases e'; rw [hp]⟩
    | getNotes k0 =>
      have := step_memo h hi (.getNotes k0) (by intro n k'; simp)
      exact ⟨this.1, by intro q e; cases e; exact this.2⟩
    | triads k0 =>
      have := step_memo h hi (.triads k0) (by intro n k'; simp)
      exact ⟨this.1, by intro q e; cases e; exact this.2⟩
    | sevenths k0 =>
      have := step_memo h hi (.sevenths k0) (by intro n k'; simp)
      exact ⟨this.1, by intro q e; cases e; exact this.2⟩
    | func nm k0 =>
      have := step_memo h hi (.func nm k0) (by intro n k'; simp)
      exact ⟨this.1, by intro q e; cases e; exact this.2⟩
  | callerAppend i r x => exact ⟨step_mut h hi _ (by simp), by intro q e; cases e⟩
  | callerSet i r j x => exact ⟨step_mut h hi _ (by simp), by intro q e; cases e⟩
  | callerDropRow i => exact ⟨step_mut h hi _ (by simp), by intro q e; cases e⟩

theorem inv_init : Inv {} := ⟨by intro t k c h; simp at h, by intro c h; simp at h⟩

/-- memo transparency: after ANY history of queries and of caller mutations of the lists it was handed, every query is
    answered with its pure value -/
theorem memo_transparent (calls : List Call) :
    ∀ (i : Nat) (q : Query), calls[i]? = some (Call.query q) → (run true calls).2[i]? = some (pureAnswer q) := by
  have gen : ∀ (cs : List Call) (h : Heap) (acc : List (Except Err Rows)), Inv h →
      let r := cs.foldl (fun (a : Heap × List (Except Err Rows)) c => let s := step true a.1 c; (s.1, a.2 ++ [s.2])) (h, acc)
      Inv r.1 ∧ r.2.length = acc.length + cs.length ∧ (∀ j, j < acc.length → r.2[j]? = acc[j]?) ∧
        ∀ (i : Nat) (q : Query), cs[i]? = some (Call.query q) → r.2[acc.length + i]? = some (pureAnswer q) := by
    intro cs
    induction cs with
    | nil => intro h acc hi; exact ⟨hi, by simp, by intro j _; rfl, by intro i q hq; simp at hq⟩
    | cons c rest ih =>
      intro h acc hi
      obtain ⟨hs1, hs2⟩ := step_fresh h hi c
      have := ih (step true h c).1 (acc ++ [(step true h c).2]) hs1
      simp only [List.foldl_cons] at this ⊢
      obtain ⟨r1, r2, r3, r4⟩ := this
      refine ⟨r1, by rw [r2]; simp; omega, ?_, ?_⟩
      · intro j hj
        rw [r3 j (by simp; omega)]; simp [List.getElem?_append_left hj]
      · intro i q hq
        cases i with
        | zero =>
          simp only [List.getElem?_cons_zero, Option.some.injEq] at hq
          rw [Nat.add_zero, r3 acc.length (by simp)]
          simp [hs2 q hq]
        | succ k =>
          simp only [List.getElem?_cons_succ] at hq
          have := r4 k q hq
          simp only [List.length_append, List.length_cons, List.length_nil] at this
          rw [show acc.length + (k + 1) = acc.length + 0 + 1 + k by omega]
          simpa using this
  intro i q hq
  have := (gen calls {} [] inv_init).2.2.2 i q hq
  simpa [run] using this

/-- the unrepaired behaviour (cached cell handed out) is refuted: appending to the list returned by `tonic('C')` changes
    what the next `tonic('C')` returns -/
theorem ref_counterexample :
    (run false [.query (.func (lit "tonic") (lit "C")), .callerAppend 0 0 (lit "Z"), .query (.func (lit "tonic") (lit "C"))]).2[2]? ≠
      some (pureAnswer (.func (lit "tonic") (lit "C"))) := by decide +kernel

/-! ### instances -/
theorem read_append_other (o : Obj) (i j : Nat) (x : Str) (v : List Str) (hj : o.inst[j]? = some (some v)) (hij : i ≠ j) :
    (o.append i x).read j = o.read j := by
  unfold Obj.append
  cases hi : o.inst[i]? with
  | none => rfl
  | some oi =>
    cases oi with
    | none => simp only [Obj.read, hj]
    | some w =>
      simp only [Obj.read]
      rw [List.getElem?_set_ne (by omega)]

/-- an instance whose `__init__` rebound the field: operations on OTHER instances never change what it reads, and no
    operation on such instances touches the class default -/
theorem instances_independent (o : Obj) (i : Nat) (x : Str) :
    (∀ j v, o.inst[j]? = some (some v) → i ≠ j → (o.append i x).read j = o.read j) ∧
    (∀ w, o.inst[i]? = some (some w) → (o.append i x).classCell = o.classCell) := by
  refine ⟨fun j v hj hij => read_append_other o i j x v hj hij, ?_⟩
  intro w hw
  simp [Obj.append, hw]

/-- every instance created with a rebinding `__init__` owns its object, after any history -/
theorem created_are_owned (ops : List InstOp) (o : Obj) (h : ∀ j, j < o.inst.length → ∃ v, o.inst[j]? = some (some v)) :
    ∀ j, j < (ops.foldl (instStep true) o).inst.length → ∃ v, (ops.foldl (instStep true) o).inst[j]? = some (some v) := by
  induction ops generalizing o with
  | nil => exact h
  | cons op rest ih =>
    simp only [List.foldl_cons]
    apply ih
    cases op with
    | create =>
      intro j hj
      simp only [instStep, Obj.create, List.length_append, List.length_cons, List.length_nil] at hj ⊢
      by_cases hlt : j < o.inst.length
      · obtain ⟨v, hv⟩ := h j hlt
        exact ⟨v, by rw [List.getElem?_append_left hlt]; exact hv⟩
      · have : j = o.inst.length := by omega
        subst this
        exact ⟨[], by simp⟩
    | append i x =>
      intro j hj
      simp only [instStep, Obj.append] at hj ⊢
      cases hi : o.inst[i]? with
      | none => simp only [hi] at hj ⊢; exact h j hj
      | some oi =>
        cases oi with
        | none => simp only [hi] at hj ⊢; exact h j hj
        | some w =>
          simp only [hi, List.length_set] at hj ⊢
          by_cases e : i = j
          · subst e; exact ⟨w ++ [x], by simp [List.getElem?_set_self (by omega : i < o.inst.length)]⟩
          · obtain ⟨v, hv⟩ := h j hj
            exact ⟨v, by rw [List.getElem?_set_ne e]; exact hv⟩

/-- the class default object is never changed by instances with a rebinding `__init__`, after any history -/
theorem class_default_untouched (ops : List InstOp) (o : Obj) (h : ∀ j, j < o.inst.length → ∃ v, o.inst[j]? = some (some v)) :
    (ops.foldl (instStep true) o).classCell = o.classCell := by
  induction ops generalizing o with
  | nil => rfl
  | cons op rest ih =>
    simp only [List.foldl_cons]
    have hstep : (instStep true o op).classCell = o.classCell ∧
        ∀ j, j < (instStep true o op).inst.length → ∃ v, (instStep true o op).inst[j]? = some (some v) := by
      refine ⟨?_, created_are_owned [op] o h⟩
      cases op with
      | create => rfl
      | append i x =>
        simp only [instStep, Obj.append]
        cases hi : o.inst[i]? with
        | none => rfl
        | some oi =>
          cases oi with
          | none =>
            by_cases hlt : i < o.inst.length
            · obtain ⟨v, hv⟩ := h i hlt
              rw [hv] at hi; cases hi
            · rw [List.getElem?_eq_none (by omega)] at hi; cases hi
          | some w => rfl
    rw [ih _ hstep.2, hstep.1]

/-- without the rebinding (the Suite class before its repair) two instances share the class-level list -/
theorem shared_counterexample :
    (([InstOp.create, .create, .append 0 (lit "x")].foldl (instStep false) ⟨[], []⟩).read 1) = [lit "x"] := by decide

end Mingus.Props.C15
