import Mingus.Lemmas.Intervals
import Mingus.Props.C02
/-
  C03 — interval naming and interval shorthand are mutually inverse.
  `fromShorthand_spec` is unbounded (any accidentals on the note, any accidental string in the shorthand);
  the naming / round-trip / up-down theorems evaluate the whole stated domain (names up to double
  accidentals, 35 shorthands) in the kernel.
-/
namespace Mingus.Props.C03
open Mingus Mingus.Notes Mingus.Keys Mingus.Intervals

/-! ### Spec vocabulary -/
def majorSize : List Int := [0, 2, 4, 5, 7, 9, 11]
def numberName : List Str := ["unison", "second", "third", "fourth", "fifth", "sixth", "seventh"].map String.toList
def letterIdx (l : Char) : Nat := baseScale.idxOf l
/-- letters spanned, ascending -/
def letterDist (l1 l2 : Char) : Nat := (letterIdx l2 + 7 - letterIdx l1) % 7
/-- ascending distance from the first to the second name counted along the letters they span -/
def spanDist (a b : Str) : Int :=
  match a, b with
  | l1 :: t1, l2 :: t2 =>
    let nat := if l1 = l2 then 0 else (((natural? l2).getD 0) - ((natural? l1).getD 0)) % 12
    nat + accVal t2 - accVal t1
  | _, _ => -1
/-- quality from the offset to the major/perfect size -/
def qualityName (ld : Nat) (off : Int) : Str :=
  if off = 0 then (if ld = 3 ∨ ld = 4 then lit "perfect" else lit "major")
  else if off = -1 then lit "minor" else if off < -1 then lit "diminished" else lit "augmented"
def specLong (a b : Str) : Str :=
  let ld := letterDist (a.headD 'C') (b.headD 'C')
  qualityName ld (spanDist a b - majorSize.getD ld 0) ++ lit " " ++ numberName.getD ld []

def canonNames (k : Nat) : List Str :=
  baseScale.flatMap fun l => ((List.range (2 * k + 1)).map fun (i : Nat) => rep l ((i : Int) - (k : Int)))
def accPrefixes : List Str := [[], ['#'], ['b'], ['#', '#'], ['b', 'b']]
def digits : List Char := ['1', '2', '3', '4', '5', '6', '7']
def shorthands : List Str := accPrefixes.flatMap fun a => digits.map fun d => a ++ [d]

/-! ### Naming: number from the letters, quality from the semitone offset (whole domain ≤ double accidentals) -/
def namingOK (a b : Str) : Bool :=
  let d := spanDist a b
  if 0 ≤ d ∧ d ≤ 11 then determine a b false == .ok (specLong a b) else true

theorem determine_names : ∀ a ∈ canonNames 2, ∀ b ∈ canonNames 2, namingOK a b = true := by decide +kernel

/-! ### Round trip: the returned shorthand, applied upward, reproduces the second note exactly -/
def roundtripOK (a b : Str) : Bool :=
  let d := spanDist a b
  if 0 ≤ d ∧ d ≤ 11 then
    match determine a b true with
    | .ok sh => (match fromShorthand a sh true with | .ok (.str r) => r == b | _ => false)
    | _ => false
  else true

theorem determine_fromShorthand : ∀ a ∈ canonNames 2, ∀ b ∈ canonNames 2, roundtripOK a b = true := by
  decide +kernel

/-! ### Shorthand application (unbounded) -/
/-- fold of the accidental loop -/
def applyAcc (up : Bool) : Str → Str → Str
  | [], v => v
  | x :: xs, v =>
    if x = '#' then applyAcc up xs (if up then augment v else diminish v)
    else if x = 'b' then applyAcc up xs (if up then diminish v else augment v)
    else v

theorem collect_eq (up : Bool) (a : Str) (ha : a.all isAcc = true) (d : Char) (hd : d ≠ '#' ∧ d ≠ 'b') (v : Str) :
    collect up (a ++ [d]) v = some (applyAcc up a v) := by
  induction a generalizing v with
  | nil => simp [collect, applyAcc, hd.1, hd.2]
  | cons x xs ih =>
    simp only [List.all_cons, Bool.and_eq_true] at ha
    simp only [List.cons_append, collect, applyAcc]
    by_cases h1 : x = '#'
    · simp only [h1, if_true]; exact ih ha.2 _
    · by_cases h2 : x = 'b'
      · simp only [h2, if_true]
        rw [if_neg (by decide)]; exact ih ha.2 _
      · have := ha.1; simp [isAcc, h1, h2] at this

theorem applyAcc_spec (up : Bool) (a : Str) (ha : a.all isAcc = true) (l : Char) (t : Str)
    (hv : valid (l :: t) = true) :
    valid (applyAcc up a (l :: t)) = true ∧ (applyAcc up a (l :: t)).head? = some l ∧
    pc (applyAcc up a (l :: t)) = (pc (l :: t) + (if up then accVal a else - accVal a)) % 12 := by
  induction a generalizing t with
  | nil =>
    have := pc_range (l :: t)
    refine ⟨hv, rfl, ?_⟩
    cases up <;> simp [applyAcc] <;> omega
  | cons x xs ih =>
    simp only [List.all_cons, Bool.and_eq_true] at ha
    have haug := C01.augment_spec l t hv
    have hdim := C01.diminish_spec l t hv
    have step : ∀ w : Str, valid w = true → w.head? = some l → ∃ t', w = l :: t' := by
      intro w _ hw
      cases w with
      | nil => simp at hw
      | cons c t' => simp at hw; exact ⟨t', by rw [hw]⟩
    simp only [applyAcc, accVal_cons, accOf]
    by_cases h1 : x = '#'
    · simp only [h1, if_true]
      cases up
      · obtain ⟨t', e⟩ := step _ hdim.1 hdim.2.1
        simp only [Bool.false_eq_true, if_false]
        rw [e]; have := ih ha.2 t' (e ▸ hdim.1)
        refine ⟨this.1, this.2.1, ?_⟩
        rw [this.2.2, ← e, hdim.2.2]; simp; omega
      · obtain ⟨t', e⟩ := step _ haug.1 haug.2.1
        simp only [if_true]
        rw [e]; have := ih ha.2 t' (e ▸ haug.1)
        refine ⟨this.1, this.2.1, ?_⟩
        rw [this.2.2, ← e, haug.2.2]; simp; omega
    · have h2 : x = 'b' := by
        have := ha.1; simp [isAcc, h1] at this; exact this
      simp only [h2, show ¬ ('b' = '#') by decide, if_false, if_true]
      cases up
      · obtain ⟨t', e⟩ := step _ haug.1 haug.2.1
        simp only [Bool.false_eq_true, if_false]
        rw [e]; have := ih ha.2 t' (e ▸ haug.1)
        refine ⟨this.1, this.2.1, ?_⟩
        rw [this.2.2, ← e, haug.2.2]; simp; omega
      · obtain ⟨t', e⟩ := step _ hdim.1 hdim.2.1
        simp only [if_true]
        rw [e]; have := ih ha.2 t' (e ▸ hdim.1)
        refine ⟨this.1, this.2.1, ?_⟩
        rw [this.2.2, ← e, hdim.2.2]; simp; omega

/-- per digit: (letters up, semitones up, letters "up" when going down, semitones when going down) -/
def digitRow : Char → Option (Nat × Int × Nat × Int)
  | '1' => some (0, 0, 0, 0) | '2' => some (1, 2, 6, 10) | '3' => some (2, 4, 5, 8) | '4' => some (3, 5, 4, 7)
  | '5' => some (4, 7, 3, 5) | '6' => some (5, 9, 2, 3) | '7' => some (6, 11, 1, 1) | _ => none

/-- the down column is the complement of the up column: letters add to 7, semitones to 12;
    the up column is the major/perfect size -/
theorem digitRow_complement : ∀ d ∈ digits, ∀ r, digitRow d = some r →
    (r.1 + r.2.2.1) % 7 = 0 ∧ (r.2.1 + r.2.2.2) % 12 = 0 ∧ r.2.1 = majorSize.getD r.1 0 ∧
    (r.1 : Int) = (d.toNat : Int) - 49 := by decide

/-- the base constructor selected by a digit -/
def base (d : Char) (up : Bool) (n : Str) : Option (Except Err Str) :=
  match shorthandLookup.find? (fun r => r.1 == d) with
  | none => none
  | some (_, u, dn) => ctorByName (if up then u else dn) n

theorem base_eq (n : Str) : ∀ d ∈ digits, ∀ up : Bool, ∀ r, digitRow d = some r →
    base d up n = some (if d = '1' then majorUnison n
                        else if up then ctor r.1 r.2.1 n else ctor r.2.2.1 r.2.2.2 n) := by
  intro d hd up r hr
  simp only [digits, List.mem_cons, List.mem_nil_iff, or_false] at hd
  rcases hd with e | e | e | e | e | e | e <;> subst e <;> cases up <;>
    (simp only [digitRow, Option.some.injEq] at hr; subst hr; rfl)

theorem letterUp_zero {l : Char} (h : isLetter l = true) : letterUp l 0 = l := by
  rcases letter_cases h with e | e | e | e | e | e | e <;> subst e <;> decide

/-- Main theorem: any valid note (any accidentals), any accidental string `a`, any degree digit:
    the result is on the right letter, exactly (major size + sharps − flats) semitones above (up) or below (down). -/
theorem fromShorthand_spec (l : Char) (t : Str) (hv : valid (l :: t) = true) (a : Str) (ha : a.all isAcc = true)
    (d : Char) (hd : d ∈ digits) (up : Bool) :
    ∃ r row, digitRow d = some row ∧ fromShorthand (l :: t) (a ++ [d]) up = .ok (.str r) ∧ valid r = true ∧
      r.head? = some (letterUp l (if up then row.1 else row.2.2.1)) ∧
      pc r = (pc (l :: t) + (if up then row.2.1 + accVal a else row.2.2.2 - accVal a)) % 12 := by
  have hl : isLetter l = true := by
    simp only [valid, Bool.and_eq_true] at hv; exact hv.1
  have hdne : d ≠ '#' ∧ d ≠ 'b' := by
    simp only [digits, List.mem_cons, List.mem_nil_iff, or_false] at hd
    rcases hd with e | e | e | e | e | e | e <;> subst e <;> decide
  obtain ⟨row, hrow⟩ : ∃ row, digitRow d = some row := by
    simp only [digits, List.mem_cons, List.mem_nil_iff, or_false] at hd
    rcases hd with e | e | e | e | e | e | e <;> subst e <;> exact ⟨_, rfl⟩
  have hb := base_eq (l :: t) d hd up row hrow
  -- the base constructor's result
  have hbase : ∃ r0 t0, base d up (l :: t) = some (.ok r0) ∧ valid r0 = true ∧
      r0 = letterUp l (if up then row.1 else row.2.2.1) :: t0 ∧
      pc r0 = (pc (l :: t) + (if up then row.2.1 else row.2.2.2)) % 12 := by
    have hp := pc_range (l :: t)
    by_cases h1 : d = '1'
    · subst h1
      simp only [digitRow, Option.some.injEq] at hrow; subst hrow
      refine ⟨l :: t, t, by rw [hb]; rfl, hv, ?_, ?_⟩
      · cases up <;> simp [letterUp_zero hl]
      · cases up <;> simp <;> omega
    · rw [if_neg h1] at hb
      have hranges : row.1 < 7 ∧ row.2.2.1 < 7 ∧ 0 ≤ row.2.1 ∧ row.2.1 < 12 ∧ 0 ≤ row.2.2.2 ∧ row.2.2.2 < 12 := by
        simp only [digits, List.mem_cons, List.mem_nil_iff, or_false] at hd
        rcases hd with e | e | e | e | e | e | e <;> subst e <;>
          (simp only [digitRow, Option.some.injEq] at hrow; subst hrow; decide)
      cases up
      · obtain ⟨r, h1, h2, h3, h4, _⟩ := C02.ctor_spec row.2.2.1 hranges.2.1 row.2.2.2 ⟨hranges.2.2.2.2.1, hranges.2.2.2.2.2⟩ l t hv
        cases r with
        | nil => simp at h3
        | cons c t0 =>
          simp at h3
          exact ⟨c :: t0, t0, by rw [hb]; simp [h1], h2, by simp [h3], by simpa using h4⟩
      · obtain ⟨r, h1, h2, h3, h4, _⟩ := C02.ctor_spec row.1 hranges.1 row.2.1 ⟨hranges.2.2.1, hranges.2.2.2.1⟩ l t hv
        cases r with
        | nil => simp at h3
        | cons c t0 =>
          simp at h3
          exact ⟨c :: t0, t0, by rw [hb]; simp [h1], h2, by simp [h3], by simpa using h4⟩
  obtain ⟨r0, t0, hb0, hv0, he0, hp0⟩ := hbase
  have hacc := applyAcc_spec up a ha (letterUp l (if up then row.1 else row.2.2.1)) t0 (he0 ▸ hv0)
  refine ⟨applyAcc up a r0, row, hrow, ?_, he0 ▸ hacc.1, he0 ▸ hacc.2.1, ?_⟩
  · have hlast : (a ++ [d]).getLast? = some d := by simp
    unfold base at hb0
    simp only [fromShorthand, hv, Bool.not_true, Bool.false_eq_true, if_false, hlast]
    cases hf : shorthandLookup.find? (fun r => r.1 == d) with
    | none => simp [hf] at hb0
    | some rr =>
      obtain ⟨x, u, dn⟩ := rr
      simp only [hf] at hb0
      simp only [hb0, collect_eq up a ha d hdne]
      rfl
  · rw [he0, hacc.2.2, ← he0, hp0]
    have hp := pc_range (l :: t)
    cases up <;> simp <;> omega

/-! ### Up then down returns the starting name (canonical names up to triple accidentals × 35 shorthands) -/
def updownOK (n sh : Str) : Bool :=
  match fromShorthand n sh true with
  | .ok (.str u) => (match fromShorthand u sh false with | .ok (.str r) => r == n | _ => false)
  | _ => false

theorem up_down_id : ∀ n ∈ canonNames 3, ∀ sh ∈ shorthands, updownOK n sh = true := by decide +kernel

/-- beyond the property's domain (names up to double accidentals) the identity stops: with four sharps and a
    doubly augmented fifth the > 6 normalisation re-spells on the way back (`A####` → `E######` → `Abbbbbbbb`) -/
theorem up_down_limit : updownOK (lit "A####") (lit "##5") = false := by decide +kernel

/-! ### invert -/
theorem invert_spec (l : List Str) : (invert l).1 = l.reverse ∧ (invert l).2 = l := by
  simp [invert]

/-- non-vacuity -/
example : shorthands.length = 35 ∧ (canonNames 2).length = 35 := by decide +kernel
example : determine (lit "C") (lit "C##") true = .ok (lit "##1") := by decide +kernel
example : (match fromShorthand (lit "Cb#b") (lit "bb7") false with | .ok (.str r) => r == lit "D" | _ => false) = true := by
  decide +kernel

end Mingus.Props.C03
