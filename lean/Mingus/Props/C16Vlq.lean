import Mingus.Model.Midi
/-
  C16/C17 — the variable-length quantity.  `toVarbyte` (the model of int_to_varbyte) equals the standard encoding for
  *every* natural number, the standard decoder inverts it, and below 2^28 it is at most four bytes.
-/
namespace Mingus.Props.C16
open Mingus Mingus.Midi

/-- continuation bytes (high bit set) for the digits above the last one, big endian -/
def encHi (m : Nat) : Bytes :=
  if m < 128 then [m + 128] else encHi (m / 128) ++ [m % 128 + 128]
termination_by m
decreasing_by omega

/-- the standard encoding (SMF 1.0): base-128 digits, big endian, high bit on all but the last -/
def stdEnc (n : Nat) : Bytes :=
  if n < 128 then [n] else encHi (n / 128) ++ [n % 128]

/-- the standard decoder: accumulate while the high bit is set -/
def stdDec (acc : Nat) : Bytes → Option (Nat × Bytes)
  | [] => none
  | b :: bs => if b ≥ 128 then stdDec (acc * 128 + (b - 128)) bs else some (acc * 128 + b, bs)

def digitsLE (n len : Nat) : Bytes := (List.range len).map fun i => (n >>> (i * 7)) % 128

theorem digitsLE_succ (n k : Nat) : digitsLE n (k + 1) = (n % 128) :: digitsLE (n / 128) k := by
  unfold digitsLE
  rw [List.range_succ_eq_map]
  simp only [List.map_cons, List.map_map, Nat.zero_mul, Nat.shiftRight_zero]
  congr 1
  apply List.map_congr_left
  intro i _
  simp only [Function.comp]
  have : (i + 1) * 7 = 7 + i * 7 := by omega
  rw [this, Nat.shiftRight_add, Nat.shiftRight_eq_div_pow n 7]

theorem vlqLen_small (n : Nat) (h : n < 128) : vlqLen n = 1 := by rw [vlqLen]; simp [h]
theorem vlqLen_big (n : Nat) (h : ¬ n < 128) : vlqLen n = vlqLen (n / 128) + 1 := by rw [vlqLen]; simp [h]

theorem hi_eq (m : Nat) : ((digitsLE m (vlqLen m)).reverse.map (· + 128)) = encHi m := by
  induction m using Nat.strongRecOn with
  | _ m ih =>
    rw [encHi]
    by_cases h : m < 128
    · rw [vlqLen_small m h, digitsLE_succ]
      simp [h, digitsLE]
    · rw [vlqLen_big m h, digitsLE_succ]
      simp only [h, if_false, List.reverse_cons, List.map_append, List.map_cons, List.map_nil]
      rw [ih (m / 128) (by omega)]

/-- the encoder equals the standard encoding — for every n, no bound -/
theorem toVarbyte_standard (n : Nat) : toVarbyte n = stdEnc n := by
  unfold toVarbyte stdEnc
  by_cases h : n < 128
  · simp only [vlqLen_small n h, h, if_true]
    have : n % 128 = n := Nat.mod_eq_of_lt h
    simp [List.range_succ_eq_map, this]
  · simp only [h, if_false]
    rw [vlqLen_big n h]
    show ((digitsLE n (vlqLen (n / 128) + 1)).reverse.dropLast.map (· + 128)) ++
      (digitsLE n (vlqLen (n / 128) + 1)).reverse.drop ((digitsLE n (vlqLen (n / 128) + 1)).reverse.length - 1) = _
    rw [digitsLE_succ]
    simp only [List.reverse_cons, List.dropLast_concat, List.length_append, List.length_reverse, List.length_cons,
      List.length_nil, Nat.zero_add, Nat.add_sub_cancel]
    rw [hi_eq]
    congr 1
    rw [List.drop_append_of_le_length (by simp)]
    simp

/-- value accumulated after reading the continuation bytes of `m` on top of `acc` -/
def shift (acc m : Nat) : Nat :=
  if m < 128 then acc * 128 + m else shift acc (m / 128) * 128 + m % 128
termination_by m
decreasing_by omega

theorem dec_encHi (m : Nat) : ∀ (acc : Nat) (tail : Bytes),
    stdDec acc (encHi m ++ tail) = stdDec (shift acc m) tail := by
  induction m using Nat.strongRecOn with
  | _ m ih =>
    intro acc tail
    rw [encHi, shift]
    by_cases h : m < 128
    · simp [h, stdDec]
    · simp only [h, if_false, List.append_assoc, List.cons_append, List.nil_append]
      rw [ih (m / 128) (by omega)]
      simp [stdDec]

theorem shift_zero (m : Nat) : shift 0 m = m := by
  induction m using Nat.strongRecOn with
  | _ m ih =>
    rw [shift]
    by_cases h : m < 128
    · simp [h]
    · simp only [h, if_false]; rw [ih (m / 128) (by omega)]; omega

/-- decoding the standard encoding returns the number and exactly the bytes that follow -/
theorem dec_enc (n : Nat) (tail : Bytes) : stdDec 0 (stdEnc n ++ tail) = some (n, tail) := by
  unfold stdEnc
  by_cases h : n < 128
  · simp [h, stdDec]; omega
  · simp only [h, if_false, List.append_assoc, List.cons_append, List.nil_append]
    rw [dec_encHi, shift_zero]
    have hlt : n % 128 < 128 := Nat.mod_lt _ (by omega)
    simp only [stdDec, ge_iff_le, Nat.not_le.mpr hlt, if_false]
    congr 2; omega

/-- the reader inverts the writer (C17's VLQ clause), for every n -/
theorem dec_toVarbyte (n : Nat) (tail : Bytes) : stdDec 0 (toVarbyte n ++ tail) = some (n, tail) := by
  rw [toVarbyte_standard]; exact dec_enc n tail

/-- below 2^28 the encoding has at most four bytes -/
theorem enc_len_le4 (n : Nat) (h : n < 2 ^ 28) : (toVarbyte n).length ≤ 4 := by
  rw [toVarbyte_standard]
  unfold stdEnc
  by_cases h1 : n < 128
  · simp [h1]
  · simp only [h1, if_false, List.length_append, List.length_cons, List.length_nil]
    rw [encHi]
    by_cases h2 : n / 128 < 128
    · simp [h2]
    · simp only [h2, if_false, List.length_append, List.length_cons, List.length_nil]
      rw [encHi]
      by_cases h3 : n / 128 / 128 < 128
      · simp [h3]
      · simp only [h3, if_false, List.length_append, List.length_cons, List.length_nil]
        rw [encHi]
        have h4 : n / 128 / 128 / 128 < 128 := by omega
        simp [h4]

theorem encHi_bytes (m : Nat) : ∀ b ∈ encHi m, 128 ≤ b ∧ b < 256 := by
  induction m using Nat.strongRecOn with
  | _ m ih =>
    rw [encHi]
    by_cases h : m < 128
    · simp [h]; omega
    · simp only [h, if_false, List.mem_append, List.mem_singleton]
      rintro b (hb | hb)
      · exact ih (m / 128) (by omega) b hb
      · omega

/-- every byte but the last has the continuation bit, the last does not; all are bytes -/
theorem enc_shape (n : Nat) : ∃ hi last, toVarbyte n = hi ++ [last] ∧ last < 128 ∧ ∀ b ∈ hi, 128 ≤ b ∧ b < 256 := by
  rw [toVarbyte_standard]
  unfold stdEnc
  by_cases h : n < 128
  · exact ⟨[], n, by simp [h], h, by simp⟩
  · exact ⟨encHi (n / 128), n % 128, by simp [h], Nat.mod_lt _ (by omega), encHi_bytes _⟩

theorem toVarbyte_ne_nil (n : Nat) : toVarbyte n ≠ [] := by
  obtain ⟨hi, last, e, _, _⟩ := enc_shape n
  rw [e]; simp

example : toVarbyte 0 = [0] ∧ toVarbyte 127 = [127] ∧ toVarbyte 128 = [129, 0] ∧ toVarbyte 16383 = [255, 127]
    ∧ toVarbyte 16384 = [129, 128, 0] ∧ toVarbyte (2 ^ 28 - 1) = [255, 255, 255, 127] := by decide +kernel

end Mingus.Props.C16
