import Mingus.Props.C16Meta
import Mingus.Model.MidiIn
import Mathlib.Tactic.Positivity
import Mathlib.Tactic.NormNum
/-
  C17 — writing a composition to MIDI and reading it back.

  Proved here, for every input: the variable-length reader inverts the writer; mingus's own byte parsers read every
  file the writer model produces back as exactly the events written (so the reader's second stage sees the
  specification's events); the tempo round trip for every bpm with bpm·(bpm+1) ≤ 60 000 000 (and a counterexample
  beyond); key, name, meter and instrument events decode to what was written; files with a bad header tag, header length,
  format number or track tag are rejected.  The second stage (delta times → bar entries, with float bar accounting) is
  tied by the correspondence; see `roundtrip_partial` in DESIGN.md.
-/
namespace Mingus.Props.C17
open Mingus Mingus.Midi Mingus.MidiIn Mingus.Props.C16

/-! ### variable-length reader -/

theorem stdDec_rest_lt (s : Bytes) : ∀ (acc v : Nat) (rest : Bytes), stdDec acc s = some (v, rest) → rest.length < s.length := by
  induction s with
  | nil => intro acc v rest h; simp [stdDec] at h
  | cons c cs ih =>
    intro acc v rest h
    simp only [stdDec] at h
    by_cases hc : c ≥ 128
    · simp only [hc, if_true] at h
      have := ih _ _ _ h
      simp only [List.length_cons]; omega
    · simp only [hc, if_false, Option.some.injEq, Prod.mk.injEq] at h
      rw [← h.2]; simp

theorem varbyte_eq_stdDec (s : Bytes) : ∀ (fuel acc cnt : Nat), s.length < fuel →
    (match stdDec acc s with
     | some (v, rest) => varbyte fuel acc cnt s = .ok (v, cnt + (s.length - rest.length), rest)
     | none => varbyte fuel acc cnt s = .error .other) := by
  induction s with
  | nil => intro fuel acc cnt _; cases fuel <;> simp [stdDec, varbyte]
  | cons b bs ih =>
    intro fuel acc cnt hf
    cases fuel with
    | zero => simp at hf
    | succ f =>
      simp only [stdDec, varbyte]
      by_cases hb : b ≥ 128
      · simp only [hb, if_true]
        have := ih f (acc * 128 + (b - 128)) (cnt + 1) (by simpa using hf)
        cases hd : stdDec (acc * 128 + (b - 128)) bs with
        | none => simp only [hd] at this ⊢; exact this
        | some p =>
          obtain ⟨v, rest⟩ := p
          simp only [hd] at this ⊢
          rw [this]
          have hl := stdDec_rest_lt bs _ _ _ hd
          simp only [List.length_cons]
          congr 2; congr 1; omega
      · simp only [hb, if_false, List.length_cons]
        congr 2; congr 1; omega

/-- **the variable-length reader inverts the variable-length writer, for every n** (C17), returning the number of
    bytes of the encoding and leaving the following bytes untouched -/
theorem varbyte_toVarbyte (n : Nat) (tail : Bytes) (fuel cnt : Nat) (hf : (toVarbyte n ++ tail).length < fuel) :
    varbyte fuel 0 cnt (toVarbyte n ++ tail) = .ok (n, cnt + (toVarbyte n).length, tail) := by
  have := varbyte_eq_stdDec (toVarbyte n ++ tail) fuel 0 cnt hf
  rw [dec_toVarbyte] at this
  simp only at this
  rw [this]
  simp

/-! ### tempo -/

/-- **the tempo read back equals the tempo written** whenever bpm·(bpm+1) ≤ 60 000 000 (every bpm up to 7745) -/
theorem tempo_roundtrip (b : Nat) (h1 : 1 ≤ b) (h2 : b * (b + 1) ≤ 60000000) : 60000000 / (60000000 / b) = b := by
  have hb : b + 1 ≤ 60000000 / b := (Nat.le_div_iff_mul_le (by omega)).2 (by rw [Nat.mul_comm]; exact h2)
  generalize hq : 60000000 / b = q at *
  have hq1 : q * b ≤ 60000000 := by rw [← hq]; exact Nat.div_mul_le_self _ _
  have hq2 : 60000000 < b * (q + 1) := by rw [← hq]; exact Nat.lt_mul_div_succ _ (by omega)
  apply Nat.div_eq_of_lt_le
  · rw [Nat.mul_comm]; exact hq1
  · rw [Nat.succ_mul]
    rw [Nat.mul_succ] at hq2
    rw [Nat.mul_comm] at hq1
    omega

/-- beyond that bound the file format (whole microseconds per quarter) cannot hold the tempo: 7999 comes back as 8000 -/
theorem tempo_counterexample : 60000000 / (60000000 / 7999) = 8000 := by decide

/-- the model's reader computes exactly that quotient from the three tempo bytes the writer produced -/
theorem tempo_event_roundtrip (bpm : Int) (hb : okBpm bpm) (hmax : bpm ≤ 60000000) (st : RState) :
    onEvent st (.metaE 81 (be 3 ((60000000 : Int) / bpm).toNat)) =
      .ok { st with bpm := (60000000 : Int) / (((60000000 : Int) / bpm).toNat : Int) } := by
  have hv := beVal_tempo bpm hb
  unfold okBpm at hb
  have h1 : 1 ≤ (60000000 : Int) / bpm := Int.le_ediv_of_mul_le (by omega) (by omega)
  have hne : be 3 ((60000000 : Int) / bpm).toNat ≠ [] := by simp [be, List.range_succ_eq_map]
  have hbi : bytesToInt (be 3 ((60000000 : Int) / bpm).toNat) = .ok ((60000000 : Int) / bpm).toNat := by
    unfold bytesToInt
    rw [if_neg hne]
    unfold beVal at hv
    rw [hv]
  have hnz : ((60000000 : Int) / bpm).toNat ≠ 0 := by omega
  simp only [onEvent, hbi, bind, Except.bind, hnz, if_false, pure, Except.pure]

/-! ### the byte parsers read back exactly the events written -/

def toPEv : Ev → PEv
  | .chan2 k c a b => .chan (if b = 0 then 8 else k) c a (some b)
  | .chan1 k c a => .chan k c a none
  | .metaE t d => .metaE t d

theorem parseEvent_bytes (e : Ev) (h : WfEv e) (tail : Bytes) :
    parseEvent (e.bytes ++ tail) = .ok (toPEv e, e.bytes.length, tail) := by
  cases e with
  | chan2 k c a b =>
    obtain ⟨h1, h2, h3, h4, h5, h6, h7⟩ := h
    have hk : (c + 16 * k) / 16 = k := by omega
    have hc : (c + 16 * k) % 16 = c := by omega
    have h8 : ¬ k < 8 := by omega
    have h15 : k ≠ 15 := by omega
    simp [Ev.bytes, parseEvent, hk, hc, h8, h15, h3, h4, toPEv, pure, Except.pure]
  | chan1 k c a =>
    obtain ⟨h1, h2, h3⟩ := h
    have hk : (c + 16 * k) / 16 = k := by omega
    have hc : (c + 16 * k) % 16 = c := by omega
    have h8 : ¬ k < 8 := by omega
    have h15 : k ≠ 15 := by omega
    simp [Ev.bytes, parseEvent, hk, hc, h8, h15, h1, toPEv, pure, Except.pure]
  | metaE t d =>
    simp only [Ev.bytes, List.cons_append, List.nil_append, List.append_assoc, parseEvent]
    have h1 : ¬ (255 / 16 < 8) := by decide
    have h2 : 255 / 16 = 15 := by decide
    simp only [h1, h2, if_false, if_true, bind, Except.bind]
    rw [varbyte_toVarbyte d.length (d ++ tail) _ 0 (by omega)]
    simp [toPEv, pure, Except.pure]
    omega

def conv (e : TEv) : Nat × PEv := (e.delta, toPEv e.ev)

/-- the `while chunk_size > 0` loop, started with the exact size of the serialised events, stops exactly at their end -/
theorem loop_serialise (evs : List TEv) (h : ∀ e ∈ evs, WfEv e.ev) (tail : Bytes) :
    ∀ f, evs.length < f →
      parseEventsLoop f ((serialise evs).length : Int) (serialise evs ++ tail) = .ok (evs.map conv, tail) := by
  induction evs with
  | nil => intro f hf; cases f with
    | zero => simp at hf
    | succ f => simp [serialise, parseEventsLoop]
  | cons e es ih =>
    intro f hf
    cases f with
    | zero => simp at hf
    | succ f =>
      have hs : serialise (e :: es) = toVarbyte e.delta ++ (e.ev.bytes ++ serialise es) := by
        simp [serialise, TEv.bytes]
      have hpos : ¬ (((serialise (e :: es)).length : Int) ≤ 0) := by
        have := toVarbyte_ne_nil e.delta
        rw [hs]
        cases hv : toVarbyte e.delta with
        | nil => exact absurd hv this
        | cons _ _ => simp; omega
      simp only [parseEventsLoop, hpos, if_false, bind, Except.bind]
      rw [hs, List.append_assoc, List.append_assoc]
      rw [varbyte_toVarbyte e.delta _ _ 0 (by omega)]
      simp only
      rw [parseEvent_bytes e.ev (h e (by simp))]
      simp only
      have hsize : ((toVarbyte e.delta ++ (e.ev.bytes ++ serialise es)).length : Int) - ((0 + (toVarbyte e.delta).length : Nat) : Int)
          - (e.ev.bytes.length : Int) = ((serialise es).length : Int) := by
        simp only [List.length_append]; push_cast; omega
      rw [hsize, ih (fun x hx => h x (by simp [hx])) f (by simpa using hf)]
      simp [conv, pure, Except.pure]

theorem parseTrack_chunk (t : MT) (h : WfTrack t) (tail : Bytes) :
    parseTrack (t.chunk ++ tail) = .ok ((t.evs ++ [eot]).map conv, tail) := by
  obtain ⟨hw, hl⟩ := h
  have z : toVarbyte 0 = [0] := by decide +kernel
  have hbody : serialise t.evs ++ [0, 255, 47, 0] = serialise (t.evs ++ [eot]) := by
    rw [serialise_append]; simp [serialise, eot, TEv.bytes, Ev.bytes, z]
  have hlen : (serialise (t.evs ++ [eot])).length = (serialise t.evs).length + 4 := by
    rw [← hbody]; simp
  have h4 : be 4 ((serialise t.evs).length + 4) =
      [((serialise t.evs).length + 4) / 256 ^ 3 % 256, ((serialise t.evs).length + 4) / 256 ^ 2 % 256,
       ((serialise t.evs).length + 4) / 256 ^ 1 % 256, ((serialise t.evs).length + 4) / 256 ^ 0 % 256] := by
    simp [be, List.range_succ_eq_map]
  have hval : beVal (be 4 ((serialise t.evs).length + 4)) = (serialise t.evs).length + 4 := beVal_be4 _ hl
  unfold MT.chunk parseTrack
  simp only [List.append_assoc, List.cons_append, List.nil_append]
  rw [h4] at hval ⊢
  simp only [List.cons_append, List.nil_append, MidiIn.read, List.take_succ_cons, List.take_zero, List.drop_succ_cons, List.drop_zero,
    ne_eq, not_true_eq_false, if_false, bind, Except.bind]
  have hbi : bytesToInt [((serialise t.evs).length + 4) / 256 ^ 3 % 256, ((serialise t.evs).length + 4) / 256 ^ 2 % 256,
       ((serialise t.evs).length + 4) / 256 ^ 1 % 256, ((serialise t.evs).length + 4) / 256 ^ 0 % 256] = .ok ((serialise t.evs).length + 4) := by
    unfold bytesToInt
    rw [if_neg (by simp)]
    unfold beVal at hval
    rw [hval]
  rw [hbi]
  simp only
  have e1 : serialise t.evs ++ (0 :: 255 :: 47 :: 0 :: tail) = serialise (t.evs ++ [eot]) ++ tail := by
    rw [← hbody]; simp
  rw [e1, ← hlen]
  have := loop_serialise (t.evs ++ [eot]) (by
    intro e he
    rcases List.mem_append.1 he with h1 | h1
    · exact (hw e h1).1
    · simp only [List.mem_singleton] at h1; subst h1; simp [eot, WfEv]) tail
    ((serialise (t.evs ++ [eot]) ++ tail).length + 1) (by
      have := serialise_length_ge (t.evs ++ [eot]); simp only [List.length_append] at *; omega)
  exact this

theorem parseTracks_chunks (ts : List MT) (h : ∀ t ∈ ts, WfTrack t) :
    parseTracks ts.length (ts.flatMap MT.chunk) = .ok (ts.map fun t => (t.evs ++ [eot]).map conv) := by
  induction ts with
  | nil => rfl
  | cons t ts ih =>
    simp only [List.length_cons, parseTracks, List.flatMap_cons, bind, Except.bind]
    rw [parseTrack_chunk t (h t (by simp))]
    simp only
    rw [ih (fun x hx => h x (by simp [hx]))]
    simp [pure, Except.pure]

/-- **mingus's own parsers read every written file back as exactly the events written** (plus the end-of-track
    marker), with format 1 and 72 ticks per quarter, for any number of tracks and events -/
theorem parseFile_fileBytes (ts : List MT) (h : ∀ t ∈ ts, WfTrack t) (hn : ts.length < 2 ^ 16) :
    parseFile (fileBytes ts) = .ok ((1, ts.length, 72), ts.map fun t => (t.evs ++ [eot]).map conv) := by
  have h2 : be 2 ts.length = [ts.length / 256 ^ 1 % 256, ts.length / 256 ^ 0 % 256] := by
    simp [be, List.range_succ_eq_map]
  have hval := beVal_be2 ts.length hn
  unfold fileBytes parseFile parseHeader
  rw [h2] at hval ⊢
  have hbi : bytesToInt [ts.length / 256 ^ 1 % 256, ts.length / 256 ^ 0 % 256] = .ok ts.length := by
    unfold bytesToInt
    rw [if_neg (by simp)]
    unfold beVal at hval
    rw [hval]
  simp only [List.cons_append, List.nil_append, MidiIn.read, List.take_succ_cons, List.take_zero, List.drop_succ_cons, List.drop_zero,
    ne_eq, not_true_eq_false, if_false, bind, Except.bind]
  have b6 : bytesToInt [0, 0, 0, 6] = .ok 6 := by decide
  have b1 : bytesToInt [0, 1] = .ok 1 := by decide
  have b72 : bytesToInt [0, 72] = .ok 72 := by decide
  simp only [b6, b1, b72, hbi, io, pure, Except.pure]
  simp only [Nat.lt_irrefl, if_false, show ¬ (1 > 2) by decide, show ¬ (72 ≥ 32768) by decide,
    show ¬ ((6 - 6) % 2 = 1) by decide, show (6 - 6) / 2 = 0 by decide, List.drop_zero]
  rw [parseTracks_chunks ts h]

/-! ### what is not MIDI is rejected -/

theorem reject_bad_header_tag (s : Bytes) (h : s.take 4 ≠ [77, 84, 104, 100]) : ∃ e, readBytes s = .error e := by
  refine ⟨.other, ?_⟩
  simp [readBytes, parseFile, parseHeader, MidiIn.read, h, bind, Except.bind]

theorem reject_short_header (rest : Bytes) (a b c d : Nat) (h : bytesToInt [a, b, c, d] = .ok n) (hn : n < 6) :
    ∃ e, readBytes ([77, 84, 104, 100, a, b, c, d] ++ rest) = .error e := by
  refine ⟨.type, ?_⟩
  simp [readBytes, parseFile, parseHeader, MidiIn.read, h, hn, io, bind, Except.bind, pure, Except.pure]

theorem reject_impossible_format (rest : Bytes) (f1 f2 : Nat) (h : f1 * 256 + f2 > 2) :
    ∃ e, readBytes ([77, 84, 104, 100, 0, 0, 0, 6, f1, f2] ++ rest) = .error e := by
  refine ⟨.other, ?_⟩
  have b6 : bytesToInt [0, 0, 0, 6] = .ok 6 := by decide
  have bf : bytesToInt [f1, f2] = .ok (f1 * 256 + f2) := by simp [bytesToInt]
  simp [readBytes, parseFile, parseHeader, MidiIn.read, b6, bf, h, io, bind, Except.bind, pure, Except.pure]

theorem reject_bad_track_tag (s : Bytes) (h : s.take 4 ≠ [77, 84, 114, 107]) : parseTrack s = .error .header := by
  simp [parseTrack, MidiIn.read, h]

/-- a header that announces at least one track followed by something that is not a track chunk -/
theorem reject_bad_first_track (n1 n2 d1 d2 : Nat) (rest : Bytes) (f : Nat) (hf : f ≤ 2) (hn : n1 * 256 + n2 ≥ 1)
    (hd : d1 * 256 + d2 < 32768) (h : rest.take 4 ≠ [77, 84, 114, 107]) :
    ∃ e, readBytes ([77, 84, 104, 100, 0, 0, 0, 6, 0, f, n1, n2, d1, d2] ++ rest) = .error e := by
  refine ⟨.header, ?_⟩
  have b6 : bytesToInt [0, 0, 0, 6] = .ok 6 := by decide
  have bf : bytesToInt [0, f] = .ok f := by simp [bytesToInt]
  have bn : bytesToInt [n1, n2] = .ok (n1 * 256 + n2) := by simp [bytesToInt]
  have bd : bytesToInt [d1, d2] = .ok (d1 * 256 + d2) := by simp [bytesToInt]
  have hf' : ¬ f > 2 := by omega
  have hd' : ¬ d1 * 256 + d2 ≥ 32768 := by omega
  obtain ⟨k, hk⟩ : ∃ k, n1 * 256 + n2 = k + 1 := ⟨n1 * 256 + n2 - 1, by omega⟩
  simp [readBytes, parseFile, parseHeader, MidiIn.read, b6, bf, bn, bd, hf', hd', io, bind, Except.bind, pure, Except.pure, hk,
    parseTracks, reject_bad_track_tag rest h]

/-! ### key, name, meter, instrument events decode to what was written -/

/-- every one of the 30 keys: the key-signature event the writer produces sets exactly that key on the bar (whole table) -/
theorem key_roundtrip : ∀ k ∈ Keys.allKeys,
    (match keyEv? k with
     | some (.metaE 89 d) => (onEvent { bpm := 120 } (.metaE 89 d)).toOption.map (fun st => (st.key, st.b.key))
     | _ => none) = some (k, k) := by
  decide +kernel

theorem name_roundtrip (name : Str) (h : ∀ c ∈ name, c.toNat < 128) (st : RState) :
    onEvent st (.metaE 3 (MT.asciiBytes name)) = .ok { st with t := { st.t with name := name } } := by
  have h1 : (MT.asciiBytes name).any (· ≥ 128) = false := by
    simp only [MT.asciiBytes, List.any_map, List.any_eq_false, Function.comp]
    intro c hc; simpa using h c hc
  have h2 : (MT.asciiBytes name).map Char.ofNat = name := by
    simp only [MT.asciiBytes, List.map_map]
    conv => rhs; rw [← List.map_id name]
    apply List.map_congr_left
    intro c _
    simp [Function.comp, Char.ofNat_toNat]
  simp only [onEvent, h1, Bool.false_eq_true, if_false, h2, pure, Except.pure]

theorem instrument_roundtrip (st : RState) (ch nr : Nat) :
    onEvent st (toPEv (.chan1 12 ch nr)) = .ok { st with t := { st.t with instr := some nr } } := by
  simp [toPEv, onEvent, pure, Except.pure]

/-- the meter a bar was written with (unit a power of two) is the meter set from its time-signature event -/
theorem meter_roundtrip (st : RState) (count k : Nat) :
    (onEvent st (.metaE 88 [count, MT.ilog2 (2 ^ k), 24, 8])).toOption.map (fun s => s.meter) = some ((count : Int), (2 : Rat) ^ k) := by
  have hl : MT.ilog2 (2 ^ k) = k := by unfold MT.ilog2; exact Nat.log2_two_pow
  have hp : Containers.Bar.isPow2Rat ((2 : Rat) ^ k) = true := by
    have hnum : ((2 : Rat) ^ k).num = (2 : Int) ^ k := by
      have : ((2 : Rat) ^ k) = (((2 ^ k : Nat) : Int) : Rat) := by push_cast; rfl
      rw [this]; simp
    have hden : ((2 : Rat) ^ k).den = 1 := by
      have : ((2 : Rat) ^ k) = (((2 ^ k : Nat) : Int) : Rat) := by push_cast; rfl
      rw [this]; simp
    unfold Containers.Bar.isPow2Rat
    simp only [hden, hnum, beq_self_eq_true, Bool.true_and, Bool.and_eq_true, decide_eq_true_eq]
    refine ⟨by positivity, ?_⟩
    have : ((2 : Int) ^ k).toNat = 2 ^ k := by
      have h2 : ((2 : Int) ^ k) = ((2 ^ k : Nat) : Int) := by push_cast; rfl
      rw [h2]; exact Int.toNat_natCast _
    simp [this, Nat.log2_two_pow]
  simp [onEvent, hl, Containers.Bar.setMeter, hp, bind, Except.bind, pure, Except.pure, Except.toOption]

end Mingus.Props.C17
