import Mingus.Props.C16Track
/-
  C16 — MIDI output is well-formed SMF that denotes exactly the music written.

  The property theorems.  Everything here is about the pure specification (`specTrack`, `specBar`, `specLone`), which
  C16Track proves is what the pending-delta machine (the model of MidiTrack) writes, for every composition, every repeat
  count and every tempo ≥ 4, and C16Smf proves is read back event for event by the independent reader.
-/
namespace Mingus.Props.C16
open Mingus Mingus.Midi Mingus.Containers

/-! ### every event written is well formed -/

def Good (e : TEv) : Prop := WfEv e.ev ∧ ∀ d, e.ev ≠ .metaE 47 d

theorem good_on (n : Note) (d : Nat) (h : okNote n) : Good ⟨d, onEv n⟩ := by
  obtain ⟨a, b, c, e, _, f, g⟩ := h
  refine ⟨?_, by intro d; simp [onEv]⟩
  simp only [onEv, WfEv]; omega
theorem good_off (n : Note) (d : Nat) (h : okNote n) : Good ⟨d, offEv n⟩ := by
  obtain ⟨a, b, c, e, _, f, g⟩ := h
  refine ⟨?_, by intro d; simp [offEv]⟩
  simp only [offEv, WfEv]; omega
theorem good_bank (n : Note) (d : Nat) (h : okNote n) : Good ⟨d, bankEv n⟩ := by
  obtain ⟨a, b, _⟩ := h
  refine ⟨?_, by intro d; simp [bankEv]⟩
  simp only [bankEv, WfEv]; omega
theorem good_prog (n : Note) (d : Nat) (i : Int) (h : okNote n) (hi : 0 ≤ i ∧ i ≤ 127) : Good ⟨d, progEv n i⟩ := by
  obtain ⟨a, b, _⟩ := h
  refine ⟨?_, by intro d; simp [progEv]⟩
  simp only [progEv, WfEv]
  exact ⟨Or.inl trivial, by omega, by omega⟩

theorem good_specEntry (s : S) (e : MEntry) (hi : okInstr s) (he : okEntry e) : ∀ x ∈ (specEntry s e).1, Good x := by
  unfold specEntry
  cases hn : e.notes with
  | nil => simp
  | cons n rest =>
    have hok : ∀ m ∈ n :: rest, okNote m := by rw [← hn]; exact he.2.1
    have hn0 := hok n (by simp)
    intro x hx
    simp only [List.mem_append, List.mem_cons, List.mem_map] at hx
    rcases hx with (hx | hx | ⟨m, hm, rfl⟩) | hx | ⟨m, hm, rfl⟩
    · cases hci : s.ci with
      | false => simp [hci] at hx
      | true =>
        simp only [hci, if_true, List.mem_cons, List.mem_nil_iff, or_false] at hx
        rcases hx with rfl | rfl
        · exact good_bank n _ hn0
        · exact good_prog n _ _ hn0 (hi hci)
    · subst hx; exact good_on n _ hn0
    · exact good_on m _ (hok m (by simp [hm]))
    · subst hx; exact good_off n _ hn0
    · exact good_off m _ (hok m (by simp [hm]))

theorem good_specEntries (es : List MEntry) : ∀ (s : S), okInstr s → (∀ e ∈ es, okEntry e) →
    ∀ x ∈ (specEntries s es).1, Good x := by
  induction es with
  | nil => intro s _ _ x hx; simp [specEntries] at hx
  | cons e es ih =>
    intro s hi he x hx
    simp only [specEntries, List.mem_append] at hx
    rcases hx with hx | hx
    · exact good_specEntry s e hi (he e (by simp)) x hx
    · exact ih _ (okInstr_specEntry s e hi) (fun y hy => he y (by simp [hy])) x hx

theorem okInstr_specEntries (es : List MEntry) : ∀ (s : S), okInstr s → okInstr (specEntries s es).2 := by
  induction es with
  | nil => intro s h; exact h
  | cons e es ih => intro s h; exact ih _ (okInstr_specEntry s e h)

theorem good_specBar (s : S) (b : MBar) (hi : okInstr s) (hb : okBar b) : ∀ x ∈ (specBar s b).1, Good x := by
  obtain ⟨_, _, _, hk, he⟩ := hb
  intro x hx
  simp only [specBar, List.mem_append, List.mem_cons, List.mem_nil_iff, or_false] at hx
  rcases hx with (rfl | rfl) | hx
  · exact ⟨by simp [meterEv, WfEv], by intro d; simp [meterEv]⟩
  · unfold keyEv keyEv? at *
    cases hidx : MT.idxOf? (if MT.isLower b.key then Keys.minorKeys else Keys.majorKeys) b.key with
    | none => simp [hidx] at hk
    | some i => exact ⟨by simp [WfEv], by intro d; simp⟩
  · exact good_specEntries b.entries { s with delay := 0 } hi he x hx

theorem okInstr_specBar (s : S) (b : MBar) (hi : okInstr s) : okInstr (specBar s b).2 :=
  okInstr_specEntries b.entries _ hi

theorem good_specBars (bs : List MBar) : ∀ (s : S), okInstr s → (∀ b ∈ bs, okBar b) →
    (∀ x ∈ (specBars s bs).1, Good x) ∧ okInstr (specBars s bs).2 := by
  induction bs with
  | nil => intro s hi _; exact ⟨by simp [specBars], hi⟩
  | cons b bs ih =>
    intro s hi hb
    obtain ⟨g, i⟩ := ih _ (okInstr_specBar s b hi) (fun y hy => hb y (by simp [hy]))
    refine ⟨?_, i⟩
    intro x hx
    simp only [specBars, List.mem_append] at hx
    rcases hx with hx | hx
    · exact good_specBar s b hi (hb b (by simp)) x hx
    · exact g x hx

theorem good_specTrack (s : S) (tr : MTrack) (hi : okInstr s) (ht : okTrack tr) :
    (∀ x ∈ (specTrack s tr).1, Good x) ∧ okInstr (specTrack s tr).2 := by
  have hi' : okInstr (withInstr s tr) := by
    unfold withInstr
    cases hti : tr.instr with
    | none => exact hi
    | some nr => intro _; exact ht.2 nr hti
  obtain ⟨g, i⟩ := good_specBars tr.bars _ hi' ht.1
  refine ⟨?_, i⟩
  intro x hx
  simp only [specTrack, List.mem_cons] at hx
  rcases hx with rfl | hx
  · exact ⟨by simp [WfEv], by intro d; simp⟩
  · exact g x hx

theorem good_passes (f : S → List TEv × S)
    (step : ∀ s, okInstr s → (∀ x ∈ (f s).1, Good x) ∧ okInstr (f s).2) :
    ∀ (k : Nat) (s : S), okInstr s → ∀ x ∈ (specPasses f k s).1, Good x := by
  intro k
  induction k with
  | zero => intro s _ x hx; simp [specPasses] at hx
  | succ k ih =>
    intro s hi x hx
    simp only [specPasses, List.mem_append] at hx
    rcases hx with hx | hx
    · exact (step s hi).1 x hx
    · exact ih _ (step s hi).2 x hx

theorem good_tempo (bpm : Int) : Good (tempoEv bpm) := ⟨by simp [tempoEv, WfEv], by intro d; simp [tempoEv]⟩

/-- **C16, framing and well-formedness.**  For every composition of in-range notes, every repeat count and every
    tempo ≥ 4 (and chunks short enough for a 32-bit length, fewer than 2^16 tracks), `write_Composition` succeeds and
    the independent reader accepts the bytes: format 1, 72 ticks per quarter, as many tracks as chunks, every chunk length
    exact and closed by end-of-track, every delta a valid variable-length quantity, every event well formed — and the
    events it reads are exactly the specification's events for each track. -/
theorem composition_parses (trs : List MTrack) (bpm rep : Int) (ht : ∀ tr ∈ trs, okTrack tr) (hb : okBpm bpm)
    (hsize : ∀ tr ∈ trs, (serialise (tempoEv bpm :: (specPasses (fun s => specTrack s tr) (times rep) s0).1)).length + 4 < 2 ^ 32)
    (hn : trs.length < 2 ^ 16) :
    ∃ bytes, writeComposition trs bpm rep = .ok bytes ∧
      parseSmf bytes = some ⟨1, trs.length, 72,
        trs.map (fun tr => tempoEv bpm :: (specPasses (fun s => specTrack s tr) (times rep) s0).1)⟩ := by
  obtain ⟨ts, h1, h2⟩ := writeComposition_spec trs bpm rep ht hb
  have hlen : ts.length = trs.length := by
    have := congrArg List.length h2; simpa using this
  have hwf : ∀ t ∈ ts, WfTrack t := by
    intro t htm
    obtain ⟨i, hi, rfl⟩ := List.getElem_of_mem htm
    have hi' : i < trs.length := hlen ▸ hi
    have he : (ts[i]).evs = tempoEv bpm :: (specPasses (fun s => specTrack s trs[i]) (times rep) s0).1 := by
      have := congrArg (fun l => l[i]?) h2
      simpa [hi, hi'] using this
    have htr := ht trs[i] (List.getElem_mem hi')
    refine ⟨?_, ?_⟩
    · intro e hem
      rw [he] at hem
      rcases List.mem_cons.1 hem with rfl | hem
      · exact good_tempo bpm
      · exact good_passes _ (fun s hs => good_specTrack s trs[i] hs htr) _ s0 okInstr_s0 e hem
    · rw [he]; exact hsize trs[i] (List.getElem_mem hi')
  refine ⟨_, h1, ?_⟩
  rw [file_parses ts hwf (hlen ▸ hn), h2, hlen]

/-! ### what the events denote: absolute times -/

def absT (start : Nat) : List TEv → List (Nat × Ev)
  | [] => []
  | e :: es => (start + e.delta, e.ev) :: absT (start + e.delta) es

def total (l : List TEv) : Nat := (l.map (·.delta)).sum

def isNote : Ev → Bool
  | .chan2 k _ _ _ => k = 8 || k = 9
  | _ => false

/-- the note-on / note-off events with their absolute ticks, in stream order -/
def notesAt (start : Nat) (l : List TEv) : List (Nat × Ev) := (absT start l).filter (fun p => isNote p.2)

theorem total_nil : total [] = 0 := rfl
theorem total_cons (e : TEv) (es : List TEv) : total (e :: es) = e.delta + total es := by simp [total]
theorem total_append (a b : List TEv) : total (a ++ b) = total a + total b := by simp [total]

theorem absT_append (a b : List TEv) : ∀ start, absT start (a ++ b) = absT start a ++ absT (start + total a) b := by
  induction a with
  | nil => intro start; simp [absT, total_nil]
  | cons e es ih =>
    intro start
    simp only [List.cons_append, absT, ih, total_cons, Nat.add_assoc]

theorem notesAt_nil (T : Nat) : notesAt T [] = [] := rfl
theorem notesAt_cons_note (T : Nat) (e : TEv) (es : List TEv) (h : isNote e.ev = true) :
    notesAt T (e :: es) = (T + e.delta, e.ev) :: notesAt (T + e.delta) es := by simp [notesAt, absT, h]
theorem notesAt_cons_other (T : Nat) (e : TEv) (es : List TEv) (h : isNote e.ev = false) :
    notesAt T (e :: es) = notesAt (T + e.delta) es := by simp [notesAt, absT, h]
theorem notesAt_append (a b : List TEv) (start : Nat) :
    notesAt start (a ++ b) = notesAt start a ++ notesAt (start + total a) b := by
  simp [notesAt, absT_append]

theorem isNote_on (n : Note) : isNote (onEv n) = true := by simp [isNote, onEv]
theorem isNote_off (n : Note) : isNote (offEv n) = true := by simp [isNote, offEv]
theorem isNote_bank (n : Note) : isNote (bankEv n) = false := by simp [isNote, bankEv]
theorem isNote_prog (n : Note) (i : Int) : isNote (progEv n i) = false := by simp [isNote, progEv]

theorem notesAt_zero (f : Note → Ev) (hf : ∀ m, isNote (f m) = true) (ns : List Note) (T : Nat) :
    notesAt T (ns.map fun m => ⟨0, f m⟩) = ns.map fun m => (T, f m) := by
  induction ns with
  | nil => rfl
  | cons n ns ih => rw [List.map_cons, notesAt_cons_note _ _ _ (hf n)]; simp [ih]

theorem total_zero (f : Note → Ev) (ns : List Note) : total (ns.map fun m => (⟨0, f m⟩ : TEv)) = 0 := by
  induction ns with
  | nil => rfl
  | cons n ns ih => rw [List.map_cons, total_cons, ih]

/-- the music laid end to end: each entry's notes start at `now` and stop `tickOf value` later; rests only advance -/
def layEntries (now : Nat) : List MEntry → List (Nat × Ev) × Nat
  | [] => ([], now)
  | e :: es =>
    (e.notes.map (fun m => (now, onEv m)) ++ e.notes.map (fun m => (now + tickOf e.value, offEv m)) ++
      (layEntries (now + tickOf e.value) es).1, (layEntries (now + tickOf e.value) es).2)

/-- one entry: note-ons at `T + delay`, note-offs one tick length later, and the clock (`total + delay`) advances by
    exactly the tick length — whether or not an instrument change is pending -/
theorem entry_denotes (s : S) (e : MEntry) (T : Nat) :
    notesAt T (specEntry s e).1 = (layEntries (T + s.delay) [e]).1 ∧
    T + total (specEntry s e).1 + (specEntry s e).2.delay = T + s.delay + tickOf e.value := by
  unfold specEntry
  cases hn : e.notes with
  | nil => simp [notesAt_nil, layEntries, hn, total_nil]; omega
  | cons n rest =>
    cases hci : s.ci with
    | false =>
      simp only [Bool.false_eq_true, if_false, List.nil_append, layEntries, hn, List.map_cons, List.append_nil]
      refine ⟨?_, ?_⟩
      · simp only [List.cons_append, List.nil_append]
        rw [notesAt_cons_note _ _ _ (isNote_on n), notesAt_append,
          notesAt_zero onEv isNote_on, notesAt_cons_note _ _ _ (isNote_off n), notesAt_zero offEv isNote_off,
          total_zero]
        simp
      · simp only [List.cons_append, List.nil_append]
        rw [total_cons, total_append, total_zero, total_cons, total_zero]
        simp; omega
    | true =>
      simp only [if_true, layEntries, hn, List.map_cons, List.append_nil]
      refine ⟨?_, ?_⟩
      · simp only [List.cons_append, List.nil_append]
        rw [notesAt_cons_other _ _ _ (isNote_bank n), notesAt_cons_other _ _ _ (isNote_prog n _),
          notesAt_cons_note _ _ _ (isNote_on n), notesAt_append,
          notesAt_zero onEv isNote_on, notesAt_cons_note _ _ _ (isNote_off n), notesAt_zero offEv isNote_off,
          total_zero]
        simp
      · simp only [List.cons_append, List.nil_append]
        rw [total_cons, total_cons, total_cons, total_append, total_zero, total_cons, total_zero]
        simp; omega

theorem layEntries_append (a b : List MEntry) : ∀ now,
    layEntries now (a ++ b) = ((layEntries now a).1 ++ (layEntries (layEntries now a).2 b).1, (layEntries (layEntries now a).2 b).2) := by
  induction a with
  | nil => intro now; simp [layEntries]
  | cons e es ih => intro now; simp [layEntries, ih, List.append_assoc]

/-- **entries laid end to end** -/
theorem entries_denote (es : List MEntry) : ∀ (s : S) (T : Nat),
    notesAt T (specEntries s es).1 = (layEntries (T + s.delay) es).1 ∧
    T + total (specEntries s es).1 + (specEntries s es).2.delay = (layEntries (T + s.delay) es).2 := by
  induction es with
  | nil => intro s T; simp [specEntries, notesAt_nil, layEntries, total_nil]
  | cons e es ih =>
    intro s T
    obtain ⟨h1, h2⟩ := entry_denotes s e T
    obtain ⟨h3, h4⟩ := ih (specEntry s e).2 (T + total (specEntry s e).1)
    simp only [specEntries, notesAt_append, total_append]
    have e1 : layEntries (T + s.delay) (e :: es) = layEntries (T + s.delay) ([e] ++ es) := rfl
    rw [e1, layEntries_append]
    have hnow : (layEntries (T + s.delay) [e]).2 = T + s.delay + tickOf e.value := by simp [layEntries]
    rw [h2] at h3 h4
    refine ⟨?_, ?_⟩
    · rw [h1, h3, hnow]
    · rw [hnow, ← h4]; omega

def layBars (now : Nat) : List MBar → List (Nat × Ev) × Nat
  | [] => ([], now)
  | b :: bs => ((layEntries now b.entries).1 ++ (layBars (layEntries now b.entries).2 bs).1,
                (layBars (layEntries now b.entries).2 bs).2)

theorem bar_denotes (s : S) (b : MBar) (T : Nat) (hk : (keyEv? b.key).isSome = true) :
    notesAt T (specBar s b).1 = (layEntries (T + s.delay) b.entries).1 ∧
    T + total (specBar s b).1 + (specBar s b).2.delay = (layEntries (T + s.delay) b.entries).2 := by
  obtain ⟨h1, h2⟩ := entries_denote b.entries { s with delay := 0 } (T + s.delay)
  have hkey : isNote (keyEv b.key) = false := by
    unfold keyEv keyEv? at *
    cases hidx : MT.idxOf? (if MT.isLower b.key then Keys.minorKeys else Keys.majorKeys) b.key with
    | none => simp [hidx] at hk
    | some i => simp [isNote]
  simp only [Nat.add_zero] at h1 h2
  refine ⟨?_, ?_⟩
  · simp only [specBar, List.cons_append, List.nil_append]
    rw [notesAt_cons_other _ _ _ (by simp [meterEv, isNote]), notesAt_cons_other _ _ _ hkey]
    simpa using h1
  · simp only [specBar, List.cons_append, List.nil_append, total_cons] at h2 ⊢
    omega

theorem bars_denote (bs : List MBar) (hk : ∀ b ∈ bs, (keyEv? b.key).isSome = true) : ∀ (s : S) (T : Nat),
    notesAt T (specBars s bs).1 = (layBars (T + s.delay) bs).1 ∧
    T + total (specBars s bs).1 + (specBars s bs).2.delay = (layBars (T + s.delay) bs).2 := by
  induction bs with
  | nil => intro s T; simp [specBars, notesAt_nil, layBars, total_nil]
  | cons b bs ih =>
    intro s T
    obtain ⟨h1, h2⟩ := bar_denotes s b T (hk b (by simp))
    obtain ⟨h3, h4⟩ := ih (fun x hx => hk x (by simp [hx])) (specBar s b).2 (T + total (specBar s b).1)
    rw [h2] at h3 h4
    simp only [specBars, notesAt_append, total_append, layBars]
    refine ⟨by rw [h1, h3], by rw [← h4]; omega⟩

/-- a track: the name and the instrument selection take no time -/
theorem track_denotes (s : S) (tr : MTrack) (T : Nat) (hk : ∀ b ∈ tr.bars, (keyEv? b.key).isSome = true) :
    notesAt T (specTrack s tr).1 = (layBars (T + s.delay) tr.bars).1 ∧
    T + total (specTrack s tr).1 + (specTrack s tr).2.delay = (layBars (T + s.delay) tr.bars).2 := by
  have hd : (withInstr s tr).delay = s.delay := by unfold withInstr; cases tr.instr <;> rfl
  obtain ⟨h1, h2⟩ := bars_denote tr.bars hk (withInstr s tr) T
  rw [hd] at h1 h2
  refine ⟨?_, ?_⟩
  · simp only [specTrack]
    rw [notesAt_cons_other _ _ _ (by simp [isNote])]
    simpa using h1
  · simp only [specTrack, total_cons] at h2 ⊢
    omega

/-- `k` passes of the same bars, end to end -/
def layPasses (bars : List MBar) : Nat → Nat → List (Nat × Ev) × Nat
  | 0, now => ([], now)
  | k + 1, now => ((layBars now bars).1 ++ (layPasses bars k (layBars now bars).2).1, (layPasses bars k (layBars now bars).2).2)

theorem passes_denote (tr : MTrack) (hk : ∀ b ∈ tr.bars, (keyEv? b.key).isSome = true) : ∀ (k : Nat) (s : S) (T : Nat),
    notesAt T (specPasses (fun s => specTrack s tr) k s).1 = (layPasses tr.bars k (T + s.delay)).1 := by
  intro k
  induction k with
  | zero => intro s T; simp [specPasses, notesAt_nil, layPasses]
  | succ k ih =>
    intro s T
    obtain ⟨h1, h2⟩ := track_denotes s tr T hk
    have h3 := ih (specTrack s tr).2 (T + total (specTrack s tr).1)
    rw [h2] at h3
    simp only [specPasses, notesAt_append, layPasses]
    rw [h1, h3]

/-- **C16, denotation.**  In the track that `write_Track` / `write_Composition` writes (tempo event, then
    `repeat + 1` passes), the note-on and note-off events, with their absolute ticks, are exactly the music laid end to
    end from tick 0: one note-on per written note at the tick where its entry starts, one note-off with the same
    channel, pitch + 12 and velocity at the entry's end, rests advancing time only — for every track, every repeat
    count, with or without a MIDI instrument, wherever the rests are. -/
theorem track_file_denotes (tr : MTrack) (bpm rep : Int) (ht : okTrack tr) :
    notesAt 0 (tempoEv bpm :: (specPasses (fun s => specTrack s tr) (times rep) s0).1) =
      (layPasses tr.bars (times rep) 0).1 := by
  have hk : ∀ b ∈ tr.bars, (keyEv? b.key).isSome = true := fun b hb => (ht.1 b hb).2.2.2.1
  have := passes_denote tr hk (times rep) s0 0
  rw [notesAt_cons_other _ _ _ (by simp [tempoEv, isNote])]
  simpa [s0, tempoEv] using this

/-- entries so short that they last one tick or none: `round(288/value)` in doubles with Python's half-to-even rule
    (288/576 is exactly one half and rounds to 0); such an entry's note-on and note-off fall on the same tick -/
example : tickOf 400 = 1 ∧ tickOf 575 = 1 ∧ tickOf 576 = 0 ∧ tickOf 577 = 0 ∧ tickOf 1024 = 0 ∧ tickOf 192 = 2 := by
  decide +kernel

end Mingus.Props.C16
