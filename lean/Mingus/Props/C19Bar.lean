import Mingus.Props.C19Entry
import Mingus.Props.C10
/-
  C19 — a whole LilyPond bar reads back.

  `readBody` is an independent reader of what `from_Bar` writes between the braces: entries separated by blanks (a chord
  `<a b c>4` is one token although it contains blanks), `\times n/a {` opening a tuplet block, `}` closing it.
  `readBody_lyEntries`: for a bar of ANY number of entries, each a rest, a note or a chord of any size with any accidentals
  and octaves, each with a value of the vocabulary (longa … 128th with 0–2 dots, or a triplet / quintuplet / septuplet of
  1 … 128), in any order (so with any pattern of tuplet blocks opening, continuing and closing), the text written reads
  back as exactly the list of entries: the pitches, the base value and dots, and the tuplet ratio in force.
  `lyBar_reads` wraps it in the bar's braces.
-/
namespace Mingus.Props.C19
open Mingus Mingus.Export Mingus.Containers

/-! ### tokens: blanks separate, except inside `<…>` -/

def chordStep (inCh : Bool) (c : Char) : Bool := if c = '<' then true else if c = '>' then false else inCh

/-- the text up to the first blank outside a chord, and what follows that blank -/
def nextTok : Str → Bool → Str × Str
  | [], _ => ([], [])
  | c :: cs, inCh =>
    if c = ' ' ∧ inCh = false then ([], cs)
    else (c :: (nextTok cs (chordStep inCh c)).1, (nextTok cs (chordStep inCh c)).2)

/-- scanning `a` from state `s` meets no blank outside a chord; the state reached -/
def scan : Str → Bool → Option Bool
  | [], s => some s
  | c :: cs, s => if c = ' ' ∧ s = false then none else scan cs (chordStep s c)

theorem nextTok_append (a b : Str) : ∀ (s : Bool), scan a s = some false → nextTok (a ++ ' ' :: b) s = (a, b) := by
  induction a with
  | nil => intro s h; simp only [scan, Option.some.injEq] at h; subst h; simp [nextTok]
  | cons c cs ih =>
    intro s h
    simp only [scan] at h
    split at h
    · cases h
    · rename_i hc
      simp only [List.cons_append, nextTok, hc, if_false, ih _ h]

theorem scan_append (a b : Str) : ∀ s, scan (a ++ b) s = (scan a s).bind (scan b) := by
  induction a with
  | nil => intro s; rfl
  | cons c cs ih =>
    intro s
    simp only [List.cons_append, scan]
    split
    · rfl
    · exact ih _

abbrev plain2 (c : Char) : Prop := c ≠ ' ' ∧ c ≠ '<' ∧ c ≠ '>'

theorem scan_plain (a : Str) (h : ∀ c ∈ a, plain2 c) : ∀ s, scan a s = some s := by
  induction a with
  | nil => intro s; rfl
  | cons c cs ih =>
    intro s
    have hc := h c (by simp)
    simp only [scan, hc.1, false_and, if_false, chordStep, hc.2.1, hc.2.2]
    exact ih (fun x hx => h x (by simp [hx])) s

theorem scan_inside (a : Str) (h : ∀ c ∈ a, c ≠ '<' ∧ c ≠ '>') : scan a true = some true := by
  induction a with
  | nil => rfl
  | cons c cs ih =>
    have hc := h c (by simp)
    simp only [scan, Bool.true_eq_false, and_false, if_false, chordStep, hc.1, hc.2]
    exact ih (fun x hx => h x (by simp [hx]))

theorem plain_plain2 {c : Char} (h : plain c) : plain2 c := ⟨h.1, h.2.2.2.2.1, h.2.1⟩

theorem digit_plain2 (c : Char) (h : c.isDigit = true) : plain2 c ∧ c ≠ '/' ∧ c ≠ '}' ∧ c ≠ '{' ∧ c ≠ '\\' := by
  refine ⟨⟨?_, ?_, ?_⟩, ?_, ?_, ?_, ?_⟩ <;> (rintro rfl; revert h; decide)

/-- members of an intercalation with blanks -/
theorem mem_intercalate (parts : List Str) (ch : Char) (hc : ch ∈ (lit " ").intercalate parts) :
    ch = ' ' ∨ ∃ p ∈ parts, ch ∈ p := by
  induction parts with
  | nil => simp [List.intercalate] at hc
  | cons p ps ih =>
    cases ps with
    | nil => simp [List.intercalate] at hc; exact Or.inr ⟨p, by simp, hc⟩
    | cons q qs =>
      have e2 : (lit " ").intercalate (p :: q :: qs) = p ++ ' ' :: (lit " ").intercalate (q :: qs) := by
        simp [List.intercalate, lit]
      rw [e2] at hc
      simp only [List.mem_append, List.mem_cons] at hc
      rcases hc with hc | rfl | hc
      · exact Or.inr ⟨p, by simp, hc⟩
      · exact Or.inl rfl
      · rcases ih hc with h' | ⟨p', hp', hcp⟩
        · exact Or.inl h'
        · exact Or.inr ⟨p', by simp [hp'], hcp⟩

/-- the note part of any entry is one token: it starts with a letter or `<`, and a blank occurs only inside `<…>` -/
theorem lyNC_closed (c : Option NC) (h : ∀ n ∈ c.getD [], GoodNote n) (x : Str) (hx : lyNC c none false = .ok x) :
    scan x false = some false ∧ x ≠ [] ∧ (∀ ch ∈ x.head?, ch ≠ '}' ∧ ch ≠ '\\') := by
  have hr : scan (lit "r") false = some false ∧ lit "r" ≠ [] ∧ (∀ ch ∈ (lit "r").head?, ch ≠ '}' ∧ ch ≠ '\\') := by decide
  cases c with
  | none => simp only [lyNC, bind, Except.bind, pure, Except.pure, Bool.false_eq_true, if_false, List.append_nil, Except.ok.injEq] at hx; subst hx; exact hr
  | some ns =>
    cases ns with
    | nil => simp only [lyNC, bind, Except.bind, pure, Except.pure, Bool.false_eq_true, if_false, List.append_nil, Except.ok.injEq] at hx; subst hx; exact hr
    | cons n rest =>
      cases rest with
      | nil =>
        obtain ⟨y, h1, h2, h3⟩ := readPitch_lyNote n (h n (by simp))
        simp only [lyNC, h1, bind, Except.bind, pure, Except.pure, Bool.false_eq_true, if_false, List.append_nil, Except.ok.injEq] at hx
        subst hx
        refine ⟨scan_plain y (fun ch hc => plain_plain2 (h3 ch hc)) false, ?_, ?_⟩
        · intro e; subst e; simp [readPitch] at h2
        · intro ch hc
          have : ch ∈ y := by
            cases y with
            | nil => simp at hc
            | cons a as => simp at hc; subst hc; simp
          exact ⟨(h3 ch this).2.2.2.2.2.2, (h3 ch this).2.2.1⟩
      | cons m rest' =>
        obtain ⟨parts, h1, h2, h3, h4⟩ := mapM_lyNote (n :: m :: rest') h
        simp only [lyNC, h1, bind, Except.bind, pure, Except.pure, Bool.false_eq_true, if_false, List.append_nil, Except.ok.injEq] at hx
        subst hx
        have e : lit "<" ++ (lit " ").intercalate parts ++ lit ">" = '<' :: ((lit " ").intercalate parts ++ ['>']) := by simp [lit]
        rw [e]
        refine ⟨?_, by simp, by intro ch hc; simp at hc; subst hc; decide⟩
        have hd : ¬ ('<' = ' ' ∧ false = false) := by decide
        simp only [scan, chordStep, if_true, hd, if_false]
        rw [scan_append, scan_inside]
        · simp [scan, chordStep]
        · intro ch hc
          rcases mem_intercalate parts ch hc with rfl | ⟨p, hp, hcp⟩
          · decide
          · exact ⟨(h3 p hp ch hcp).2.2.2.2.1, (h3 p hp ch hcp).2.1⟩

/-! ### the vocabulary of values and what one entry writes -/

/-- `v` is a value of the vocabulary: base `b` with `d` dots (ratio 1/1), or a tuplet `r` of base `b` -/
def Vocab (v : Rat) (b : Rat) (d : Nat) (r : Nat × Nat) : Prop :=
  (b ∈ bases ∧ d ∈ [0, 1, 2] ∧ v = Value.dotsF b d ∧ r = (1, 1)) ∨
  (b ∈ bases.drop 2 ∧ d = 0 ∧ r ∈ [(3, 2), (5, 4), (7, 4)] ∧ v = Value.tuplet b r.1 r.2)

theorem durText_plain : ∀ b ∈ bases, ∀ d ∈ [0, 1, 2], ∀ c ∈ baseText b ++ List.replicate d '.', plain2 c := by decide +kernel

/-- what `from_Bar` needs from one entry: the token, the ratio found, and how the token reads -/
theorem entry_tok (e : LEntry) (hg : ∀ n ∈ e.content.getD [], GoodNote n) (b : Rat) (d : Nat) (r : Nat × Nat)
    (hv : Vocab e.value b d r) :
    ∃ tok p, lyNC e.content (some e.value) false = .ok tok ∧ Value.determine e.value = .ok p ∧ (p.2.2.1, p.2.2.2) = r ∧
      readEntry tok = some ((e.content.getD []).map pitchOf, some (b, d)) ∧ scan tok false = some false ∧
      tok ≠ lit "\\times" ∧ (∀ ch ∈ tok.head?, ch ≠ '}') ∧ tok ≠ [] := by
  obtain ⟨x, h1, h2, h3⟩ := readNotes_lyNC e.content hg
  obtain ⟨c1, c2, c3⟩ := lyNC_closed e.content hg x h1
  -- the duration text `dt`, uniformly for both kinds of value
  have key : ∃ dt p, lyDuration e.value = .ok dt ∧ Value.determine e.value = .ok p ∧ (p.2.2.1, p.2.2.2) = r ∧
      readDur dt = some (b, d) ∧ (∀ c ∈ dt.head?, durStart c = true) ∧ dt ≠ [] ∧ (∀ c ∈ dt, plain2 c) := by
    rcases hv with ⟨hb, hd, hval, hr⟩ | ⟨hb, hd, hr, hval⟩
    · obtain ⟨t1, t2⟩ := duration_table.1 b hb d hd
      obtain ⟨r1, r2, r3⟩ := readDur_table b hb d hd
      cases hp : Value.determine (Value.dotsF b d) with
      | error err => simp [hp, Except.toOption] at t2
      | ok p =>
        simp only [hp, Except.toOption, Option.map_some, Option.some.injEq] at t2
        exact ⟨_, p, by rw [hval]; exact t1, by rw [hval]; exact hp, by rw [hr]; exact t2, r1, r2, r3, durText_plain b hb d hd⟩
    · subst hd
      obtain ⟨t1, t2⟩ := duration_table.2 b hb r hr
      have hb' : b ∈ bases := List.mem_of_mem_drop hb
      obtain ⟨r1, r2, r3⟩ := readDur_table b hb' 0 (by simp)
      have r4 := durText_plain b hb' 0 (by simp)
      simp only [List.replicate_zero, List.append_nil] at r1 r2 r3 r4
      cases hp : Value.determine (Value.tuplet b r.1 r.2) with
      | error err => simp [hp, Except.toOption] at t2
      | ok p =>
        simp only [hp, Except.toOption, Option.map_some, Option.some.injEq, Prod.mk.injEq] at t2
        refine ⟨_, p, by rw [hval]; exact t1, by rw [hval]; exact hp, ?_, r1, r2, r3, r4⟩
        rw [t2.2.2.1, t2.2.2.2]
  obtain ⟨dt, p, k1, k2, k3, k4, k5, k6, k7⟩ := key
  have hly : lyNC e.content (some e.value) false = .ok (x ++ dt) := by
    unfold lyNC at h1 ⊢
    simp only [bind, Except.bind, pure, Except.pure, Bool.false_eq_true, if_false, List.append_nil] at h1 ⊢
    split at h1
    · cases h1
    · rename_i body hbody
      simp only [Except.ok.injEq] at h1
      subst h1
      simp only [hbody, k1]
  refine ⟨x ++ dt, p, hly, k2, k3, ?_, ?_, ?_, ?_, by simp [c2]⟩
  · simp only [readEntry, splitDur_append x _ h3 k5, h2, k6, if_false, k4, Option.map_some]
  · rw [scan_append, c1]; exact scan_plain dt k7 false
  · intro heq
    cases x with
    | nil => exact c2 rfl
    | cons a as =>
      have : a = '\\' := by
        have := congrArg List.head? heq
        simpa [lit] using this
      exact (c3 a (by simp)).2 this
  · intro ch hc
    cases x with
    | nil => exact absurd rfl c2
    | cons a as => simp at hc; subst hc; exact (c3 _ (by simp)).1

/-! ### the reader of a bar body -/

def parseRatio (r : Str) : Option (Nat × Nat) :=
  match Note.splitOn '/' r with
  | [x, y] => (match Note.parseNat? x, Note.parseNat? y with
    | some n, some a => some (n.toNat, a.toNat)
    | _, _ => none)
  | _ => none

abbrev REntry := List (Char × Str × Int) × (Rat × Nat) × (Nat × Nat)

/-- entries until the end of the body; `ratio` is the tuplet ratio in force (actual, normal) -/
def readBody : Nat → Str → (Nat × Nat) → Option (List REntry)
  | 0, _, _ => none
  | fuel + 1, s, ratio =>
    if s = [] ∨ s = ['}'] then some []
    else
      let s := if s.head? = some '}' then s.drop 1 else s
      let t1 := nextTok s false
      if t1.1 = lit "\\times" then
        let t2 := nextTok t1.2 false
        let t3 := nextTok t2.2 false
        match parseRatio t2.1, t3.1 with
        | some (n, a), '{' :: body =>
          (match readEntry body with
           | some (notes, some d) => (readBody fuel t3.2 (a, n)).map fun l => (notes, d, (a, n)) :: l
           | _ => none)
        | _, _ => none
      else
        match readEntry t1.1 with
        | some (notes, some d) => (readBody fuel t1.2 ratio).map fun l => (notes, d, ratio) :: l
        | _ => none

theorem parseRatio_show (n a : Nat) : parseRatio (Note.showNat n ++ '/' :: Note.showNat a) = some (n, a) := by
  obtain ⟨n1, _, _, _⟩ := C10.digitsF_spec (n + 1) n (by omega)
  obtain ⟨a1, _, _, _⟩ := C10.digitsF_spec (a + 1) a (by omega)
  have hn : '/' ∉ Note.showNat n := fun hm => (digit_plain2 _ (List.all_eq_true.1 n1 _ hm)).2.1 rfl
  have ha : '/' ∉ Note.showNat a := fun hm => (digit_plain2 _ (List.all_eq_true.1 a1 _ hm)).2.1 rfl
  simp only [parseRatio, C10.splitOn_one_sep '/' _ _ hn ha, C10.parse_show, Int.toNat_natCast]

theorem ratio_plain (n a : Nat) : ∀ c ∈ Note.showNat n ++ '/' :: Note.showNat a, plain2 c := by
  obtain ⟨n1, _, _, _⟩ := C10.digitsF_spec (n + 1) n (by omega)
  obtain ⟨a1, _, _, _⟩ := C10.digitsF_spec (a + 1) a (by omega)
  intro c hc
  simp only [List.mem_append, List.mem_cons] at hc
  rcases hc with hc | rfl | hc
  · exact (digit_plain2 _ (List.all_eq_true.1 n1 _ hc)).1
  · decide
  · exact (digit_plain2 _ (List.all_eq_true.1 a1 _ hc)).1

/-- what entry `e` should read back as -/
def Reads (e : LEntry) (x : REntry) : Prop :=
  (∀ n ∈ e.content.getD [], GoodNote n) ∧ Vocab e.value x.2.1.1 x.2.1.2 x.2.2 ∧ x.1 = (e.content.getD []).map pitchOf

/-- **the body of a bar reads back**, for any entries of the vocabulary, from any state of the tuplet bookkeeping -/
theorem readBody_lyEntries (es : List LEntry) : ∀ (xs : List REntry), List.Forall₂ Reads es xs →
    ∀ (latest : Nat × Nat) (changed : Bool),
    ∃ s, lyEntries es latest changed = .ok s ∧ es.length ≤ s.length ∧
      ∀ fuel, es.length < fuel → readBody fuel s latest = some xs := by
  induction es with
  | nil =>
    intro xs hxs latest changed
    cases hxs
    refine ⟨if changed then lit "}" else [], rfl, by simp, ?_⟩
    · intro fuel hf
      cases fuel with
      | zero => omega
      | succ f => cases changed <;> simp [readBody, lit]
  | cons e es ih =>
    intro xs hxs latest changed
    cases hxs with
    | cons hx hrest =>
      rename_i x xs'
      obtain ⟨xn, ⟨xb, xd⟩, xr⟩ := x
      obtain ⟨hg, hv, hnotes⟩ := hx
      simp only at hv hnotes
      subst hnotes
      obtain ⟨tok, p, t1, t2, t3, t4, t5, t6, t7, t8⟩ := entry_tok e hg _ _ _ hv
      obtain ⟨b, d, a, n⟩ := p
      simp only at t3
      subst t3
      by_cases hsame : (a, n) = latest
      · obtain ⟨rest, r1, r2, r3⟩ := ih xs' hrest latest changed
        refine ⟨tok ++ ' ' :: rest, ?_, by simp; omega, ?_⟩
        · simp only [lyEntries, t2, t1, bind, Except.bind, hsame, if_true, r1, pure, Except.pure, lit]
          simp
        · intro fuel hf
          cases fuel with
          | zero => omega
          | succ f =>
            have hne : ¬ (tok ++ ' ' :: rest = [] ∨ tok ++ ' ' :: rest = ['}']) := by
              cases tok with
              | nil => exact absurd rfl t8
              | cons c cs =>
                have := t7 c (by simp)
                simp [this]
            have hhead : ¬ ((tok ++ ' ' :: rest).head? = some '}') := by
              cases tok with
              | nil => exact absurd rfl t8
              | cons c cs => simpa using t7 c (by simp)
            simp only [readBody, hne, if_false, hhead, nextTok_append tok rest false t5, t6, t4]
            rw [r3 f (by simp at hf; omega)]
            simp only [Option.map_some, Option.some.injEq]
            rw [hsame]
      · obtain ⟨rest, r1, r2, r3⟩ := ih xs' hrest (a, n) true
        let pre : Str := if changed then lit "}" else []
        refine ⟨pre ++ (lit "\\times" ++ ' ' :: ((Note.showNat n ++ '/' :: Note.showNat a) ++ ' ' :: (('{' :: tok) ++ ' ' :: rest))), ?_, by simp; omega, ?_⟩
        · simp only [lyEntries, t2, t1, bind, Except.bind, hsame, if_false, r1, pure, Except.pure, pre]
          cases changed <;> simp [lit]
        · intro fuel hf
          cases fuel with
          | zero => omega
          | succ f =>
            have hts : scan (lit "\\times") false = some false := by decide
            have hrs : scan (Note.showNat n ++ '/' :: Note.showNat a) false = some false := scan_plain _ (ratio_plain n a) false
            have hks : scan ('{' :: tok) false = some false := by
              have h0 : ¬ ('{' = ' ' ∧ false = false) := by decide
              have h1 : ¬ ('{' = '<') := by decide
              have h2 : ¬ ('{' = '>') := by decide
              simp only [scan, chordStep, h0, h1, h2, if_false]
              exact t5
            have hstrip : ∀ (S : Str), (S = lit "\\times" ++ ' ' :: ((Note.showNat n ++ '/' :: Note.showNat a) ++ ' ' :: (('{' :: tok) ++ ' ' :: rest))) →
                (nextTok S false).1 = lit "\\times" ∧
                (nextTok (nextTok S false).2 false).1 = Note.showNat n ++ '/' :: Note.showNat a ∧
                (nextTok (nextTok (nextTok S false).2 false).2 false).1 = '{' :: tok ∧
                (nextTok (nextTok (nextTok S false).2 false).2 false).2 = rest := by
              intro S hS
              subst hS
              rw [nextTok_append _ _ false hts]
              simp only
              rw [nextTok_append _ _ false hrs]
              simp only
              rw [nextTok_append _ _ false hks]
              simp
            -- the string after dropping the optional closing brace
            have hS : (if (pre ++ (lit "\\times" ++ ' ' :: ((Note.showNat n ++ '/' :: Note.showNat a) ++ ' ' :: (('{' :: tok) ++ ' ' :: rest)))).head? = some '}'
                then (pre ++ (lit "\\times" ++ ' ' :: ((Note.showNat n ++ '/' :: Note.showNat a) ++ ' ' :: (('{' :: tok) ++ ' ' :: rest)))).drop 1
                else (pre ++ (lit "\\times" ++ ' ' :: ((Note.showNat n ++ '/' :: Note.showNat a) ++ ' ' :: (('{' :: tok) ++ ' ' :: rest))))) =
                lit "\\times" ++ ' ' :: ((Note.showNat n ++ '/' :: Note.showNat a) ++ ' ' :: (('{' :: tok) ++ ' ' :: rest)) := by
              cases changed <;> simp [pre, lit]
            have hne : ¬ ((pre ++ (lit "\\times" ++ ' ' :: ((Note.showNat n ++ '/' :: Note.showNat a) ++ ' ' :: (('{' :: tok) ++ ' ' :: rest)))) = [] ∨
                (pre ++ (lit "\\times" ++ ' ' :: ((Note.showNat n ++ '/' :: Note.showNat a) ++ ' ' :: (('{' :: tok) ++ ' ' :: rest)))) = ['}']) := by
              cases changed <;> simp [pre, lit]
            obtain ⟨s1, s2, s3, s4⟩ := hstrip _ hS
            simp only [readBody, hne, if_false]
            simp only [s1, if_true, s2, s3, s4, parseRatio_show, t4]
            rw [r3 f (by simp at hf; omega)]
            simp only [Option.map_some]

/-- the reader of a bar written without key and time: `{ ` body `}` -/
def readBar (s : Str) : Option (List REntry) :=
  match s with
  | '{' :: ' ' :: rest => if rest.getLast? = some '}' then readBody (rest.length + 1) rest.dropLast (1, 1) else none
  | _ => none

/-- **a bar reads back** (`from_Bar(bar, showkey=False, showtime=False)`), any number of entries of the vocabulary -/
theorem lyBar_reads (b : LBar) (xs : List REntry) (h : List.Forall₂ Reads b.entries xs) :
    (lyBar b false false).toOption.bind readBar = some xs := by
  obtain ⟨s, h1, h2, h3⟩ := readBody_lyEntries b.entries xs h (1, 1) false
  have : lyBar b false false = .ok ('{' :: ' ' :: (s ++ ['}'])) := by
    simp [lyBar, h1, bind, Except.bind, pure, Except.pure, lit]
  rw [this]
  simp only [Except.toOption, Option.bind, readBar, List.getLast?_append, List.getLast?_singleton, Option.some_or, if_true,
    List.dropLast_concat]
  exact h3 _ (by simp; omega)

/-! ### the statement is about something: a kernel-evaluated bar with a chord, a dotted note, a triplet block and a rest -/

private def nt (s : String) (o : Int) : Note := ⟨s.toList, o, 1, 64⟩

private def demo : LBar := ⟨lit "C", 4, 4,
  [⟨Value.dotsF 4 1, some [nt "C" 4, nt "Eb" 4, nt "G#" 5]⟩, ⟨Value.tuplet 8 3 2, some [nt "D" 3]⟩, ⟨Value.tuplet 8 3 2, none⟩,
   ⟨Value.tuplet 8 3 2, some [nt "F##" 2]⟩, ⟨8, none⟩]⟩

example : (lyBar demo false false).toOption.map String.ofList =
    some "{ <c' ees' gis''>4. \\times 2/3 {d8 r8 fisis,8 }\\times 1/1 {r8 }}" := by decide +kernel

example : ((lyBar demo false false).toOption.bind readBar == 
    some [([('c', lit "", 4), ('e', lit "b", 4), ('g', lit "#", 5)], (4, 1), (1, 1)), ([('d', lit "", 3)], (8, 0), (3, 2)),
          ([], (8, 0), (3, 2)), ([('f', lit "##", 2)], (8, 0), (3, 2)), ([], (8, 0), (1, 1))]) = true := by decide +kernel

end Mingus.Props.C19
