import Mingus.Props.C19Track
/-
  C19 — a whole LilyPond composition reads back.

  `readCompLy` reads what `from_Composition` writes: the `\header { title = "…" composer = "…" opus = "…" }` block (fields
  are what stands between the double quotes), then the tracks, each one brace group, separated by blanks.
  `lyComposition_reads`: for any title, author and subtitle WITHOUT a double quote (the exporter does not escape; with a quote
  the text is not LilyPond), any number of tracks of any number of bars of the kind `lyTrack_reads` covers, the text reads back
  as exactly (title, author, subtitle, per track the bars with key and time where they change).
-/
namespace Mingus.Props.C19
open Mingus Mingus.Export Mingus.Containers

/-- a track's text is one brace group -/
theorem track_group (bars : List LBar) (xss : List (List REntry)) (h : List.Forall₂ BarOK bars xss) :
    ∃ mid, lyTrack bars = .ok ('{' :: (mid ++ ['}'])) ∧ lvl mid 1 = some 1 := by
  -- the bars joined: every bar is a closed group followed by a blank
  have key : ∀ (bars : List LBar) (xss : List (List REntry)), List.Forall₂ BarOK bars xss → ∀ lk lt,
      ∃ r, lyTrackBars bars lk lt = .ok r ∧ ∀ d, 1 ≤ d → lvl r d = some d := by
    intro bars
    induction bars with
    | nil => intro xss hx lk lt; cases hx; exact ⟨[], rfl, fun d _ => rfl⟩
    | cons b bs ih =>
      intro xss hx lk lt
      cases hx with
      | cons hb hrest =>
        rename_i xs xss'
        obtain ⟨hk, hc, hu, hr⟩ := hb
        obtain ⟨mid, g1, g2⟩ := bar_group b (lk != b.key) (lt != (b.count, b.unit)) hk hc hu xs hr
        obtain ⟨rest, r1, r2⟩ := ih xss' hrest b.key (b.count, b.unit)
        refine ⟨('{' :: (mid ++ ['}'])) ++ ' ' :: rest, ?_, ?_⟩
        · rw [track_shows_changes]
          simp only [g1, r1, bind, Except.bind, pure, Except.pure, lit]
          simp
        · intro d hd
          -- `{` opens to d+1, the bar's inside returns to d+1 … we need lvl mid (d+1) = some (d+1)
          have hmid : ∀ e, 1 ≤ e → lvl mid e = some e := by
            intro e he
            have := lvl_shift mid 1 1 g2 e he
            have e1 : 1 + (e - 1) = e := by omega
            rw [e1] at this; exact this
          have hsp : ∀ (X : Str) (k : Nat), lvl (' ' :: X) k = lvl X k := by
            intro X k
            have h1 : ¬ (' ' = '{') := by decide
            have h2 : ¬ (' ' = '}') := by decide
            simp only [lvl, h1, h2, if_false]
          have hopen : lvl ('{' :: (mid ++ ['}']) ++ ' ' :: rest) d = lvl (mid ++ ('}' :: ' ' :: rest)) (d + 1) := by
            simp [lvl]
          rw [hopen, lvl_append, hmid (d + 1) (by omega), Option.bind]
          have hclose : lvl ('}' :: ' ' :: rest) (d + 1) = lvl (' ' :: rest) d := by
            have h1 : ¬ ('}' = '{') := by decide
            have h2 : ¬ (d + 1 ≤ 1) := by omega
            simp only [lvl, h1, if_false, if_true, h2]
            rfl
          rw [hclose, hsp]
          exact r2 d hd
  obtain ⟨r, r1, r2⟩ := key bars xss h (lit "C") (4, 4)
  refine ⟨' ' :: r, ?_, ?_⟩
  · simp only [lyTrack, bind, Except.bind, r1, pure, Except.pure]
    simp [lit]
  · have h1 : ¬ (' ' = '{') := by decide
    have h2 : ¬ (' ' = '}') := by decide
    simp only [lvl, h1, h2, if_false]
    exact r2 1 (by omega)

/-! ### groups separated by blanks -/

def Closed (p : Str) : Prop := ∃ mid, p = '{' :: (mid ++ ['}']) ∧ lvl mid 1 = some 1

theorem splitBars_flat (parts : List Str) (h : ∀ p ∈ parts, Closed p) : ∀ fuel, parts.length < fuel →
    splitBars fuel (parts.flatMap (· ++ [' '])) = some parts := by
  induction parts with
  | nil =>
    intro fuel hf
    cases fuel with
    | zero => omega
    | succ f => simp [splitBars]
  | cons p ps ih =>
    intro fuel hf
    cases fuel with
    | zero => omega
    | succ f =>
      obtain ⟨mid, rfl, hm⟩ := h _ (List.mem_cons_self)
      have hne : ¬ (('{' :: (mid ++ ['}'])) ++ [' '] ++ ps.flatMap (· ++ [' ']) = []) := by simp
      have hform : ('{' :: (mid ++ ['}'])) ++ [' '] ++ ps.flatMap (· ++ [' ']) =
          '{' :: (mid ++ '}' :: (' ' :: ps.flatMap (· ++ [' ']))) := by simp
      simp only [List.flatMap_cons, splitBars, hne, if_false]
      rw [hform, takeGroup_bar mid _ hm]
      simp only [ih (fun q hq => h q (List.mem_cons_of_mem _ hq)) f (by simp at hf; omega), Option.map_some]

/-! ### the header -/

def stripPrefix (p s : Str) : Option Str := if p.isPrefixOf s then some (s.drop p.length) else none
/-- the text up to the next double quote, and what follows that quote -/
def takeQ : Str → Str × Str
  | [] => ([], [])
  | c :: cs => if c = '"' then ([], cs) else (c :: (takeQ cs).1, (takeQ cs).2)

theorem stripPrefix_append (p x : Str) : stripPrefix p (p ++ x) = some x := by
  simp [stripPrefix, List.isPrefixOf_iff_prefix]

theorem takeQ_append (T x : Str) (h : '"' ∉ T) : takeQ (T ++ '"' :: x) = (T, x) := by
  induction T with
  | nil => simp [takeQ]
  | cons c cs ih =>
    have hc : c ≠ '"' := by intro e; exact h (by simp [e])
    have ht : '"' ∉ cs := by intro e; exact h (by simp [e])
    simp only [List.cons_append, takeQ, hc, if_false, ih ht]

/-- the reader of a composition: title, composer, opus, and per track its bars -/
def readCompLy (s : Str) : Option (Str × Str × Str × List (List RBar)) :=
  (stripPrefix (lit "\\header { title = \"") s).bind fun s1 =>
  (stripPrefix (lit " composer = \"") (takeQ s1).2).bind fun s3 =>
  (stripPrefix (lit " opus = \"") (takeQ s3).2).bind fun s5 =>
  match (takeQ s5).2 ++ [' '] with
  | ' ' :: '}' :: ' ' :: tt =>
    (splitBars (tt.length + 1) tt).bind fun ts => (ts.mapM readTrackLy).map fun rts => ((takeQ s1).1, (takeQ s3).1, (takeQ s5).1, rts)
  | _ => none

/-- the tracks of a composition: each a closed group, each reading back -/
theorem tracks_parts (tracks : List (List LBar)) : ∀ (xsss : List (List (List REntry))),
    List.Forall₂ (fun bars xss => List.Forall₂ BarOK bars xss) tracks xsss →
    ∃ parts rts, tracks.mapM lyTrack = .ok parts ∧ (∀ p ∈ parts, Closed p) ∧ parts.mapM readTrackLy = some rts ∧
      rts.map (·.map viewOf) = List.zipWith (fun bars xss => wantAll bars xss (lit "C") (4, 4)) tracks xsss ∧
      parts.length = tracks.length := by
  induction tracks with
  | nil => intro xsss h; cases h; exact ⟨[], [], rfl, by simp, rfl, rfl, rfl⟩
  | cons t ts ih =>
    intro xsss h
    cases h with
    | cons ht hrest =>
      rename_i xss xsss'
      obtain ⟨s, e1, e2⟩ := lyTrack_reads t xss ht
      obtain ⟨mid, g1, g2⟩ := track_group t xss ht
      have hs : s = '{' :: (mid ++ ['}']) := by rw [e1] at g1; exact Except.ok.inj g1
      obtain ⟨parts, rts, p1, p2, p3, p4, p5⟩ := ih xsss' hrest
      cases hr : readTrackLy s with
      | none => simp [hr] at e2
      | some rt =>
        simp only [hr, Option.map_some, Option.some.injEq] at e2
        refine ⟨s :: parts, rt :: rts, ?_, ?_, ?_, ?_, by simp [p5]⟩
        · rw [List.mapM_cons, e1]; simp only [bind, Except.bind, p1]; rfl
        · intro p hp
          rcases List.mem_cons.1 hp with rfl | hp
          · exact ⟨mid, hs, g2⟩
          · exact p2 p hp
        · rw [List.mapM_cons, hr]; simp [p3]
        · simp [e2, p4]

theorem foldl_join (parts : List Str) : ∀ (acc : Str),
    parts.foldl (fun acc p => acc ++ p ++ lit " ") acc = acc ++ parts.flatMap (· ++ [' ']) := by
  induction parts with
  | nil => intro acc; simp
  | cons p ps ih =>
    intro acc
    rw [List.foldl_cons, ih]
    simp [List.flatMap_cons, lit, List.append_assoc]

theorem flat_len (parts : List Str) : parts.length ≤ (parts.flatMap (· ++ [' '])).length := by
  induction parts with
  | nil => simp
  | cons q qs ih =>
    rw [List.flatMap_cons, List.length_append, List.length_append]
    simp only [List.length_cons, List.length_nil]
    omega

/-- **a whole composition reads back** -/
theorem lyComposition_reads (T A S : Str) (hT : '"' ∉ T) (hA : '"' ∉ A) (hS : '"' ∉ S) (tracks : List (List LBar))
    (xsss : List (List (List REntry))) (h : List.Forall₂ (fun bars xss => List.Forall₂ BarOK bars xss) tracks xsss) :
    ∃ s, lyComposition T A S tracks = .ok s ∧
      (readCompLy s).map (fun r => (r.1, r.2.1, r.2.2.1, r.2.2.2.map (·.map viewOf))) =
        some (T, A, S, List.zipWith (fun bars xss => wantAll bars xss (lit "C") (4, 4)) tracks xsss) := by
  obtain ⟨parts, rts, p1, p2, p3, p4, p5⟩ := tracks_parts tracks xsss h
  -- the text before the final character is dropped
  let tj : Str := parts.flatMap (· ++ [' '])
  let W : Str := (lit " } " ++ tj).dropLast
  have hW : W ++ [' '] = lit " } " ++ tj := by
    have hne : lit " } " ++ tj ≠ [] := by simp [lit]
    have hlast : (lit " } " ++ tj).getLast? = some ' ' := by
      cases hp : parts.reverse with
      | nil =>
        have : parts = [] := by simpa using hp
        simp [tj, this, lit]
      | cons q qs =>
        have : parts = qs.reverse ++ [q] := by
          have := congrArg List.reverse hp; simpa using this
        simp [tj, this, List.flatMap_append, List.getLast?_append]
    exact List.dropLast_append_getLast? _ hlast
  refine ⟨lit "\\header { title = \"" ++ (T ++ '"' :: (lit " composer = \"" ++ (A ++ '"' :: (lit " opus = \"" ++ (S ++ '"' :: W))))), ?_, ?_⟩
  · simp only [lyComposition, p1, bind, Except.bind, pure, Except.pure, foldl_join]
    congr 1
    -- r = prefix ++ '"' :: (" } " ++ tj); dropping the last character only touches the last, non-empty, piece
    have : lit "\\header { title = \"" ++ T ++ lit "\" composer = \"" ++ A ++ lit "\" opus = \"" ++ S ++ lit "\" } " ++
        ([] ++ parts.flatMap (· ++ [' '])) =
        (lit "\\header { title = \"" ++ (T ++ '"' :: (lit " composer = \"" ++ (A ++ '"' :: (lit " opus = \"" ++ (S ++ ['"'])))))) ++
          (lit " } " ++ tj) := by
      simp [lit, tj, List.append_assoc]
    rw [this, List.dropLast_append_of_ne_nil (by simp [lit])]
    simp [W, List.append_assoc]
  · simp only [readCompLy, stripPrefix_append, Option.bind, takeQ_append T _ hT, takeQ_append A _ hA, takeQ_append S _ hS, hW]
    have e : lit " } " ++ tj = ' ' :: '}' :: ' ' :: tj := by simp [lit]
    rw [e]
    have hlen : parts.length ≤ tj.length := flat_len parts
    have hsb : splitBars (tj.length + 1) tj = some parts := splitBars_flat parts p2 (tj.length + 1) (by omega)
    simp only [hsb, p3, Option.map_some, p4]

/-- non-vacuity (kernel): title and composer with blanks and braces, two tracks -/
private def ct1 : LBar := ⟨lit "G", 4, 4, [⟨4, some [⟨lit "G", 4, 1, 64⟩]⟩, ⟨Value.dotsF 2 1, none⟩]⟩
example : ((lyComposition (lit "A {title}") (lit "me & you") (lit "") [[ct1], [ct1, ct1]]).toOption.bind readCompLy).map
    (fun r => (r.1, r.2.1, r.2.2.1, r.2.2.2.map (·.length))) = some (lit "A {title}", lit "me & you", lit "", [1, 2]) := by
  decide +kernel

end Mingus.Props.C19
