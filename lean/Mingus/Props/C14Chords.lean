import Mingus.Props.C14
import Mathlib.Data.List.Forall2
/-
  C14 — `Track.from_chords` places every chord and every rest of a (possibly nested) chord list, in order.

  `leaves` is the statement's reading of the nested list: the chords and rests from left to right, a nested group halving
  the length of what it contains (value × 2 per level).  `fromChords_places`: whenever `from_chords` returns, the entries of
  the track are the old entries followed, leaf by leaf in that order, by the leaf's own pieces — ONE entry with the leaf's
  value when it fits, otherwise at most two entries (the part that fills the bar and the remainder) — and every piece of a
  leaf carries that leaf's content (the chord's notes, or a rest).  For any track (any instrument), any nesting depth.
  (That the lengths of the two pieces add up to the leaf's length is float arithmetic and is decided by the correspondence.)
-/
namespace Mingus.Props.C14
open Mingus Mingus.Containers Mingus.Containers.Track

/-- the chords (`some shorthand`) and rests (`none`) of a nested chord list, left to right, with their values -/
def leaves : ChordItem → Rat → List (Option Str × Rat)
  | .group items, v => items.flatMap fun c => leaves c (F64.mul v 2)
  | .rest, v => [(none, v)]
  | .chord sh, v => [(some sh, v)]

/-- the content a leaf stands for -/
def ContentOf : Option Str → Option NC → Prop
  | none, c => c = none
  | some sh, c => ∃ nc, NC.fromChordShorthand sh = .ok nc ∧ c = some nc

/-- the entries one leaf may leave behind: one entry of the leaf's value, or at most two pieces; all with its content -/
def PieceOf (leaf : Option Str × Rat) (ps : List (Rat × Option NC)) : Prop :=
  ∃ c, ContentOf leaf.1 c ∧ (ps = [(leaf.2, c)] ∨ ps.length ≤ 2) ∧ ∀ p ∈ ps, p.2 = c

/-- `add_notes` that returns: the gate was passed, one entry appended when accepted, nothing otherwise -/
theorem addNotes_ok_items (t : Track) (c : Option NC) (v : Rat) (ok : Bool) (t' : Track) (h : t.addNotes c v = .ok (ok, t')) :
    t'.instrument = t.instrument ∧ items t' = (if ok then items t ++ [(v, c)] else items t) := by
  have hgate : ∀ i nc, t.instrument = some i → c = some nc → i.canPlay nc = true := by
    intro i nc hi hc
    cases hcp' : i.canPlay nc with
    | true => rfl
    | false =>
      unfold Track.addNotes at h
      simp [hi, hc, hcp', bind, Except.bind, throw, throwThe, MonadExceptOf.throw] at h
  obtain ⟨ok2, t2, h1, h2, h3⟩ := addNotes_items t c v hgate
  rw [h1] at h
  simp only [Except.ok.injEq, Prod.mk.injEq] at h
  obtain ⟨rfl, rfl⟩ := h
  exact ⟨h2, h3⟩

/-- one leaf -/
theorem leaf_places (t t' : Track) (leaf : ChordItem) (v : Rat) (hng : ∀ items, leaf ≠ .group items)
    (h : addChord t leaf v = .ok t') :
    ∃ ps, PieceOf ((match leaf with | .chord sh => some sh | _ => none), v) ps ∧ items t' = items t ++ ps ∧
      t'.instrument = t.instrument := by
  cases leaf with
  | group items => exact absurd rfl (hng items)
  | rest =>
    rw [addChord] at h
    case x => intro _ hh; cases hh
    case x_2 => intro _ hh; cases hh
    simp only [bind, Except.bind, pure, Except.pure] at h
    split at h
    · cases h
    · rename_i r1 hr1
      obtain ⟨ok1, t1⟩ := r1
      obtain ⟨i1, e1⟩ := addNotes_ok_items t none v ok1 t1 hr1
      simp only at h
      cases ok1 with
      | true =>
        simp only [if_true, Except.ok.injEq] at h
        subst h
        exact ⟨[(v, none)], ⟨none, rfl, Or.inl rfl, by simp⟩, by simpa using e1, i1⟩
      | false =>
        simp only [Bool.false_eq_true, if_false] at h e1
        split at h
        · cases h
        · rename_i dur hdur
          split at h
          · cases h
          · rename_i r2 hr2
            obtain ⟨ok2, t2⟩ := r2
            obtain ⟨i2, e2⟩ := addNotes_ok_items t1 none dur ok2 t2 hr2
            simp only at h
            split at h
            · cases h
            · rename_i r3 hr3
              obtain ⟨ok3, t3⟩ := r3
              obtain ⟨i3, e3⟩ := addNotes_ok_items t2 none _ ok3 t3 hr3
              simp only [Except.ok.injEq] at h
              subst h
              refine ⟨(if ok2 then [(dur, none)] else []) ++ (if ok3 then [(F64.div 1 (F64.sub (F64.div 1 v) (F64.div 1 dur)), none)] else []), ⟨none, rfl, Or.inr ?_, ?_⟩, ?_,
                by rw [i3, i2, i1]⟩
              · cases ok2 <;> cases ok3 <;> simp
              · intro p hp; cases ok2 <;> cases ok3 <;> simp at hp <;> (try rcases hp with rfl | rfl) <;> (try subst hp) <;> rfl
              · rw [e3, e2, e1]; cases ok2 <;> cases ok3 <;> simp
  | chord sh =>
    rw [addChord] at h
    simp only [bind, Except.bind, pure, Except.pure] at h
    split at h
    · cases h
    · rename_i nc hnc
      have hc : ContentOf (some sh) (some nc) := ⟨nc, hnc, rfl⟩
      generalize hcd : (some nc : Option NC) = content at h hc
      split at h
      · cases h
      · rename_i r1 hr1
        obtain ⟨ok1, t1⟩ := r1
        obtain ⟨i1, e1⟩ := addNotes_ok_items t content v ok1 t1 hr1
        simp only at h
        cases ok1 with
        | true =>
          simp only [if_true, Except.ok.injEq] at h
          subst h
          exact ⟨[(v, content)], ⟨content, hc, Or.inl rfl, by simp⟩, by simpa using e1, i1⟩
        | false =>
          simp only [Bool.false_eq_true, if_false] at h e1
          split at h
          · cases h
          · rename_i dur hdur
            split at h
            · cases h
            · rename_i r2 hr2
              obtain ⟨ok2, t2⟩ := r2
              obtain ⟨i2, e2⟩ := addNotes_ok_items t1 content dur ok2 t2 hr2
              simp only at h
              split at h
              · cases h
              · rename_i r3 hr3
                obtain ⟨ok3, t3⟩ := r3
                obtain ⟨i3, e3⟩ := addNotes_ok_items t2 content _ ok3 t3 hr3
                simp only [Except.ok.injEq] at h
                subst h
                refine ⟨(if ok2 then [(dur, content)] else []) ++ (if ok3 then [(F64.div 1 (F64.sub (F64.div 1 v) (F64.div 1 dur)), content)] else []),
                  ⟨content, hc, Or.inr ?_, ?_⟩, ?_, by rw [i3, i2, i1]⟩
                · cases ok2 <;> cases ok3 <;> simp
                · intro p hp; cases ok2 <;> cases ok3 <;> simp at hp <;> (try rcases hp with rfl | rfl) <;> (try subst hp) <;> rfl
                · rw [e3, e2, e1]; cases ok2 <;> cases ok3 <;> simp

/-- folding `add_chord` over a list, given the statement for each element -/
theorem foldlM_places (items : List ChordItem) (w : Rat)
    (ih : ∀ (t : Track) (c : ChordItem), c ∈ items → ∀ t', addChord t c w = .ok t' →
      ∃ pieces, List.Forall₂ PieceOf (leaves c w) pieces ∧ Mingus.Props.C14.items t' = Mingus.Props.C14.items t ++ pieces.flatten ∧
        t'.instrument = t.instrument) :
    ∀ (t t' : Track), items.foldlM (fun t c => addChord t c w) t = .ok t' →
      ∃ pieces, List.Forall₂ PieceOf (items.flatMap fun c => leaves c w) pieces ∧
        Mingus.Props.C14.items t' = Mingus.Props.C14.items t ++ pieces.flatten ∧ t'.instrument = t.instrument := by
  induction items with
  | nil =>
    intro t t' h
    simp only [List.foldlM_nil, pure, Except.pure, Except.ok.injEq] at h
    subst h
    exact ⟨[], by simp, by simp, rfl⟩
  | cons c cs ihl =>
    intro t t' h
    rw [List.foldlM_cons] at h
    cases h1 : addChord t c w with
    | error e => simp [h1, bind, Except.bind] at h
    | ok t1 =>
      simp only [h1, bind, Except.bind] at h
      obtain ⟨p1, f1, e1, i1⟩ := ih t c (by simp) t1 h1
      obtain ⟨p2, f2, e2, i2⟩ := ihl (fun t c' hc' => ih t c' (by simp [hc'])) t1 t' h
      refine ⟨p1 ++ p2, ?_, ?_, by rw [i2, i1]⟩
      · simp only [List.flatMap_cons]
        exact List.rel_append f1 f2
      · rw [e2, e1]; simp

/-- **`add_chord`** for any item of any nesting depth -/
theorem addChord_places : ∀ (t : Track) (item : ChordItem) (v : Rat) (t' : Track), addChord t item v = .ok t' →
    ∃ pieces, List.Forall₂ PieceOf (leaves item v) pieces ∧ items t' = items t ++ pieces.flatten ∧
      t'.instrument = t.instrument := by
  intro t item v
  induction t, item, v using addChord.induct with
  | case1 t v its ih =>
    intro t' h
    rw [addChord] at h
    rw [leaves.eq_1]
    exact foldlM_places its (F64.mul v 2) (fun t c hc t' h' => ih t c hc t' h') t t' h
  | case2 t v sh _ =>
    intro t' h
    obtain ⟨ps, hp, he, hi⟩ := leaf_places t t' (.chord sh) v (by intro items; simp) h
    exact ⟨[ps], by simp only [leaves]; exact List.Forall₂.cons hp List.Forall₂.nil, by simpa using he, hi⟩
  | case3 t v leaf hng hnc =>
    intro t' h
    cases leaf with
    | group items => exact absurd rfl (hng items)
    | chord sh => exact absurd rfl (hnc sh)
    | rest =>
      obtain ⟨ps, hp, he, hi⟩ := leaf_places t t' .rest v (by intro items; simp) h
      exact ⟨[ps], by simp only [leaves]; exact List.Forall₂.cons hp List.Forall₂.nil, by simpa using he, hi⟩

/-- **`from_chords(chords, duration)`**: every chord and every rest of the nested list is placed, in order -/
theorem fromChords_places (t : Track) (its : List ChordItem) (v : Rat) (t' : Track) (h : fromChords t its v = .ok t') :
    ∃ pieces, List.Forall₂ PieceOf (its.flatMap fun c => leaves c v) pieces ∧ items t' = items t ++ pieces.flatten ∧
      t'.instrument = t.instrument := by
  unfold fromChords at h
  exact foldlM_places its v (fun t c _ t' h' => addChord_places t c v t' h') t t' h

/-! ### the statement is about something (kernel): a chord placed whole, and a chord split across the bar line -/
example : (addChord {} (.chord (lit "C")) 2).toOption.map (fun t => (items t).map (·.1)) = some [2] := by
  rw [addChord]; decide +kernel

example : (addChord { bars := [(({} : Bar).place none 2).2] } (.chord (lit "Am")) 1).toOption.map
    (fun t => ((items t).map (·.1), t.bars.length)) = some ([2, 2, 2], 2) := by
  rw [addChord]; decide +kernel

end Mingus.Props.C14
