import Mingus.Lemmas.Intervals
import Mingus.Model.Note
import Mingus.Props.C01
import Mathlib.Tactic.IntervalCases
/-
  C10 — a Note is a totally ordered pitch number with lossless text forms (the Hz clauses are in C10Hz.lean).
  All theorems quantify over every valid name (any accidentals) and every octave.
-/
namespace Mingus.Props.C10
open Mingus Mingus.Notes Mingus.Containers Mingus.Containers.Note

/-! ### string helpers -/
theorem valid_no_dash (x : Str) (h : valid x = true) : '-' ∉ x := by
  cases x with
  | nil => simp [valid] at h
  | cons l t =>
    simp only [valid, Bool.and_eq_true, List.all_eq_true] at h
    intro hm
    simp at hm
    rcases hm with e | e
    · have := h.1; rw [← e] at this; revert this; decide
    · have := h.2 _ e; revert this; decide

theorem splitOn_no_sep (sep : Char) (x : Str) (h : sep ∉ x) : splitOn sep x = [x] := by
  induction x with
  | nil => rfl
  | cons c t ih =>
    have hc : c ≠ sep := fun e => h (by simp [e])
    have ht : sep ∉ t := fun e => h (by simp [e])
    simp [splitOn, hc, ih ht]

theorem splitOn_one_sep (sep : Char) (x y : Str) (hx : sep ∉ x) (hy : sep ∉ y) :
    splitOn sep (x ++ sep :: y) = [x, y] := by
  induction x with
  | nil => simp [splitOn, splitOn_no_sep sep y hy]
  | cons c t ih =>
    have hc : c ≠ sep := fun e => hx (by simp [e])
    have ht : sep ∉ t := fun e => hx (by simp [e])
    simp [splitOn, hc, ih ht]

/-! ### decimal text of the octave -/
theorem digit_char : ∀ d, d < 10 → (Char.ofNat (48 + d)).isDigit = true ∧ (Char.ofNat (48 + d)).toNat - '0'.toNat = d ∧
    Char.ofNat (48 + d) ≠ '-' := by decide

def parseFold (x : Str) : Int := x.foldl (fun acc c => acc * 10 + (c.toNat - '0'.toNat : Nat)) (0 : Int)

theorem digitsF_spec (f n : Nat) (hf : n < f) :
    (digitsF f n).all Char.isDigit = true ∧ digitsF f n ≠ [] ∧ parseFold (digitsF f n) = n ∧ '-' ∉ digitsF f n := by
  induction f generalizing n with
  | zero => omega
  | succ f ih =>
    simp only [digitsF]
    by_cases h : n < 10
    · simp only [h, if_true]
      obtain ⟨h1, h2, h3⟩ := digit_char n h
      refine ⟨by simp [h1], by simp, ?_, by simp; exact fun e => h3 e.symm⟩
      simp only [parseFold, List.foldl_cons, List.foldl_nil]; omega
    · simp only [h, if_false]
      obtain ⟨i1, i2, i3, i4⟩ := ih (n / 10) (by omega)
      obtain ⟨h1, h2, h3⟩ := digit_char (n % 10) (by omega)
      refine ⟨by simp [List.all_append, i1, h1], by simp, ?_, ?_⟩
      · simp only [parseFold, List.foldl_append, List.foldl_cons, List.foldl_nil] at i3 ⊢
        rw [i3]; omega
      · simp only [List.mem_append, List.mem_singleton, not_or]
        exact ⟨i4, fun e => h3 e.symm⟩

theorem parse_show (n : Nat) : parseNat? (showNat n) = some (n : Int) := by
  obtain ⟨h1, h2, h3, _⟩ := digitsF_spec (n + 1) n (by omega)
  simp only [parseNat?, showNat, h2, h1, false_or, Bool.not_true, Bool.false_eq_true, if_false]
  exact congrArg some h3

/-! ### integer value -/
/-- creating a note from a valid name keeps name and octave; its integer is 12·octave + natural + sharps − flats -/
theorem int_spec (l : Char) (t : Str) (hv : valid (l :: t) = true) (o : Int) (v : Int) (hl : natural? l = some v) :
    ∃ n, Note.new (l :: t) o none none = .ok n ∧ n.name = l :: t ∧ n.octave = o ∧ n.channel = 1 ∧ n.velocity = 64 ∧
      n.toInt = .ok (12 * o + v + (t.count '#' : Int) - (t.count 'b' : Int)) := by
  have hs := splitOn_no_sep '-' (l :: t) (valid_no_dash _ hv)
  have hvv : isValidNote (l :: t) = .ok true := by
    simp only [valid] at hv; simp [isValidNote, hv]
  refine ⟨{ name := l :: t, octave := o }, ?_, rfl, rfl, rfl, rfl, ?_⟩
  · simp [Note.new, setNote, hs, hvv, bind, Except.bind, pure, Except.pure]
  · have : noteToInt [l] = .ok v := by
      have hr := natural_range hl
      simp [noteToInt, hl]; omega
    simp only [toInt, this, bind, Except.bind, pure, Except.pure, accVal_count]
    congr 1; omega

def pitchPart : Str → Option Int
  | [] => none
  | l :: t => match noteToInt [l] with
    | .ok b => some (b + accVal t)
    | .error _ => none

theorem toInt_of_pitchPart (n : Note) (p : Int) (h : pitchPart n.name = some p) : n.toInt = .ok (n.octave * 12 + p) := by
  unfold pitchPart at h
  unfold toInt
  split at h
  · cases h
  · rename_i l t hn
    rw [hn]
    cases hb : noteToInt [l] with
    | error e => simp [hb] at h
    | ok b =>
      simp only [hb, Option.some.injEq] at h
      simp only [hb, bind, Except.bind, pure, Except.pure]
      rw [← h]; congr 1; omega

theorem sharp_names : ∀ r ∈ List.range 12,
    intToNote (r : Int) ['#'] = .ok (ns.getD r []) ∧ pitchPart (ns.getD r []) = some (r : Int) := by decide +kernel

/-- setting a note from an integer reproduces that integer (every integer, negative ones included) -/
theorem fromInt_roundtrip (n0 : Note) (i : Int) : ∃ n, fromInt n0 i = .ok n ∧ n.toInt = .ok i := by
  have hr : 0 ≤ i % 12 ∧ i % 12 < 12 := by omega
  obtain ⟨h1, h2⟩ := sharp_names (i % 12).toNat (List.mem_range.2 (by omega))
  have hcast : (((i % 12).toNat : Nat) : Int) = i % 12 := by omega
  rw [hcast] at h1 h2
  refine ⟨{ n0 with name := ns.getD (i % 12).toNat [], octave := i / 12 },
    by simp [fromInt, h1, bind, Except.bind, pure, Except.pure], ?_⟩
  rw [toInt_of_pitchPart _ _ h2]
  simp only
  congr 1; omega

/-- the 'Name-octave' text form and the printed form read back as the same name and octave (octave ≥ 0) -/
theorem text_roundtrip (l : Char) (t : Str) (hv : valid (l :: t) = true) (o : Nat) (junk : Int) :
    ∃ n, Note.new ((l :: t) ++ '-' :: showNat o) junk none none = .ok n ∧ n.name = l :: t ∧ n.octave = o := by
  obtain ⟨_, _, _, hnd⟩ := digitsF_spec (o + 1) o (by omega)
  have hs := splitOn_one_sep '-' (l :: t) (showNat o) (valid_no_dash _ hv) hnd
  have hvv : isValidNote (l :: t) = .ok true := by
    simp only [valid] at hv; simp [isValidNote, hv]
  simp only [List.cons_append] at hs
  refine ⟨{ name := l :: t, octave := o }, ?_, rfl, rfl⟩
  simp [Note.new, setNote, hs, hvv, parse_show, bind, Except.bind, pure, Except.pure]

theorem repr_form (n : Note) (h : 0 ≤ n.octave) :
    n.repr = ['\''] ++ (n.name ++ '-' :: showNat n.octave.toNat) ++ ['\''] := by
  have : ¬ n.octave < 0 := by omega
  simp [Note.repr, showInt, this]

/-! ### comparisons -/
theorem comparisons (a b : Note) (x y : Int) (ha : a.toInt = .ok x) (hb : b.toInt = .ok y) :
    lt a b = .ok (decide (x < y)) ∧ le a b = .ok (decide (x ≤ y)) ∧ eq a b = .ok (decide (x = y)) ∧
    ne a b = .ok (decide (x ≠ y)) ∧ ge a b = .ok (decide (x ≥ y)) ∧ gt a b = .ok (decide (x > y)) := by
  have hlt : lt a b = .ok (decide (x < y)) := by simp [lt, ha, hb, bind, Except.bind, pure, Except.pure]
  have heq : eq a b = .ok (decide (x = y)) := by simp [eq, ha, hb, bind, Except.bind, pure, Except.pure]
  refine ⟨hlt, ?_, heq, ?_, ?_, ?_⟩
  · simp only [le, hlt, heq, bind, Except.bind, pure, Except.pure]
    by_cases h : x < y <;> by_cases h2 : x = y <;> simp [h, h2] <;> omega
  · simp [ne, heq, bind, Except.bind, pure, Except.pure]
  · simp only [ge, hlt, bind, Except.bind, pure, Except.pure]
    by_cases h : x < y <;> simp [h] <;> omega
  · simp only [gt, hlt, heq, bind, Except.bind, pure, Except.pure]
    by_cases h : x < y <;> by_cases h2 : x = y <;> simp [h, h2] <;> omega

/-! ### velocity / channel bounds, malformed names, copy, octave floor -/
theorem velocity_bound (nm : Str) (o v : Int) (c : Option Int) (h : v < 0 ∨ v > 127) :
    Note.new nm o (some v) c = .error .value := by
  have : ¬ (0 ≤ v ∧ v < 128) := by omega
  simp [Note.new, setNote, setVelocity, this, bind, Except.bind]

theorem channel_bound (nm : Str) (o ch : Int) (h : ch < 0 ∨ ch > 15) : Note.new nm o none (some ch) = .error .value := by
  have : ¬ (0 ≤ ch ∧ ch < 16) := by omega
  simp [Note.new, setNote, setChannel, this, bind, Except.bind, pure, Except.pure]

theorem malformed_name (nm : Str) (o : Int) (hne : nm ≠ []) (hd : '-' ∉ nm) (hv : valid nm = false) :
    Note.new nm o none none = .error .noteFormat := by
  have hs := splitOn_no_sep '-' nm hd
  cases nm with
  | nil => exact absurd rfl hne
  | cons l t =>
    have : isValidNote (l :: t) = .ok false := by simp only [valid] at hv; simp [isValidNote, hv]
    simp [Note.new, setNote, hs, this, bind, Except.bind, pure, Except.pure, throw, throwThe, MonadExceptOf.throw]

theorem copy_same (l : Char) (t : Str) (hv : valid (l :: t) = true) (o ch v : Int)
    (hc : 0 ≤ ch ∧ ch < 16) (hvel : 0 ≤ v ∧ v < 128) :
    Note.copy ⟨l :: t, o, ch, v⟩ = .ok ⟨l :: t, o, ch, v⟩ := by
  have hs := splitOn_no_sep '-' (l :: t) (valid_no_dash _ hv)
  have hvv : isValidNote (l :: t) = .ok true := by
    simp only [valid] at hv; simp [isValidNote, hv]
  simp [Note.copy, setNote, setVelocity, setChannel, hc, hvel, hs, hvv, bind, Except.bind, pure, Except.pure]

theorem change_octave_nonneg (n : Note) (d : Int) : 0 ≤ (n.changeOctave d).octave ∧
    (0 ≤ n.octave + d → (n.changeOctave d).octave = n.octave + d) := by
  simp only [changeOctave]; split <;> constructor <;> intros <;> omega

/-! ### Helmholtz shorthand -/
theorem go_accs (t rest name : Str) (oct : Int) (ht : t.all isAcc = true) (hn : name ≠ []) :
    fromShorthandGo (t ++ rest) name oct = fromShorthandGo rest (name ++ t) oct := by
  induction t generalizing name with
  | nil => simp
  | cons c r ih =>
    simp only [List.all_cons, Bool.and_eq_true] at ht
    have hc : c = '#' ∨ c = 'b' := by
      have := ht.1; simp [isAcc] at this; rcases this with e | e <;> simp [e]
    have hne : name ++ [c] ≠ [] := by simp
    rcases hc with e | e <;> subst e
    · have h1 : ¬ (('#' : Char) = 'b' ∧ name ≠ []) := by simp
      have h2 : ¬ (('#' : Char).isLower = true ∧ 'a' ≤ '#' ∧ '#' ≤ 'g') := by decide
      have h3 : ¬ ('A' ≤ ('#' : Char) ∧ '#' ≤ 'G') := by decide
      simp only [List.cons_append, fromShorthandGo, h1, h2, h3, if_false, true_or, if_true]
      rw [ih _ ht.2 hne]; simp
    · simp only [List.cons_append, fromShorthandGo, hn, ne_eq, not_false_eq_true, and_self, if_true]
      rw [ih _ ht.2 hne]; simp

theorem go_commas (k : Nat) (name : Str) (oct : Int) :
    fromShorthandGo (List.replicate k ',') name oct = (name, oct - k) := by
  induction k generalizing oct with
  | zero => simp [fromShorthandGo]
  | succ k ih =>
    have h1 : ¬ ((',' : Char) = 'b' ∧ name ≠ []) := by simp
    have h2 : ¬ ((',' : Char).isLower = true ∧ 'a' ≤ ',' ∧ ',' ≤ 'g') := by decide
    have h3 : ¬ ('A' ≤ (',' : Char) ∧ ',' ≤ 'G') := by decide
    have h4 : ¬ ((',' : Char) = '#' ∨ (',' : Char) = 'b') := by decide
    simp only [List.replicate_succ, fromShorthandGo, h1, h2, h3, h4, if_false, if_true]
    rw [ih]; congr 1; omega

theorem go_quotes (k : Nat) (name : Str) (oct : Int) :
    fromShorthandGo (List.replicate k '\'') name oct = (name, oct + k) := by
  induction k generalizing oct with
  | zero => simp [fromShorthandGo]
  | succ k ih =>
    have h1 : ¬ (('\'' : Char) = 'b' ∧ name ≠ []) := by simp
    have h2 : ¬ (('\'' : Char).isLower = true ∧ 'a' ≤ '\'' ∧ '\'' ≤ 'g') := by decide
    have h3 : ¬ ('A' ≤ ('\'' : Char) ∧ '\'' ≤ 'G') := by decide
    have h4 : ¬ (('\'' : Char) = '#' ∨ ('\'' : Char) = 'b') := by decide
    have h5 : ¬ (('\'' : Char) = ',') := by decide
    simp only [List.replicate_succ, fromShorthandGo, h1, h2, h3, h4, h5, if_false, if_true]
    rw [ih]; congr 1; omega

theorem lower_accs (t : Str) (ht : t.all isAcc = true) : t.map Char.toLower = t := by
  induction t with
  | nil => rfl
  | cons c r ih =>
    simp only [List.all_cons, Bool.and_eq_true] at ht
    have hc : c = '#' ∨ c = 'b' := by
      have := ht.1; simp [isAcc] at this; rcases this with e | e <;> simp [e]
    rcases hc with e | e <;> subst e <;> simp [ih ht.2] <;> decide

theorem go_first (l : Char) (hl : isLetter l = true) (rest : Str) :
    fromShorthandGo (l :: rest) [] 0 = fromShorthandGo rest [l] 2 ∧
    fromShorthandGo (l.toLower :: rest) [] 0 = fromShorthandGo rest [l] 3 := by
  rcases letter_cases hl with e | e | e | e | e | e | e <;> subst e <;> constructor <;>
    simp [fromShorthandGo] <;> decide

/-- Helmholtz shorthand written for any valid name (sharps or flats, any number) and any octave ≥ 0 reads back as the
    same name and octave -/
theorem helmholtz_roundtrip (l : Char) (t : Str) (hv : valid (l :: t) = true) (o : Int) (ho : 0 ≤ o) (ch v : Int) (n0 : Note) :
    fromShorthand n0 (toShorthand ⟨l :: t, o, ch, v⟩) = .ok { n0 with name := l :: t, octave := o } := by
  have hl : isLetter l = true := by simp only [valid, Bool.and_eq_true] at hv; exact hv.1
  have ht : t.all isAcc = true := by simp only [valid, Bool.and_eq_true] at hv; exact hv.2
  have hs := splitOn_no_sep '-' (l :: t) (valid_no_dash _ hv)
  have hvv : isValidNote (l :: t) = .ok true := by
    simp only [valid] at hv; simp [isValidNote, hv]
  have fin : ∀ oct', oct' = o → setNote n0 (l :: t) oct' none none = .ok { n0 with name := l :: t, octave := o } := by
    intro oct' e; subst e
    simp [setNote, hs, hvv, bind, Except.bind, pure, Except.pure]
  unfold fromShorthand toShorthand
  simp only
  by_cases h3 : o < 3
  · simp only [h3, if_true]
    by_cases h1 : o - 3 < -1
    · have h0 : ¬ (o - 3 > 0) := by omega
      simp only [h1, if_true, List.cons_append]
      rw [(go_first l hl _).1, go_accs t _ [l] 2 ht (by simp), go_commas]
      exact fin _ (by simp; omega)
    · have h0 : ¬ (o - 3 > 0) := by omega
      simp only [h1, h0, if_false]
      rw [(go_first l hl _).1]
      have := go_accs t [] [l] 2 ht (by simp)
      simp only [List.append_nil] at this
      rw [this]
      simp only [fromShorthandGo]
      exact fin _ (by omega)
  · simp only [h3, if_false, List.map_cons, lower_accs t ht]
    have h1 : ¬ (o - 3 < -1) := by omega
    by_cases h0 : o - 3 > 0
    · simp only [h1, h0, if_false, if_true, List.cons_append]
      rw [(go_first l hl _).2, go_accs t _ [l] 3 ht (by simp), go_quotes]
      exact fin _ (by simp; omega)
    · simp only [h1, h0, if_false]
      rw [(go_first l hl _).2]
      have := go_accs t [] [l] 3 ht (by simp)
      simp only [List.append_nil] at this
      rw [this]
      simp only [fromShorthandGo]
      exact fin _ (by omega)

/-- non-vacuity -/
example : Note.new (lit "C#b#") 5 none none = .ok ⟨lit "C#b#", 5, 1, 64⟩ := by decide +kernel
example : (Note.mk (lit "Cb") 4 1 64).toShorthand = lit "cb'" ∧
    Note.fromShorthand ⟨lit "C", 4, 1, 64⟩ (lit "cb'") = .ok ⟨lit "Cb", 4, 1, 64⟩ := by decide +kernel
example : Note.new (lit "Bb-12") 0 none none = .ok ⟨lit "Bb", 12, 1, 64⟩ := by decide +kernel

end Mingus.Props.C10
