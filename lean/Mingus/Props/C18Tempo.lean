import Mingus.Props.C18Tracks
/-
  C18 — the parallel scheduler inside its working domain, WITH tempo-changing containers.

  The same domain as C18Par (bars that sound together with one common rhythm, filling their meter exactly in the scheduler's
  own float arithmetic), but any entry may carry a tempo.  The scheduler takes over the tempo of every entry it starts, in bar
  order, so after step `i` the tempo is that of the LAST bar whose `i`-th entry carries one (`stepBpm`), and it stays in force
  until the next change (`bpmBefore`).  `playBars_equal_rhythm_tempo`: the trace is, step by step, the note-ons of every bar's
  entry, ONE sleep of the step's length AT THE TEMPO IN FORCE AFTER THAT STEP'S ENTRIES WERE STARTED, the matching note-offs;
  the tempo returned is the one in force at the end.  Any number of bars, entries and tempo changes (no tempo may be 0: the
  code divides by it).  `EqualRhythm` with all tempos absent is the special case of C18Par.
-/
namespace Mingus.Props.C18
open Mingus Mingus.Seq Mingus.Containers

/-- as `EqualRhythm`, but entries may carry a tempo -/
structure EqualRhythmT (bars : List SBar) (chans : List Int) (rh : List (Rat × Rat)) : Prop where
  nonempty : bars ≠ []
  chans_len : bars.length ≤ chans.length
  rhythm : ∀ b ∈ bars, b.entries.map (fun e => (e.start, e.value)) = rh
  notes : ∀ b ∈ bars, ∀ e ∈ b.entries, ∀ n ∈ ncNotes e.content, okN n
  values : ∀ p ∈ rh, p.2 ≠ 0

/-- the tempo after the entries of step `i` have been started: the last bar whose entry carries one wins -/
def stepBpm (bars : List SBar) (bpm : Int) (i : Nat) : Int :=
  (List.range bars.length).foldl (fun b n => ((entryAt bars n i).bpm).getD b) bpm

/-- the tempo in force when step `i` begins -/
def bpmBefore (bars : List SBar) (bpm : Int) : Nat → Int
  | 0 => bpm
  | i + 1 => stepBpm bars (bpmBefore bars bpm i) i

theorem entries_lengthT {bars chans rh} (h : EqualRhythmT bars chans rh) (b : SBar) (hb : b ∈ bars) : b.entries.length = rh.length := by
  have := congrArg List.length (h.rhythm b hb); simpa using this

theorem entryAt_specT {bars chans rh} (h : EqualRhythmT bars chans rh) (n x : Nat) (hn : n < bars.length) (hx : x < rh.length) :
    ∃ b, bars[n]? = some b ∧ b ∈ bars ∧ b.entries[x]? = some (entryAt bars n x) ∧
      ((entryAt bars n x).start, (entryAt bars n x).value) = rh.getD x (0, 1) ∧ entryAt bars n x ∈ b.entries := by
  have hb : bars[n]? = some bars[n] := List.getElem?_eq_getElem hn
  have hmem : bars[n] ∈ bars := List.getElem_mem hn
  have hl := entries_lengthT h bars[n] hmem
  have hx' : x < bars[n].entries.length := by omega
  have he : bars[n].entries[x]? = some bars[n].entries[x] := List.getElem?_eq_getElem hx'
  have hat : entryAt bars n x = bars[n].entries[x] := by
    simp [entryAt, List.getD_eq_getElem?_getD, hb, he]
  refine ⟨bars[n], hb, hmem, by rw [hat]; exact he, ?_, by rw [hat]; exact List.getElem_mem hx'⟩
  have := congrArg (fun l => l.getD x (0, 1)) (h.rhythm bars[n] hmem)
  simp only [List.getD_eq_getElem?_getD, List.getElem?_map, he, Option.map_some, Option.getD_some] at this
  rw [hat]; simpa [List.getD_eq_getElem?_getD] using this

/-- starting everything that is due, taking over the tempo of every entry that carries one -/
theorem startDue_all_tempo (bars : List SBar) (chans : List Int) (tick : Rat) (ps : List (Nat × Nat)) :
    ∀ (st : St) (bpm : Int) (pn : List (Rat × Nat)) (pl : List Playing), WF st →
      (∀ p ∈ ps, ∃ b ch, bars[p.1]? = some b ∧ b.entries[p.2]? = some (entryAt bars p.1 p.2) ∧
        (entryAt bars p.1 p.2).start ≤ tick ∧ chans[p.1]? = some ch ∧
        ∀ n ∈ ncNotes (entryAt bars p.1 p.2).content, okN n) →
      ∃ st', startDue bars chans tick ps (st, bpm, pn, pl) =
          .ok (st', ps.foldl (fun b p => ((entryAt bars p.1 p.2).bpm).getD b) bpm,
               pn ++ ps.map (fun p => ((entryAt bars p.1 p.2).value, p.1)), pl ++ ps.map (playingOf bars chans)) ∧
        Ext st st' (ps.flatMap fun p => (ncNotes (entryAt bars p.1 p.2).content).map onE) := by
  induction ps with
  | nil => intro st bpm pn pl _ _; exact ⟨st, by simp [startDue, pure, Except.pure], by simpa using Ext.refl st⟩
  | cons p ps ih =>
    intro st bpm pn pl hw h
    obtain ⟨n, x⟩ := p
    obtain ⟨b, ch, hb, he, hs, hc, hok⟩ := h (n, x) (by simp)
    obtain ⟨s1, e1, x1⟩ := playNC_spec st (entryAt bars n x).content hok hw
    obtain ⟨s2, e2, x2⟩ := ih s1 (((entryAt bars n x).bpm).getD bpm) (pn ++ [((entryAt bars n x).value, n)])
      (pl ++ [⟨(entryAt bars n x).value, (entryAt bars n x).content, ch, n⟩]) (x1.wf hw) (fun q hq => h q (by simp [hq]))
    refine ⟨s2, ?_, ?_⟩
    · have hc' : chans[n]? = some ch := hc
      cases hbp : (entryAt bars n x).bpm with
      | none =>
        simp only [hbp, Option.getD_none] at e2
        simp only [startDue, hb, he, hs, if_true, hc, bind, Except.bind, e1, hbp]
        rw [e2]
        simp [playingOf, List.getD_eq_getElem?_getD, hc', List.append_assoc, hbp]
      | some v =>
        simp only [hbp, Option.getD_some] at e2
        simp only [startDue, hb, he, hs, if_true, hc, bind, Except.bind, e1, hbp]
        rw [e2]
        simp [playingOf, List.getD_eq_getElem?_getD, hc', List.append_assoc, hbp]
    · simpa using Ext.trans x1 x2

theorem loop_equal_rhythm_tempo {bars : List SBar} {chans : List Int} {rh : List (Rat × Rat)} (h : EqualRhythmT bars chans rh)
    (bpm : Int) (hnz : ∀ i, bpmBefore bars bpm i ≠ 0) (len0 : Rat)
    (hdue : ∀ i, i < rh.length → (rh.getD i (0, 1)).1 ≤ tickAt rh i ∧ tickAt rh i < len0)
    (hfull : ¬ (tickAt rh rh.length < len0)) :
    ∀ (m i : Nat), i + m = rh.length → ∀ (fuel : Nat), m < fuel → ∀ (st : St) (cur : List Nat), WF st →
      (i < rh.length → cur = List.replicate bars.length i) →
      ∃ st', barsLoop bars chans len0 fuel st (bpmBefore bars bpm i) (tickAt rh i) cur [] = .ok (st', some (bpmBefore bars bpm rh.length), []) ∧
        Ext st st' ((List.range m).flatMap fun j => colTrace bars (bpmBefore bars bpm (i + j + 1)) (rh.getD (i + j) (0, 1)).2 (i + j)) := by
  intro m
  induction m with
  | zero =>
    intro i hi fuel hf st cur hw _
    have : i = rh.length := by omega
    subst this
    cases fuel with
    | zero => omega
    | succ f =>
      refine ⟨st, ?_, by simpa using Ext.refl st⟩
      simp only [barsLoop, hfull, not_false_eq_true, if_true, pure, Except.pure]
  | succ m ih =>
    intro i hi fuel hf st cur hw hcur
    have hilt : i < rh.length := by omega
    have hc := hcur hilt
    subst hc
    cases fuel with
    | zero => omega
    | succ f =>
      obtain ⟨hd1, hd2⟩ := hdue i hilt
      have hk : 0 < bars.length := List.length_pos_iff.2 h.nonempty
      -- everything is due
      have hps : ∀ p ∈ (List.range bars.length).map (fun n => (n, i)), ∃ b ch, bars[p.1]? = some b ∧
          b.entries[p.2]? = some (entryAt bars p.1 p.2) ∧ (entryAt bars p.1 p.2).start ≤ tickAt rh i ∧ chans[p.1]? = some ch ∧
          ∀ n ∈ ncNotes (entryAt bars p.1 p.2).content, okN n := by
        intro p hp
        obtain ⟨n, hn, rfl⟩ := List.mem_map.1 hp
        have hn' : n < bars.length := by simpa using hn
        obtain ⟨b, hb, hbm, he, hrh, hmem⟩ := entryAt_specT h n i hn' hilt
        have hch : n < chans.length := Nat.lt_of_lt_of_le hn' h.chans_len
        refine ⟨b, chans[n], hb, he, ?_, List.getElem?_eq_getElem hch, h.notes b hbm _ hmem⟩
        have : (entryAt bars n i).start = (rh.getD i (0, 1)).1 := by rw [← hrh]
        rw [this]; exact hd1
      obtain ⟨s1, e1, x1⟩ := startDue_all_tempo bars chans (tickAt rh i) _ st (bpmBefore bars bpm i) [] [] hw hps
      have hstep : ((List.range bars.length).map fun n => (n, i)).foldl (fun b p => ((entryAt bars p.1 p.2).bpm).getD b) (bpmBefore bars bpm i) =
          bpmBefore bars bpm (i + 1) := by
        rw [List.foldl_map]; rfl
      rw [hstep] at e1
      have hbpm : bpmBefore bars bpm (i + 1) ≠ 0 := hnz (i + 1)
      have hval : ∀ n, n < bars.length → (entryAt bars n i).value = (rh.getD i (0, 1)).2 := by
        intro n hn
        obtain ⟨b, hb, hbm, he, hrh, hmem⟩ := entryAt_specT h n i hn hilt
        rw [← hrh]
      set v := (rh.getD i (0, 1)).2 with hv
      have hvne : v ≠ 0 := by
        have hmem : rh.getD i (0, 1) ∈ rh := by
          rw [List.getD_eq_getElem?_getD, List.getElem?_eq_getElem hilt]; simp
        exact h.values _ hmem
      have hpn : ((List.range bars.length).map fun n => (n, i)).map (fun p => ((entryAt bars p.1 p.2).value, p.1)) ≠ [] := by
        simp; exact h.nonempty
      have hshort : maxLen ((([] : List (Rat × Nat)) ++ ((List.range bars.length).map fun n => (n, i)).map
          (fun p => ((entryAt bars p.1 p.2).value, p.1))).map (·.1)) = v := by
        apply maxLen_const
        · simp; exact h.nonempty
        · intro x hx
          simp only [List.nil_append, List.map_map, List.mem_map, List.mem_range, Function.comp] at hx
          obtain ⟨n, hn, rfl⟩ := hx
          exact hval n hn
      have hplay : ∀ p ∈ ([] : List Playing) ++ ((List.range bars.length).map fun n => (n, i)).map (playingOf bars chans),
          p.length = v ∧ ∀ n ∈ ncNotes p.nc, okN n := by
        intro p hp
        simp only [List.nil_append, List.map_map, List.mem_map, List.mem_range, Function.comp] at hp
        obtain ⟨n, hn, rfl⟩ := hp
        obtain ⟨b, hb, hbm, he, hrh, hmem⟩ := entryAt_specT h n i hn hilt
        exact ⟨hval n hn, h.notes b hbm _ hmem⟩
      have x2 := emit_ext s1 (.sleep (F64.mul (F64.div 60 (bpmBefore bars bpm (i + 1))) (F64.div 4 v))) (x1.wf hw)
      obtain ⟨s3, e3, x3⟩ := settle_all bars v _ (emit s1 (.sleep (F64.mul (F64.div 60 (bpmBefore bars bpm (i + 1))) (F64.div 4 v))))
        (List.replicate bars.length i) [] (x2.wf (x1.wf hw)) hplay
      have hlen : ∀ b ∈ bars, b.entries.length = rh.length := fun b hb => entries_lengthT h b hb
      have hcur' : (([] : List Playing) ++ ((List.range bars.length).map fun n => (n, i)).map (playingOf bars chans)).foldl
          (fun c p => bump bars c p.n) (List.replicate bars.length i) =
          List.replicate bars.length (if i + 1 < rh.length then i + 1 else i) := by
        rw [List.nil_append, List.map_map, List.foldl_map]
        exact bump_all bars rh.length i hlen
      rw [hcur'] at e3
      obtain ⟨s4, e4, x4⟩ := ih (i + 1) (by omega) f (by omega) s3
        (List.replicate bars.length (if i + 1 < rh.length then i + 1 else i)) (x3.wf (x2.wf (x1.wf hw)))
        (by intro hlt; rw [if_pos hlt])
      refine ⟨s4, ?_, ?_⟩
      · simp only [barsLoop, hd2, not_true_eq_false, if_false, bind, Except.bind]
        rw [zip_range_replicate, e1]
        dsimp only
        rw [if_neg hbpm]
        have hnn : ¬ (([] : List (Rat × Nat)) ++ ((List.range bars.length).map fun n => (n, i)).map
            (fun p => ((entryAt bars p.1 p.2).value, p.1)) = [] ∧
            ([] : List Playing) ++ ((List.range bars.length).map fun n => (n, i)).map (playingOf bars chans) = []) := by
          intro hh; exact hpn (by simpa using hh.1)
        simp only [hnn, if_false]
        have hne2 : ([] : List (Rat × Nat)) ++ ((List.range bars.length).map fun n => (n, i)).map
            (fun p => ((entryAt bars p.1 p.2).value, p.1)) ≠ [] := by simpa using hpn
        simp only [hne2, ne_eq, not_false_eq_true, if_true, pure, Except.pure, hshort, hvne, if_false, e3]
        have ht : F64.add (tickAt rh i) (F64.div 1 v) = tickAt rh (i + 1) := rfl
        rw [ht]
        exact e4
      · have total := ((x1.trans x2).trans x3).trans x4
        have hon : (((List.range bars.length).map fun n => (n, i)).flatMap fun p => (ncNotes (entryAt bars p.1 p.2).content).map onE) =
            (List.range bars.length).flatMap fun n => (ncNotes (entryAt bars n i).content).map onE := by
          rw [List.flatMap_map]
        have hoff : ((([] : List Playing) ++ ((List.range bars.length).map fun n => (n, i)).map (playingOf bars chans)).flatMap
            fun p => (ncNotes p.nc).map offE) =
            (List.range bars.length).flatMap fun n => (ncNotes (entryAt bars n i).content).map offE := by
          rw [List.nil_append, List.map_map, List.flatMap_map]; rfl
        rw [hon, hoff] at total
        have hgoal : ((List.range (m + 1)).flatMap fun j => colTrace bars (bpmBefore bars bpm (i + j + 1)) (rh.getD (i + j) (0, 1)).2 (i + j)) =
            colTrace bars (bpmBefore bars bpm (i + 1)) v i ++
              (List.range m).flatMap fun j => colTrace bars (bpmBefore bars bpm (i + 1 + j + 1)) (rh.getD (i + 1 + j) (0, 1)).2 (i + 1 + j) := by
          rw [List.range_succ_eq_map, List.flatMap_cons, List.flatMap_map]
          simp only [Nat.add_zero]
          congr 1
          simp only [List.flatMap_def]
          congr 1
          apply List.map_congr_left
          intro j _
          have : i + (j + 1) = i + 1 + j := by omega
          simp only [Function.comp, Nat.succ_eq_add_one, this]
        rw [hgoal]
        simpa [colTrace, List.append_assoc] using total


theorem playBars_equal_rhythm_tempo {bars : List SBar} {chans : List Int} {rh : List (Rat × Rat)} (h : EqualRhythmT bars chans rh)
    (st : St) (hw : WF st) (bpm : Int) (hnz : ∀ i, bpmBefore bars bpm i ≠ 0)
    (hdue : ∀ i, i < rh.length → (rh.getD i (0, 1)).1 ≤ tickAt rh i ∧ tickAt rh i < (bars.headD default).length)
    (hfull : ¬ (tickAt rh rh.length < (bars.headD default).length)) :
    ∃ st', playBars st bars chans bpm = .ok (st', some (bpmBefore bars bpm rh.length)) ∧
      Ext st st' ((List.range rh.length).flatMap fun j => colTrace bars (bpmBefore bars bpm (j + 1)) (rh.getD j (0, 1)).2 j) := by
  cases hb : bars with
  | nil => exact absurd hb h.nonempty
  | cons b0 bs =>
    have x0 := notifyHigh_ext st
    have hmap : (bars.map fun _ => 0) = List.replicate bars.length 0 := by
      clear hdue hfull h
      induction bars with
      | nil => rfl
      | cons a as ih => simp [List.replicate_succ, ih]
    have hfuel : rh.length < 4 * (bars.foldl (fun a b => a + b.entries.length) 0) + 64 := by
      have h1 : b0.entries.length = rh.length := entries_lengthT h b0 (by rw [hb]; simp)
      have h2 : b0.entries.length ≤ bars.foldl (fun a b => a + b.entries.length) 0 := by
        rw [hb]; simp only [List.foldl_cons, Nat.zero_add]; exact foldl_sum_ge bs _
      omega
    have hhead : (bars.headD default).length = b0.length := by rw [hb]; rfl
    rw [hhead] at hdue hfull
    have hbpm : bpm ≠ 0 := hnz 0
    obtain ⟨s1, e1, x1⟩ := loop_equal_rhythm_tempo h bpm hnz b0.length hdue hfull rh.length 0 (by omega) _ hfuel (notifyHigh st)
      (List.replicate bars.length 0) (x0.wf hw) (fun _ => rfl)
    refine ⟨s1, ?_, ?_⟩
    · rw [← hb]
      unfold playBars
      rw [hb]
      simp only [hbpm, if_false, bind, Except.bind]
      rw [← hb, hmap]
      have e1' := e1
      simp only [tickAt, bpmBefore] at e1'
      rw [e1']
      simp [finalLoop, pure, Except.pure]
    · have := x0.trans x1
      rw [← hb]
      simpa using this


/-- all tempos absent: the tempo never changes (C18Par's case) -/
theorem bpmBefore_plain (bars : List SBar) (bpm : Int) (h : ∀ n i, (entryAt bars n i).bpm = none) : ∀ i, bpmBefore bars bpm i = bpm := by
  intro i
  induction i with
  | zero => rfl
  | succ i ih =>
    simp only [bpmBefore, stepBpm, ih]
    have : ∀ (l : List Nat) (b : Int), l.foldl (fun b n => ((entryAt bars n i).bpm).getD b) b = b := by
      intro l
      induction l with
      | nil => intro b; rfl
      | cons a as ih2 => intro b; simp only [List.foldl_cons, h a i, Option.getD_none]; exact ih2 b
    exact this _ _

/-- no tempo is zero: the side condition of the theorem holds -/
theorem bpmBefore_ne_zero (bars : List SBar) (bpm : Int) (hb : bpm ≠ 0) (h : ∀ n i, (entryAt bars n i).bpm ≠ some 0) :
    ∀ i, bpmBefore bars bpm i ≠ 0 := by
  intro i
  induction i with
  | zero => exact hb
  | succ i ih =>
    simp only [bpmBefore, stepBpm]
    have : ∀ (l : List Nat) (b : Int), b ≠ 0 → l.foldl (fun b n => ((entryAt bars n i).bpm).getD b) b ≠ 0 := by
      intro l
      induction l with
      | nil => intro b hb; simpa using hb
      | cons a as ih2 =>
        intro b hb
        simp only [List.foldl_cons]
        apply ih2
        cases hx : (entryAt bars a i).bpm with
        | none => simpa using hb
        | some v =>
          simp only [Option.getD_some]
          intro hv; subst hv; exact h a i hx
    exact this _ _ ih

/-- non-vacuity (kernel): two voices in 3/4; the second voice's middle entry sets tempo 60, the first voice's last entry 90:
    sleeps at 120, 60, 90 and 90 is returned -/
def t1 : SBar := ⟨3/4, [⟨0, 4, some [c4], none⟩, ⟨1/4, 4, none, none⟩, ⟨1/2, 4, some [c4], some 90⟩]⟩
def t2 : SBar := ⟨3/4, [⟨0, 4, some [e4], none⟩, ⟨1/4, 4, some [e4], some 60⟩, ⟨1/2, 4, some [], none⟩]⟩
example : (List.range 4).map (bpmBefore [t1, t2] 120) = [120, 120, 60, 90] ∧
    (playBars {} [t1, t2] [1, 2] 120).toOption.map (fun r => (r.1.hooks, r.2)) =
      some ((List.range 3).flatMap (fun j => colTrace [t1, t2] (bpmBefore [t1, t2] 120 (j + 1)) 4 j), some 90) := by
  decide +kernel

/-! ### tracks and compositions with tempo changes -/

structure GroupOKT (bars : List SBar) (chans : List Int) (rh : List (Rat × Rat)) : Prop where
  eq : EqualRhythmT bars chans rh
  due : ∀ i, i < rh.length → (rh.getD i (0, 1)).1 ≤ tickAt rh i ∧ tickAt rh i < (bars.headD default).length
  full : ¬ (tickAt rh rh.length < (bars.headD default).length)

/-- what one group sounds like when it starts at tempo `bpm` -/
def groupTraceT (bars : List SBar) (bpm : Int) (rh : List (Rat × Rat)) : List SEv :=
  (List.range rh.length).flatMap fun j => colTrace bars (bpmBefore bars bpm (j + 1)) (rh.getD j (0, 1)).2 j

/-- the tempo after the groups `idx` have been played, starting from `bpm` -/
def bpmAfter (tracks : List (Instr × List SBar)) (rhs : Nat → List (Rat × Rat)) : Int → List Nat → Int
  | b, [] => b
  | b, i :: is => bpmAfter tracks rhs (bpmBefore (groupAt tracks i) b (rhs i).length) is

/-- the events of the groups `idx`, every group starting at the tempo the one before it ended with -/
def tracesT (tracks : List (Instr × List SBar)) (rhs : Nat → List (Rat × Rat)) : Int → List Nat → List SEv
  | _, [] => []
  | b, i :: is => groupTraceT (groupAt tracks i) b (rhs i) ++ tracesT tracks rhs (bpmBefore (groupAt tracks i) b (rhs i).length) is

theorem groupsLoop_equal_tempo (tracks : List (Instr × List SBar)) (chans : List Int) (rhs : Nat → List (Rat × Rat))
    (hz : ∀ i n x, (entryAt (groupAt tracks i) n x).bpm ≠ some 0) (idx : List Nat) :
    (∀ i ∈ idx, (∀ t ∈ tracks, i < t.2.length) ∧ GroupOKT (groupAt tracks i) chans (rhs i)) →
    ∀ (bpm : Int), bpm ≠ 0 → ∀ (st : St), WF st →
      ∃ st', groupsLoop tracks chans idx st bpm = .ok (st', some (bpmAfter tracks rhs bpm idx)) ∧
        Ext st st' (tracesT tracks rhs bpm idx) := by
  induction idx with
  | nil => intro _ bpm _ st _; exact ⟨st, rfl, by simpa [tracesT] using Ext.refl st⟩
  | cons i is ih =>
    intro h bpm hbpm st hw
    obtain ⟨hlen, hok⟩ := h i (by simp)
    have hnz := bpmBefore_ne_zero (groupAt tracks i) bpm hbpm (hz i)
    obtain ⟨s1, e1, x1⟩ := playBars_equal_rhythm_tempo hok.eq st hw bpm hnz hok.due hok.full
    obtain ⟨s2, e2, x2⟩ := ih (fun j hj => h j (by simp [hj])) _ (hnz (rhs i).length) s1 (x1.wf hw)
    refine ⟨s2, ?_, ?_⟩
    · have hm := mapM_bars tracks i hlen
      simp only [groupsLoop, bind, Except.bind]
      split
      · rename_i err heq
        have := heq.symm.trans hm
        cases this
      · rename_i v heq
        have hv : v = groupAt tracks i := by
          have := heq.symm.trans hm
          simpa using this
        subst hv
        simp only [e1]
        exact e2
    · simpa [tracesT, groupTraceT] using x1.trans x2

/-- **play_Tracks inside the working domain, with tempo changes**: one instrument announcement per track, then group after
    group the column traces, every sleep at the tempo in force at that moment; the tempo in force at the end is returned -/
theorem playTracks_equal_rhythm_tempo (st : St) (hw : WF st) (t0 : Instr × List SBar) (ts : List (Instr × List SBar))
    (chans : List Int) (bpm : Int) (hbpm : bpm ≠ 0) (rhs : Nat → List (Rat × Rat))
    (hz : ∀ i n x, (entryAt (groupAt (t0 :: ts) i) n x).bpm ≠ some 0)
    (hch : (t0 :: ts).length ≤ chans.length)
    (hgroups : ∀ i, i < t0.2.length → (∀ t ∈ t0 :: ts, i < t.2.length) ∧ GroupOKT (groupAt (t0 :: ts) i) chans (rhs i)) :
    ∃ st', playTracks st (t0 :: ts) chans bpm = .ok (st', some (bpmAfter (t0 :: ts) rhs bpm (List.range t0.2.length))) ∧
      Ext st st' ((List.zip (List.range (t0 :: ts).length) (t0 :: ts)).map (announce chans) ++
        tracesT (t0 :: ts) rhs bpm (List.range t0.2.length)) := by
  have x0 := notifyHigh_ext st
  have hidx : ∀ x ∈ List.zip (List.range (t0 :: ts).length) (t0 :: ts), x.1 < chans.length := by
    intro x hx
    have := (List.of_mem_zip hx).1
    have := List.mem_range.1 this
    omega
  obtain ⟨s1, e1⟩ := announce_fold_ok chans _ hidx (notifyHigh st)
  have x1 := announce_fold chans _ _ _ e1 (x0.wf hw)
  obtain ⟨s2, e2, x2⟩ := groupsLoop_equal_tempo (t0 :: ts) chans rhs hz (List.range t0.2.length)
    (fun i hi => hgroups i (List.mem_range.1 hi)) bpm hbpm s1 (x1.wf (x0.wf hw))
  refine ⟨s2, ?_, ?_⟩
  · unfold playTracks
    simp only [bind, Except.bind]
    split
    · rename_i err heq
      have := heq.symm.trans e1
      cases this
    · rename_i v heq
      have hv : v = s1 := by
        have := heq.symm.trans e1
        simpa using this
      subst hv
      exact e2
  · simpa using (x0.trans x1).trans x2

/-- **play_Composition inside the working domain, with tempo changes** -/
theorem playComposition_equal_rhythm_tempo (st : St) (hw : WF st) (t0 : Instr × List SBar) (ts : List (Instr × List SBar))
    (chans : Option (List Int)) (bpm : Int) (hbpm : bpm ≠ 0) (rhs : Nat → List (Rat × Rat))
    (hz : ∀ i n x, (entryAt (groupAt (t0 :: ts) i) n x).bpm ≠ some 0)
    (hch : (t0 :: ts).length ≤ (compChans chans (t0 :: ts).length).length)
    (hgroups : ∀ i, i < t0.2.length → (∀ t ∈ t0 :: ts, i < t.2.length) ∧
      GroupOKT (groupAt (t0 :: ts) i) (compChans chans (t0 :: ts).length) (rhs i)) :
    ∃ st', playComposition st (t0 :: ts) chans bpm = .ok (st', some (bpmAfter (t0 :: ts) rhs bpm (List.range t0.2.length))) ∧
      Ext st st' ((List.zip (List.range (t0 :: ts).length) (t0 :: ts)).map (announce (compChans chans (t0 :: ts).length)) ++
        tracesT (t0 :: ts) rhs bpm (List.range t0.2.length)) := by
  have x0 := notifyHigh_ext st
  obtain ⟨s1, e1, x1⟩ := playTracks_equal_rhythm_tempo (notifyHigh st) (x0.wf hw) t0 ts _ bpm hbpm rhs hz hch hgroups
  refine ⟨s1, ?_, by simpa using x0.trans x1⟩
  unfold playComposition
  exact e1

/-- non-vacuity (kernel): two tracks of two bars; the tempo set in the first group (60, then 90) carries into the second -/
example : (playComposition {} [(.plain, [t1, v1]), (.nr 40, [t2, v2])] none 120).toOption.map (fun r => (r.1.hooks, r.2)) =
    some ([SEv.instr 1 1 0, SEv.instr 2 40 0] ++
      tracesT [(.plain, [t1, v1]), (.nr 40, [t2, v2])] (fun _ => [(0, 4), (1/4, 4), (1/2, 4)]) 120 [0, 1], some 90) := by
  decide +kernel

end Mingus.Props.C18
