import Mingus.Props.C07Defs
/- slice of the three-note theorem: first note on letter E (3 x 21 x 21 inputs) -/
namespace Mingus.Props.C07
theorem triplesE : letterOK 'E' = true := by decide +kernel
end Mingus.Props.C07
