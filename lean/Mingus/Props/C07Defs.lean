import Mingus.Model.Chords
/- Decidable statements of C07 (shared by the per-slice kernel evaluations). -/
namespace Mingus.Props.C07
open Mingus Mingus.Chords Mingus.Keys

/-- inversion `k` of a chord: its notes rotated to the left `k` times -/
def rotL (c : List Str) (k : Nat) : List Str := c.drop (k % c.length) ++ c.take (k % c.length)

/-- split a chord name into root (letter + accidentals) and shorthand -/
def splitRoot (nm : Str) : Str × Str :=
  match nm with
  | [] => ([], [])
  | l :: t => let a := t.takeWhile (fun ch => ch == '#' || ch == 'b'); (l :: a, t.drop a.length)

/-- the chord `root ++ key`, given in inversion `i`, is recognised: some shorthand-form answer rebuilds exactly the
    root-position chord, and the long-form answer at the same position is root + meaning + ordinal of `i` -/
def recogOK (root key : Str) (i : Nat) : Bool :=
  match Chords.fromShorthand (root ++ key) with
  | .ok ch =>
    if ch.length < 3 || i ≥ ch.length then true else
    match determine (rotL ch i) true false false, determine (rotL ch i) false false false with
    | .ok S, .ok L =>
      S.length == L.length &&
      (List.range S.length).any fun idx =>
        let nm := S.getD idx []
        !nm.contains '|' && Chords.fromShorthand nm == .ok ch &&
        (match chordMeaning.lookup (splitRoot nm).2, intDesc.lookup (i + 1) with
         | some m, some d => L.getD idx [] == (splitRoot nm).1 ++ m ++ d
         | _, _ => false)
    | _, _ => false
  | _ => false

/-- the 21 roots with at most one accidental -/
def roots21 : List Str := baseScale.flatMap fun l => [[l], [l, '#'], [l, 'b']]

/-- every rotation of the chord on every one of the 21 roots -/
def keyOK (key : Str) : Bool :=
  roots21.all fun r => (List.range 7).all fun i => recogOK r key i

/-- three-note input: both forms succeed with equal length and every returned name denotes a chord containing
    all three notes -/
def tripleOK (a b c : Str) : Bool :=
  match determine [a, b, c] true false false, determine [a, b, c] false false false with
  | .ok S, .ok L => S.length == L.length && S.all fun nm =>
      match Chords.fromShorthand nm with
      | .ok ch => ch.contains a && ch.contains b && ch.contains c
      | _ => false
  | _, _ => false

def letterOK (l : Char) : Bool :=
  [[l], [l, '#'], [l, 'b']].all fun a => roots21.all fun b => roots21.all fun c => tripleOK a b c

end Mingus.Props.C07
