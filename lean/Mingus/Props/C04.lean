import Mingus.Lemmas.Intervals
/-
  C04 — keys: signatures, key notes, relatives and diatonic steps are consistent.
  The 30 keys are a finite table: the theorems evaluate the *whole* table in the kernel.
  Rejections and the diatonic-step theorem are unbounded (any string, any integer, any accidentals).
-/
namespace Mingus.Props.C04
open Mingus Mingus.Notes Mingus.Keys Mingus.Intervals

/-! ### Spec vocabulary (written from the property statement) -/
def majorPattern : List Int := [2, 2, 1, 2, 2, 2, 1]
def minorPattern : List Int := [2, 1, 2, 2, 1, 2, 2]
/-- circle of fifths: order in which sharps / flats enter a signature -/
def sharpOrder : List Str := ["F#", "C#", "G#", "D#", "A#", "E#", "B#"].map String.toList
def flatOrder : List Str := ["Bb", "Eb", "Ab", "Db", "Gb", "Cb", "Fb"].map String.toList
def steps (ns : List Str) : List Int :=
  (List.range 7).map fun i => (pc (ns.getD ((i + 1) % 7) []) - pc (ns.getD i [])) % 12
def tonicOf : Str → Str
  | [] => []
  | c :: t => c.toUpper :: t
def sameSet (a b : List Str) : Bool := a.all b.contains && b.all a.contains
def lettersFrom (l : Char) : List Char := (List.range 7).map (letterUp l)

/-- everything the statement says about one key -/
def keyOK (k : Str) (isMajor : Bool) : Bool :=
  match getNotes k, getKeySignature k, getKeySignatureAccidentals k with
  | .ok ns, .ok sig, .ok accs =>
    ns.head? == some (tonicOf k)
    && ns.map (·.headD ' ') == lettersFrom ((tonicOf k).headD ' ')      -- every letter once, in order
    && steps ns == (if isMajor then majorPattern else minorPattern)
    && sameSet (ns.filter (·.length > 1)) accs                          -- exactly the signature's accidentals
    && ns.all (·.length ≤ 2)
    && accs.length == sig.natAbs
    && accs == (if sig ≥ 0 then sharpOrder.take sig.toNat else flatOrder.take (-sig).toNat)
    && (match getKey sig with | .ok (a, b) => k == (if isMajor then a else b) | _ => false)
    && isValidKey k
  | _, _, _ => false

/-- relatives: inverse, one note set, minor tonic nine semitones above the major -/
def coupleOK (c : Str × Str) : Bool :=
  relativeMinor c.1 == .ok c.2 && relativeMajor c.2 == .ok c.1
  && (match getNotes c.1, getNotes c.2 with
      | .ok a, .ok b => sameSet a b && pc (tonicOf c.2) == (pc c.1 + 9) % 12
      | _, _ => false)
  && getKeySignature c.1 == getKeySignature c.2

def modeName (isMajor : Bool) : Str := if isMajor then lit "major" else lit "minor"
/-- the key object's name, written out: "C sharp minor", "E flat major", "G major" -/
def specName (k : Str) (isMajor : Bool) : Str :=
  match tonicOf k with
  | [l] => [l] ++ lit " " ++ modeName isMajor
  | [l, '#'] => [l] ++ lit " sharp " ++ modeName isMajor
  | [l, 'b'] => [l] ++ lit " flat " ++ modeName isMajor
  | _ => []
def keyObjOK (k : Str) (isMajor : Bool) : Bool :=
  match keyObj k, getKeySignature k with
  | .ok (name, mode, sig), .ok sig' => name == specName k isMajor && mode == modeName isMajor && sig == sig'
  | _, _ => false

/-! ### The finite theorems (whole table, kernel evaluation) -/
theorem thirty_keys : majorKeys.length = 15 ∧ minorKeys.length = 15 ∧ allKeys.Nodup := by decide +kernel
theorem all_major_keys : ∀ k ∈ majorKeys, keyOK k true = true := by decide +kernel
theorem all_minor_keys : ∀ k ∈ minorKeys, keyOK k false = true := by decide +kernel
theorem all_relatives : ∀ c ∈ keys, coupleOK c = true := by decide +kernel
theorem all_key_objects :
    (∀ k ∈ majorKeys, keyObjOK k true = true) ∧ (∀ k ∈ minorKeys, keyObjOK k false = true) := by decide +kernel
/-- signature-number lookup and key lookup are inverse on -7..7 -/
def sigInverseOK (i : Int) : Bool :=
  match getKey i with
  | .ok (a, b) => getKeySignature a == .ok i && getKeySignature b == .ok i
  | _ => false
theorem getKey_signature_inverse : ∀ i ∈ List.range 15, sigInverseOK ((i : Int) - 7) = true := by decide +kernel

/-! ### Rejections (unbounded) -/
theorem getKey_reject (i : Int) (h : i < -7 ∨ i > 7) : getKey i = .error .range := by
  simp [getKey, h]

theorem isValidKey_iff (k : Str) : isValidKey k = true ↔ k ∈ allKeys := by
  simp only [isValidKey, List.any_eq_true, inCouple, Bool.or_eq_true, beq_iff_eq, allKeys, majorKeys, minorKeys,
    List.mem_append, List.mem_map]
  constructor
  · rintro ⟨c, hc, h | h⟩
    · exact Or.inl ⟨c, hc, h.symm⟩
    · exact Or.inr ⟨c, hc, h.symm⟩
  · rintro (⟨c, hc, h⟩ | ⟨c, hc, h⟩)
    · exact ⟨c, hc, Or.inl h.symm⟩
    · exact ⟨c, hc, Or.inr h.symm⟩

theorem signature_reject (k : Str) (h : isValidKey k = false) : getKeySignature k = .error .noteFormat := by
  unfold getKeySignature
  have : keys.findIdx? (inCouple k) = none := by
    rw [List.findIdx?_eq_none_iff]
    intro c hc
    simp only [isValidKey, List.any_eq_false] at h
    simpa using h c hc
  rw [this]

theorem unknown_key_reject (k : Str) (h : isValidKey k = false) :
    getNotes k = .error .noteFormat ∧ getKeySignature k = .error .noteFormat ∧
    getKeySignatureAccidentals k = .error .noteFormat ∧
    (k ≠ [] → keyObj k = .error .noteFormat) := by
  refine ⟨by simp [getNotes, h, throw, throwThe, MonadExceptOf.throw, bind, Except.bind], signature_reject k h, ?_, ?_⟩
  · simp [getKeySignatureAccidentals, signature_reject k h, bind, Except.bind]
  · intro hne
    cases k with
    | nil => exact absurd rfl hne
    | cons c t => simp [keyObj, signature_reject (c :: t) h]

theorem relative_reject (k : Str) :
    (k ∉ minorKeys → relativeMajor k = .error .noteFormat) ∧
    (k ∉ majorKeys → relativeMinor k = .error .noteFormat) := by
  constructor
  · intro h
    unfold relativeMajor
    have : keys.find? (fun c => k == c.2) = none := by
      rw [List.find?_eq_none]
      intro c hc hk
      exact h (List.mem_map.2 ⟨c, hc, (by simpa using hk : k = c.2).symm⟩)
    rw [this]
  · intro h
    unfold relativeMinor
    have : keys.find? (fun c => k == c.1) = none := by
      rw [List.find?_eq_none]
      intro c hc hk
      exact h (List.mem_map.2 ⟨c, hc, (by simpa using hk : k = c.1).symm⟩)
    rw [this]

/-! ### Diatonic steps (unbounded in the note's accidentals) -/
theorem interval_head (key : Str) (l : Char) (t : Str) (k : Nat) (hv : valid (l :: t) = true) :
    interval key (l :: t) k = interval key [l] k := by
  have hl : isLetter l = true := by
    simp only [valid, Bool.and_eq_true] at hv; exact hv.1
  have hv1 : valid [l] = true := by simp [valid, hl]
  simp only [interval, hv, hv1]

/-- the key's note `step` letters above `l` -/
def diatonicOK (key : Str) (l : Char) (step : Nat) : Bool :=
  match interval key [l] step, getNotes key with
  | .ok n, .ok ns => ns.contains n && n.head? == some (letterUp l step)
  | _, _ => false

theorem diatonic_table : ∀ key ∈ allKeys, ∀ l ∈ baseScale, ∀ step ∈ List.range 7, diatonicOK key l step = true := by
  decide +kernel

/-- the diatonic second … seventh of any note (any accidentals) in any of the 30 keys is the key's note
    that many letters above the note's letter -/
theorem diatonic_step (key : Str) (hk : key ∈ allKeys) (l : Char) (t : Str) (hv : valid (l :: t) = true)
    (step : Nat) (hs : step < 7) :
    ∃ n ns, interval key (l :: t) step = .ok n ∧ getNotes key = .ok ns ∧ n ∈ ns ∧ n.head? = some (letterUp l step) := by
  have hl : isLetter l = true := by
    simp only [valid, Bool.and_eq_true] at hv; exact hv.1
  have hlb : l ∈ baseScale := by
    rcases letter_cases hl with e | e | e | e | e | e | e <;> subst e <;> decide
  have h := diatonic_table key hk l hlb step (List.mem_range.2 hs)
  rw [interval_head key l t step hv]
  unfold diatonicOK at h
  split at h
  · rename_i n ns h1 h2
    simp only [Bool.and_eq_true, List.contains_iff_mem, beq_iff_eq] at h
    exact ⟨n, ns, h1, h2, h.1, h.2⟩
  · cases h

/-- non-vacuity -/
example : getNotes (lit "f#") = .ok (["F#", "G#", "A", "B", "C#", "D", "E"].map String.toList) := by decide +kernel
example : interval (lit "Ab") (lit "E##b") 2 = .ok (lit "G") := by decide +kernel
example : isValidKey (lit "H") = false ∧ isValidKey (lit "Fb") = false := by decide +kernel

end Mingus.Props.C04
