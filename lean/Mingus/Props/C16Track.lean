import Mingus.Props.C16Spec
/-
  C16 — bars, tracks, repeat counts and the five writers refine the pure specification.
-/
namespace Mingus.Props.C16
open Mingus Mingus.Midi Mingus.Containers

def specEntries (s : S) : List MEntry → List TEv × S
  | [] => ([], s)
  | e :: es => ((specEntry s e).1 ++ (specEntries (specEntry s e).2 es).1, (specEntries (specEntry s e).2 es).2)

theorem okInstr_specEntry (s : S) (e : MEntry) (h : okInstr s) : okInstr (specEntry s e).2 := by
  unfold specEntry
  cases e.notes with
  | nil => exact h
  | cons n rest => intro hc; simp at hc

theorem instr_specEntry (s : S) (e : MEntry) : (specEntry s e).2.instr = s.instr := by
  unfold specEntry; cases e.notes <;> rfl

theorem entries_refine (es : List MEntry) : ∀ (t : MT) (evs : List TEv) (s : S), Rel t evs s → okInstr s →
    (∀ e ∈ es, okEntry e) →
    ∃ t', es.foldlM MT.playEntry t = .ok t' ∧ Rel t' (evs ++ (specEntries s es).1) (specEntries s es).2 ∧
      okInstr (specEntries s es).2 := by
  induction es with
  | nil => intro t evs s hr hi _; exact ⟨t, rfl, by simpa [specEntries] using hr, hi⟩
  | cons e es ih =>
    intro t evs s hr hi he
    obtain ⟨t1, h1, r1⟩ := entry_refines t evs s e hr hi (he e (by simp))
    obtain ⟨t2, h2, r2, i2⟩ := ih t1 _ _ r1 (okInstr_specEntry s e hi) (fun x hx => he x (by simp [hx]))
    refine ⟨t2, ?_, ?_, i2⟩
    · rw [List.foldlM_cons, h1]; exact h2
    · simpa [specEntries, List.append_assoc] using r2

/-! ### bars -/

def meterEv (b : MBar) : Ev := .metaE 88 [b.count.toNat, MT.ilog2 b.unit.toNat, 24, 8]

/-- the key-signature event: position in the circle of fifths − 7 as a signed byte, then the mode flag -/
def keyEv? (key : Str) : Option Ev :=
  match MT.idxOf? (if MT.isLower key then Keys.minorKeys else Keys.majorKeys) key with
  | none => none
  | some i => some (.metaE 89 [if (i : Int) - 7 < 0 then (256 + ((i : Int) - 7)).toNat else ((i : Int) - 7).toNat,
                               if MT.isLower key then 1 else 0])

def keyEv (key : Str) : Ev := (keyEv? key).getD (.metaE 89 [])

def okBar (b : MBar) : Prop :=
  0 ≤ b.count ∧ b.count < 256 ∧ 1 ≤ b.unit ∧ (keyEv? b.key).isSome = true ∧ ∀ e ∈ b.entries, okEntry e

def specBar (s : S) (b : MBar) : List TEv × S :=
  ([⟨s.delay, meterEv b⟩, ⟨0, keyEv b.key⟩] ++ (specEntries { s with delay := 0 } b.entries).1,
   (specEntries { s with delay := 0 } b.entries).2)

theorem setKey_ok (t : MT) (key : Str) (h : (keyEv? key).isSome = true) : t.setKey key = .ok (t.emit (keyEv key)) := by
  unfold keyEv keyEv? MT.setKey at *
  cases hk : MT.idxOf? (if MT.isLower key then Keys.minorKeys else Keys.majorKeys) key with
  | none => simp [hk] at h
  | some i => simp [hk]

theorem bar_refines (t : MT) (evs : List TEv) (s : S) (b : MBar) (hr : Rel t evs s) (hi : okInstr s) (hb : okBar b) :
    ∃ t', t.playBar b = .ok t' ∧ Rel t' (evs ++ (specBar s b).1) (specBar s b).2 ∧ okInstr (specBar s b).2 := by
  obtain ⟨r1, r2, r3, r4⟩ := hr
  obtain ⟨b1, b2, b3, b4, b5⟩ := hb
  have hm : ∀ t0 : MT, t0.setMeter b.count b.unit = .ok (t0.emit (meterEv b)) := by
    intro t0; simp [MT.setMeter, meterEv, b1, b2, b3]
  unfold MT.playBar
  simp only [bind, Except.bind, hm, MT.setDelta, setKey_ok _ b.key b4]
  have hrel : Rel ((({ t with pending := t.delay, delay := 0 } : MT).emit (meterEv b) |> fun x => ({ x with pending := 0 } : MT)).emit (keyEv b.key))
      (evs ++ [⟨s.delay, meterEv b⟩, ⟨0, keyEv b.key⟩]) { s with delay := 0 } := by
    simp [Rel, MT.emit, r1, r2, r3, r4]
  have hi' : okInstr { s with delay := 0 } := hi
  obtain ⟨t', h1, h2, h3⟩ := entries_refine b.entries _ _ _ hrel hi' b5
  refine ⟨t', h1, ?_, h3⟩
  simpa [specBar, List.append_assoc] using h2

def specBars (s : S) : List MBar → List TEv × S
  | [] => ([], s)
  | b :: bs => ((specBar s b).1 ++ (specBars (specBar s b).2 bs).1, (specBars (specBar s b).2 bs).2)

theorem bars_refine (bs : List MBar) : ∀ (t : MT) (evs : List TEv) (s : S), Rel t evs s → okInstr s →
    (∀ b ∈ bs, okBar b) →
    ∃ t', bs.foldlM MT.playBar t = .ok t' ∧ Rel t' (evs ++ (specBars s bs).1) (specBars s bs).2 ∧
      okInstr (specBars s bs).2 := by
  induction bs with
  | nil => intro t evs s hr hi _; exact ⟨t, rfl, by simpa [specBars] using hr, hi⟩
  | cons b bs ih =>
    intro t evs s hr hi hb
    obtain ⟨t1, h1, r1, i1⟩ := bar_refines t evs s b hr hi (hb b (by simp))
    obtain ⟨t2, h2, r2, i2⟩ := ih t1 _ _ r1 i1 (fun x hx => hb x (by simp [hx]))
    refine ⟨t2, ?_, ?_, i2⟩
    · rw [List.foldlM_cons, h1]; exact h2
    · simpa [specBars, List.append_assoc] using r2

/-! ### tracks and repeats -/

def okTrack (tr : MTrack) : Prop :=
  (∀ b ∈ tr.bars, okBar b) ∧ (∀ nr, tr.instr = some nr → 0 ≤ nr ∧ nr ≤ 127)

def withInstr (s : S) (tr : MTrack) : S :=
  match tr.instr with
  | some nr => { s with ci := true, instr := nr }
  | none => s

def specTrack (s : S) (tr : MTrack) : List TEv × S :=
  (⟨0, .metaE 3 (MT.asciiBytes tr.name)⟩ :: (specBars (withInstr s tr) tr.bars).1, (specBars (withInstr s tr) tr.bars).2)

theorem track_refines (t : MT) (evs : List TEv) (s : S) (tr : MTrack) (hr : Rel t evs s) (hi : okInstr s)
    (ht : okTrack tr) :
    ∃ t', t.playTrack tr = .ok t' ∧ Rel t' (evs ++ (specTrack s tr).1) (specTrack s tr).2 ∧
      okInstr (specTrack s tr).2 := by
  obtain ⟨r1, r2, r3, r4⟩ := hr
  unfold MT.playTrack
  simp only [bind, Except.bind]
  have hi' : okInstr (withInstr s tr) := by
    unfold withInstr
    cases hti : tr.instr with
    | none => exact hi
    | some nr => intro _; exact ht.2 nr hti
  have hrel : Rel (match tr.instr with
      | some nr => ({ ({ t with evs := t.evs ++ [⟨0, .metaE 3 (MT.asciiBytes tr.name)⟩] } : MT) with changeInstr := true, instr := nr } : MT)
      | none => ({ t with evs := t.evs ++ [⟨0, .metaE 3 (MT.asciiBytes tr.name)⟩] } : MT))
      (evs ++ [⟨0, .metaE 3 (MT.asciiBytes tr.name)⟩]) (withInstr s tr) := by
    unfold withInstr
    cases tr.instr <;> simp [Rel, r1, r2, r3, r4]
  obtain ⟨t', h1, h2, h3⟩ := bars_refine tr.bars _ _ _ hrel hi' ht.1
  refine ⟨t', h1, ?_, h3⟩
  simpa [specTrack, List.append_assoc] using h2

/-- `k` passes of the same content, each continuing where the last one stopped -/
def specPasses (f : S → List TEv × S) : Nat → S → List TEv × S
  | 0, s => ([], s)
  | k + 1, s => ((f s).1 ++ (specPasses f k (f s).2).1, (specPasses f k (f s).2).2)

theorem passes_refine (play : MT → Except Err MT) (f : S → List TEv × S)
    (step : ∀ (t : MT) (evs : List TEv) (s : S), Rel t evs s → okInstr s →
      ∃ t', play t = .ok t' ∧ Rel t' (evs ++ (f s).1) (f s).2 ∧ okInstr (f s).2) :
    ∀ (k : Nat) (t : MT) (evs : List TEv) (s : S), Rel t evs s → okInstr s →
      ∃ t', repeatM play k t = .ok t' ∧ Rel t' (evs ++ (specPasses f k s).1) (specPasses f k s).2 := by
  intro k
  induction k with
  | zero => intro t evs s hr _; exact ⟨t, rfl, by simpa [specPasses] using hr⟩
  | succ k ih =>
    intro t evs s hr hi
    obtain ⟨t1, h1, r1, i1⟩ := step t evs s hr hi
    obtain ⟨t2, h2, r2⟩ := ih t1 _ _ r1 i1
    refine ⟨t2, ?_, ?_⟩
    · rw [Midi.repeatM]; simp only [bind, Except.bind, h1]; exact h2
    · simpa [specPasses, List.append_assoc] using r2

/-! ### the writers -/

def tempoEv (bpm : Int) : TEv := ⟨0, .metaE 81 (be 3 ((60000000 : Int) / bpm).toNat)⟩
def okBpm (bpm : Int) : Prop := 4 ≤ bpm

def s0 : S := ⟨0, false, 1⟩
theorem okInstr_s0 : okInstr s0 := by intro h; simp [s0] at h

theorem init_ok (bpm : Int) (h : okBpm bpm) :
    ∃ t, MT.init bpm = .ok t ∧ Rel t [tempoEv bpm] s0 := by
  unfold okBpm at h
  have h0 : bpm ≠ 0 := by omega
  have h1 : 0 ≤ (60000000 : Int) / bpm := Int.ediv_nonneg (by omega) (by omega)
  have h2 : (60000000 : Int) / bpm < 16777216 := by
    apply Int.ediv_lt_of_lt_mul (by omega); omega
  have h3 : bpm > 0 := by omega
  have key : MT.init bpm = .ok (({} : MT).emit (.metaE 81 (be 3 ((60000000 : Int) / bpm).toNat))) := by
    unfold MT.init MT.setTempo
    rw [if_neg h0, if_pos ⟨h1, h2, h3⟩]
  exact ⟨_, key, by simp [Rel, MT.emit, tempoEv, s0]⟩

theorem trackOf_spec (tr : MTrack) (bpm rep : Int) (ht : okTrack tr) (hb : okBpm bpm) :
    ∃ t, trackOf tr bpm rep = .ok t ∧
      t.evs = tempoEv bpm :: (specPasses (fun s => specTrack s tr) (times rep) s0).1 := by
  obtain ⟨t0, h0, r0⟩ := init_ok bpm hb
  obtain ⟨t1, h1, r1⟩ := passes_refine (fun t => t.playTrack tr) (fun s => specTrack s tr)
    (fun t evs s hr hi => track_refines t evs s tr hr hi ht) (times rep) t0 _ _ r0 okInstr_s0
  refine ⟨t1, ?_, by simpa using r1.1⟩
  simp only [trackOf, bind, Except.bind, h0, h1]

/-- **write_Track**: the file holds one track whose events are the tempo followed by `repeat + 1` passes of the
    track specification. -/
theorem writeTrack_spec (tr : MTrack) (bpm rep : Int) (ht : okTrack tr) (hb : okBpm bpm) :
    ∃ t, writeTrack tr bpm rep = .ok (fileBytes [t]) ∧
      t.evs = tempoEv bpm :: (specPasses (fun s => specTrack s tr) (times rep) s0).1 := by
  obtain ⟨t, h1, h2⟩ := trackOf_spec tr bpm rep ht hb
  exact ⟨t, by simp only [writeTrack, bind, Except.bind, h1, pure, Except.pure], h2⟩

theorem writeBar_spec (b : MBar) (bpm rep : Int) (hbar : okBar b) (hb : okBpm bpm) :
    ∃ t, writeBar b bpm rep = .ok (fileBytes [t]) ∧
      t.evs = tempoEv bpm :: (specPasses (fun s => specBar s b) (times rep) s0).1 := by
  obtain ⟨t0, h0, r0⟩ := init_ok bpm hb
  obtain ⟨t1, h1, r1⟩ := passes_refine (fun t => t.playBar b) (fun s => specBar s b)
    (fun t evs s hr hi => bar_refines t evs s b hr hi hbar) (times rep) t0 _ _ r0 okInstr_s0
  refine ⟨t1, ?_, by simpa using r1.1⟩
  simp only [writeBar, bind, Except.bind, h0, h1, pure, Except.pure]

theorem mapM_trackOf (trs : List MTrack) (bpm rep : Int) (ht : ∀ tr ∈ trs, okTrack tr) (hb : okBpm bpm) :
    ∃ ts, (trs.mapM fun tr => trackOf tr bpm rep) = Except.ok ts ∧
      ts.map (·.evs) = trs.map (fun tr => tempoEv bpm :: (specPasses (fun s => specTrack s tr) (times rep) s0).1) := by
  induction trs with
  | nil => exact ⟨[], rfl, rfl⟩
  | cons tr trs ih =>
    obtain ⟨ts, h1, h2⟩ := ih (fun x hx => ht x (by simp [hx]))
    obtain ⟨t, h3, h4⟩ := trackOf_spec tr bpm rep (ht tr (by simp)) hb
    refine ⟨t :: ts, ?_, ?_⟩
    · rw [List.mapM_cons, h3]
      simp only [bind, Except.bind]
      rw [h1]; rfl
    · simp only [List.map_cons, h2, h4]

/-- **write_Composition**: one chunk per track, each as `write_Track` would write it. -/
theorem writeComposition_spec (trs : List MTrack) (bpm rep : Int) (ht : ∀ tr ∈ trs, okTrack tr) (hb : okBpm bpm) :
    ∃ ts, writeComposition trs bpm rep = .ok (fileBytes ts) ∧
      ts.map (·.evs) = trs.map (fun tr => tempoEv bpm :: (specPasses (fun s => specTrack s tr) (times rep) s0).1) := by
  obtain ⟨ts, h1, h2⟩ := mapM_trackOf trs bpm rep ht hb
  exact ⟨ts, by simp only [writeComposition, bind, Except.bind, h1, pure, Except.pure], h2⟩

/-- one pass of a lone container: note-ons at delta 0 (first) and 0, note-offs 72 ticks later -/
def specLone (ns : List Note) : List TEv :=
  match ns with
  | [] => []
  | n :: rest => ⟨0, onEv n⟩ :: rest.map (fun m => ⟨0, onEv m⟩) ++ ⟨72, offEv n⟩ :: rest.map (fun m => ⟨0, offEv m⟩)

theorem lone_refines (ns : List Note) (h : ∀ n ∈ ns, okNote n) (t : MT) (evs : List TEv) (s : S)
    (hr : Rel t evs s) (hci : s.ci = false) :
    ∃ t', lonePass ns t = Except.ok t' ∧
      Rel t' (evs ++ specLone ns) s := by
  obtain ⟨r1, r2, r3, r4⟩ := hr
  cases ns with
  | nil => exact ⟨_, rfl, by simp [Rel, specLone, MT.setDelta, r1, r2, r3, r4]⟩
  | cons n rest =>
    obtain ⟨t1, hp, ⟨x1, x2, x3⟩, x4⟩ := playNC_plain (t.setDelta 0) n rest (by simp [MT.setDelta, r3, hci]) h
    obtain ⟨t2, hq, ⟨y1, y2, y3⟩, y4⟩ := stopNC_ok (t1.setDelta 72) n rest h
    refine ⟨t2, ?_, ?_⟩
    · simp only [lonePass, bind, Except.bind, hp, hq]
    · simp only [MT.setDelta] at x1 x2 x3 y1 y2 y3 y4
      simp [Rel, specLone, y1, y2, y3, y4, x1, x2, x3, x4, r1, r2, r4, hci]

theorem lone_passes (ns : List Note) (h : ∀ n ∈ ns, okNote n) : ∀ (k : Nat) (t : MT) (evs : List TEv) (s : S),
    Rel t evs s → s.ci = false →
    ∃ t', repeatM (lonePass ns) k t = .ok t' ∧
      t'.evs = evs ++ (List.replicate k (specLone ns)).flatten := by
  intro k
  induction k with
  | zero => intro t evs s hr _; exact ⟨t, rfl, by simpa using hr.1⟩
  | succ k ih =>
    intro t evs s hr hci
    obtain ⟨t1, h1, r1⟩ := lone_refines ns h t evs s hr hci
    obtain ⟨t2, h2, r2⟩ := ih t1 _ s r1 hci
    refine ⟨t2, ?_, ?_⟩
    · rw [Midi.repeatM]; simp only [bind, Except.bind, h1]; exact h2
    · rw [r2, List.replicate_succ, List.flatten_cons, List.append_assoc]

/-- **write_NoteContainer** / **write_Note**: `repeat + 1` copies, each lasting 72 ticks -/
theorem writeNC_spec (ns : List Note) (bpm rep : Int) (h : ∀ n ∈ ns, okNote n) (hb : okBpm bpm) :
    ∃ t, writeNC ns bpm rep = .ok (fileBytes [t]) ∧
      t.evs = tempoEv bpm :: (List.replicate (times rep) (specLone ns)).flatten := by
  obtain ⟨t0, h0, r0⟩ := init_ok bpm hb
  obtain ⟨t1, h1, r1⟩ := lone_passes ns h (times rep) t0 _ _ r0 rfl
  exact ⟨t1, by simp only [writeNC, bind, Except.bind, h0, h1, pure, Except.pure], by simpa using r1⟩

theorem writeNote_spec (n : Note) (bpm rep : Int) (h : okNote n) (hb : okBpm bpm) :
    ∃ t, writeNote n bpm rep = .ok (fileBytes [t]) ∧
      t.evs = tempoEv bpm :: (List.replicate (times rep) (specLone [n])).flatten := by
  obtain ⟨t, h1, h2⟩ := writeNC_spec [n] bpm rep (by simpa using h) hb
  refine ⟨t, ?_, h2⟩
  rw [← h1]
  have : notePass n = lonePass [n] := by funext t; rfl
  simp only [writeNote, writeNC, this]

end Mingus.Props.C16
