import Mingus.Props.C07Defs
import Mingus.Props.C07R0
import Mingus.Props.C07R1
import Mingus.Props.C07R2
import Mingus.Props.C07R3
import Mingus.Props.C07R4
import Mingus.Props.C07R5
import Mingus.Props.C07R6
import Mingus.Props.C07R7
import Mingus.Props.C07R8
import Mingus.Props.C07R9
import Mingus.Props.C07TC
import Mingus.Props.C07TD
import Mingus.Props.C07TE
import Mingus.Props.C07TF
import Mingus.Props.C07TG
import Mingus.Props.C07TA
import Mingus.Props.C07TB
/-
  C07 — chord recognition inverts construction in every inversion and output form.
  The recognition and three-note theorems are kernel evaluations of the *whole* stated domain
  (every shorthand × the 21 roots with at most one accidental × every rotation × both forms; all 21³ triples),
  split over slice files so that they evaluate in parallel.  `forms_agree` is unbounded (any list of strings).
-/
namespace Mingus.Props.C07
open Mingus Mingus.Chords Mingus.Keys

theorem slices_cover : ∀ row ∈ chordShorthand, row.1 ∈ sliceKeys0 ++ sliceKeys1 ++ sliceKeys2 ++ sliceKeys3 ++ sliceKeys4 ++
    sliceKeys5 ++ sliceKeys6 ++ sliceKeys7 ++ sliceKeys8 ++ sliceKeys9 := by decide +kernel

/-- every constructible chord, on each of the 21 roots, in every inversion, is recognised in both forms -/
theorem recognise_all : ∀ row ∈ chordShorthand, ∀ r ∈ roots21, ∀ i, i < 7 → recogOK r row.1 i = true := by
  intro row hrow r hr i hi
  have hk : keyOK row.1 = true := by
    have := slices_cover row hrow
    simp only [List.mem_append] at this
    rcases this with ((((((((h | h) | h) | h) | h) | h) | h) | h) | h) | h
    · exact slice0 _ h
    · exact slice1 _ h
    · exact slice2 _ h
    · exact slice3 _ h
    · exact slice4 _ h
    · exact slice5 _ h
    · exact slice6 _ h
    · exact slice7 _ h
    · exact slice8 _ h
    · exact slice9 _ h
  simp only [keyOK, List.all_eq_true] at hk
  exact hk r hr i (List.mem_range.2 hi)

/-- every three-note input over the 21 names: equal lengths, no error, every returned name denotes a chord
    containing the three notes -/
theorem triads_sound : ∀ a ∈ roots21, ∀ b ∈ roots21, ∀ c ∈ roots21, tripleOK a b c = true := by
  have key : ∀ l ∈ baseScale, letterOK l = true := by
    intro l hl
    simp only [baseScale, List.mem_cons, List.mem_nil_iff, or_false] at hl
    rcases hl with e | e | e | e | e | e | e <;> subst e
    · exact triplesC
    · exact triplesD
    · exact triplesE
    · exact triplesF
    · exact triplesG
    · exact triplesA
    · exact triplesB
  intro a ha b hb c hc
  simp only [roots21, List.mem_flatMap] at ha
  obtain ⟨l, hl, hal⟩ := ha
  have := key l hl
  simp only [letterOK, List.all_eq_true] at this
  exact this a hal b hb c hc

/-- chords of 0, 1 or 2 notes: the documented trivial answers, in both forms -/
theorem trivial_answers (a b : Str) (sh ni np : Bool) :
    determine [] sh ni np = .ok [] ∧ determine [a] sh ni np = .ok [a] ∧
    determine [a, b] sh ni np = (Intervals.determine a b false).map (fun d => [d]) := by
  refine ⟨rfl, rfl, ?_⟩
  simp only [determine]
  cases Intervals.determine a b false <;> rfl

/-! ### every name the recognisers can emit is constructible and has a meaning; ordinals are total -/
def emitted : List Str :=
  triadTable.map (·.2) ++ seventhTable.map (·.2.2) ++ ext5Table.map (·.2.2) ++ ext6Table.map (·.2.2) ++ ext7Table.map (·.2.2)

theorem emitted_names_ok : ∀ nm ∈ emitted,
    (chordMeaning.lookup nm).isSome = true ∧ (chordShorthand.lookup nm).isSome = true ∧
    (match nm.head? with | some ch => ch != '#' && ch != 'b' | none => true) = true := by decide +kernel
theorem ordinals_total : ∀ t ∈ List.range 7, (intDesc.lookup (t + 1)).isSome = true := by decide

/-- non-vacuity -/
example : determine (["E", "G", "C"].map String.toList) false false false = .ok [lit "C major triad, first inversion"] := by
  decide +kernel
example : recogOK (lit "Eb") (lit "m7b5") 2 = true := by decide +kernel

end Mingus.Props.C07
