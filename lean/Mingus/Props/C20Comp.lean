import Mingus.Props.C20Track
/-
  C20 — the page `from_Composition` draws, decoded.

  `from_Composition` writes the header and then rows of `bars = width div (bar width)` bars: in every row each track in turn
  renders its next `bars` bars with `from_Bar` ON ITS OWN TUNING and glues them into one block (for every track but the first the
  quarter-mark line is overlaid with `||` and two `||` lines come first); three empty lines end the row; the rows go on
  until the longest track is exhausted.

  `fromComposition_decode`: the page is the header followed by rows (`renderRows`); in row `j` every track that still has bars
  shows exactly its bars `j·bars … (j+1)·bars − 1` as ONE system in the sense of `SysOK` (C20Track: label columns, then per bar
  a digit-free lead-in, one cell per entry reading back as a fingering of that entry on THIS track's tuning, a digit-free
  closing), a track that has run out shows nothing, and the slices shown over all rows are the whole track, each bar once, in
  order (`chunks_cover`).  Unbounded: any number of tracks, bars, entries, any page width the code accepts, any tuning that
  meets `TuningOK` (every registered single-string tuning: `registered_tuningOK`).
  `sys_step_sys` (C20Track) is the step shared with `from_Track`.
-/
namespace Mingus.Props.C20
open Mingus Mingus.Tun Mingus.Tab Mingus.Containers

/-- the row loop of `from_Composition` looks bars up by index; that is a walk over the slice of the track it shows -/
theorem range_fold_lookup {α : Type} (l : List TBar) (k : Nat) (f : α → TBar → Except Err α) (n : Nat) (init : α) :
    (List.range n).foldlM (fun a x => (l[k + x]?).elim (pure a) (f a)) init
      = ((l.drop k).take n).foldlM f init := by
  induction n generalizing init with
  | zero => simp
  | succ n ih =>
    rw [List.range_succ, List.foldlM_append, ih, List.take_add_one, List.foldlM_append]
    congr 1
    funext a
    rw [List.getElem?_drop]
    cases h : l[k + n]? <;> simp [h]

/-- what a row holds of one track so far: nothing, or one quarter-mark line over the string lines of ONE system -/
def RowInv (t : Tuning) (start : List Line) (ascii : List Line) (done : List TBar) : Prop :=
  (ascii = [] ∧ done = []) ∨ ∃ q L, ascii = q :: L ∧ SysOK t start done L

theorem sysOK_length (t : Tuning) (start : List Line) (bars : List TBar) (L : List Line) (h : SysOK t start bars L) :
    L.length = start.length := by
  obtain ⟨segs, _, hL⟩ := h
  have := congrArg List.length hL
  simpa [appendSegs] using this

theorem render_single (s : Sys) : render [s] = [[], []] ++ s.1 :: s.2.1 := by simp [render]

/-- one bar joins the row of its track: the row stays ONE system, now showing that bar too (whatever overlay the quarter-mark
    line got) -/
theorem compBar_inv (t : Tuning) (names : List Str) (hl : labels t = .ok names)
    (hfit : ∀ x ∈ names, (x.length : Int) + 1 ≤ (maxStr names).length + 3) (hnd : ∀ x ∈ names, nodigit x)
    (w : Int) (start : List Line) (qs : Int) (hq : qSize t w = .ok qs) (hs : beginTrack t (max 2 (qs / 2)) = .ok start)
    (notfirst : Bool) (ascii : List Line) (done : List TBar) (b : TBar) (ascii' : List Line)
    (hinv : RowInv t start ascii done) (h : compBar t w notfirst ascii b = .ok ascii') :
    ∃ q L, ascii' = q :: L ∧ SysOK t start (done ++ [b]) L := by
  unfold compBar at h
  simp only [bind, Except.bind] at h
  split at h
  · cases h
  · rename_i ls hls
    simp only [pure, Except.pure, Except.ok.injEq] at h
    obtain ⟨top, L, start2, gs, close, rfl, ⟨qs2, pad2, hq2, hp2, hs2⟩, hL, hdec, hclose⟩ := fromBar_system t b w ls hls
    have hqq : qs2 = qs := by rw [hq] at hq2; exact (Except.ok.inj hq2).symm
    subst hqq
    subst hp2
    have hss : start2 = start := by rw [hs] at hs2; exact (Except.ok.inj hs2).symm
    subst hss
    -- the bar as it is glued: any quarter-mark line over the same string lines
    obtain ⟨top', hr'⟩ : ∃ top', (if notfirst = true then
        (match top :: L with
         | r0 :: rest => (r0.take (find2 ((top :: L).getD 1 []) + 2 - 2).toNat ++ lit "||" ++
            r0.drop (find2 ((top :: L).getD 1 []) + 2).toNat) :: rest
         | [] => [])
        else top :: L) = top' :: L := by
      cases notfirst
      · exact ⟨top, rfl⟩
      · exact ⟨_, rfl⟩
    rw [hr'] at h
    have hB : find2 ((top :: L).getD 1 []) = find2 ((top' :: L).getD 1 []) := by simp
    rw [hB] at h
    rcases hinv with ⟨rfl, rfl⟩ | ⟨q, L0, rfl, hsys⟩
    · -- the first bar of this track in the row
      simp only [ne_eq, not_true_eq_false, if_false, List.nil_append] at h
      obtain ⟨s', h1, h2, h3, h4⟩ := sys_step_sys t names hl hfit hnd start2 _ hs [] [] b [] rfl (by simp) rfl top' L gs close hL hdec
        hclose True _ rfl
      rw [if_neg (by simp)] at h4
      simp only [List.length_nil, Nat.zero_add] at h4
      obtain ⟨s, rfl⟩ := List.length_eq_one_iff.1 h4
      rw [if_neg (by simp), render_single] at h1
      have h1' := List.append_cancel_left (by simpa using h1 : [[], []] ++ top' :: L = [[], []] ++ s.1 :: s.2.1)
      obtain ⟨e1, e2⟩ := List.cons.inj h1'
      refine ⟨top', L, h.symm, ?_⟩
      have := h2 s (by simp)
      simp only [List.flatMap_cons, List.flatMap_nil, List.append_nil, List.nil_append] at h3
      rw [h3, ← e2] at this
      simpa using this
    · -- glued to what the row already shows
      simp only [ne_eq, reduceCtorEq, not_false_eq_true, if_true] at h
      have hlen1 := sysOK_length t start2 done L0 hsys
      have hlen2 : L.length = start2.length := by
        have := congrArg List.length hL; simpa [appendSegs] using this
      obtain ⟨s', h1, h2, h3, h4⟩ := sys_step_sys t names hl hfit hnd start2 _ hs ([[], []] ++ q :: L0) done b [(q, L0, done)]
        (by rw [render_single]) (by intro s hs'; simp only [List.mem_singleton] at hs'; subst hs'; exact hsys) (by simp)
        top' L gs close hL hdec hclose True _ rfl
      have hne : ([[], []] ++ q :: L0 : List Line) ≠ [] := by simp
      rw [if_pos ⟨trivial, hne⟩] at h4 h1
      simp only [List.length_singleton] at h4
      obtain ⟨s, rfl⟩ := List.length_eq_one_iff.1 h4
      rw [glue_last _ _ _ _ (by simp [hlen1, hlen2]), render_single] at h1
      have hg : glue (q :: L0) (top' :: L) (find2 ((top' :: L).getD 1 []) + 2) =
          (List.zip (q :: L0) (top' :: L)).map fun (a, b) => a ++ b.drop (find2 ((top' :: L).getD 1 []) + 2).toNat := by
        have := glue_last [] (q :: L0) (top' :: L) (find2 ((top' :: L).getD 1 []) + 2) (by simp [hlen1, hlen2])
        simpa using this
      rw [hg] at h
      have h1' := List.append_cancel_left h1
      rw [h1'] at h
      refine ⟨s.1, s.2.1, h.symm, ?_⟩
      have := h2 s (by simp)
      simp only [List.flatMap_cons, List.flatMap_nil, List.append_nil] at h3
      rw [h3] at this
      exact this

/-- the conditions on a tuning under which its tablature decodes (all registered single-string tunings:
    `registered_labels_fit`, `registered_labels_nodigit`) -/
def TuningOK (t : Tuning) : Prop :=
  ∃ names, labels t = .ok names ∧ (∀ x ∈ names, (x.length : Int) + 1 ≤ (maxStr names).length + 3) ∧ ∀ x ∈ names, nodigit x

/-- **one track in one row**: the bars `k, k+1, …` (at most `bars` of them, as far as the track has them) are shown in ONE
    system, in order; a track with no bar left shows nothing -/
theorem compTrackRow_spec (t : Tuning) (ht : TuningOK t) (w : Int) (bars k : Nat) (trbars : List TBar) (nf : Bool)
    (ascii : List Line) (h : compTrackRow t w bars k trbars nf = .ok ascii) :
    ((trbars.drop k).take bars = [] ∧ ascii = []) ∨
    ((trbars.drop k).take bars ≠ [] ∧ ∃ start q L, ascii = q :: L ∧ SysOK t start ((trbars.drop k).take bars) L) := by
  obtain ⟨names, hl, hfit, hnd⟩ := ht
  unfold compTrackRow at h
  rw [range_fold_lookup] at h
  generalize (trbars.drop k).take bars = shown at h
  cases shown with
  | nil =>
    left
    simp only [List.foldlM_nil, pure, Except.pure, Except.ok.injEq] at h
    exact ⟨rfl, h.symm⟩
  | cons b0 bs =>
    right
    refine ⟨by simp, ?_⟩
    -- the label columns, from the first bar
    have hfirst : ∃ ls, fromBar t b0 w = .ok ls := by
      rw [List.foldlM_cons] at h
      simp only [bind, Except.bind, compBar] at h
      cases hb : fromBar t b0 w with
      | error e => simp [hb] at h
      | ok ls => exact ⟨ls, rfl⟩
    obtain ⟨ls0, hls0⟩ := hfirst
    obtain ⟨_, _, start, _, _, _, ⟨qs, _, hq, rfl, hs⟩, _, _, _⟩ := fromBar_system t b0 w ls0 hls0
    have key : ∀ (shown : List TBar) (a : List Line) (done : List TBar) (res : List Line), RowInv t start a done →
        shown.foldlM (compBar t w nf) a = .ok res → RowInv t start res (done ++ shown) ∧ (shown ≠ [] → res ≠ []) := by
      intro shown
      induction shown with
      | nil =>
        intro a done res hinv hf
        simp only [List.foldlM_nil, pure, Except.pure, Except.ok.injEq] at hf
        subst hf; exact ⟨by simpa using hinv, fun h => absurd rfl h⟩
      | cons b bs ih =>
        intro a done res hinv hf
        rw [List.foldlM_cons] at hf
        simp only [bind, Except.bind] at hf
        split at hf
        · cases hf
        · rename_i a1 ha1
          obtain ⟨q, L, e, hsys⟩ := compBar_inv t names hl hfit hnd w start qs hq hs nf a done b a1 hinv ha1
          have hinv1 : RowInv t start a1 (done ++ [b]) := Or.inr ⟨q, L, e, hsys⟩
          obtain ⟨i1, i2⟩ := ih a1 (done ++ [b]) res hinv1 hf
          refine ⟨by simpa [List.append_assoc] using i1, fun _ => ?_⟩
          cases bs with
          | nil =>
            simp only [List.foldlM_nil, pure, Except.pure, Except.ok.injEq] at hf
            subst hf; rw [e]; simp
          | cons b' bs' => exact i2 (by simp)
    obtain ⟨i1, i2⟩ := key (b0 :: bs) [] [] ascii (Or.inl ⟨rfl, rfl⟩) h
    have hne := i2 (by simp)
    rcases i1 with ⟨e, _⟩ | ⟨q, L, e, hsys⟩
    · exact absurd e hne
    · exact ⟨start, q, L, e, by simpa using hsys⟩

abbrev CTrack := Option (Str × Str × Tuning) × List TBar

/-- what a row shows of a track: nothing when the track has no bar left; otherwise (after two `||` lines for every track but
    the first) the quarter-mark line and ONE system with the track's bars of this row -/
def PartOK (bars k : Nat) (tr : CTrack) (part : List Line) : Prop :=
  ((tr.2.drop k).take bars = [] ∧ part = []) ∨
  ((tr.2.drop k).take bars ≠ [] ∧ ∃ sep start q L, part = sep ++ q :: L ∧
     SysOK (tuningOf tr.1) start ((tr.2.drop k).take bars) L ∧
     (sep = [] ∨ ∃ p : Int, sep = [rep ' ' p ++ lit "||", rep ' ' p ++ lit "||"]))

/-- **one row**: the tracks in order, each as `PartOK` says, appended to the page so far -/
theorem compRow_spec (tracks : List CTrack) (hok : ∀ tr ∈ tracks, TuningOK (tuningOf tr.1)) (w : Int) (bars k : Nat)
    (result : List Line) (res : List Line × Bool) (h : compRow tracks w bars k result = .ok res) :
    ∃ parts, res.1 = result ++ parts.flatten ∧ List.Forall₂ (PartOK bars k) tracks parts := by
  unfold compRow at h
  generalize hacc : (result, false) = acc at h
  have : ∃ parts, res.1 = acc.1 ++ parts.flatten ∧ List.Forall₂ (PartOK bars k) tracks parts := by
    clear hacc
    induction tracks generalizing acc with
    | nil =>
      simp only [List.foldlM_nil, pure, Except.pure, Except.ok.injEq] at h
      subst h; exact ⟨[], by simp, List.Forall₂.nil⟩
    | cons tr rest ih =>
      rw [List.foldlM_cons] at h
      simp only [bind, Except.bind] at h
      split at h
      · cases h
      · rename_i acc1 hacc1
        obtain ⟨parts, hp1, hp2⟩ := ih (fun t ht => hok t (List.mem_cons_of_mem _ ht)) acc1 h
        split at hacc1
        · cases hacc1
        · rename_i ascii hascii
          have hspec := compTrackRow_spec (tuningOf tr.1) (hok tr (by simp)) w bars k tr.2 acc.2 ascii hascii
          split at hacc1
          · rename_i hc
            simp only [pure, Except.pure, Except.ok.injEq] at hacc1
            subst hacc1
            refine ⟨([rep ' ' (find2 (ascii.getLast?.getD [])) ++ lit "||", rep ' ' (find2 (ascii.getLast?.getD [])) ++ lit "||"] ++ ascii)
              :: parts, ?_, List.Forall₂.cons ?_ hp2⟩
            · rw [hp1]; simp [List.append_assoc]
            · rcases hspec with ⟨_, e⟩ | ⟨hne, start, q, L, e, hsys⟩
              · exact absurd e hc.2
              · exact Or.inr ⟨hne, _, start, q, L, by rw [e], hsys, Or.inr ⟨_, rfl⟩⟩
          · simp only [pure, Except.pure, Except.ok.injEq] at hacc1
            subst hacc1
            refine ⟨ascii :: parts, ?_, List.Forall₂.cons ?_ hp2⟩
            · rw [hp1]; simp [List.append_assoc]
            · rcases hspec with ⟨e1, e2⟩ | ⟨hne, start, q, L, e, hsys⟩
              · exact Or.inl ⟨e1, e2⟩
              · exact Or.inr ⟨hne, [], start, q, L, by rw [e]; rfl, hsys, Or.inl rfl⟩
  rw [← hacc] at this
  exact this

/-- the rows below the header: per row the parts of the tracks, then three empty lines -/
def renderRows (rows : List (List (List Line))) : List Line := rows.flatMap fun parts => parts.flatten ++ [[], [], []]

/-- **all rows**: row `j` shows the bars `k + j·bars …` of every track; the rows reach the end of the longest track -/
theorem compRows_spec (tracks : List CTrack) (hok : ∀ tr ∈ tracks, TuningOK (tuningOf tr.1)) (w : Int) (bars maxlen : Nat) :
    ∀ (fuel k : Nat) (result page : List Line), compRows tracks w bars maxlen fuel k result = .ok page →
      ∃ rows, page = result ++ renderRows rows ∧
        (∀ j (hj : j < rows.length), List.Forall₂ (PartOK bars (k + j * bars)) tracks rows[j]) ∧
        (maxlen < fuel + k → 0 < bars → maxlen ≤ k + rows.length * bars) := by
  intro fuel
  induction fuel with
  | zero =>
    intro k result page h
    simp only [compRows, pure, Except.pure, Except.ok.injEq] at h
    subst h
    exact ⟨[], by simp [renderRows], (by intro j hj; exact absurd hj (by simp)), (by intro h1 _; simp at h1 ⊢; omega)⟩
  | succ fuel ih =>
    intro k result page h
    rw [compRows] at h
    split at h
    · rename_i hk
      simp only [pure, Except.pure, Except.ok.injEq] at h
      subst h
      exact ⟨[], by simp [renderRows], (by intro j hj; exact absurd hj (by simp)), (by intro _ _; simp; omega)⟩
    · rename_i hk
      simp only [bind, Except.bind] at h
      split at h
      · cases h
      · rename_i r hr
        obtain ⟨parts, hp1, hp2⟩ := compRow_spec tracks hok w bars k result r hr
        obtain ⟨rows, h1, h2, h3⟩ := ih (k + bars) (r.1 ++ [[], [], []]) page h
        refine ⟨parts :: rows, ?_, ?_, ?_⟩
        · rw [h1, hp1]; simp [renderRows, List.append_assoc]
        · intro j hj
          cases j with
          | zero => simpa using hp2
          | succ j =>
            have := h2 j (by simpa using hj)
            have e : k + bars + j * bars = k + (j + 1) * bars := by rw [Nat.add_mul]; omega
            rw [e] at this
            simpa using this
        · intro g1 g2
          have := h3 (by omega) g2
          simp only [List.length_cons]
          rw [Nat.add_mul]; omega

theorem le_foldl_max (tracks : List CTrack) : ∀ (m0 : Nat),
    m0 ≤ tracks.foldl (fun m t => if t.2.length > m then t.2.length else m) m0 ∧
    ∀ tr ∈ tracks, tr.2.length ≤ tracks.foldl (fun m t => if t.2.length > m then t.2.length else m) m0 := by
  induction tracks with
  | nil => intro m0; exact ⟨Nat.le_refl _, by intro tr h; cases h⟩
  | cons t rest ih =>
    intro m0
    simp only [List.foldl_cons]
    obtain ⟨h1, h2⟩ := ih (if t.2.length > m0 then t.2.length else m0)
    refine ⟨le_trans (by split <;> omega) h1, ?_⟩
    intro tr htr
    rcases List.mem_cons.1 htr with rfl | htr
    · exact le_trans (by split <;> omega) h1
    · exact h2 tr htr

/-- cutting a list into consecutive slices of `bars` elements loses nothing and repeats nothing -/
theorem chunks_cover {α : Type} (bars : Nat) : ∀ (n : Nat) (l : List α), l.length ≤ n * bars →
    (List.range n).flatMap (fun j => (l.drop (j * bars)).take bars) = l := by
  intro n
  induction n with
  | zero => intro l h; simp at h; simp [h]
  | succ n ih =>
    intro l h
    rw [List.range_succ_eq_map, List.flatMap_cons, List.flatMap_map]
    have hl : (l.drop bars).length ≤ n * bars := by
      rw [List.length_drop, Nat.add_mul] at *; omega
    have := ih (l.drop bars) hl
    have e : (fun j => (l.drop ((j + 1) * bars)).take bars) = fun j => ((l.drop bars).drop (j * bars)).take bars := by
      funext j
      rw [List.drop_drop]
      congr 2
      rw [Nat.add_mul]; omega
    simp only [Nat.succ_eq_add_one, e, this, Nat.zero_mul, List.drop_zero]
    exact List.take_append_drop bars l

/-- **from_Composition decodes**: the page is the header followed by rows; each row holds, for every track in order, the
    track's next `bars` bars as ONE system on the track's own tuning (string `i` reads: label columns, then bar after bar
    a digit-free lead-in, one cell per entry reading back as a fingering of that entry, a digit-free closing), every track but
    the first preceded by two `||` lines, and ends with three empty lines; a track that has run out shows nothing; the rows
    reach the end of every track, so every bar of every track is shown exactly once, in order (`chunks_cover`) -/
theorem fromComposition_decode (ttl subtitle author email description : Str) (tracks : List CTrack) (width : Int)
    (hok : ∀ tr ∈ tracks, TuningOK (tuningOf tr.1)) (page : List Line)
    (h : fromComposition ttl subtitle author email description tracks width = .ok page) :
    ∃ (bars : Nat) (rows : List (List (List Line))), 0 < bars ∧
      page = addHeaders width ttl subtitle author email description
        (tracks.map fun t => match t.1 with | some x => (x.1, x.2.1) | none => (lit "Guitar", lit "Standard tuning"))
        ++ renderRows rows ∧
      (∀ j (hj : j < rows.length), List.Forall₂ (PartOK bars (j * bars)) tracks rows[j]) ∧
      (∀ tr ∈ tracks, tr.2.length ≤ rows.length * bars ∧
        (List.range rows.length).flatMap (fun j => (tr.2.drop (j * bars)).take bars) = tr.2) := by
  unfold fromComposition at h
  simp only [bind, Except.bind] at h
  split at h
  · cases h
  · split at h
    · cases h
    · split at h
      · cases h
      · rename_i hw ht hb
        obtain ⟨rows, h1, h2, h3⟩ := compRows_spec tracks hok _ _ _ _ _ _ _ h
        have hbars : 0 < (width / getWidth width).toNat := by omega
        refine ⟨(width / getWidth width).toNat, rows, hbars, h1, ?_, ?_⟩
        · intro j hj
          have := h2 j hj
          simpa using this
        · intro tr htr
          have hcov := h3 (by omega) hbars
          have hle := (le_foldl_max tracks 0).2 tr htr
          have hlen : tr.2.length ≤ rows.length * (width / getWidth width).toNat := le_trans hle (by simpa using hcov)
          exact ⟨hlen, chunks_cover _ _ _ hlen⟩

/-- every registered tuning without courses meets `TuningOK` (the whole registry, from the two kernel-checked tables) -/
theorem registered_tuningOK (e : Tun.Entry) (he : e ∈ registered) (hs : singleStrings e.tuning = true) : TuningOK e.tuning := by
  have h1 := registered_labels_fit e he hs
  have h2 := registered_labels_nodigit e he hs
  cases hl : labels e.tuning with
  | error err => simp [hl] at h1
  | ok names =>
    simp only [hl, List.all_eq_true, decide_eq_true_eq, List.isEmpty_iff] at h1 h2
    exact ⟨names, hl, h1, h2⟩

/-- non-vacuity (kernel): two tracks of three and one bars, page width 80: the page is produced, 2 bars per row, 2 rows -/
private def nt3 (s : String) (o : Int) : Note := ⟨s.toList, o, 1, 64⟩
private def tbar2 : TBar := ⟨4, 4, [⟨4, some [nt3 "C" 3, nt3 "E" 3]⟩, ⟨4, none⟩, ⟨2, some [nt3 "A" 4]⟩]⟩
example : (fromComposition (lit "t") [] [] [] [] [(none, [tbar2, tbar2, tbar2]), (none, [tbar2])] 80).toOption.map
    (fun R => (R.length, (R.filter (fun l => l = [])).length)) = some (42, 13) := by decide +kernel

end Mingus.Props.C20
