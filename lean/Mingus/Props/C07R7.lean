import Mingus.Props.C07Defs
/- GENERATED once by the snippet recorded in DESIGN.md (slice 7 of the recognise-all theorem): kernel evaluation of
   every rotation of every listed shorthand on all 21 roots. -/
namespace Mingus.Props.C07
open Mingus
def sliceKeys7 : List Str := [lit "6/9", lit "7#9", lit "hendrix", lit "M7", lit "7b5"]
theorem slice7 : ∀ k ∈ sliceKeys7, keyOK k = true := by decide +kernel
end Mingus.Props.C07
