import Mingus.Props.C17Flat
import Mingus.Lemmas.Float
import Mingus.Props.C01
/-
  C17 — the round trip: what the reader's second stage makes of the events the writer writes.

  `events_read`: feeding the specification's events of a track (C16: exactly what `write_Composition` writes and what
  the byte parsers give back) to the statement-level reading of the event stream (`absStep`, which `run_view` shows the
  reader implements) yields, per bar, a rest for the time carried over from the previous bar, and per sounding entry a rest for the
  rests before it followed by the entry with its length in ticks and its notes (each with its own channel and velocity,
  spelled with sharps).  `compress_read`: after joining adjacent rests and dropping trailing ones — the comparison the
  property prescribes — this is the written sequence.
-/
namespace Mingus.Props.C17
open Mingus Mingus.MidiIn Mingus.Containers Mingus.Midi Mingus.Props.C16

theorem mul72 : F64.mul 72 4 = 288 := by decide +kernel

theorem gap_zero : gap 72 0 = 0 := by
  simp only [gap, Nat.cast_zero]; exact F64.div_zero_left _

theorem gap_ne_zero (d : Nat) (h : d ≠ 0) : gap 72 d ≠ 0 := by
  unfold gap
  have h72 : F64.mul ((72 : Nat) : Rat) 4 = 288 := by
    have : ((72 : Nat) : Rat) = 72 := by norm_num
    rw [this]; exact mul72
  rw [h72]
  exact F64.div_ne_zero _ _ (by exact_mod_cast h) (by norm_num)

theorem noteOf_ok (ch p1 p2 : Nat) : ∃ n, noteOf ch p1 p2 = .ok n ∧ n.channel = ch ∧ n.velocity = p2 ∧
    n.octave = ((p1 / 12 : Nat) : Int) - 1 := by
  unfold noteOf
  have hlt : p1 % 12 < 12 := Nat.mod_lt _ (by norm_num)
  have := Props.C01.intToNote_roundtrip (p1 % 12) (by simpa using hlt)
  obtain ⟨⟨h1, _⟩, _⟩ := this
  exact ⟨⟨Notes.ns.getD (p1 % 12) [], ((p1 / 12 : Nat) : Int) - 1, ch, p2⟩, by simp only [h1, bind, Except.bind, pure, Except.pure], rfl, rfl, rfl⟩

/-- the note the reader builds from the note-on of `n` -/
def readback (n : Note) : Note :=
  match noteOf n.channel.toNat (n.pitch + 12).toNat n.velocity.toNat with
  | .ok m => m
  | .error _ => n

theorem readback_fields (n : Note) (hc : 0 ≤ n.channel) (hv : 0 ≤ n.velocity) :
    (readback n).channel = n.channel ∧ (readback n).velocity = n.velocity := by
  unfold readback
  obtain ⟨m, hm, h1, h2, _⟩ := noteOf_ok n.channel.toNat (n.pitch + 12).toNat n.velocity.toNat
  rw [hm]
  simp only [h1, h2]
  constructor <;> omega

def ncOf (notes : List Note) : NC := notes.foldl (fun acc n => NC.addNoteObj acc (readback n)) []

def toV (p : Nat × NC) : Rat × NC := (durOf 72 p.1, p.2)

/-! ### single events -/

theorem abs_zero_other (acc : List (Rat × NC) × NC) (e : Ev) (h : isOn (toPEv e) = false) :
    absStep 72 acc (conv ⟨0, e⟩) = acc := by
  unfold absStep conv
  simp only [gap_zero, ne_eq, not_true_eq_false, if_false]
  have : absNote acc.2 (toPEv e) = acc.2 := by
    cases he : toPEv e with
    | metaE t d => rfl
    | chan k c a b =>
      cases b with
      | none => simp [absNote]
      | some b =>
        unfold absNote
        split
        · rename_i heq; cases heq; simp [he, isOn] at h
        · rfl
  rw [this]

theorem abs_gap_other (acc : List (Rat × NC) × NC) (d : Nat) (hd : d ≠ 0) (e : Ev) (h : isOn (toPEv e) = false) :
    absStep 72 acc (conv ⟨d, e⟩) = (acc.1 ++ [(durOf 72 d, acc.2)], []) := by
  unfold absStep conv
  simp only [gap_ne_zero d hd, ne_eq, not_false_eq_true, if_true]
  have : absNote [] (toPEv e) = [] := by
    cases he : toPEv e with
    | metaE t d => rfl
    | chan k c a b =>
      cases b with
      | none => simp [absNote]
      | some b =>
        unfold absNote
        split
        · rename_i heq; cases heq; simp [he, isOn] at h
        · rfl
  rw [this]

def velOk (n : Note) : Prop := 1 ≤ n.velocity

theorem toPEv_on (n : Note) (hv : velOk n) :
    toPEv (onEv n) = .chan 9 n.channel.toNat (n.pitch + 12).toNat (some n.velocity.toNat) := by
  unfold velOk at hv
  have : n.velocity.toNat ≠ 0 := by omega
  simp [onEv, toPEv, this]

theorem absNote_on (cur : NC) (n : Note) (hv : velOk n) : absNote cur (toPEv (onEv n)) = NC.addNoteObj cur (readback n) := by
  rw [toPEv_on n hv]
  obtain ⟨m, hm, _⟩ := noteOf_ok n.channel.toNat (n.pitch + 12).toNat n.velocity.toNat
  simp [absNote, readback, hm]

theorem abs_zero_on (acc : List (Rat × NC) × NC) (n : Note) (hv : velOk n) :
    absStep 72 acc (conv ⟨0, onEv n⟩) = (acc.1, NC.addNoteObj acc.2 (readback n)) := by
  unfold absStep conv
  simp only [gap_zero, ne_eq, not_true_eq_false, if_false, absNote_on _ n hv]

theorem abs_gap_on (acc : List (Rat × NC) × NC) (d : Nat) (hd : d ≠ 0) (n : Note) (hv : velOk n) :
    absStep 72 acc (conv ⟨d, onEv n⟩) = (acc.1 ++ [(durOf 72 d, acc.2)], NC.addNoteObj [] (readback n)) := by
  unfold absStep conv
  simp only [gap_ne_zero d hd, ne_eq, not_false_eq_true, if_true, absNote_on _ n hv]

theorem isOn_off (n : Note) : isOn (toPEv (offEv n)) = false := by
  simp only [offEv, toPEv]; split <;> rfl
theorem isOn_bank (n : Note) : isOn (toPEv (bankEv n)) = false := by simp [bankEv, toPEv, isOn]
theorem isOn_prog (n : Note) (i : Int) : isOn (toPEv (progEv n i)) = false := by simp [progEv, toPEv, isOn]
theorem isOn_meta (t : Nat) (d : Bytes) : isOn (toPEv (.metaE t d)) = false := rfl

theorem foldl_ons (rest : List Note) (h : ∀ n ∈ rest, velOk n) : ∀ (acc : List (Rat × NC) × NC),
    ((rest.map fun m => (⟨0, onEv m⟩ : TEv)).map conv).foldl (absStep 72) acc =
      (acc.1, rest.foldl (fun a n => NC.addNoteObj a (readback n)) acc.2) := by
  induction rest with
  | nil => intro acc; rfl
  | cons n ns ih =>
    intro acc
    simp only [List.map_cons, List.foldl_cons]
    rw [abs_zero_on acc n (h n (by simp)), ih (fun m hm => h m (by simp [hm]))]

theorem foldl_offs (rest : List Note) : ∀ (acc : List (Rat × NC) × NC),
    ((rest.map fun m => (⟨0, offEv m⟩ : TEv)).map conv).foldl (absStep 72) acc = acc := by
  induction rest with
  | nil => intro acc; rfl
  | cons n ns ih =>
    intro acc
    simp only [List.map_cons, List.foldl_cons]
    rw [abs_zero_other acc _ (isOn_off n), ih]

/-- a delta of `d` ticks in front of an event that is not a note-on: a rest entry if `d ≠ 0`, nothing otherwise -/
def restOf (d : Nat) : List (Nat × NC) := if d ≠ 0 then [(d, [])] else []

theorem abs_any_other (closed : List (Rat × NC)) (d : Nat) (e : Ev) (h : isOn (toPEv e) = false) :
    absStep 72 (closed, []) (conv ⟨d, e⟩) = (closed ++ (restOf d).map toV, []) := by
  by_cases hd : d = 0
  · subst hd; rw [abs_zero_other _ e h]; simp [restOf]
  · rw [abs_gap_other _ d hd e h]; simp [restOf, hd, toV]

theorem abs_any_on (closed : List (Rat × NC)) (d : Nat) (n : Note) (hv : velOk n) :
    absStep 72 (closed, []) (conv ⟨d, onEv n⟩) = (closed ++ (restOf d).map toV, NC.addNoteObj [] (readback n)) := by
  by_cases hd : d = 0
  · subst hd; rw [abs_zero_on _ n hv]; simp [restOf]
  · rw [abs_gap_on _ d hd n hv]; simp [restOf, hd, toV]

/-! ### entries, bars, tracks -/

/-- what one written entry becomes, given the rest ticks pending before it -/
def expectEntry (delay : Nat) (e : MEntry) : List (Nat × NC) × Nat :=
  if e.notes = [] then ([], delay + tickOf e.value)
  else (restOf delay ++ [(tickOf e.value, ncOf e.notes)], 0)

def okRead (e : MEntry) : Prop := (∀ n ∈ e.notes, velOk n) ∧ (e.notes ≠ [] → tickOf e.value ≠ 0)

theorem entry_read (s : S) (e : MEntry) (closed : List (Rat × NC)) (h : okRead e) :
    ((specEntry s e).1.map conv).foldl (absStep 72) (closed, []) = (closed ++ (expectEntry s.delay e).1.map toV, []) ∧
    (specEntry s e).2.delay = (expectEntry s.delay e).2 := by
  unfold specEntry expectEntry
  cases hn : e.notes with
  | nil => simp
  | cons n rest =>
    have hv : ∀ m ∈ n :: rest, velOk m := by rw [← hn]; exact h.1
    have ht : tickOf e.value ≠ 0 := h.2 (by rw [hn]; simp)
    have hv0 := hv n (by simp)
    have hvr : ∀ m ∈ rest, velOk m := fun m hm => hv m (by simp [hm])
    simp only [reduceCtorEq, if_false, and_true]
    have hfinal : ∀ (cl : List (Rat × NC)),
        List.foldl (absStep 72)
          (absStep 72 (cl, rest.foldl (fun a m => NC.addNoteObj a (readback m)) (NC.addNoteObj [] (readback n)))
            (conv ⟨tickOf e.value, offEv n⟩))
          (List.map conv (rest.map (fun m => (⟨0, offEv m⟩ : TEv)))) =
        (cl ++ [(durOf 72 (tickOf e.value), ncOf (n :: rest))], []) := by
      intro cl
      rw [abs_gap_other _ _ ht _ (isOn_off n), foldl_offs]
      simp [ncOf]
    cases hci : s.ci with
    | false =>
      simp only [Bool.false_eq_true, if_false, List.nil_append, List.map_append, List.map_cons, List.foldl_append,
        List.foldl_cons]
      rw [abs_any_on closed s.delay n hv0, foldl_ons rest hvr]
      simp only
      rw [hfinal]
      simp [toV, List.map_append]
    | true =>
      simp only [if_true, List.cons_append, List.nil_append, List.map_append, List.map_cons, List.foldl_append,
        List.foldl_cons]
      rw [abs_any_other closed s.delay _ (isOn_bank n), abs_zero_other _ _ (isOn_prog n _), abs_zero_on _ n hv0,
        foldl_ons rest hvr]
      simp only
      rw [hfinal]
      simp [toV, List.map_append]

def expectEntries : Nat → List MEntry → List (Nat × NC) × Nat
  | delay, [] => ([], delay)
  | delay, e :: es => ((expectEntry delay e).1 ++ (expectEntries (expectEntry delay e).2 es).1, (expectEntries (expectEntry delay e).2 es).2)

theorem entries_read (es : List MEntry) (h : ∀ e ∈ es, okRead e) : ∀ (s : S) (closed : List (Rat × NC)),
    ((specEntries s es).1.map conv).foldl (absStep 72) (closed, []) = (closed ++ (expectEntries s.delay es).1.map toV, []) ∧
    (specEntries s es).2.delay = (expectEntries s.delay es).2 := by
  induction es with
  | nil => intro s closed; simp [specEntries, expectEntries]
  | cons e es ih =>
    intro s closed
    obtain ⟨h1, h2⟩ := entry_read s e closed (h e (by simp))
    obtain ⟨h3, h4⟩ := ih (fun x hx => h x (by simp [hx])) (specEntry s e).2 (closed ++ (expectEntry s.delay e).1.map toV)
    simp only [specEntries, expectEntries, List.map_append, List.foldl_append]
    rw [h1, h3, h2]
    exact ⟨by simp [List.map_append], by rw [← h2]; exact h4⟩

/-- a bar: the time carried into it shows as a rest in front of its time signature -/
def expectBars : Nat → List MBar → List (Nat × NC) × Nat
  | delay, [] => ([], delay)
  | delay, b :: bs =>
    (restOf delay ++ (expectEntries 0 b.entries).1 ++ (expectBars (expectEntries 0 b.entries).2 bs).1,
     (expectBars (expectEntries 0 b.entries).2 bs).2)

theorem keyEv_not_on (k : Str) : isOn (toPEv (keyEv k)) = false := by
  unfold keyEv keyEv?
  cases MT.idxOf? (if MT.isLower k then Keys.minorKeys else Keys.majorKeys) k <;> rfl

theorem bars_read (bs : List MBar) (h : ∀ b ∈ bs, ∀ e ∈ b.entries, okRead e) : ∀ (s : S) (closed : List (Rat × NC)),
    ((specBars s bs).1.map conv).foldl (absStep 72) (closed, []) = (closed ++ (expectBars s.delay bs).1.map toV, []) ∧
    (specBars s bs).2.delay = (expectBars s.delay bs).2 := by
  induction bs with
  | nil => intro s closed; simp [specBars, expectBars]
  | cons b bs ih =>
    intro s closed
    simp only [specBars, specBar, expectBars, List.map_append, List.foldl_append, List.map_cons, List.map_nil,
      List.foldl_cons, List.foldl_nil, List.cons_append, List.nil_append]
    rw [abs_any_other closed s.delay (meterEv b) rfl, abs_zero_other _ _ (keyEv_not_on b.key)]
    obtain ⟨h1, h2⟩ := entries_read b.entries (h b (by simp)) { s with delay := 0 } (closed ++ (restOf s.delay).map toV)
    simp only at h1 h2
    rw [h1]
    obtain ⟨h3, h4⟩ := ih (fun x hx => h x (by simp [hx])) (specEntries { s with delay := 0 } b.entries).2
      (closed ++ (restOf s.delay).map toV ++ (expectEntries 0 b.entries).1.map toV)
    rw [h3, h2]
    exact ⟨by simp [List.map_append], by rw [← h2]; exact h4⟩

/-- **the events of a written track, read**: tempo and name take no time; then the bars -/
theorem events_read (tr : MTrack) (bpm : Int) (h : ∀ b ∈ tr.bars, ∀ e ∈ b.entries, okRead e) :
    (((tempoEv bpm :: (specTrack s0 tr).1) ++ [eot]).map conv).foldl (absStep 72) ([], []) =
      ((expectBars 0 tr.bars).1.map toV, []) := by
  have hd : (withInstr s0 tr).delay = 0 := by unfold withInstr s0; cases tr.instr <;> rfl
  simp only [specTrack, List.cons_append, List.map_cons, List.foldl_cons, List.map_append, List.foldl_append, List.map_nil,
    List.foldl_nil]
  rw [show absStep 72 ([], []) (conv (tempoEv bpm)) = ([], []) from abs_zero_other _ _ (isOn_meta _ _)]
  rw [show absStep 72 ([], []) (conv ⟨0, Ev.metaE 3 (MT.asciiBytes tr.name)⟩) = ([], []) from abs_zero_other _ _ (isOn_meta _ _)]
  obtain ⟨h1, _⟩ := bars_read tr.bars h (withInstr s0 tr) []
  rw [h1, hd]
  simp only [List.nil_append]
  exact abs_zero_other _ _ (isOn_meta _ _)

/-! ### the comparison the property prescribes: adjacent rests are one rest, trailing rests are ignored -/

def compress : Nat → List (Nat × NC) → List (Nat × NC)
  | _, [] => []
  | delay, (t, nc) :: xs => if nc = [] then compress (delay + t) xs else restOf delay ++ (t, nc) :: compress 0 xs

/-- the written sequence: every entry with its tick length and its notes (rests are empty) -/
def written (bs : List MBar) : List (Nat × NC) := bs.flatMap fun b => b.entries.map fun e => (tickOf e.value, ncOf e.notes)

theorem compress_append_rests (delay : Nat) (xs ys : List (Nat × NC)) (h : ∀ p ∈ xs, p.2 = []) :
    compress delay (xs ++ ys) = compress (delay + (xs.map (·.1)).sum) ys := by
  induction xs generalizing delay with
  | nil => simp
  | cons p ps ih =>
    obtain ⟨t, nc⟩ := p
    have : nc = [] := h (t, nc) (by simp)
    subst this
    simp only [List.cons_append, compress, if_true, List.map_cons, List.sum_cons]
    rw [ih (delay + t) (fun q hq => h q (by simp [hq]))]
    congr 1; omega

theorem compress_restOf (delay d : Nat) (xs : List (Nat × NC)) : compress delay (restOf d ++ xs) = compress (delay + d) xs := by
  unfold restOf
  by_cases hd : d ≠ 0
  · simp [hd, compress]
  · have : d = 0 := by omega
    simp [this]

theorem ncOf_ne_nil (n : Note) (rest : List Note) : ncOf (n :: rest) ≠ [] := by
  unfold ncOf
  simp only [List.foldl_cons]
  have : ∀ (l : List Note) (acc : NC), acc ≠ [] → l.foldl (fun a m => NC.addNoteObj a (readback m)) acc ≠ [] := by
    intro l
    induction l with
    | nil => intro acc h; exact h
    | cons m ms ih =>
      intro acc h
      simp only [List.foldl_cons]
      apply ih
      unfold NC.addNoteObj
      split
      · exact h
      · intro hs
        have hl : (NC.sort (acc ++ [readback m])).length = (acc ++ [readback m]).length := by
          have key : ∀ (l : NC), (NC.sort l).length = l.length := by
            intro l
            unfold NC.sort
            have ins : ∀ (x : Note) (l : NC), (NC.insertSorted x l).length = l.length + 1 := by
              intro x l
              induction l with
              | nil => rfl
              | cons y ys ihy => simp only [NC.insertSorted]; split <;> simp [ihy]
            have gen : ∀ (l acc : NC), (l.foldl (fun acc n => NC.insertSorted n acc) acc).length = acc.length + l.length := by
              intro l
              induction l with
              | nil => intro acc; simp
              | cons x xs ihx => intro acc; simp only [List.foldl_cons]; rw [ihx, ins]; simp; omega
            rw [gen]; simp
          exact key _
        rw [hs] at hl
        simp at hl
  apply this
  rw [addNoteObj_nil]; simp

def wOf (e : MEntry) : Nat × NC := (tickOf e.value, ncOf e.notes)

theorem written_cons (b : MBar) (bs : List MBar) : written (b :: bs) = b.entries.map wOf ++ written bs := by
  simp [written, wOf]

theorem compress_entries (es : List MEntry) : ∀ (delay c : Nat) (Z W : List (Nat × NC)),
    (∀ k, compress k Z = compress (k + (expectEntries delay es).2) W) →
    compress c ((expectEntries delay es).1 ++ Z) = compress (c + delay) (es.map wOf ++ W) := by
  induction es with
  | nil => intro delay c Z W h; simpa [expectEntries] using h c
  | cons e es ih =>
    intro delay c Z W h
    simp only [expectEntries, List.map_cons, List.cons_append, List.append_assoc] at h ⊢
    unfold expectEntry at h ⊢
    cases hn : e.notes with
    | nil =>
      simp only [hn, if_true, List.nil_append] at h ⊢
      rw [ih (delay + tickOf e.value) c Z W h]
      simp only [wOf, hn, ncOf, List.foldl_nil, compress, if_true]
      congr 1; omega
    | cons n rest =>
      have hne : ncOf (n :: rest) ≠ [] := ncOf_ne_nil n rest
      simp only [hn, reduceCtorEq, if_false, List.append_assoc, List.cons_append, List.nil_append] at h ⊢
      rw [compress_restOf]
      simp only [compress, hne, if_false, wOf, hn]
      rw [ih 0 0 Z W h]

theorem compress_bars (bs : List MBar) : ∀ (delay c : Nat) (Z W : List (Nat × NC)),
    (∀ k, compress k Z = compress (k + (expectBars delay bs).2) W) →
    compress c ((expectBars delay bs).1 ++ Z) = compress (c + delay) (written bs ++ W) := by
  induction bs with
  | nil => intro delay c Z W h; simpa [expectBars, written] using h c
  | cons b bs ih =>
    intro delay c Z W h
    simp only [expectBars, List.append_assoc] at h ⊢
    rw [compress_restOf, written_cons, List.append_assoc]
    have := compress_entries b.entries 0 (c + delay) ((expectBars (expectEntries 0 b.entries).2 bs).1 ++ Z) (written bs ++ W)
      (fun k => ih (expectEntries 0 b.entries).2 k Z W h)
    simpa using this

/-- **the comparison the property prescribes**: joining adjacent rests and ignoring trailing ones, the sequence the reader
    extracts from a written track is the written sequence -/
theorem compress_read (bs : List MBar) : compress 0 (expectBars 0 bs).1 = compress 0 (written bs) := by
  have := compress_bars bs 0 0 [] [] (by intro k; simp [compress])
  simpa using this

/-- **C17, the round trip of one track, end to end.**  For every track of in-range notes with velocities ≥ 1 whose
    sounding entries last at least one tick: `write_Track` succeeds; mingus's byte parsers read the file back as one track of
    exactly the written events; and whenever the reader's second stage runs without a placement being refused on an empty
    bar, the entries of the composition that comes back are — up to one trailing open entry — the sequence `expectBars`,
    which `compress_read` identifies with the written music. -/
theorem roundtrip_track (tr : MTrack) (bpm : Int) (ht : okTrack tr) (hb : okBpm bpm)
    (hr : ∀ b ∈ tr.bars, ∀ e ∈ b.entries, okRead e)
    (hsize : (serialise (tempoEv bpm :: (specTrack s0 tr).1)).length + 4 < 2 ^ 32) :
    ∃ bytes evs, writeTrack tr bpm 0 = .ok bytes ∧
      parseFile bytes = .ok ((1, 1, 72), [evs]) ∧
      evs = ((tempoEv bpm :: (specTrack s0 tr).1) ++ [eot]).map conv ∧
      ∀ rt bpm', readTrack 72 120 evs = .ok (rt, bpm') → FitsRun 72 { bpm := 120 } evs →
        ∃ tail, tail.length ≤ 1 ∧ (rt.bars.flatMap (·.entries)).map ev = (expectBars 0 tr.bars).1.map toV ++ tail := by
  obtain ⟨t, hw, hevs⟩ := writeTrack_spec tr bpm 0 ht hb
  have hpass : (specPasses (fun s => specTrack s tr) (times 0) s0).1 = (specTrack s0 tr).1 := by
    simp [times, specPasses]
  rw [hpass] at hevs
  have hwf : WfTrack t := by
    refine ⟨?_, by rw [hevs]; exact hsize⟩
    intro e he
    rw [hevs] at he
    rcases List.mem_cons.1 he with rfl | he
    · exact good_tempo bpm
    · exact (good_specTrack s0 tr okInstr_s0 ht).1 e he
  have hparse := parseFile_fileBytes [t] (by intro x hx; simp at hx; subst hx; exact hwf) (by simp)
  refine ⟨fileBytes [t], ((tempoEv bpm :: (specTrack s0 tr).1) ++ [eot]).map conv, hw, ?_, rfl, ?_⟩
  · rw [hparse]; simp [hevs]
  · intro rt bpm' hread hfits
    obtain ⟨tail, hl, hflat⟩ := readTrack_flat 72 120 _ rt bpm' hread hfits
    refine ⟨tail, hl, ?_⟩
    rw [hflat, events_read tr bpm hr]

/-- what comes back carries each note's own channel and velocity -/
theorem readback_keeps (n : Note) (h : okNote n) : (readback n).channel = n.channel ∧ (readback n).velocity = n.velocity :=
  readback_fields n h.1 h.2.2.1

/-! ### the hypothesis `FitsRun` is decidable along the model's own run, and holds on concrete music -/

def fitsEvent (st1 : RState) : PEv → Bool
  | .chan 9 ch p1 (some p2) => (match noteOf ch p1 p2 with
      | .ok n => decide (st1.b.entries = [] → (st1.b.plus (some [n])).1 = true)
      | .error _ => true)
  | _ => true

def fitsRunB (tpb : Nat) : RState → List (Nat × PEv) → Bool
  | _, [] => true
  | st, de :: rest =>
    decide (gap tpb de.1 ≠ 0 → st.b.entries = [] → (st.b.place emptyNC (durOf tpb de.1)).1 = true) &&
    (match (if gap tpb de.1 ≠ 0 then onDelta st (durOf tpb de.1) else pure st) with
     | .error _ => true
     | .ok st1 => fitsEvent st1 de.2 &&
        (match onEvent st1 de.2 with
         | .error _ => true
         | .ok st' => fitsRunB tpb st' rest))

theorem fitsRunB_sound (tpb : Nat) (evs : List (Nat × PEv)) : ∀ st, fitsRunB tpb st evs = true → FitsRun tpb st evs := by
  induction evs with
  | nil => intro st _; trivial
  | cons de rest ih =>
    intro st h
    simp only [fitsRunB, Bool.and_eq_true, decide_eq_true_eq] at h
    obtain ⟨h1, h2⟩ := h
    refine ⟨h1, ?_⟩
    intro st1 hmid
    rw [hmid] at h2
    simp only [Bool.and_eq_true] at h2
    obtain ⟨h3, h4⟩ := h2
    refine ⟨?_, ?_⟩
    · intro ch p1 p2 n he hn hnil
      rw [he] at h3
      simp only [fitsEvent, hn, decide_eq_true_eq] at h3
      exact h3 hnil
    · intro st' hst'
      rw [hst'] at h4
      exact ih st' h4

/-- non-vacuity: the demo track of C16 (leading rest, chord, inner rest, two keys and meters, a dotted value, an instrument)
    satisfies every hypothesis of `roundtrip_track`, the run fits, and what comes back is what `expectBars` says -/
example :
    let evs := ((tempoEv 120 :: (specTrack s0 demoTrack).1) ++ [eot]).map conv
    fitsRunB 72 { bpm := 120 } evs = true ∧
    (readTrack 72 120 evs).toOption.map (fun r => ((r.1.bars.flatMap (·.entries)).map ev).dropLast) =
      some ((expectBars 0 demoTrack.bars).1.map toV) ∧
    (expectBars 0 demoTrack.bars).1.map (·.1) = [72, 72, 36, 36, 54] ∧
    compress 0 (written demoTrack.bars) = compress 0 (expectBars 0 demoTrack.bars).1 := by
  decide +kernel

end Mingus.Props.C17
